(* Buffer area, model entry point (definitions only): the ArrowBuffer instance of the generic
   protocol (Protocol.v) over the kernels (Kernels.v), the deterministic schedulers used by
   the correspondence, and the executable case predicates [case_agrees] / [case_oracle]
   evaluated inside Coq on what the Go harness observed. *)
From Coq Require Import List ZArith NArith Bool Lia Sorting.Mergesort Orders.
From Arc Require Import Lib.AList.
From Arc Require Export Buffer.Kernels Buffer.Protocol.
Import ListNotations.
Open Scope Z_scope.

(* ------------------------------------------------------------------------------------ *)
(* the instance                                                                          *)
(* ------------------------------------------------------------------------------------ *)

Notation bkey := N (only parsing).                 (* "database/measurement", interned *)
Notation bfile := (Z * batch)%type (only parsing).  (* hour id (= directory) and file content *)

Definition bflush (H thr : Z) (bs : list batch) : flush_res bfile :=
  match flush_batches H thr bs with FOk f => FlOk f | FErr => FlErr | FPanic => FlPanic end.

Notation bst := (st N batch (list N) (Z * batch)%type) (only parsing).
Notation blabel := (label N batch) (only parsing).
Notation bitem := (item N batch) (only parsing).
Notation btask := (task N batch) (only parsing).

Definition bstep (H thr : Z) : config -> bst -> blabel -> option bst :=
  step N.eqb bytes_eqb buffer_schema_key batch_rows (bflush H thr).
Definition brun (H thr : Z) : config -> bst -> list blabel -> option bst :=
  run N.eqb bytes_eqb buffer_schema_key batch_rows (bflush H thr).
Definition binit : bst := init.

(* ------------------------------------------------------------------------------------ *)
(* executable comparisons                                                                *)
(* ------------------------------------------------------------------------------------ *)

Definition cell_eqb (a b : cell) : bool :=
  match a, b with None, None => true | Some x, Some y => val_eqb x y | _, _ => false end.

Fixpoint list_eqb {A} (eqb : A -> A -> bool) (a b : list A) : bool :=
  match a, b with
  | [], [] => true
  | x :: a', y :: b' => eqb x y && list_eqb eqb a' b'
  | _, _ => false
  end.

Definition row_equivb (r1 r2 : row) : bool :=
  forallb (fun nc => cell_eqb (row_get r1 (fst nc)) (row_get r2 (fst nc))) (r1 ++ r2).

Fixpoint remove_first {A} (eqb : A -> A -> bool) (x : A) (l : list A) : option (list A) :=
  match l with
  | [] => None
  | y :: r => if eqb x y then Some r else match remove_first eqb x r with Some r' => Some (y :: r') | None => None end
  end.

Fixpoint multiset_eqb {A} (eqb : A -> A -> bool) (a b : list A) : bool :=
  match a with
  | [] => match b with [] => true | _ => false end
  | x :: a' => match remove_first eqb x b with Some b' => multiset_eqb eqb a' b' | None => false end
  end.

Definition rows_meq : list row -> list row -> bool := multiset_eqb row_equivb.

Fixpoint nondecrb (l : list Z) : bool :=
  match l with
  | a :: ((b :: _) as r) => (a <=? b) && nondecrb r
  | _ => true
  end.

Definition times_or_nil (b : batch) : list Z := match times_of b with Some ts => ts | None => [] end.

(* indices observed on the Go side are N (a nat literal of several thousand is a huge term) *)
Module NLeBool <: TotalLeBool.
  Definition t := N.
  Definition leb := N.leb.
  Theorem leb_total : forall a1 a2, leb a1 a2 = true \/ leb a2 a1 = true.
  Proof. intros a b. unfold leb. rewrite !N.leb_le. lia. Qed.
End NLeBool.
Module NSort := Sort NLeBool.

Definition nseq (n : nat) : list N := map N.of_nat (seq 0 n).

(* [p] is a permutation of 0..n-1: sorted, it is exactly 0..n-1 *)
Definition is_perm_of_range (n : nat) (p : list N) : bool := list_eqb N.eqb (NSort.sort p) (nseq n).

(* a batch as a name-indexed object: same column names, same types, same cells *)
Definition batch_eqv (a b : batch) : bool :=
  Nat.eqb (length (b_cols a)) (length (b_cols b)) &&
  forallb (fun nc => match lookupn (fst nc) (b_cols b) with
                     | Some c => ty_eqb (c_ty (snd nc)) (c_ty c) && list_eqb cell_eqb (col_cells a (fst nc)) (col_cells b (fst nc))
                     | None => false end) (b_cols a).

(* two files agree: same hour, same schema, same time sequence, same rows as a multiset
   (the order of rows with EQUAL timestamps is not specified by sort.Slice) *)
Definition file_eqv (f g : Z * batch) : bool :=
  (fst f =? fst g) &&
  list_eqb Z.eqb (times_or_nil (snd f)) (times_or_nil (snd g)) &&
  Nat.eqb (length (b_cols (snd f))) (length (b_cols (snd g))) &&
  forallb (fun nc => match lookupn (fst nc) (b_cols (snd g)) with Some c => ty_eqb (c_ty (snd nc)) (c_ty c) | None => false end) (b_cols (snd f)) &&
  rows_meq (rows_of (snd f)) (rows_of (snd g)).

Notation kfile := (N * (Z * batch))%type (only parsing).          (* key, file *)
Definition kfile_eqv (f g : kfile) : bool := N.eqb (fst f) (fst g) && file_eqv (snd f) (snd g).

(* oracle on one written file: non-empty, all its rows belong to the hour of its directory,
   non-decreasing time *)
Definition file_oracle (H : Z) (f : Z * batch) : bool :=
  let ts := times_or_nil (snd f) in
  negb (is_nil ts) && nondecrb ts && forallb (fun t => hour_bucket_id H t =? fst f) ts.

(* rows of a list of accepted (key, batch) that belong to directory (k, h) *)
Definition rows_in_dir (H : Z) (k : N) (h : Z) (writes : list (N * batch)) : list row :=
  flat_map (fun kb =>
    if N.eqb (fst kb) k
    then let b := snd kb in
         let ts := times_or_nil b in
         flat_map (fun i => if hour_bucket_id H (nth i ts 0) =? h then [row_at b i] else []) (seq 0 (batch_rows b))
    else []) writes.

Definition dirs_of_writes (H : Z) (writes : list (N * batch)) : list (N * Z) :=
  flat_map (fun kb => map (fun t => (fst kb, hour_bucket_id H t)) (times_or_nil (snd kb))) writes.
Definition dir_eqb (a b : N * Z) : bool := N.eqb (fst a) (fst b) && (snd a =? snd b).

(* the conservation oracle: every written file is in order and in the directory of its rows;
   per directory, stored rows = accepted rows of that hour (as multisets); no directory of
   an accepted row is missing *)
Definition conservation_oracle (H : Z) (writes : list (N * batch)) (files : list kfile) : bool :=
  forallb (fun f => file_oracle H (snd f)) files &&
  forallb (fun f => rows_meq (flat_map (fun g => if dir_eqb (fst g, fst (snd g)) (fst f, fst (snd f)) then rows_of (snd (snd g)) else []) files)
                             (rows_in_dir H (fst f) (fst (snd f)) writes)) files &&
  forallb (fun d => existsb (fun f => dir_eqb (fst f, fst (snd f)) d) files) (dirs_of_writes H writes).

(* ------------------------------------------------------------------------------------ *)
(* deterministic schedulers (one goroutine at a time; the harness waits for the queue to  *)
(* drain after every write)                                                              *)
(* ------------------------------------------------------------------------------------ *)

Inductive op := OWrite (k : N) (b : batch) | OFlushAll | OClose.

Definition opt_bind {A Bt} (x : option A) (f : A -> option Bt) : option Bt := match x with Some a => f a | None => None end.

Section Sched.
  Variables (H thr : Z) (cfg : config).
  Let stp := bstep H thr cfg.

  (* finish every carried task: pending ones are enqueued, dequeued and flushed *)
  Fixpoint settle (fuel : nat) (s : bst) : option bst :=
    match fuel with
    | O => Some s
    | S f =>
        match busy s with
        | (RPending, _) :: _ => opt_bind (stp s (LEnqueue 0)) (settle f)
        | (_, _) :: _ => opt_bind (stp s (LDone 0 OOk)) (settle f)
        | [] => match queue s with
                | _ :: _ => if workers s then opt_bind (stp s LDequeue) (settle f) else Some s
                | [] => Some s
                end
        end
    end.

  Definition sched_write (s : bst) (k : N) (b : batch) : option bst :=
    let s1 := match lookup N.eqb k (buffers s) with
              | Some (sg, _) => if bytes_eqb sg (buffer_schema_key b) then Some s
                                else opt_bind (stp s (LSchemaFlush k)) (settle 4)
              | None => Some s
              end in
    opt_bind s1 (fun s1 => opt_bind (stp s1 (LWrite k b true)) (settle 8)).

  Fixpoint sched_extract_all (mk : N -> blabel) (keys : list N) (s : bst) : option bst :=
    match keys with
    | [] => Some s
    | k :: r => opt_bind (stp s (mk k)) (fun s1 => opt_bind (settle 4 s1) (sched_extract_all mk r))
    end.

  (* Close drains what the workers left in the queue (2ed39c6) *)
  Fixpoint drain_all (n : nat) (s : bst) : option bst :=
    match n with
    | O => Some s
    | S m => match queue s with
             | [] => Some s
             | _ :: _ => opt_bind (stp s LCloseDrain) (fun s1 => opt_bind (settle 2 s1) (drain_all m))
             end
    end.

  Definition sched_op (s : bst) (o : op) : option bst :=
    match o with
    | OWrite k b => sched_write s k b
    | OFlushAll => sched_extract_all (fun k => LFlushAllExtract k) (map fst (buffers s)) s
    | OClose =>
        opt_bind (stp s LCloseBegin) (fun s1 =>
        opt_bind (stp s1 LCloseWait) (fun s2 =>
        opt_bind (drain_all (length (queue s2)) s2) (fun s2' =>
        opt_bind (sched_extract_all (fun k => LCloseExtract k) (map fst (buffers s2')) s2') (fun s3 =>
        stp s3 LCloseEnd))))
    end.

  Fixpoint sched (s : bst) (ops : list op) : option bst :=
    match ops with
    | [] => Some s
    | o :: r => opt_bind (sched_op s o) (fun s1 => sched s1 r)
    end.
End Sched.

Definition stored_kfiles (s : bst) : list kfile :=
  flat_map (fun r => map (fun f => (s_key r, f)) (s_files r)) (stored s).

(* the Close witness: max_size = 1 row, one worker blocked inside storage.Write on the first
   batch, the next n batches queued; Close; the worker is released.  After cancel() the
   worker's select may still receive from the queue, so any prefix of the queue ([drained]) may be
   flushed by the worker before it exits; Close then drains the rest itself ([fix] = true, the
   code since 2ed39c6) or abandons it ([fix] = false, the Close before the fix). *)
Definition close_witness_labels (fix_ : bool) (k : N) (bs : list batch) (drained : nat) : list blabel :=
  match bs with
  | [] => []
  | b0 :: rest =>
      [LWrite k b0 true; LEnqueue 0; LDequeue]
      ++ flat_map (fun b => [LWrite k b true; LEnqueue 1]) rest
      ++ [LCloseBegin; LDone 0 OOk]
      ++ flat_map (fun _ => [LDequeue; LDone 0 OOk]) (seq 0 drained)
      ++ [LCloseWait]
      ++ (if fix_ then flat_map (fun _ => [LCloseDrain; LDone 0 OOk]) (seq 0 (length rest - drained)) else [])
      ++ [LCloseEnd]
  end.

(* ------------------------------------------------------------------------------------ *)
(* correspondence cases                                                                  *)
(* ------------------------------------------------------------------------------------ *)

Inductive mobs := MObs (b : batch) | MObsErr | MObsPanic.

Inductive ccase :=
| CBucket (H t obs : Z)
| CGroup (H : Z) (ts : list Z) (obs : list (Z * list N))
| CPerm (thr : Z) (fn : N) (ts : list Z) (obs : option (list N))   (* fn: 0 permuteByTime, 1 permuteByTimeSort, 2 radixPermuteByTime *)
| CSig (b : batch) (obs : list N)
| CKey (b : batch) (obs : list N)
| CMerge (bs : list batch) (obs : mobs)
| CFlush (H thr : Z) (b : batch) (obs : option (list (Z * batch)))
| CHist (H thr : Z) (cfg : config) (ops : list op) (obs : list kfile)
| CConc (H : Z) (writes : list (N * batch)) (obs : list kfile)
| CCloseW (H thr : Z) (qcap : nat) (k : N) (bs : list batch) (obs : list kfile)
| CLabels (H thr : Z) (cfg : config) (ls : list blabel) (obs : list kfile).   (* a forced schedule, label by label *)

Definition writes_of_ops (ops : list op) : list (N * batch) :=
  flat_map (fun o => match o with OWrite k b => [(k, b)] | _ => [] end) ops.

Definition image (ts : list Z) (p : list N) : list Z := map (fun i => nth (N.to_nat i) ts 0) p.
Definition to_N (p : list nat) : list N := map N.of_nat p.

Definition perm_model (thr : Z) (fn : N) (ts : list Z) : option (list nat) :=
  match fn with
  | 0%N => permute_by_time thr ts
  | 1%N => Some (permute_by_time_sort ts)
  | _ => match ts with [] => None | _ => Some (radix_permute_by_time ts) end
  end.

(* exact permutation equality where the code is deterministic (radix path, identity),
   time-image equality where sort.Slice decides the order of ties *)
Definition perm_agrees (thr : Z) (fn : N) (ts : list Z) (obs : option (list N)) : bool :=
  match perm_model thr fn ts, obs with
  | None, None => true
  | Some p, Some q =>
      let radix := match fn with 2%N => true | 0%N => negb (Z.of_nat (length ts) <? thr) | _ => false end in
      if radix then list_eqb N.eqb (to_N p) q else list_eqb Z.eqb (image ts (to_N p)) (image ts q)
  | _, _ => false
  end.

Definition perm_oracle (ts : list Z) (obs : option (list N)) : bool :=
  match obs with
  | None => nondecrb ts
  | Some q => is_perm_of_range (length ts) q && nondecrb (image ts q)
  end.

Definition group_agrees (H : Z) (ts : list Z) (obs : list (Z * list N)) : bool :=
  let g := group_by_hour H ts in
  Nat.eqb (length g) (length obs) &&
  forallb (fun o => existsb (fun bk => (bk_id bk =? fst o) && list_eqb N.eqb (to_N (bk_idx bk)) (snd o)) g) obs.

Definition group_oracle (H : Z) (ts : list Z) (obs : list (Z * list N)) : bool :=
  is_perm_of_range (length ts) (flat_map snd obs) &&
  forallb (fun o => negb (is_nil (snd o)) && forallb (fun i => hour_bucket_id H (nth (N.to_nat i) ts 0) =? fst o) (snd o)) obs &&
  forallb (fun o => Nat.eqb (length (filter (fun o' => fst o' =? fst o) obs)) 1) obs.

Definition all_names (bs : list batch) : list name := flat_map (fun b => map fst (b_cols b)) bs.

Definition merge_agrees (bs : list batch) (obs : mobs) : bool :=
  match merge_batches bs, obs with
  | MOk m, MObs o =>
      batch_eqv m o &&
      (* validity maps agree entry by entry (the all-true stripping is observable) *)
      Nat.eqb (length (b_valid m)) (length (b_valid o)) &&
      forallb (fun nv => match lookupn (fst nv) (b_valid o) with Some bits => list_eqb Bool.eqb (snd nv) bits | None => false end) (b_valid m)
  | MErr, MObsErr => true
  | MPanic, MObsPanic => true
  | _, _ => false
  end.

Definition merge_oracle (bs : list batch) (obs : mobs) : bool :=
  match obs with
  | MObs o => forallb (fun n => list_eqb cell_eqb (col_cells o n) (flat_map (fun b => col_cells b n) bs))
                      (all_names bs ++ map fst (b_cols o))
  | _ => true      (* an error / panic outcome is judged by [merge_agrees] and by C04 *)
  end.

Definition files_meq (a b : list (Z * batch)) : bool := multiset_eqb file_eqv a b.
Definition kfiles_meq (a b : list kfile) : bool := multiset_eqb kfile_eqv a b.

Definition flush_agrees (H thr : Z) (b : batch) (obs : option (list (Z * batch))) : bool :=
  match flush_partitioned H thr b, obs with
  | Some fs, Some os => files_meq fs os
  | None, None => true
  | _, _ => false
  end.

Definition flush_oracle (H : Z) (b : batch) (obs : option (list (Z * batch))) : bool :=
  match obs with
  | Some os => conservation_oracle H [(0%N, b)] (map (fun f => (0%N, f)) os)
  | None => true
  end.

Definition hist_agrees (H thr : Z) (cfg : config) (ops : list op) (obs : list kfile) : bool :=
  match sched H thr cfg binit ops with
  | Some s => kfiles_meq (stored_kfiles s) obs
  | None => false
  end.

Definition ends_with_close (ops : list op) : bool :=
  match rev ops with OClose :: _ => true | _ => false end.

(* after an explicit flush + Close every accepted row must be stored *)
Definition hist_oracle (H : Z) (ops : list op) (obs : list kfile) : bool :=
  if ends_with_close ops then conservation_oracle H (writes_of_ops ops) obs
  else forallb (fun f => file_oracle H (snd f)) obs.

Definition closew_cfg (qcap : nat) : config := {| max_size := 1; queue_cap := qcap; wal_on := false; fix_drain := true |}.

(* the observed files must be one of the model's outcomes (some prefix of the queue drained) *)
Definition closew_agrees (H thr : Z) (qcap : nat) (k : N) (bs : list batch) (obs : list kfile) : bool :=
  existsb (fun d => match brun H thr (closew_cfg qcap) binit (close_witness_labels true k bs d) with
                    | Some s => phase_eqb (phase s) PClosed && kfiles_meq (stored_kfiles s) obs
                    | None => false end) (seq 0 (length bs)).

Definition closew_oracle (H : Z) (k : N) (bs : list batch) (obs : list kfile) : bool :=
  conservation_oracle H (map (fun b => (k, b)) bs) obs.

Definition writes_of_labels (ls : list blabel) : list (N * batch) :=
  flat_map (fun l => match l with LWrite k b _ => [(k, b)] | _ => [] end) ls.

Definition labels_agree (H thr : Z) (cfg : config) (ls : list blabel) (obs : list kfile) : bool :=
  match brun H thr cfg binit ls with
  | Some s => kfiles_meq (stored_kfiles s) obs
  | None => false
  end.

Definition case_agrees (c : ccase) : bool :=
  match c with
  | CBucket H t obs => hour_bucket_id H t =? obs
  | CGroup H ts obs => group_agrees H ts obs
  | CPerm thr fn ts obs => perm_agrees thr fn ts obs
  | CSig b obs => list_eqb N.eqb (column_signature b) obs
  | CKey b obs => list_eqb N.eqb (buffer_schema_key b) obs
  | CMerge bs obs => merge_agrees bs obs
  | CFlush H thr b obs => flush_agrees H thr b obs
  | CHist H thr cfg ops obs => hist_agrees H thr cfg ops obs
  | CConc H writes obs => conservation_oracle H writes obs      (* the model's prediction IS the conservation law *)
  | CCloseW H thr qcap k bs obs => closew_agrees H thr qcap k bs obs
  | CLabels H thr cfg ls obs => labels_agree H thr cfg ls obs
  end.

Definition case_oracle (c : ccase) : bool :=
  match c with
  | CBucket H t obs => (obs * H <=? t) && (t <? (obs + 1) * H)
  | CGroup H ts obs => group_oracle H ts obs
  | CPerm _ _ ts obs => perm_oracle ts obs
  | CSig _ _ => true
  | CKey _ _ => true
  | CMerge bs obs => merge_oracle bs obs
  | CFlush H _ b obs => flush_oracle H b obs
  | CHist H _ _ ops obs => hist_oracle H ops obs
  | CConc H writes obs => conservation_oracle H writes obs
  | CCloseW H _ _ k bs obs => closew_oracle H k bs obs
  | CLabels H _ _ ls obs => conservation_oracle H (writes_of_labels ls) obs
  end.
