(* C11 - Retention only deletes data older than the cutoff.
   Only property statements live here; proofs are in Proofs.v.
   All statements quantify over EVERY storage layout (any keys, any files), every policy,
   every clock value and every pattern of storage-delete failures [fails]. *)
From Coq Require Import List NArith ZArith Bool Arith Lia.
From Arc Require Import Retention.Model Retention.Proofs.
Import ListNotations.

(* A retention run (real or dry, with or without storage faults) never removes a file that
   holds a row whose timestamp is at or after the cutoff = now - (retention + buffer) days. *)
Theorem C11_safe :
  forall fails pol now dry st k f t,
  NoDup (map fst st) -> In (k, f) st -> In t (rf_times f) -> (cutoff_of pol now <= t)%Z ->
  In (k, f) (r_store (run_policy fails pol now dry st)).
Proof. exact retention_safe. Qed.
Print Assumptions C11_safe.

(* After a run without storage errors, no remaining readable, non-empty parquet file of a
   covered measurement consists only of rows older than the cutoff. *)
Theorem C11_complete :
  forall pol now st k f m,
  NoDup (map fst st) -> In (k, f) (r_store (run_policy no_fail pol now false st)) ->
  In m (measurements pol st) -> is_prefix (mprefix (p_db pol) m) k = true -> is_parquet k = true ->
  rf_ok f = true -> rf_times f <> [] ->
  exists t, In t (rf_times f) /\ (cutoff_of pol now <= t)%Z.
Proof. exact retention_complete. Qed.
Print Assumptions C11_complete.

(* Prefix isolation, over ALL name strings: the listing prefix db/m1/ never matches a key of
   another slash-free measurement m2 of the same database (however m1 and m2 overlap, e.g.
   cpu / cpu_total), nor does db1/ match a key of another database; and a run leaves every
   key outside the prefixes of its measurements untouched and never adds anything. *)
Theorem C11_prefix_isolation :
  (forall db m1 m2 rest, slashfree m1 -> slashfree m2 -> m1 <> m2 ->
     is_prefix (mprefix db m1) (mprefix db m2 ++ rest) = false) /\
  (forall d1 d2 rest, slashfree d1 -> slashfree d2 -> d1 <> d2 ->
     is_prefix (d1 ++ [slash]) (d2 ++ [slash] ++ rest) = false) /\
  (forall fails pol now dry st e, In e st ->
     (forall m, In m (measurements pol st) -> is_prefix (mprefix (p_db pol) m) (fst e) = false) ->
     In e (r_store (run_policy fails pol now dry st))) /\
  (forall fails pol now dry st e, In e (r_store (run_policy fails pol now dry st)) -> In e st).
Proof.
  split; [exact prefix_isolation|]. split; [exact database_isolation|].
  split; [exact retention_scope|exact retention_subset].
Qed.
Print Assumptions C11_prefix_isolation.

(* A dry run deletes nothing and reports exactly the rows and files a real run without
   storage faults deletes. *)
Theorem C11_dry_run :
  forall fails pol now st,
  let d := run_policy fails pol now true st in
  let r := run_policy no_fail pol now false st in
  r_store d = st /\ r_rows d = r_rows r /\ r_files d = r_files r.
Proof. exact dry_run_reports. Qed.
Print Assumptions C11_dry_run.

(* Non-vacuity: a layout with files below, exactly on and above the cutoff, two measurements
   whose names are prefixes of each other and a second database; the boundary file (max = cutoff)
   is kept (the test is strict), the older one goes, the neighbours are untouched. *)
Definition ex_key (s : list N) : key := s.
Example C11_nonvacuous :
  let db := [100; 98]%N in let cpu := [99; 112; 117]%N in let cpux := [99; 112; 117; 95; 116]%N in
  let suffix := [47; 97; 46; 112; 97; 114; 113; 117; 101; 116]%N in   (* "/a.parquet" *)
  let now := (20 * day_us)%Z in
  let pol := mkPolicy db (Some cpu) 7 3 in
  let cut := cutoff_of pol now in
  let st := [ (db ++ [slash] ++ cpu ++ suffix, mkRFile [cut - 5; cut - 1]%Z true);
              (db ++ [slash] ++ cpu ++ [slash; 98%N] ++ suffix, mkRFile [cut - 5; cut]%Z true);
              (db ++ [slash] ++ cpux ++ suffix, mkRFile [cut - 9]%Z true);
              (db ++ [50%N; slash] ++ cpu ++ suffix, mkRFile [cut - 9]%Z true) ] in
  NoDup (map fst st) /\ cut = (10 * day_us)%Z /\
  map fst (r_store (run_policy no_fail pol now false st)) =
    [db ++ [slash] ++ cpu ++ [slash; 98%N] ++ suffix; db ++ [slash] ++ cpux ++ suffix; db ++ [50%N; slash] ++ cpu ++ suffix] /\
  r_files (run_policy no_fail pol now true st) = 1 /\ r_rows (run_policy no_fail pol now true st) = 2%Z.
Proof.
  cbv zeta. split; [repeat constructor; cbn; intuition discriminate|]. vm_compute. auto.
Qed.
