(* Proofs for retention (C11). *)
From Coq Require Import List NArith ZArith Bool Arith Lia.
From Arc Require Import Retention.Model.
Import ListNotations.

(* ------------------------------------------------------------------------------------ *)
(* keys                                                                                  *)
(* ------------------------------------------------------------------------------------ *)
Lemma key_eqb_eq a : forall b, key_eqb a b = true <-> a = b.
Proof.
  induction a as [|x a IH]; destruct b as [|y b]; cbn; try (split; [discriminate|discriminate]); [tauto|].
  rewrite andb_true_iff, N.eqb_eq, IH. split; [intros [-> ->]; reflexivity|intros E; inversion E; auto].
Qed.

Lemma memk_In k l : memk k l = true <-> In k l.
Proof.
  unfold memk. rewrite existsb_exists. split.
  - intros [x [Hx E]]. apply key_eqb_eq in E. subst. exact Hx.
  - intros H. exists k. split; [exact H|apply key_eqb_eq; reflexivity].
Qed.

Lemma memk_false k l : memk k l = false <-> ~ In k l.
Proof. rewrite <- memk_In. destruct (memk k l); intuition congruence. Qed.

Lemma nodup_fun {V} (st : list (key * V)) k f f' :
  NoDup (map fst st) -> In (k, f) st -> In (k, f') st -> f = f'.
Proof.
  induction st as [|[k0 v0] r IH]; cbn; [tauto|]. intros Hnd H1 H2.
  inversion Hnd as [|? ? Hn Hd]; subst.
  destruct H1 as [E1|H1], H2 as [E2|H2].
  - congruence.
  - inversion E1; subst. exfalso. apply Hn. apply (in_map fst) in H2. exact H2.
  - inversion E2; subst. exfalso. apply Hn. apply (in_map fst) in H1. exact H1.
  - apply IH; assumption.
Qed.

Lemma NoDup_map_filter {A B} (g : A -> B) (p : A -> bool) l : NoDup (map g l) -> NoDup (map g (filter p l)).
Proof.
  induction l as [|x r IH]; cbn; intros H; [constructor|]. inversion H as [|? ? Hn Hd]; subst.
  destruct (p x); cbn; [|apply IH; exact Hd]. constructor; [|apply IH; exact Hd].
  intros Hin. apply Hn. apply in_map_iff in Hin. destruct Hin as [y [E Hy]]. apply filter_In in Hy.
  apply in_map_iff. exists y. tauto.
Qed.

(* ------------------------------------------------------------------------------------ *)
(* string prefixes: names that are prefixes of each other never interfere                *)
(* ------------------------------------------------------------------------------------ *)
Definition slashfree (m : key) : Prop := ~ In slash m.
Opaque slash.

Lemma is_prefix_app p q : forall k, is_prefix (p ++ q) k = true ->
  is_prefix p k = true /\ is_prefix q (skipn (length p) k) = true.
Proof.
  induction p as [|a p IH]; intros k H; cbn in *; [auto|].
  destruct k as [|b k]; [discriminate|]. apply andb_true_iff in H. destruct H as [E H].
  destruct (IH k H) as [H1 H2]. rewrite E, H1. auto.
Qed.

Lemma sep_prefix_unique a : forall b k, slashfree a -> slashfree b ->
  is_prefix (a ++ [slash]) k = true -> is_prefix (b ++ [slash]) k = true -> a = b.
Proof.
  induction a as [|x a IH]; intros b k Ha Hb H1 H2.
  - destruct b as [|y b]; [reflexivity|]. destruct k as [|c k]; [discriminate|]. cbn in H1, H2.
    apply andb_true_iff in H1. apply andb_true_iff in H2. destruct H1 as [E1 _], H2 as [E2 _].
    apply N.eqb_eq in E1. apply N.eqb_eq in E2. exfalso. apply Hb. left. congruence.
  - destruct k as [|c k]; [discriminate|]. cbn in H1. apply andb_true_iff in H1. destruct H1 as [E1 H1].
    apply N.eqb_eq in E1. subst c. destruct b as [|y b].
    + cbn in H2. apply andb_true_iff in H2. destruct H2 as [E2 _]. apply N.eqb_eq in E2.
      exfalso. apply Ha. left. congruence.
    + cbn in H2. apply andb_true_iff in H2. destruct H2 as [E2 H2]. apply N.eqb_eq in E2. subst y.
      f_equal. apply (IH b k); [intros H; apply Ha; right; exact H|intros H; apply Hb; right; exact H|exact H1|exact H2].
Qed.

Lemma mprefix_unique db m1 m2 k : slashfree m1 -> slashfree m2 ->
  is_prefix (mprefix db m1) k = true -> is_prefix (mprefix db m2) k = true -> m1 = m2.
Proof.
  unfold mprefix. intros S1 S2 H1 H2.
  apply is_prefix_app in H1. apply is_prefix_app in H2. destruct H1 as [_ H1], H2 as [_ H2].
  destruct (skipn (length db) k) as [|c k']; [discriminate|]. cbn in H1, H2.
  apply andb_true_iff in H1. apply andb_true_iff in H2.
  apply (sep_prefix_unique m1 m2 k' S1 S2); tauto.
Qed.

Lemma is_prefix_refl_app p q : is_prefix p (p ++ q) = true.
Proof. induction p as [|a p IH]; cbn; [reflexivity|]. rewrite N.eqb_refl. exact IH. Qed.

(* a measurement whose name extends another one's (cpu / cpu_total) is out of its prefix *)
Theorem prefix_isolation db m1 m2 rest : slashfree m1 -> slashfree m2 -> m1 <> m2 ->
  is_prefix (mprefix db m1) (mprefix db m2 ++ rest) = false.
Proof.
  intros S1 S2 Hne. destruct (is_prefix (mprefix db m1) (mprefix db m2 ++ rest)) eqn:E; [|reflexivity].
  exfalso. apply Hne. apply (mprefix_unique db m1 m2 _ S1 S2 E). apply is_prefix_refl_app.
Qed.

Theorem database_isolation d1 d2 rest : slashfree d1 -> slashfree d2 -> d1 <> d2 ->
  is_prefix (d1 ++ [slash]) (d2 ++ [slash] ++ rest) = false.
Proof.
  intros S1 S2 Hne. destruct (is_prefix (d1 ++ [slash]) (d2 ++ [slash] ++ rest)) eqn:E; [|reflexivity].
  exfalso. apply Hne. apply (sep_prefix_unique d1 d2 _ S1 S2 E).
  rewrite app_assoc. apply is_prefix_refl_app.
Qed.

(* ------------------------------------------------------------------------------------ *)
(* one measurement                                                                       *)
(* ------------------------------------------------------------------------------------ *)
Lemma fmax_ge l : forall m t, fmax l = Some m -> In t l -> (t <= m)%Z.
Proof.
  induction l as [|x r IH]; cbn; intros m t H Hin; [destruct Hin|].
  destruct (fmax r) as [m'|] eqn:E.
  - inversion H; subst. destruct Hin as [->|Hin]; [lia|]. specialize (IH m' t eq_refl Hin). lia.
  - inversion H; subst. destruct Hin as [->|Hin]; [lia|]. destruct r; [destruct Hin|cbn in E; destruct (fmax r); discriminate].
Qed.

Lemma eligible_old cutoff f : eligible cutoff f = true -> forall t, In t (rf_times f) -> (t < cutoff)%Z.
Proof.
  unfold eligible. rewrite andb_true_iff. intros [_ H] t Ht.
  destruct (fmax (rf_times f)) as [m|] eqn:E; [|discriminate]. apply Z.ltb_lt in H.
  assert (Hm := fmax_ge _ m t E Ht). lia.
Qed.

Lemma doomed_in db m c st e : In e (doomed db m c st) ->
  In e st /\ is_prefix (mprefix db m) (fst e) = true /\ is_parquet (fst e) = true /\ eligible c (snd e) = true.
Proof.
  unfold doomed, listp. rewrite !filter_In, andb_true_iff. tauto.
Qed.

Lemma in_remove_keys ks st e : In e (remove_keys ks st) <-> In e st /\ ~ In (fst e) ks.
Proof. unfold remove_keys. rewrite filter_In, negb_true_iff, memk_false. tauto. Qed.

Section One.
  Variable fails : key -> bool.
  Variables (db m : key) (cutoff : Z) (dry : bool).

  Lemma delete_old_subset st e : In e (r_store (delete_old fails db m cutoff dry st)) -> In e st.
  Proof.
    unfold delete_old. destruct dry; cbn [r_store]; [auto|]. intros H. apply in_remove_keys in H. tauto.
  Qed.

  Lemma delete_old_nodup st : NoDup (map fst st) -> NoDup (map fst (r_store (delete_old fails db m cutoff dry st))).
  Proof.
    unfold delete_old. destruct dry; cbn [r_store]; [auto|]. unfold remove_keys. apply NoDup_map_filter.
  Qed.

  (* a file holding a row at or after the cutoff survives *)
  Lemma delete_old_safe st k f t : NoDup (map fst st) -> In (k, f) st -> In t (rf_times f) -> (cutoff <= t)%Z ->
    In (k, f) (r_store (delete_old fails db m cutoff dry st)).
  Proof.
    intros Hnd Hin Ht Hc. unfold delete_old. destruct dry; cbn [r_store]; [exact Hin|].
    apply in_remove_keys. split; [exact Hin|]. cbn [fst]. intros Hk.
    apply in_map_iff in Hk. destruct Hk as [[k' f'] [E He]]. cbn in E. subst k'.
    apply filter_In in He. destruct He as [He _]. apply doomed_in in He. destruct He as [Hst [_ [_ Hel]]]. cbn in Hel.
    assert (f' = f) by (eapply nodup_fun; eassumption). subst f'.
    assert (Hlt := eligible_old cutoff f Hel t Ht). lia.
  Qed.

  (* only keys under db/m/ are touched *)
  Lemma delete_old_scope st e : In e st -> is_prefix (mprefix db m) (fst e) = false ->
    In e (r_store (delete_old fails db m cutoff dry st)).
  Proof.
    intros Hin Hp. unfold delete_old. destruct dry; cbn [r_store]; [exact Hin|].
    apply in_remove_keys. split; [exact Hin|]. intros Hk.
    apply in_map_iff in Hk. destruct Hk as [e' [E He]]. apply filter_In in He. destruct He as [He _].
    apply doomed_in in He. rewrite E in He. destruct He as [_ [Hpre _]]. congruence.
  Qed.
End One.

(* without storage faults nothing entirely old is left under db/m/ *)
Lemma delete_old_complete db m cutoff st k f : NoDup (map fst st) ->
  In (k, f) (r_store (delete_old no_fail db m cutoff false st)) ->
  is_prefix (mprefix db m) k = true -> is_parquet k = true -> eligible cutoff f = false.
Proof.
  intros Hnd Hin Hp Hq. destruct (eligible cutoff f) eqn:E; [|reflexivity]. exfalso.
  unfold delete_old in Hin. cbn [r_store] in Hin. apply in_remove_keys in Hin. destruct Hin as [Hst Hn].
  apply Hn. cbn [fst]. apply in_map_iff. exists (k, f). split; [reflexivity|].
  apply filter_In. split; [|reflexivity]. unfold doomed, listp. rewrite !filter_In. cbn [fst snd].
  rewrite Hp, Hq, E. auto.
Qed.

(* ------------------------------------------------------------------------------------ *)
(* a whole policy run                                                                    *)
(* ------------------------------------------------------------------------------------ *)
Section Run.
  Variable fails : key -> bool.
  Variables (db : key) (cutoff : Z) (dry : bool).

  Definition store_step (st : store) (m : key) : store := r_store (delete_old fails db m cutoff dry st).

  Lemma run_list_store ms : forall acc,
    r_store (fold_left (fun acc m => let r := delete_old fails db m cutoff dry (r_store acc) in
                                     mkResult (r_store r) (r_rows acc + r_rows r)%Z (r_files acc + r_files r)) ms acc) =
    fold_left store_step ms (r_store acc).
  Proof. induction ms as [|m r IH]; intros acc; cbn [fold_left]; [reflexivity|]. rewrite IH. reflexivity. Qed.

  Lemma stores_subset ms : forall st e, In e (fold_left store_step ms st) -> In e st.
  Proof.
    induction ms as [|m r IH]; intros st e H; cbn in H; [exact H|].
    apply IH in H. eapply delete_old_subset; exact H.
  Qed.

  Lemma stores_nodup ms : forall st, NoDup (map fst st) -> NoDup (map fst (fold_left store_step ms st)).
  Proof. induction ms as [|m r IH]; intros st H; cbn; [exact H|]. apply IH. apply delete_old_nodup. exact H. Qed.

  Lemma stores_safe ms : forall st k f t, NoDup (map fst st) -> In (k, f) st -> In t (rf_times f) -> (cutoff <= t)%Z ->
    In (k, f) (fold_left store_step ms st).
  Proof.
    induction ms as [|m r IH]; intros st k f t Hnd Hin Ht Hc; cbn; [exact Hin|].
    apply (IH _ k f t); [apply delete_old_nodup; exact Hnd| |exact Ht|exact Hc].
    eapply delete_old_safe; eassumption.
  Qed.

  Lemma stores_scope ms : forall st e, In e st -> (forall m, In m ms -> is_prefix (mprefix db m) (fst e) = false) ->
    In e (fold_left store_step ms st).
  Proof.
    induction ms as [|m r IH]; intros st e Hin Hp; cbn; [exact Hin|].
    apply IH; [|intros m' Hm'; apply Hp; right; exact Hm'].
    apply delete_old_scope; [exact Hin|apply Hp; left; reflexivity].
  Qed.
End Run.

Lemma stores_complete db cutoff ms : forall st k f m, NoDup (map fst st) ->
  In (k, f) (fold_left (store_step no_fail db cutoff false) ms st) -> In m ms ->
  is_prefix (mprefix db m) k = true -> is_parquet k = true -> eligible cutoff f = false.
Proof.
  induction ms as [|m0 r IH]; intros st k f m Hnd Hin Hm Hp Hq; [destruct Hm|]. cbn [fold_left] in Hin.
  destruct Hm as [->|Hm].
  - apply stores_subset in Hin. unfold store_step in Hin. eapply delete_old_complete; eassumption.
  - eapply IH; [|exact Hin|exact Hm|exact Hp|exact Hq]. apply delete_old_nodup. exact Hnd.
Qed.

Lemma run_policy_store fails pol now dry st :
  r_store (run_policy fails pol now dry st) =
  fold_left (store_step fails (p_db pol) (cutoff_of pol now) dry) (measurements pol st) st.
Proof. unfold run_policy, run_list. rewrite run_list_store. reflexivity. Qed.

Theorem retention_safe fails pol now dry st k f t :
  NoDup (map fst st) -> In (k, f) st -> In t (rf_times f) -> (cutoff_of pol now <= t)%Z ->
  In (k, f) (r_store (run_policy fails pol now dry st)).
Proof. intros. rewrite run_policy_store. eapply stores_safe; eassumption. Qed.

Theorem retention_complete pol now st k f m :
  NoDup (map fst st) -> In (k, f) (r_store (run_policy no_fail pol now false st)) ->
  In m (measurements pol st) -> is_prefix (mprefix (p_db pol) m) k = true -> is_parquet k = true ->
  rf_ok f = true -> rf_times f <> [] ->
  exists t, In t (rf_times f) /\ (cutoff_of pol now <= t)%Z.
Proof.
  intros Hnd Hin Hm Hp Hq Hok Hne. rewrite run_policy_store in Hin.
  assert (E := stores_complete _ _ _ _ _ _ _ Hnd Hin Hm Hp Hq). unfold eligible in E. rewrite Hok in E. cbn in E.
  destruct (fmax (rf_times f)) as [mx|] eqn:Ef.
  - apply Z.ltb_ge in E. exists mx. split; [|exact E].
    clear -Ef. revert mx Ef. induction (rf_times f) as [|x r IH]; cbn; intros mx H; [discriminate|].
    destruct (fmax r) as [m'|] eqn:Er.
    + inversion H; subst. destruct (Z.max_spec x m') as [[_ ->]|[_ ->]]; [right; apply IH; reflexivity|left; reflexivity].
    + inversion H; subst. left; reflexivity.
  - destruct (rf_times f); [congruence|]. cbn in Ef. destruct (fmax l); discriminate.
Qed.

Theorem retention_scope fails pol now dry st e :
  In e st -> (forall m, In m (measurements pol st) -> is_prefix (mprefix (p_db pol) m) (fst e) = false) ->
  In e (r_store (run_policy fails pol now dry st)).
Proof. intros. rewrite run_policy_store. apply stores_scope; assumption. Qed.

Theorem retention_subset fails pol now dry st e : In e (r_store (run_policy fails pol now dry st)) -> In e st.
Proof. rewrite run_policy_store. apply stores_subset. Qed.

(* ------------------------------------------------------------------------------------ *)
(* dry run                                                                               *)
(* ------------------------------------------------------------------------------------ *)
Lemma filter_all {A} (p : A -> bool) l : (forall x, In x l -> p x = true) -> filter p l = l.
Proof.
  induction l as [|x r IH]; cbn; intros H; [reflexivity|]. rewrite (H x (or_introl eq_refl)).
  f_equal. apply IH. intros y Hy. apply H. right; exact Hy.
Qed.

Lemma filter_absorb {A} (p q : A -> bool) l : (forall x, In x l -> p x = true -> q x = true) ->
  filter p (filter q l) = filter p l.
Proof.
  induction l as [|x r IH]; cbn; intros H; [reflexivity|].
  assert (IH' : filter p (filter q r) = filter p r) by (apply IH; intros y Hy; apply H; right; exact Hy).
  destruct (q x) eqn:Eq; cbn.
  - rewrite IH'. reflexivity.
  - destruct (p x) eqn:Ep; [|exact IH']. rewrite (H x (or_introl eq_refl) Ep) in Eq. discriminate.
Qed.

Lemma doomed_remove_other db m m1 c st : slashfree m -> slashfree m1 -> m <> m1 ->
  doomed db m c (remove_keys (map fst (doomed db m1 c st)) st) = doomed db m c st.
Proof.
  intros S S1 Hne. unfold doomed at 1 3. f_equal. unfold listp, remove_keys. apply filter_absorb.
  intros e He Hp. apply negb_true_iff. apply memk_false. intros Hk.
  apply in_map_iff in Hk. destruct Hk as [e' [E He']]. apply doomed_in in He'. rewrite E in He'.
  destruct He' as [_ [Hp1 _]]. exact (Hne (mprefix_unique db m m1 _ S S1 Hp Hp1)).
Qed.

Section Counts.
  Variables (db : key) (cutoff : Z).

  Definition sum_rows (ms : list key) (st : store) : Z :=
    fold_right (fun m a => (rows_of (doomed db m cutoff st) + a)%Z) 0%Z ms.
  Definition sum_files (ms : list key) (st : store) : nat :=
    fold_right (fun m a => length (doomed db m cutoff st) + a) 0 ms.

  Definition stepf (fails : key -> bool) (dry : bool) :=
    fun acc m => let r := delete_old fails db m cutoff dry (r_store acc) in
                 mkResult (r_store r) (r_rows acc + r_rows r)%Z (r_files acc + r_files r).

  Lemma dry_fold fails ms : forall acc,
    fold_left (stepf fails true) ms acc =
    mkResult (r_store acc) (r_rows acc + sum_rows ms (r_store acc))%Z (r_files acc + sum_files ms (r_store acc)).
  Proof.
    induction ms as [|m r IH]; intros acc; cbn [fold_left sum_rows sum_files fold_right].
    - destruct acc; cbn. f_equal; lia.
    - rewrite IH. unfold stepf, delete_old. cbn [r_store r_rows r_files].
      fold (sum_rows r (r_store acc)). fold (sum_files r (r_store acc)). f_equal; lia.
  Qed.

  Lemma real_step st m : delete_old no_fail db m cutoff false st =
    mkResult (remove_keys (map fst (doomed db m cutoff st)) st) (rows_of (doomed db m cutoff st)) (length (doomed db m cutoff st)).
  Proof. unfold delete_old. rewrite filter_all; [reflexivity|]. intros; reflexivity. Qed.

  Lemma sums_ext ms st st' : (forall m, In m ms -> doomed db m cutoff st' = doomed db m cutoff st) ->
    sum_rows ms st' = sum_rows ms st /\ sum_files ms st' = sum_files ms st.
  Proof.
    induction ms as [|m r IH]; intros H; [split; reflexivity|].
    destruct IH as [A B]; [intros m' Hm'; apply H; right; exact Hm'|].
    split.
    - change (sum_rows (m :: r) st') with (rows_of (doomed db m cutoff st') + sum_rows r st')%Z.
      change (sum_rows (m :: r) st) with (rows_of (doomed db m cutoff st) + sum_rows r st)%Z.
      rewrite (H m (or_introl eq_refl)), A. reflexivity.
    - change (sum_files (m :: r) st') with (length (doomed db m cutoff st') + sum_files r st').
      change (sum_files (m :: r) st) with (length (doomed db m cutoff st) + sum_files r st).
      rewrite (H m (or_introl eq_refl)), B. reflexivity.
  Qed.

  Lemma real_fold ms : forall acc, NoDup ms ->
    (forall m1 m2, In m1 ms -> In m2 ms -> m1 <> m2 -> slashfree m1 /\ slashfree m2) ->
    r_rows (fold_left (stepf no_fail false) ms acc) = (r_rows acc + sum_rows ms (r_store acc))%Z /\
    r_files (fold_left (stepf no_fail false) ms acc) = r_files acc + sum_files ms (r_store acc).
  Proof.
    induction ms as [|m r IH]; intros acc Hnd Hs; [cbn; split; lia|]. cbn [fold_left].
    change (sum_rows (m :: r) (r_store acc)) with (rows_of (doomed db m cutoff (r_store acc)) + sum_rows r (r_store acc))%Z.
    change (sum_files (m :: r) (r_store acc)) with (length (doomed db m cutoff (r_store acc)) + sum_files r (r_store acc)).
    inversion Hnd as [|? ? Hn Hd]; subst.
    destruct (IH (stepf no_fail false acc m) Hd) as [A B].
    { intros m1 m2 H1 H2. apply Hs; right; assumption. }
    rewrite A, B.
    assert (Es : stepf no_fail false acc m =
                 mkResult (remove_keys (map fst (doomed db m cutoff (r_store acc))) (r_store acc))
                          (r_rows acc + rows_of (doomed db m cutoff (r_store acc)))%Z
                          (r_files acc + length (doomed db m cutoff (r_store acc))))
      by (unfold stepf; rewrite real_step; reflexivity).
    rewrite Es. cbn [r_store r_rows r_files].
    destruct (sums_ext r (r_store acc) (remove_keys (map fst (doomed db m cutoff (r_store acc))) (r_store acc))) as [E1 E2].
    { intros m' Hm'. assert (Hne : m' <> m) by (intros ->; contradiction).
      destruct (Hs m' m (or_intror Hm') (or_introl eq_refl) Hne) as [S1 S2]. apply doomed_remove_other; assumption. }
    rewrite E1, E2. split; lia.
  Qed.
End Counts.

Lemma first_comp_slashfree k : slashfree (first_comp k).
Proof.
  unfold slashfree. induction k as [|c r IH]; cbn; [tauto|].
  destruct (N.eqb_spec c slash) as [->|Hne]; cbn; [tauto|]. intros [E|H]; [congruence|exact (IH H)].
Qed.

Lemma dedupk_in l x : In x (dedupk l) -> In x l.
Proof.
  induction l as [|k r IH]; cbn; [tauto|]. destruct (memk k r); [intros H; right; exact (IH H)|].
  intros [->|H]; [left; reflexivity|right; exact (IH H)].
Qed.

Lemma dedupk_nodup l : NoDup (dedupk l).
Proof.
  induction l as [|k r IH]; cbn; [constructor|]. destruct (memk k r) eqn:E; [exact IH|].
  constructor; [|exact IH]. intros H. apply dedupk_in in H. apply memk_false in E. contradiction.
Qed.

Lemma discover_ok db st : NoDup (discover db st) /\ forall m, In m (discover db st) -> slashfree m.
Proof.
  unfold discover. split; [apply dedupk_nodup|]. intros m Hm. apply dedupk_in in Hm.
  apply filter_In in Hm. destruct Hm as [Hm _]. apply in_map_iff in Hm. destruct Hm as [kv [<- _]].
  apply first_comp_slashfree.
Qed.

Lemma measurements_ok pol st : NoDup (measurements pol st) /\
  forall m1 m2, In m1 (measurements pol st) -> In m2 (measurements pol st) -> m1 <> m2 -> slashfree m1 /\ slashfree m2.
Proof.
  unfold measurements. destruct (p_meas pol) as [[|c r]|].
  - destruct (discover_ok (p_db pol) st) as [A B]. split; [exact A|]. intros; split; apply B; assumption.
  - split; [repeat constructor; intros []|]. intros m1 m2 [<-|[]] [<-|[]] H. congruence.
  - destruct (discover_ok (p_db pol) st) as [A B]. split; [exact A|]. intros; split; apply B; assumption.
Qed.

(* a dry run deletes nothing and reports exactly what a real, fault-free run deletes *)
Theorem dry_run_reports fails pol now st :
  let d := run_policy fails pol now true st in
  let r := run_policy no_fail pol now false st in
  r_store d = st /\ r_rows d = r_rows r /\ r_files d = r_files r.
Proof.
  cbv zeta. unfold run_policy, run_list.
  change (fun acc m => let r := delete_old ?f ?db m ?c ?dry (r_store acc) in
                       mkResult (r_store r) (r_rows acc + r_rows r)%Z (r_files acc + r_files r)) with (stepf db c f dry).
  fold (stepf (p_db pol) (cutoff_of pol now) fails true). fold (stepf (p_db pol) (cutoff_of pol now) no_fail false).
  rewrite dry_fold. cbn [r_store r_rows r_files].
  destruct (measurements_ok pol st) as [Hnd Hs].
  destruct (real_fold (p_db pol) (cutoff_of pol now) (measurements pol st) (mkResult st 0%Z 0) Hnd Hs) as [A B].
  cbn [r_store r_rows r_files] in A, B. rewrite A, B. auto.
Qed.

(* and the real, fault-free run removes exactly the doomed files of its first measurement ... *)
Lemma real_removes db m cutoff st e : In e st ->
  (In e (r_store (delete_old no_fail db m cutoff false st)) <-> ~ In (fst e) (map fst (doomed db m cutoff st))).
Proof. intros Hin. rewrite real_step. cbn [r_store]. rewrite in_remove_keys. tauto. Qed.
