(* C11 obligations on the facts regenerated from /repo on every run
   (coq/gen/Params_Retention.v, written by tools/props/C11.py with go/ast):
   the deletion test and the cutoff expression of both entry points. *)
From Coq Require Import List Bool.
From ArcGen Require Import Params_Retention.
Import ListNotations.

Theorem C11_cutoff_obligations :
  delete_test_is_max_before_cutoff = true /\            (* maxTime.Before(cutoffDate): strict *)
  cutoff_is_now_minus_retention_plus_buffer_days = true /\  (* AddDate(0, 0, -(RetentionDays + BufferDays)) on a UTC clock *)
  entry_points_with_that_cutoff = 2 /\                  (* ExecutePolicy and handleExecute *)
  dry_run_skips_storage_mutations = true.               (* Delete only reachable after `if dryRun ... return` *)
Proof. vm_compute. repeat split. Qed.
Print Assumptions C11_cutoff_obligations.
