(* Model of retention (internal/api/retention.go: ExecutePolicy / handleExecute,
   getMeasurementsToProcess, deleteOldFiles, getFileMaxTimeAndRowCount).
   Storage = association list from keys (byte strings, as in an object store) to files;
   a file is the list of its row timestamps (microseconds) plus whether DuckDB can evaluate
   MAX(time), COUNT( * ) on it.  Listing is by STRING PREFIX (the object-store semantics; the
   local backend's directory walk agrees with it on keys of the form db/measurement/...).
   Executable definitions only. *)
From Coq Require Import List NArith ZArith Bool Arith.
Import ListNotations.

Definition key := list N.
Record rfile := mkRFile { rf_times : list Z; rf_ok : bool }.
Definition store := list (key * rfile).

Definition slash : N := 47%N.
Definition dot : N := 46%N.

Fixpoint is_prefix (p k : key) : bool :=
  match p, k with
  | [], _ => true
  | a :: p', b :: k' => N.eqb a b && is_prefix p' k'
  | _ :: _, [] => false
  end.

Fixpoint key_eqb (a b : key) : bool :=
  match a, b with
  | [], [] => true
  | x :: a', y :: b' => N.eqb x y && key_eqb a' b'
  | _, _ => false
  end.

Definition lowerb (c : N) : N := if (N.leb 65 c && N.leb c 90)%bool then (c + 32)%N else c.
Definition dot_parquet : key := [46; 112; 97; 114; 113; 117; 101; 116]%N.
Definition has_suffix (suf k : key) : bool := is_prefix (rev suf) (rev k).
(* strings.HasSuffix(strings.ToLower(f), ".parquet") *)
Definition is_parquet (k : key) : bool := has_suffix dot_parquet (map lowerb k).

(* Backend.List(prefix) *)
Definition listp (pre : key) (st : store) : store := filter (fun kv => is_prefix pre (fst kv)) st.

Fixpoint first_comp (k : key) : key :=
  match k with
  | [] => []
  | c :: r => if N.eqb c slash then [] else c :: first_comp r
  end.

Definition memk (k : key) (l : list key) : bool := existsb (key_eqb k) l.
Fixpoint dedupk (l : list key) : list key :=
  match l with
  | [] => []
  | k :: r => if memk k r then dedupk r else k :: dedupk r
  end.

Definition visible_name (m : key) : bool :=
  match m with [] => false | c :: _ => negb (N.eqb c dot) end.

(* getMeasurementsToProcess without a measurement filter *)
Definition discover (db : key) (st : store) : list key :=
  let pre := db ++ [slash] in
  dedupk (filter visible_name (map (fun kv => first_comp (skipn (length pre) (fst kv))) (listp pre st))).

Fixpoint fmax (l : list Z) : option Z :=
  match l with
  | [] => None
  | t :: r => match fmax r with Some m => Some (Z.max t m) | None => Some t end
  end.

(* maxTime.Before(cutoffDate) on a file whose metadata could be read *)
Definition eligible (cutoff : Z) (f : rfile) : bool :=
  rf_ok f && match fmax (rf_times f) with Some m => Z.ltb m cutoff | None => false end.

Definition mprefix (db m : key) : key := db ++ [slash] ++ m ++ [slash].

Definition doomed (db m : key) (cutoff : Z) (st : store) : store :=
  filter (fun kv => is_parquet (fst kv) && eligible cutoff (snd kv)) (listp (mprefix db m) st).

Definition rows_of (d : store) : Z := fold_right (fun kv a => (Z.of_nat (length (rf_times (snd kv))) + a)%Z) 0%Z d.
Definition remove_keys (ks : list key) (st : store) : store := filter (fun kv => negb (memk (fst kv) ks)) st.

Record result := mkResult { r_store : store; r_rows : Z; r_files : nat }.

(* deleteOldFiles; [fails k]: storage.Delete(k) returns an error (the file is skipped) *)
Definition delete_old (fails : key -> bool) (db m : key) (cutoff : Z) (dry : bool) (st : store) : result :=
  let d := doomed db m cutoff st in
  if dry then mkResult st (rows_of d) (length d)
  else let del := filter (fun kv => negb (fails (fst kv))) d in
       mkResult (remove_keys (map fst del) st) (rows_of del) (length del).

Record policy := mkPolicy { p_db : key; p_meas : option key; p_ret : Z; p_buf : Z }.
Definition day_us : Z := 86400000000%Z.
(* time.Now().UTC().AddDate(0, 0, -(RetentionDays + BufferDays)) in microseconds *)
Definition cutoff_of (pol : policy) (now : Z) : Z := (now - (p_ret pol + p_buf pol) * day_us)%Z.

Definition measurements (pol : policy) (st : store) : list key :=
  match p_meas pol with
  | Some (c :: r) => [c :: r]
  | _ => discover (p_db pol) st
  end.

Definition run_list (fails : key -> bool) (db : key) (cutoff : Z) (dry : bool) (ms : list key) (st : store) : result :=
  fold_left (fun acc m => let r := delete_old fails db m cutoff dry (r_store acc) in
                          mkResult (r_store r) (r_rows acc + r_rows r)%Z (r_files acc + r_files r))
            ms (mkResult st 0%Z 0).

(* ExecutePolicy / handleExecute *)
Definition run_policy (fails : key -> bool) (pol : policy) (now : Z) (dry : bool) (st : store) : result :=
  run_list fails (p_db pol) (cutoff_of pol now) dry (measurements pol st) st.

Definition no_fail (k : key) : bool := false.

(* ---- correspondence cases ---- *)
Record rcase := mkRCase {
  rc_store : store; rc_policy : policy; rc_now : Z; rc_dry : bool; rc_fail : list key;
  rc_obs_keys : list key; rc_obs_rows : Z; rc_obs_files : nat }.

Definition keyset_eqb (a b : list key) : bool :=
  (length a =? length b) && forallb (fun k => memk k b) a && forallb (fun k => memk k a) b.

Definition rcase_result (c : rcase) : result :=
  run_policy (fun k => memk k (rc_fail c)) (rc_policy c) (rc_now c) (rc_dry c) (rc_store c).

Definition rcase_agrees (c : rcase) : bool :=
  let r := rcase_result c in
  keyset_eqb (map fst (r_store r)) (rc_obs_keys c) && Z.eqb (r_rows r) (rc_obs_rows c) && (r_files r =? rc_obs_files c).

Definition lookupk (k : key) (st : store) : option rfile :=
  match filter (fun kv => key_eqb k (fst kv)) st with kv :: _ => Some (snd kv) | [] => None end.

(* property oracle on the IMPLEMENTATION's observations *)
Definition rcase_oracle (c : rcase) : bool :=
  let cutoff := cutoff_of (rc_policy c) (rc_now c) in
  (* nothing invented, and no file holding a row at or after the cutoff is gone *)
  forallb (fun k => memk k (map fst (rc_store c))) (rc_obs_keys c) &&
  forallb (fun kv => memk (fst kv) (rc_obs_keys c) || forallb (fun t => Z.ltb t cutoff) (rf_times (snd kv))) (rc_store c) &&
  (* a dry run deletes nothing and reports what a real fault-free run deletes *)
  (if rc_dry c
   then keyset_eqb (map fst (rc_store c)) (rc_obs_keys c) &&
        (let r := run_policy no_fail (rc_policy c) (rc_now c) false (rc_store c) in
         Z.eqb (r_rows r) (rc_obs_rows c) && (r_files r =? rc_obs_files c))
   else
     (* without storage faults no remaining readable parquet file of a covered measurement is entirely old *)
     match rc_fail c with
     | _ :: _ => true
     | [] => forallb (fun m =>
               forallb (fun kv => negb (memk (fst kv) (rc_obs_keys c)) ||
                                  negb (is_prefix (mprefix (p_db (rc_policy c)) m) (fst kv) && is_parquet (fst kv) && eligible cutoff (snd kv)))
                       (rc_store c))
             (measurements (rc_policy c) (rc_store c))
     end).
