(* C05 / C32 - executable model of the write -> WAL -> crash -> replay route (area Recovery).

   Layer B (buffer boundary, C05):
     ArrowBuffer.writeColumnarInternal            [write_bw]  (WAL append, then convertColumnsToTyped)
     ArrowBuffer.columnarToWALRecords             [wal_rows]
     wal.Writer.AppendRawWithMeta / Append        [entry]     (framing / CRC layer = C06, not here)
     wal.Reader.readEntry / parseColumnarEntry    [read_entry]
     wal.Recovery.RecoverWithOptions              [recover_files]
     cmd/arc createWALRecoveryCallback / createColumnarRecoveryCallback   [replay_rows] / [replay_env]
     ArrowBuffer.WriteColumnarDirectNoWAL         [write_nowal]
     ingest.normalizeTimestampColumns             [normalize_time]
     ArrowBuffer.convertColumnsToTyped            [convert]
     cluster.Coordinator.buildReplicationIngestHandler / rowsToColumns    [apply_replicated]
   Layer A (front ends, C32): the database / measurement / permission-check part of
     api.MsgPackHandler.writeMsgPack + ingest.MessagePackDecoder.Decode (generic path)
     api.LineProtocolHandler.{WriteV1,WriteInfluxDB,WriteSimple}, api.ImportHandler.handleLineProtocolImport
     ingest.BatchToColumnar, ArrowBuffer.Write / rowsToColumnar.
   A process history is an event list [event]; [run_events] interprets it over the durable state
   (WAL files, stored rows) and the volatile state (writer queue, buffer).

   Values are the boxed Go values after the msgpack library's decode (width of integers
   forgotten: every consumer below treats all signed / all unsigned widths alike).
   SanitizeUTF8 is a parameter [san] of every definition that uses it.
   [variant] switches between the code as it is and the proposed repairs; the variant the
   CURRENT source implements is regenerated into ArcGen.Params_Recovery on every run.
   Definitions only. *)
From Coq Require Import List ZArith NArith Bool String Ascii Decimal.
From Arc Require Import Lib.AList.
Import ListNotations.
Open Scope Z_scope.

(* ------------------------------------------------------------------------------------ *)
(* bytes                                                                                  *)

Definition bytes := list N.

Fixpoint bytes_eqb (a b : bytes) : bool :=
  match a, b with
  | [], [] => true
  | x :: a', y :: b' => N.eqb x y && bytes_eqb a' b'
  | _, _ => false
  end.

Definition str (s : string) : bytes := map N_of_ascii (list_ascii_of_string s).

Definition k_time : bytes := Eval compute in str "time".
Definition k_udb : bytes := Eval compute in str "_database".
Definition k_umeas : bytes := Eval compute in str "_measurement".
Definition k_db : bytes := Eval compute in str "database".
Definition k_meas : bytes := Eval compute in str "measurement".
Definition k_m : bytes := Eval compute in str "m".
Definition k_t : bytes := Eval compute in str "t".
Definition k_h : bytes := Eval compute in str "h".
Definition k_f : bytes := Eval compute in str "f".
Definition k_fields : bytes := Eval compute in str "fields".
Definition k_tags : bytes := Eval compute in str "tags".
Definition k_columns : bytes := Eval compute in str "columns".
Definition k_batch : bytes := Eval compute in str "batch".
Definition k_host : bytes := Eval compute in str "host".
Definition k_unknown : bytes := Eval compute in str "unknown".
Definition k_default : bytes := Eval compute in str "default".
Definition k_value : bytes := Eval compute in str "_value".
Definition k_measurement_ : bytes := Eval compute in str "measurement_".
Definition k_host_ : bytes := Eval compute in str "host_".

Fixpoint uint_digits (u : Decimal.uint) : bytes :=
  match u with
  | Nil => []
  | D0 r => 48%N :: uint_digits r | D1 r => 49%N :: uint_digits r | D2 r => 50%N :: uint_digits r
  | D3 r => 51%N :: uint_digits r | D4 r => 52%N :: uint_digits r | D5 r => 53%N :: uint_digits r
  | D6 r => 54%N :: uint_digits r | D7 r => 55%N :: uint_digits r | D8 r => 56%N :: uint_digits r
  | D9 r => 57%N :: uint_digits r
  end.

Definition dec (z : Z) : bytes :=                   (* fmt %v of an integer *)
  match z with
  | Z0 => [48%N]
  | Zpos p => uint_digits (Pos.to_uint p)
  | Zneg p => 45%N :: uint_digits (Pos.to_uint p)
  end.

Definition lookupb {V} (k : bytes) (l : list (bytes * V)) : option V := lookup bytes_eqb k l.
Definition removeb {V} (k : bytes) (l : list (bytes * V)) := remove bytes_eqb k l.
Definition insertb {V} (k : bytes) (v : V) (l : list (bytes * V)) := insert bytes_eqb k v l.
Definition memb (k : bytes) (l : list bytes) : bool := existsb (bytes_eqb k) l.
Definition has_key {V} (k : bytes) (l : list (bytes * V)) : bool :=
  match lookupb k l with Some _ => true | None => false end.

(* a Go map assignment m[k] = v that keeps the position of an existing key (order is only a
   presentation of the map; keeping it stable makes both routes list the cells alike) *)
Fixpoint setb {V} (k : bytes) (v : V) (l : list (bytes * V)) : list (bytes * V) :=
  match l with
  | [] => [(k, v)]
  | (k', v') :: r => if bytes_eqb k k' then (k, v) :: r else (k', v') :: setb k v r
  end.

(* ------------------------------------------------------------------------------------ *)
(* boxed values, cells                                                                    *)

Inductive gval : Type :=
| GNil
| GBool (b : bool)
| GInt (z : Z)                     (* any signed Go integer kind; int64 range *)
| GUint (z : Z)                    (* any unsigned Go integer kind; uint64 range *)
| GFloat (bits : N)                (* float64 (float32 widened), IEEE bit pattern *)
| GStr (s : bytes)
| GArr (l : list gval)
| GMap (l : list (bytes * gval))   (* map[string]interface{}: duplicate-free *)
| GOther.                          (* anything else (bin, ext, non-string-keyed map) *)

Inductive cell := CInt (z : Z) | CFloat (bits : N) | CStr (s : bytes) | CBool (b : bool).

Definition cell_eqb (a b : cell) : bool :=
  match a, b with
  | CInt x, CInt y => x =? y
  | CFloat x, CFloat y => N.eqb x y
  | CStr x, CStr y => bytes_eqb x y
  | CBool x, CBool y => Bool.eqb x y
  | _, _ => false
  end.

Definition two63 : Z := 9223372036854775808.
Definition max_i64 : Z := 9223372036854775807.
Definition min_i64 : Z := -9223372036854775808.
Definition two64 : Z := 18446744073709551616.
Definition wrap64 (z : Z) : Z := (z + two63) mod two64 - two63.

(* IEEE-754 binary64 on bit patterns *)
Definition f_sign (b : N) : bool := N.testbit b 63.
Definition f_exp (b : N) : Z := Z.of_N (N.land (N.shiftr b 52) 2047).
Definition f_man (b : N) : Z := Z.of_N (N.land b 4503599627370495).
Definition f_is_nan (b : N) : bool := (f_exp b =? 2047) && negb (f_man b =? 0).
Definition f_is_inf (b : N) : bool := (f_exp b =? 2047) && (f_man b =? 0).

(* truncation toward zero of a finite value *)
Definition f_trunc (b : N) : Z :=
  let e := f_exp b in
  let mag := if e =? 0 then 0
             else let sig := f_man b + 4503599627370496 in
                  let sh := e - 1075 in
                  if sh >=? 0 then sig * 2 ^ sh else sig / 2 ^ (- sh) in
  if f_sign b then - mag else mag.

(* int64(f) on amd64: NaN and out-of-range give MinInt64 *)
Definition f_to_i64_raw (b : N) : Z :=
  if f_is_nan b || f_is_inf b then min_i64
  else let t := f_trunc b in if (t >? max_i64) || (t <? min_i64) then min_i64 else t.

(* arrow_writer.go:toInt64 on a float64: fails when f > float64(MaxInt64) || f < float64(MinInt64) *)
Definition f_to_i64_checked (b : N) : option Z :=
  if f_is_nan b then Some min_i64
  else if f_is_inf b then None
  else let t := f_trunc b in
       if (t >? two63) || (t <? min_i64) then None else Some (f_to_i64_raw b).

(* float64(z) for an integer z (round to nearest even) *)
Definition z_to_f64 (z : Z) : N :=
  if z =? 0 then 0%N else
  let a := Z.abs z in
  let n := Z.log2 a + 1 in
  let '(sig, e) :=
    if n <=? 53 then (a * 2 ^ (53 - n), n)
    else let sh := n - 53 in
         let q := a / 2 ^ sh in let r := a mod 2 ^ sh in let half := 2 ^ (sh - 1) in
         let q' := if (r >? half) || ((r =? half) && Z.odd q) then q + 1 else q in
         if q' =? 9007199254740992 then (4503599627370496, n + 1) else (q', n) in
  Z.to_N ((if z <? 0 then two63 else 0) + (e + 1022) * 4503599627370496 + (sig - 4503599627370496)).

(* arrow_writer.go:toInt64 *)
Definition to_i64 (v : gval) : option Z :=
  match v with
  | GInt z => Some z
  | GUint z => if z >? max_i64 then None else Some z
  | GFloat b => f_to_i64_checked b
  | _ => None
  end.

(* arrow_writer.go:toFloat64 *)
Definition to_f64 (v : gval) : option N :=
  match v with
  | GFloat b => Some b
  | GInt z | GUint z => Some (z_to_f64 z)
  | _ => None
  end.

(* msgpack.go:toInt64Timestamp (no range checks: uint64 wraps, float64 converts as the CPU does) *)
Definition to_i64_ts (v : gval) : option Z :=
  match v with
  | GInt z => Some z
  | GUint z => Some (wrap64 z)
  | GFloat b => Some (f_to_i64_raw b)
  | _ => None
  end.

(* ------------------------------------------------------------------------------------ *)
(* columns, normalisation, sanitising, typed conversion                                   *)

Definition columns := list (bytes * list gval).

Definition mult_of (ts : Z) : Z :=
  if ts <? 10000000000 then 1000000
  else if ts <? 10000000000000 then 1000
  else if ts <? 10000000000000000 then 1
  else (-1000).

Definition scale (mult ts : Z) : Z :=
  if mult <? 0 then Z.quot ts (- mult) else wrap64 (ts * mult).

Fixpoint scale_all (mult : Z) (l : list gval) : option (list gval) :=
  match l with
  | [] => Some []
  | v :: r => match to_i64_ts v, scale_all mult r with
              | Some ts, Some r' => Some (GInt (scale mult ts) :: r')
              | _, _ => None
              end
  end.

(* normalizeTimestampColumns: the unit is guessed from the FIRST value *)
Definition normalize_time (cols : columns) : option columns :=
  match lookupb k_time cols with
  | None | Some [] => Some cols
  | Some ((v0 :: _) as tc) =>
      match to_i64_ts v0 with
      | None => None
      | Some first => match scale_all (mult_of first) tc with
                      | Some tc' => Some (setb k_time tc' cols)
                      | None => None
                      end
      end
  end.

Definition san_val (san : bytes -> bytes) (v : gval) : gval :=
  match v with GStr s => GStr (san s) | _ => v end.
Definition sanitize_cols (san : bytes -> bytes) (cols : columns) : columns :=
  map (fun nc => (fst nc, map (san_val san) (snd nc))) cols.

Inductive kind := KInt | KFloat | KStr | KBool | KNull.

Fixpoint first_non_nil (l : list gval) : option gval :=
  match l with
  | [] => None
  | GNil :: r => first_non_nil r
  | v :: _ => Some v
  end.

Definition kind_of (v : gval) : option kind :=
  match v with
  | GInt _ | GUint _ => Some KInt
  | GFloat _ => Some KFloat
  | GStr _ => Some KStr
  | GBool _ => Some KBool
  | _ => None
  end.

(* one value of a column of kind k: None = conversion error, Some None = NULL *)
Definition conv_val (k : kind) (v : gval) : option (option cell) :=
  match v with
  | GNil => Some None
  | _ => match k with
         | KInt => match to_i64 v with Some z => Some (Some (CInt z)) | None => None end
         | KFloat => match to_f64 v with Some b => Some (Some (CFloat b)) | None => None end
         | KStr => match v with GStr s => Some (Some (CStr s)) | _ => None end
         | KBool => match v with GBool b => Some (Some (CBool b)) | _ => None end
         | KNull => None
         end
  end.

Definition conv_time_val (v : gval) : option (option cell) :=
  match v with
  | GNil => None                                   (* "time column cannot contain null values" *)
  | _ => match to_i64 v with Some z => Some (Some (CInt z)) | None => None end
  end.

Fixpoint conv_all (f : gval -> option (option cell)) (l : list gval) : option (list (option cell)) :=
  match l with
  | [] => Some []
  | v :: r => match f v, conv_all f r with
              | Some c, Some r' => Some (c :: r')
              | _, _ => None
              end
  end.

(* convertColumnsToTyped for one column *)
Definition conv_col (name : bytes) (col : list gval) : option (list (option cell)) :=
  match first_non_nil col with
  | None => if bytes_eqb name k_time then None else Some (map (fun _ => None) col)
  | Some fv =>
      if bytes_eqb name k_time then
        match fv with GStr _ => None | _ => conv_all conv_time_val col end
      else match kind_of fv with
           | Some k => conv_all (conv_val k) col
           | None => None
           end
  end.

Definition tcolumns := list (bytes * list (option cell)).

(* convertColumnsToTyped: empty columns are skipped *)
Fixpoint convert (cols : columns) : option tcolumns :=
  match cols with
  | [] => Some []
  | (n, []) :: r => convert r
  | (n, col) :: r => match conv_col n col, convert r with
                     | Some c, Some r' => Some ((n, c) :: r')
                     | _, _ => None
                     end
  end.

(* ------------------------------------------------------------------------------------ *)
(* stored rows: what a query sees                                                         *)

Definition row := list (bytes * cell).       (* non-NULL cells of the columns Parquet keeps *)

Definition dir_t := (bytes * bytes)%type.
Record srow := { r_dir : dir_t; r_cells : row }.   (* (database, measurement) directory *)

(* inferSchema / getSchema skip columns whose name starts with '_' *)
Definition stored_name (n : bytes) : bool :=
  match n with 95%N :: _ => false | _ => true end.

Definition nonempty_name (n : bytes) : bool := match n with [] => false | _ => true end.

Definition num_rows (t : tcolumns) : nat :=
  match t with [] => O | (_, c) :: _ => List.length c end.

Fixpoint row_at (t : tcolumns) (i : nat) : row :=
  match t with
  | [] => []
  | (n, c) :: r =>
      match (if stored_name n then nth i c None else None) with
      | Some x => (n, x) :: row_at r i
      | None => row_at r i
      end
  end.

Definition rows_of (db meas : bytes) (t : tcolumns) : list srow :=
  map (fun i => {| r_dir := (db, meas); r_cells := row_at t i |}) (seq 0 (num_rows t)).

(* bufferSchemaKey of the typed batch (code after commit 5cfca39): name and type of EVERY non-empty
   column, '_'-prefixed ones included (a buffer whose key differs from the incoming batch's is
   flushed first: flushOnSchemaChangeLocked) *)
Definition kind_eqb (a b : kind) : bool :=
  match a, b with
  | KInt, KInt | KFloat, KFloat | KStr, KStr | KBool, KBool | KNull, KNull => true
  | _, _ => false
  end.

Definition signature := list (bytes * kind).

Fixpoint sig_of (cols : columns) : signature :=
  match cols with
  | [] => []
  | (n, []) :: r => sig_of r
  | (n, col) :: r =>
      (n, if bytes_eqb n k_time then KInt
          else match first_non_nil col with
               | None => KStr
               | Some fv => match kind_of fv with Some k => k | None => KNull end
               end) :: sig_of r
  end.

Definition sig_mem (x : bytes * kind) (l : signature) : bool :=
  existsb (fun y => bytes_eqb (fst x) (fst y) && kind_eqb (snd x) (snd y)) l.
Definition sig_eqb (a b : signature) : bool :=
  Nat.eqb (List.length a) (List.length b) && forallb (fun x => sig_mem x b) a && forallb (fun x => sig_mem x a) b.

(* hour partition a flush files a row under (HourBucketID: floor division) *)
Definition hour_of (r : row) : option Z :=
  match lookupb k_time r with Some (CInt t) => Some (t / 3600000000) | _ => None end.

(* ------------------------------------------------------------------------------------ *)
(* variants: the code as it is / with the proposed repairs                                *)

Record variant := {
  v_routing_last : bool;        (* columnarToWALRecords writes _database/_measurement AFTER the columns *)
  v_strict_keys : bool;         (* row callback: legacy keys measurement/m/database only for rows without _measurement *)
  v_rows_no_renorm : bool;      (* row replay does not guess the time unit again *)
  v_flush_before_delete : bool; (* recovery flushes the replayed rows before deleting the WAL file *)
  v_int_m : bool;               (* parseColumnarEntry / the replica accept the integer measurement ids the decoder accepts *)
  v_repl_rows : bool;           (* the replica routes row-format entries by the rows' _database (strict keys, no time re-scaling) *)
  v_empty_meas_checked : bool;  (* extractMeasurements does not skip the empty measurement name *)
  v_convert_first : bool        (* writeColumnarInternal converts before it appends to the WAL *)
}.

Definition v_current : variant :=
  {| v_routing_last := false; v_strict_keys := false; v_rows_no_renorm := false;
     v_flush_before_delete := false; v_int_m := false; v_repl_rows := false;
     v_empty_meas_checked := false; v_convert_first := false |}.
Definition v_fixed : variant :=
  {| v_routing_last := true; v_strict_keys := true; v_rows_no_renorm := true;
     v_flush_before_delete := true; v_int_m := true; v_repl_rows := true;
     v_empty_meas_checked := true; v_convert_first := true |}.

(* ------------------------------------------------------------------------------------ *)
(* what is appended to the WAL                                                            *)

Definition rowmap := list (bytes * gval).
Definition topmap := list (bytes * gval).     (* decoded top-level map of a msgpack payload *)

Inductive entry :=
| EEnv (db : bytes) (top : topmap)            (* AppendRawWithMeta: envelope + the client's bytes *)
| ERows (recs : list rowmap).                 (* Append: msgpack array of row maps *)

Inductive bwrite :=
| BRows (db meas : bytes) (cols : columns)      (* a ColumnarRecord without raw payload: LP, msgpack row / batch / array *)
| BRaw (db : bytes) (top : topmap).             (* a top-level msgpack columnar map: its client bytes go to the WAL *)

Definition cols_row (cols : columns) (i : nat) : rowmap :=
  flat_map (fun nc => match nth_error (snd nc) i with Some v => [(fst nc, v)] | None => [] end) cols.

Definition routing (db meas : bytes) : rowmap := [(k_udb, GStr db); (k_umeas, GStr meas)].
Definition is_routing_u (k : bytes) : bool := bytes_eqb k k_udb || bytes_eqb k k_umeas.

Definition wal_row (v : variant) (db meas : bytes) (cols : columns) (i : nat) : rowmap :=
  let cr := cols_row cols i in
  if v_routing_last v
  then routing db meas ++ filter (fun kv => negb (is_routing_u (fst kv))) cr
  else cr ++ filter (fun kv => negb (has_key (fst kv) cr)) (routing db meas).

(* columnarToWALRecords (row count = length of the first column; all columns that reach it
   have one length) *)
Definition wal_rows (v : variant) (db meas : bytes) (cols : columns) : list rowmap :=
  match cols with
  | [] => []
  | (_, c0) :: _ => map (wal_row v db meas cols) (seq 0 (List.length c0))
  end.

(* ------------------------------------------------------------------------------------ *)
(* reading an entry back and replaying it                                                 *)

Definition extract_meas (m : option gval) : option bytes :=    (* MessagePackDecoder.extractMeasurement *)
  match m with
  | Some (GStr s) => Some s
  | Some (GInt z) | Some (GUint z) => Some (k_measurement_ ++ dec z)
  | _ => None
  end.

Fixpoint array_cols (l : list (bytes * gval)) : columns :=
  match l with
  | [] => []
  | (k, GArr a) :: r => (k, a) :: array_cols r
  | _ :: r => array_cols r
  end.

Inductive rentry := RCol (db meas : bytes) (cols : columns) | RRec (recs : list rowmap).

(* Reader.readEntry + parseColumnarEntry; None = "unrecognized WAL entry format" (skipped) *)
Definition read_entry (v : variant) (e : entry) : option rentry :=
  match e with
  | ERows recs => Some (RRec recs)
  | EEnv db top =>
      let m := if v_int_m v then extract_meas (lookupb k_m top)
               else match lookupb k_m top with Some (GStr s) => Some s | _ => None end in
      match m, lookupb k_columns top with
      | Some meas, Some (GMap l) => Some (RCol db meas (array_cols l))
      | _, _ => None
      end
  end.

Definition all_len (n : nat) (cols : columns) : bool :=
  forallb (fun nc => Nat.eqb (List.length (snd nc)) n) cols.

(* decodeColumnar (generic path) on the decoded top-level map: measurement and the validated,
   time-normalised, sanitised columns; None = the request is rejected (nothing is appended) *)
Definition decode_columnar (san : bytes -> bytes) (now : Z) (top : topmap) (cols : columns) : option (bytes * columns) :=
  match extract_meas (lookupb k_m top) with
  | None => None
  | Some meas =>
      match cols with
      | [] => None
      | (_, c0) :: _ =>
          let n := List.length c0 in
          if negb (all_len n cols) then None else
          let cols1 := match lookupb k_time cols with
                       | Some (_ :: _) => cols
                       | Some [] => setb k_time (repeat (GInt now) n) cols
                       | None => cols ++ [(k_time, repeat (GInt now) n)]
                       end in
          match normalize_time cols1 with
          | None => None
          | Some cols2 => Some (meas, sanitize_cols san cols2)
          end
      end
  end.


Definition raw_parts (san : bytes -> bytes) (now : Z) (top : topmap) : option (bytes * columns) :=
  match lookupb k_columns top with
  | Some (GMap l) => decode_columnar san now top (array_cols l)
  | _ => None
  end.

(* database, measurement and columns handed to writeColumnarInternal *)
Definition bw_parts (san : bytes -> bytes) (now : Z) (w : bwrite) : option (bytes * bytes * columns) :=
  match w with
  | BRows db meas cols => Some (db, meas, cols)
  | BRaw db top => match raw_parts san now top with Some (meas, cols) => Some (db, meas, cols) | None => None end
  end.

Definition wal_entries (v : variant) (w : bwrite) : list entry :=
  match w with
  | BRaw db top => [EEnv db top]
  | BRows db meas cols => match wal_rows v db meas cols with
                          | [] => []
                          | recs => [ERows recs]
                          end
  end.

(* rows the live path buffers for one buffer write (None: convertColumnsToTyped failed, the
   request is answered with an error - AFTER the WAL append) *)
Definition live_batch (san : bytes -> bytes) (now : Z) (w : bwrite) : option (list srow * signature) :=
  match bw_parts san now w with
  | Some (db, meas, cols) =>
      match convert cols with
      | Some t => Some (rows_of db meas t, sig_of cols)
      | None => None
      end
  | None => None
  end.
Definition live_rows (san : bytes -> bytes) (now : Z) (w : bwrite) : option (list srow) := option_map fst (live_batch san now w).

(* ArrowBuffer.WriteColumnarDirectNoWAL; [now] = the clock reading used when the entry has no
   time column; None = the call returns an error *)
Definition write_nowal (san : bytes -> bytes) (renorm : bool) (now : Z)
           (db meas : bytes) (cols : columns) : option (list srow * signature) :=
  match cols with
  | [] => None
  | (_, c0) :: _ =>
      let n := List.length c0 in
      if negb (all_len n cols) then None
      else if Nat.eqb n 0 then None
      else
        let cols1 := if has_key k_time cols then cols else cols ++ [(k_time, repeat (GInt now) n)] in
        match (if renorm then normalize_time cols1 else Some cols1) with
        | None => None
        | Some cols2 =>
            match convert (sanitize_cols san cols2) with
            | Some t => Some (rows_of db meas t, sig_of (sanitize_cols san cols2))
            | None => None
            end
        end
  end.

(* createColumnarRecoveryCallback *)
Definition replay_env (san : bytes -> bytes) (now : Z) (db meas : bytes) (cols : columns) : option (list srow * signature) :=
  write_nowal san true now (match db with [] => k_default | _ => db end) meas cols.

Definition str_key (k : bytes) (rec : rowmap) : bytes :=
  match lookupb k rec with Some (GStr s) => s | _ => [] end.
Definition nonempty (b : bytes) : bool := match b with [] => false | _ => true end.

(* createWALRecoveryCallback, one record: None = skipped (no measurement) *)
Definition rec_route (v : variant) (rec : rowmap) : option (bytes * bytes * columns) :=
  let um := str_key k_umeas rec in
  let legacy := negb (v_strict_keys v) || negb (nonempty um) in
  let meas := if nonempty um then um
              else if nonempty (str_key k_meas rec) then str_key k_meas rec else str_key k_m rec in
  if negb (nonempty meas) then None else
  let udb := str_key k_udb rec in
  let db := if nonempty udb then udb
            else if legacy && nonempty (str_key k_db rec) then str_key k_db rec else k_default in
  let drop k := is_routing_u k ||
                (legacy && (bytes_eqb k k_meas || bytes_eqb k k_m || bytes_eqb k k_db)) in
  Some (db, meas, map (fun kv => (fst kv, [snd kv])) (filter (fun kv => negb (drop (fst kv))) rec)).

(* the callback over the records of one entry: rows buffered so far, and whether it returned nil *)
Definition batch := (list srow * signature)%type.     (* one buffer append: its rows and its column signature *)

Fixpoint replay_recs (v : variant) (san : bytes -> bytes) (now : Z) (recs : list rowmap) : list batch * bool :=
  match recs with
  | [] => ([], true)
  | rec :: r =>
      match rec_route v rec with
      | None => replay_recs v san now r
      | Some (db, meas, cols) =>
          match write_nowal san (negb (v_rows_no_renorm v)) now db meas cols with
          | None => ([], false)
          | Some b => let '(rs, ok) := replay_recs v san now r in (b :: rs, ok)
          end
      end
  end.

(* RecoverWithOptions over the entries of one file: rows re-buffered, "all entries succeeded" *)
Fixpoint replay_file (v : variant) (san : bytes -> bytes) (now : Z) (es : list entry) : list batch * bool :=
  match es with
  | [] => ([], true)
  | e :: r =>
      match read_entry v e with
      | None => replay_file v san now r                       (* reader skipped it *)
      | Some (RCol db meas cols) =>
          match replay_env san now db meas cols with
          | None => let '(rs, _) := replay_file v san now r in (rs, false)     (* continue *)
          | Some b => let '(rs, ok) := replay_file v san now r in (b :: rs, ok)
          end
      | Some (RRec recs) =>
          let '(rows, ok) := replay_recs v san now recs in
          if ok then let '(rs, ok') := replay_file v san now r in (rows ++ rs, ok')
          else (rows, false)                                                    (* break *)
      end
  end.

(* ------------------------------------------------------------------------------------ *)
(* the replica route: buildReplicationIngestHandler on the hook's payload                 *)

Definition rec_meas_repl (rec : rowmap) : bytes :=
  let um := str_key k_umeas rec in
  if nonempty um then um else if nonempty (str_key k_meas rec) then str_key k_meas rec else str_key k_m rec.

Definition drop5 (k : bytes) : bool :=
  is_routing_u k || bytes_eqb k k_meas || bytes_eqb k k_m || bytes_eqb k k_db.

(* rowsToColumns over the rows of one measurement group (first-seen column order) *)
Fixpoint rows_to_columns_keys (rows : list rowmap) (acc : list bytes) : list bytes :=
  match rows with
  | [] => acc
  | r :: rest =>
      rows_to_columns_keys rest
        (fold_left (fun a kv => if drop5 (fst kv) || memb (fst kv) a then a else a ++ [fst kv]) r acc)
  end.

Definition rows_to_columns (rows : list rowmap) : columns :=
  map (fun k => (k, map (fun r => match lookupb k r with Some x => x | None => GNil end) rows))
      (rows_to_columns_keys rows []).

Fixpoint group_names (recs : list rowmap) (acc : list bytes) : list bytes :=
  match recs with
  | [] => acc
  | r :: rest => let m := rec_meas_repl r in
                 group_names rest (if negb (nonempty m) || memb m acc then acc else acc ++ [m])
  end.

(* rows a replica buffers for one replicated payload; errors of single groups end the entry *)
Fixpoint apply_groups (san : bytes -> bytes) (now : Z) (db : bytes) (recs : list rowmap) (ms : list bytes) : list srow :=
  match ms with
  | [] => []
  | m :: rest =>
      let cols := rows_to_columns (filter (fun r => bytes_eqb (rec_meas_repl r) m) recs) in
      match cols with
      | [] => apply_groups san now db recs rest
      | _ => match write_nowal san true now db m cols with
             | Some b => fst b ++ apply_groups san now db recs rest
             | None => []          (* iteration order of the groups is Go map order: see f_det *)
             end
      end
  end.

(* ---- the repaired row branch: route every row like the recovery callback does ---- *)

Definition strict_v : variant :=
  {| v_routing_last := true; v_strict_keys := true; v_rows_no_renorm := true; v_flush_before_delete := true;
     v_int_m := true; v_repl_rows := true; v_empty_meas_checked := true; v_convert_first := true |}.

(* (database, measurement) a replicated row is routed to; None = skipped *)
Definition repl_target (dflt : bytes) (rec : rowmap) : option dir_t :=
  match rec_route strict_v rec with
  | Some (db, meas, _) =>
      Some (if nonempty (str_key k_udb rec) then db
            else if negb (nonempty (str_key k_umeas rec)) && nonempty (str_key k_db rec) then db else dflt, meas)
  | None => None
  end.

Definition dir_t_eqb (a b : dir_t) : bool := bytes_eqb (fst a) (fst b) && bytes_eqb (snd a) (snd b).

Fixpoint group_targets (dflt : bytes) (recs : list rowmap) (acc : list dir_t) : list dir_t :=
  match recs with
  | [] => acc
  | r :: rest =>
      group_targets dflt rest
        (match repl_target dflt r with
         | Some t => if existsb (dir_t_eqb t) acc then acc else acc ++ [t]
         | None => acc
         end)
  end.

Definition strict_drop (rec : rowmap) (k : bytes) : bool :=
  is_routing_u k || (negb (nonempty (str_key k_umeas rec)) && (bytes_eqb k k_meas || bytes_eqb k k_m || bytes_eqb k k_db)).

Fixpoint strict_columns_keys (rows : list rowmap) (acc : list bytes) : list bytes :=
  match rows with
  | [] => acc
  | r :: rest =>
      strict_columns_keys rest
        (fold_left (fun a kv => if strict_drop r (fst kv) || memb (fst kv) a then a else a ++ [fst kv]) r acc)
  end.

Definition strict_columns (rows : list rowmap) : columns :=
  map (fun k => (k, map (fun r => if strict_drop r k then GNil
                                  else match lookupb k r with Some x => x | None => GNil end) rows))
      (strict_columns_keys rows []).

Fixpoint apply_targets (san : bytes -> bytes) (now : Z) (dflt : bytes) (recs : list rowmap) (ts : list dir_t) : list srow :=
  match ts with
  | [] => []
  | t :: rest =>
      let rows := filter (fun r => match repl_target dflt r with Some t' => dir_t_eqb t t' | None => false end) recs in
      match strict_columns rows with
      | [] => apply_targets san now dflt recs rest
      | cols => match write_nowal san false now (fst t) (snd t) cols with
                | Some b => fst b ++ apply_targets san now dflt recs rest
                | None => []
                end
      end
  end.

Definition apply_replicated (v : variant) (san : bytes -> bytes) (now : Z) (e : entry) : list srow :=
  match e with
  | EEnv db top =>
      let m := if v_int_m v then extract_meas (lookupb k_m top)
               else match lookupb k_m top with Some (GStr s) => Some s | _ => None end in
      match m, lookupb k_columns top with
      | Some meas, Some (GMap l) =>
          if nonempty meas && negb (Nat.eqb (List.length l) 0) && negb (Nat.eqb (List.length (array_cols l)) 0) then
            match write_nowal san true now db meas (array_cols l) with Some b => fst b | None => [] end
          else []       (* falls to the row branch, which cannot decode a map: skipped *)
      | _, _ => []
      end
  | ERows recs =>
      if v_repl_rows v then apply_targets san now k_default recs (group_targets k_default recs [])
      else apply_groups san now k_default recs (group_names recs [])
  end.

(* ------------------------------------------------------------------------------------ *)
(* process histories over durable + volatile state                                        *)

Definition dir := (bytes * bytes)%type.
Definition dir_eqb (a b : dir) : bool := bytes_eqb (fst a) (fst b) && bytes_eqb (snd a) (snd b).

Record state := {
  s_files : list (list entry);   (* durable: inactive WAL files, oldest first *)
  s_store : list srow;           (* durable: rows in Parquet files *)
  s_run : bool;                  (* a process is alive *)
  s_act : list entry;            (* durable: the live process's active WAL file *)
  s_gate : bool;                 (* the writer goroutine is consuming its queue *)
  s_chan : list entry;           (* volatile: enqueued, not yet written *)
  s_buf : list srow;             (* volatile: rows buffered by live writes *)
  s_rbuf : list srow;            (* volatile: rows re-buffered by WAL replay (not covered by any WAL entry) *)
  s_sigs : list (dir * signature);   (* volatile: column signature of every non-empty buffer *)
  s_repl : bool;                 (* a replica is attached to the replication hook *)
  s_rot : bool;                  (* MaxSizeBytes is tiny: the writer rotates to a fresh file after every entry *)
  s_replica : list srow;         (* rows the replica has been handed *)
  s_due : list srow;             (* ghost: rows of acknowledged writes whose entries reached a file *)
  s_pend : list srow             (* ghost: rows of acknowledged writes still in the writer queue *)
}.

Definition st0 : state :=
  {| s_files := []; s_store := []; s_run := false; s_act := []; s_gate := false; s_chan := [];
     s_buf := []; s_rbuf := []; s_sigs := []; s_repl := false; s_rot := false; s_replica := []; s_due := []; s_pend := [] |}.

Inductive event :=
| EStart (hold repl rot : bool)     (* rot: size-triggered rotation after every entry (tiny MaxSizeBytes) *)
| EWrite (now : Z) (ws : list bwrite) (tail_ok : bool)
      (* one request = the buffer writes its front end issues, in order; tail_ok = false: after them the
         buffer refuses a further element, so the request is answered with an error *)
| EPersist
| EFlush
| ERecover (now : Z) (crash_at : nat)     (* crash_at = n > 0: killed right before the n-th file deletion *)
| ERecoverFault (now : Z) (fd : dir)      (* recovery while the storage rejects every write under directory fd *)
| ECrash.

Definition set_files (s : state) f := {| s_files := f; s_store := s_store s; s_run := s_run s; s_act := s_act s;
  s_gate := s_gate s; s_chan := s_chan s; s_buf := s_buf s; s_rbuf := s_rbuf s; s_sigs := s_sigs s; s_repl := s_repl s; s_rot := s_rot s;
  s_replica := s_replica s; s_due := s_due s; s_pend := s_pend s |}.

(* the three buffer components at once *)
Definition set_buffers (s : state) store buf rbuf sigs := {| s_files := s_files s; s_store := store; s_run := s_run s;
  s_act := s_act s; s_gate := s_gate s; s_chan := s_chan s; s_buf := buf; s_rbuf := rbuf; s_sigs := sigs;
  s_repl := s_repl s; s_rot := s_rot s; s_replica := s_replica s; s_due := s_due s; s_pend := s_pend s |}.

Definition crash (s : state) : state :=
  if s_run s then
    {| s_files := s_files s ++ [s_act s]; s_store := s_store s; s_run := false; s_act := []; s_gate := false;
       s_chan := []; s_buf := []; s_rbuf := []; s_sigs := []; s_repl := false; s_rot := false; s_replica := s_replica s;
       s_due := s_due s; s_pend := [] |}
  else s.

(* FlushAll *)
Definition flush (s : state) : state :=
  set_buffers s (s_store s ++ s_buf s ++ s_rbuf s) [] [] [].

Definition in_dir (d : dir) (r : srow) : bool := dir_eqb (r_dir r) d.
Definition not_in_dir (d : dir) (r : srow) : bool := negb (in_dir d r).

(* flushBufferLocked for one buffer key *)
Definition flush_key (s : state) (d : dir) : state :=
  set_buffers s (s_store s ++ filter (in_dir d) (s_buf s) ++ filter (in_dir d) (s_rbuf s))
              (filter (not_in_dir d) (s_buf s)) (filter (not_in_dir d) (s_rbuf s))
              (remove dir_eqb d (s_sigs s)).

(* the buffering half of writeColumnarInternal: schema-change flush, then append *)
Definition buffer_add (s : state) (d : dir) (b : batch) (replayed : bool) : state :=
  let s1 := match lookup dir_eqb d (s_sigs s) with
            | Some sg => if sig_eqb sg (snd b) then s else flush_key s d
            | None => s
            end in
  set_buffers s1 (s_store s1)
              (if replayed then s_buf s1 else s_buf s1 ++ fst b)
              (if replayed then s_rbuf s1 ++ fst b else s_rbuf s1)
              (insert dir_eqb d (snd b) (s_sigs s1)).

Definition batch_dir (db meas : bytes) : dir := (db, meas).

(* the writer goroutine writes entries to the active file; with rotation it moves to a fresh
   file after each of them (writeEntry: write, then rotate when currentSize >= MaxSizeBytes) - the
   file rotated away from becomes an inactive file, nothing is lost or re-framed *)
Fixpoint log_append (rot : bool) (files : list (list entry)) (act : list entry) (es : list entry)
  : list (list entry) * list entry :=
  match es with
  | [] => (files, act)
  | e :: r => if rot then log_append rot (files ++ [act ++ [e]]) [] r
              else log_append rot files (act ++ [e]) r
  end.

(* one buffer write of a live request: WAL append (+ replication hook), conversion, buffering *)
Definition write1 (v : variant) (san : bytes -> bytes) (now : Z) (s : state) (w : bwrite) : state * option (list srow) :=
  match bw_parts san now w with
  | None => (s, None)
  | Some (db, meas, _) =>
  let es := wal_entries v w in
  let s1 := {| s_files := if s_gate s then fst (log_append (s_rot s) (s_files s) (s_act s) es) else s_files s;
               s_store := s_store s; s_run := s_run s;
               s_act := if s_gate s then snd (log_append (s_rot s) (s_files s) (s_act s) es) else s_act s;
               s_gate := s_gate s; s_chan := if s_gate s then s_chan s else s_chan s ++ es;
               s_buf := s_buf s; s_rbuf := s_rbuf s; s_sigs := s_sigs s; s_repl := s_repl s; s_rot := s_rot s;
               s_replica := if s_repl s then s_replica s ++ flat_map (apply_replicated v san now) es else s_replica s;
               s_due := s_due s; s_pend := s_pend s |} in
  match live_batch san now w with
  | None => (if v_convert_first v then s else s1, None)     (* rejected: nothing appended when the conversion comes first *)
  | Some b => (buffer_add s1 (batch_dir db meas) b false, Some (fst b))
  end
  end.

(* the writes of one request, stopping at the first failing one; (state, rows buffered, acknowledged) *)
Fixpoint write_all (v : variant) (san : bytes -> bytes) (now : Z) (s : state) (ws : list bwrite) : state * list srow * bool :=
  match ws with
  | [] => (s, [], true)
  | w :: r =>
      match write1 v san now s w with
      | (s1, None) => (s1, [], false)
      | (s1, Some rows) => let '(s2, rs, ok) := write_all v san now s1 r in (s2, rows ++ rs, ok)
      end
  end.

Definition add_due (s : state) (rows : list srow) : state :=
  {| s_files := s_files s; s_store := s_store s; s_run := s_run s; s_act := s_act s; s_gate := s_gate s;
     s_chan := s_chan s; s_buf := s_buf s; s_rbuf := s_rbuf s; s_sigs := s_sigs s; s_repl := s_repl s; s_rot := s_rot s;
     s_replica := s_replica s;
     s_due := if s_gate s then s_due s ++ rows else s_due s;
     s_pend := if s_gate s then s_pend s else s_pend s ++ rows |}.

Definition persist (s : state) : state :=
  {| s_files := fst (log_append (s_rot s) (s_files s) (s_act s) (s_chan s)); s_store := s_store s; s_run := s_run s;
     s_act := snd (log_append (s_rot s) (s_files s) (s_act s) (s_chan s)); s_gate := true;
     s_chan := []; s_buf := s_buf s; s_rbuf := s_rbuf s; s_sigs := s_sigs s; s_repl := s_repl s; s_rot := s_rot s;
     s_replica := s_replica s; s_due := s_due s ++ s_pend s; s_pend := [] |}.

Definition batch_key (b : batch) : option dir :=
  match fst b with r :: _ => Some (r_dir r) | [] => None end.

(* re-buffering the batches a WAL file replays to (every replayed batch has >= 1 row) *)
Fixpoint rebuffer (s : state) (bs : list batch) : state :=
  match bs with
  | [] => s
  | b :: r => rebuffer (match batch_key b with Some d => buffer_add s d b true | None => s end) r
  end.

(* RecoverWithOptions over the inactive files, oldest first.  [kept] = files already passed
   over and kept; [crash_at] counts deletions down to the requested kill. *)
Fixpoint recover_files (v : variant) (san : bytes -> bytes) (now : Z) (s : state)
         (todo kept : list (list entry)) (crash_at : nat) : state :=
  match todo with
  | [] => set_files s kept
  | f :: rest =>
      let '(bs, ok) := replay_file v san now f in
      let s1 := rebuffer s bs in
      if ok then
        (* FlushReplayed is called for a file with at least one decoded entry *)
        let s2 := if v_flush_before_delete v && existsb (fun e => match read_entry v e with Some _ => true | None => false end) f
                  then flush s1 else s1 in
        match crash_at with
        | 1%nat => crash (set_files s2 (kept ++ f :: rest))          (* killed before this delete *)
        | _ => recover_files v san now s2 rest kept (Nat.pred crash_at)
        end
      else recover_files v san now s1 rest (kept ++ [f]) crash_at
  end.

(* ---- storage faults during recovery: every Parquet write under directory [fd] fails ---------- *)

(* flushBufferLocked on a failing write: the rows are dropped from memory ("data preserved in WAL"),
   the buffer entry is deleted and the error is returned *)
Definition flush_key_fault (s : state) (d fd : dir) : state :=
  if dir_eqb d fd
  then set_buffers s (s_store s) (filter (not_in_dir d) (s_buf s)) (filter (not_in_dir d) (s_rbuf s))
                   (remove dir_eqb d (s_sigs s))
  else flush_key s d.

(* FlushAll: every buffer is flushed; the result says whether one of them failed *)
Definition flush_fault (s : state) (fd : dir) : state * bool :=
  (set_buffers s (s_store s ++ filter (not_in_dir fd) (s_buf s) ++ filter (not_in_dir fd) (s_rbuf s)) [] [] [],
   existsb (in_dir fd) (s_buf s ++ s_rbuf s)).

Definition buffer_add_fault (s : state) (d : dir) (b : batch) (replayed : bool) (fd : dir) : state :=
  let s1 := match lookup dir_eqb d (s_sigs s) with
            | Some sg => if sig_eqb sg (snd b) then s else flush_key_fault s d fd   (* the error is only logged *)
            | None => s
            end in
  set_buffers s1 (s_store s1)
              (if replayed then s_buf s1 else s_buf s1 ++ fst b)
              (if replayed then s_rbuf s1 ++ fst b else s_rbuf s1)
              (insert dir_eqb d (snd b) (s_sigs s1)).

Fixpoint rebuffer_fault (s : state) (bs : list batch) (fd : dir) : state :=
  match bs with
  | [] => s
  | b :: r => rebuffer_fault (match batch_key b with Some d => buffer_add_fault s d b true fd | None => s end) r fd
  end.

(* RecoverWithOptions under the fault: a file whose FlushReplayed call returns an error is kept *)
Fixpoint recover_files_fault (v : variant) (san : bytes -> bytes) (now : Z) (s : state)
         (todo kept : list (list entry)) (fd : dir) : state :=
  match todo with
  | [] => set_files s kept
  | f :: rest =>
      let '(bs, ok) := replay_file v san now f in
      let s1 := rebuffer_fault s bs fd in
      if ok then
        if v_flush_before_delete v && existsb (fun e => match read_entry v e with Some _ => true | None => false end) f
        then let '(s2, err) := flush_fault s1 fd in
             if err then recover_files_fault v san now s2 rest (kept ++ [f]) fd
             else recover_files_fault v san now s2 rest kept fd
        else recover_files_fault v san now s1 rest kept fd
      else recover_files_fault v san now s1 rest (kept ++ [f]) fd
  end.

Definition step (v : variant) (san : bytes -> bytes) (s : state) (e : event) : state :=
  match e with
  | EStart hold repl rot =>
      if s_run s then s else
      {| s_files := s_files s; s_store := s_store s; s_run := true; s_act := []; s_gate := negb hold; s_chan := [];
         s_buf := []; s_rbuf := []; s_sigs := []; s_repl := repl; s_rot := rot; s_replica := s_replica s; s_due := s_due s; s_pend := [] |}
  | EWrite now ws tail_ok =>
      if s_run s then
        let '(s1, rows, ok) := write_all v san now s ws in
        if ok && tail_ok then add_due s1 rows else s1
      else s
  | EPersist => if s_run s then persist s else s
  | EFlush => if s_run s then flush s else s
  | ERecover now n => if s_run s then recover_files v san now s (s_files s) [] n else s
  | ERecoverFault now fd => if s_run s then recover_files_fault v san now s (s_files s) [] fd else s
  | ECrash => crash s
  end.

Definition run_events (v : variant) (san : bytes -> bytes) (s : state) (evs : list event) : state :=
  fold_left (step v san) evs s.

(* what the next startup does: new process, recovery, flush *)
Definition restart (now : Z) : list event := [ECrash; EStart false false false; ERecover now 0; EFlush].

(* ------------------------------------------------------------------------------------ *)
(* Layer A: front ends - database, measurements, permission checks, buffer writes          *)

Definition is_alpha (c : N) : bool := ((65 <=? c) && (c <=? 90) || (97 <=? c) && (c <=? 122))%N.
Definition is_name_char (c : N) : bool := (is_alpha c || (48 <=? c) && (c <=? 57) || (c =? 95) || (c =? 45))%N.

(* api.isValidDatabaseName / isValidMeasurementName *)
Definition valid_name (maxlen : nat) (s : bytes) : bool :=
  match s with
  | [] => false
  | c :: r => is_alpha c && forallb is_name_char r && Nat.leb (List.length s) maxlen
  end.
Definition valid_db := valid_name 64.
Definition valid_meas := valid_name 128.

Fixpoint dedup (l : list bytes) (acc : list bytes) : list bytes :=
  match l with
  | [] => acc
  | x :: r => dedup r (if memb x acc then acc else acc ++ [x])
  end.

(* ---- line protocol ---- *)

Inductive precision := PNs | PUs | PMs | PS | PBad.
Inductive lp_endpoint := LPv1 | LPv2 | LPSimple | LPImport.

Record point := { p_meas : bytes; p_tags : list (bytes * bytes); p_fields : list (bytes * gval); p_ts : Z }.

(* parseLineWithPrecision's timestamp conversion; [now] when the overflow guard trips *)
Definition lp_ts (now : Z) (p : precision) (raw : Z) : Z :=
  match p with
  | PUs => raw
  | PMs => if (raw <=? max_i64 / 1000) && (Z.quot min_i64 1000 <=? raw) then raw * 1000 else now
  | PS => if (raw <=? max_i64 / 1000000) && (Z.quot min_i64 1000000 <=? raw) then raw * 1000000 else now
  | _ => Z.quot raw 1000
  end.

(* the cells BatchToColumnar fills for one record: time, then tags, then fields (a field
   whose key is also a tag OF THE SAME RECORD goes to key_value) *)
Definition lp_rec_cells (now : Z) (pr : precision) (p : point) : rowmap :=
  let c1 := [(k_time, GInt (lp_ts now pr (p_ts p)))] in
  let c2 := fold_left (fun a kv => setb (fst kv) (GStr (snd kv)) a) (p_tags p) c1 in
  fold_left (fun a kv => setb (if has_key (fst kv) (p_tags p) then fst kv ++ k_value else fst kv) (snd kv) a)
            (p_fields p) c2.

Definition cells_to_columns (recs : list rowmap) : columns :=
  let names := fold_left (fun a rc => fold_left (fun a' kv => if memb (fst kv) a' then a' else a' ++ [fst kv]) rc a) recs [] in
  map (fun k => (k, map (fun rc => match lookupb k rc with Some x => x | None => GNil end) recs)) names.

(* ingest.BatchToColumnar: one columnar record per measurement (first-seen order) *)
Definition batch_to_columnar (now : Z) (pr : precision) (pts : list point) : list (bytes * columns) :=
  map (fun m => (m, cells_to_columns (map (lp_rec_cells now pr)
                       (filter (fun p => bytes_eqb (p_meas p) m) pts))))
      (dedup (map p_meas pts) []).

(* ---- msgpack (generic decode path of MessagePackDecoder.Decode) ---- *)

Inductive mrec :=
| MCol (meas : bytes) (cols : columns) (raw : option topmap)
| MRow (meas : bytes) (ts : Z) (tags : list (bytes * bytes)) (fields : list (bytes * gval))
| MNest (l : list mrec).                 (* a batch inside a batch/array item: a nested []interface{} *)

Inductive dres := DRec (r : mrec) | DList (l : list mrec) | DErr | DUnsup.

Definition unit_us (ts : Z) : Z :=            (* extractTimestamp + rowsToColumnar's UnixMicro (int64 arithmetic) *)
  if ts <? 10000000000 then wrap64 (ts * 1000000)
  else if ts <? 10000000000000 then ts * 1000
  else if ts <? 10000000000000000 then ts
  else Z.quot ts 1000.

Fixpoint str_tags (l : list (bytes * gval)) : option (list (bytes * bytes)) :=
  match l with
  | [] => Some []
  | (k, GStr s) :: r => match str_tags r with Some r' => Some ((k, s) :: r') | None => None end
  | _ => None
  end.

Fixpoint compact_fields (i : Z) (l : list gval) : list (bytes * gval) :=
  match l with
  | [] => []
  | v :: r => (str "field_" ++ dec i, v) :: compact_fields (i + 1) r
  end.

Definition decode_row (san : bytes -> bytes) (now : Z) (top : topmap) : dres :=
  match extract_meas (lookupb k_m top) with
  | None => DErr
  | Some meas =>
      let ts := match lookupb k_t top with
                | None | Some GNil => Some now
                | Some (GInt z) => Some (unit_us z)
                | Some (GUint z) => Some (unit_us (wrap64 z))
                | Some (GFloat b) => Some (unit_us (f_to_i64_raw b))
                | _ => None
                end in
      let host := match lookupb k_h top with
                  | Some (GStr s) => s
                  | Some (GInt z) | Some (GUint z) => k_host_ ++ dec z
                  | _ => k_unknown
                  end in
      let fields := match lookupb k_fields top with
                    | Some (GMap f) => Some f
                    | _ => match lookupb k_f top with
                           | Some GNil | None => None
                           | Some (GArr l) => Some (compact_fields 0 l)
                           | Some _ => Some []
                           end
                    end in
      let tags := match lookupb k_tags top with
                  | Some (GMap t) => str_tags t
                  | _ => Some []
                  end in
      match ts, fields, tags with
      | None, _, _ => DErr
      | Some _, None, _ => DErr
      | Some _, Some _, None => DUnsup                 (* fmt.Sprintf("%v") of a non-string tag value *)
      | Some t, Some f, Some tg =>
          DRec (MRow meas t (if nonempty host then setb k_host host tg else tg)
                     (map (fun kv => (fst kv, san_val san (snd kv))) f))
      end
  end.

(* the items of a batch ({"batch": [...]}): undecodable items and non-maps are skipped, a nested
   batch stays a nested list *)
Fixpoint batch_items (dec : topmap -> dres) (l : list gval) : dres :=
  match l with
  | [] => DList []
  | GMap m :: r =>
      match dec m, batch_items dec r with
      | DUnsup, _ | _, DUnsup => DUnsup
      | DErr, x => x
      | DRec rc, DList rs => DList (rc :: rs)
      | DList sub, DList rs => DList (MNest sub :: rs)
      | _, _ => DUnsup
      end
  | _ :: r => batch_items dec r
  end.

(* decodeMapPayload; [fuel] bounds the nesting depth of batches *)
Fixpoint decode_map (fuel : nat) (san : bytes -> bytes) (now : Z) (top : topmap) (raw : option topmap) : dres :=
  match fuel with
  | O => DUnsup
  | S fuel' =>
      match lookupb k_batch top with
      | Some (GArr items) => batch_items (fun m => decode_map fuel' san now m None) items
      | _ =>
          match lookupb k_columns top with
          | Some (GMap l) => match decode_columnar san now top (array_cols l) with
                             | Some (meas, cols) => DRec (MCol meas cols raw)
                             | None => DErr
                             end
          | _ => decode_row san now top
          end
      end
  end.

(* Decode: the records of one payload.  Outer None = outside the modelled domain; inner None =
   Decode returned an error (400) *)
Definition decode_payload (san : bytes -> bytes) (now : Z) (payload : gval) : option (option (list mrec)) :=
  match payload with
  | GMap top =>
      match decode_map 6 san now top (Some top) with
      | DUnsup => None
      | DErr => Some None
      | DRec r => Some (Some [r])
      | DList l => Some (Some l)
      end
  | GArr items =>
      match batch_items (fun m => decode_map 6 san now m None) items with
      | DList l => Some (Some l)
      | _ => None
      end
  | _ => Some None
  end.

(* api.MsgPackHandler.extractMeasurements: the non-empty measurement names, nested lists included *)
Fixpoint rec_measurements (v : variant) (r : mrec) : list bytes :=
  match r with
  | MCol m _ _ | MRow m _ _ _ => if nonempty m || v_empty_meas_checked v then [m] else []
  | MNest l => flat_map (rec_measurements v) l
  end.

(* ArrowBuffer.rowsToColumnar for the rows of one measurement (code after commit ac0d5a8: every
   field gets a column of its own - a field whose name is taken by a tag, by "time", by an earlier
   rename or, once renamed, by another field gets "_value" appended until the name is free; fields
   are visited in bytewise sorted order) *)
Fixpoint bytes_ltb (a b : bytes) : bool :=
  match a, b with
  | [], [] => false
  | [], _ :: _ => true
  | _ :: _, [] => false
  | x :: a', y :: b' => if N.ltb x y then true else if N.eqb x y then bytes_ltb a' b' else false
  end.

Fixpoint insert_sorted (x : bytes) (l : list bytes) : list bytes :=
  match l with
  | [] => [x]
  | y :: r => if bytes_ltb y x then y :: insert_sorted x r else x :: l
  end.
Definition sort_bytes (l : list bytes) : list bytes := fold_right insert_sorted [] l.

Fixpoint pick_name (fuel : nat) (alltags allfields taken : list bytes) (field name : bytes) : bytes :=
  match fuel with
  | O => name
  | S f => if memb name alltags || memb name taken || (negb (bytes_eqb name field) && memb name allfields)
           then pick_name f alltags allfields taken field (name ++ k_value) else name
  end.

Fixpoint assign_fields (alltags allfields : list bytes) (fs taken : list bytes) : list (bytes * bytes) :=
  match fs with
  | [] => []
  | f :: r =>
      let n := pick_name (2 + List.length alltags + 2 * List.length allfields) alltags allfields taken f f in
      (f, n) :: assign_fields alltags allfields r (n :: taken)
  end.

Definition row_rec_cells (fieldcol : list (bytes * bytes)) (r : mrec) : rowmap :=
  match r with
  | MRow _ ts tags fields =>
      let c1 := [(k_time, GInt ts)] in
      let c2 := fold_left (fun a kv => setb (fst kv) (GStr (snd kv)) a) tags c1 in
      fold_left (fun a kv => setb (match lookupb (fst kv) fieldcol with Some n => n | None => fst kv end) (snd kv) a) fields c2
  | _ => []
  end.

Definition row_tag_names (rs : list mrec) : list bytes :=
  dedup (flat_map (fun r => match r with MRow _ _ tags _ => map fst tags | _ => [] end) rs) [].
Definition row_field_names (rs : list mrec) : list bytes :=
  dedup (flat_map (fun r => match r with MRow _ _ _ fields => map fst fields | _ => [] end) rs) [].

Definition is_row_of (m : bytes) (r : mrec) : bool :=
  match r with MRow m' _ _ _ => bytes_eqb m m' | _ => false end.

Definition rows_to_columnar (m : bytes) (rs : list mrec) : columns :=
  let mine := filter (is_row_of m) rs in
  (* the time column is created first; every tag column, then every field column *)
  let alltags := row_tag_names mine in
  let allfields := row_field_names mine in
  let fieldcol := assign_fields alltags allfields (sort_bytes allfields) [k_time] in
  let cells := map (row_rec_cells fieldcol) mine in
  map (fun k => (k, map (fun rc => match lookupb k rc with Some x => x | None => GNil end) cells))
      (k_time :: dedup (alltags ++ map snd fieldcol) []).

(* ArrowBuffer.Write: columnar records at once, row records grouped and written afterwards;
   None at a position = the nested-list element Write refuses *)
Fixpoint upto_none (l : list (option bwrite)) : list (option bwrite) * bool :=
  match l with
  | [] => ([], true)
  | None :: _ => ([None], false)
  | x :: r => let '(a, b) := upto_none r in (x :: a, b)
  end.

Definition direct_writes (db : bytes) (rs : list mrec) : list (option bwrite) :=
  flat_map (fun r => match r with
                     | MCol m cols (Some top) => [Some (BRaw db top)]
                     | MCol m cols None => [Some (BRows db m cols)]
                     | MNest _ => [None]
                     | MRow _ _ _ _ => [] end) rs.

Definition row_group_names (rs : list mrec) : list bytes :=
  dedup (flat_map (fun r => match r with MRow m _ _ _ => [m] | _ => [] end) rs) [].

Definition msg_writes (db : bytes) (rs : list mrec) : list (option bwrite) :=
  let cut := upto_none (direct_writes db rs) in
  if snd cut then
    fst cut ++ map (fun m => Some (BRows db m (rows_to_columnar m rs))) (row_group_names rs)
  else fst cut.

(* ---- the handlers ---- *)

Inductive hreq :=
| HLP (ep : lp_endpoint) (qdb hdb : bytes) (pr : precision) (filter_m : bytes) (pts : list point)
| HMsg (hdb : bytes) (payload : gval).

Record fres := {
  f_status : Z;                         (* HTTP status the handler answers when every buffer write succeeds *)
  f_db : bytes;                         (* database the handler resolved *)
  f_checked : list bytes;               (* measurements passed to CheckWritePermissions (all of them when none is denied) *)
  f_writes : list (option bwrite);      (* buffer writes in order (None = an element the buffer refuses) *)
  f_flush : bool;                       (* the handler calls FlushAll before answering *)
  f_det : bool                          (* the outcome does not depend on Go's map iteration order *)
}.

Definition reject (code : Z) (db : bytes) (checked : list bytes) : fres :=
  {| f_status := code; f_db := db; f_checked := checked; f_writes := []; f_flush := false; f_det := true |}.

Definition or_default (s : bytes) : bytes := match s with [] => k_default | _ => s end.

Definition allowed (allow_all : bool) (allow : list (bytes * bytes)) (db m : bytes) : bool :=
  allow_all || existsb (fun dm => bytes_eqb (fst dm) db && bytes_eqb (snd dm) m) allow.

Definition front (v : variant) (san : bytes -> bytes) (now : Z) (allow_all : bool) (allow : list (bytes * bytes)) (r : hreq) : option fres :=
  match r with
  | HLP ep qdb hdb pr filter_m pts =>
      let db := match ep with
                | LPv1 | LPv2 => match hdb with [] => or_default qdb | _ => hdb end
                | LPSimple => or_default hdb
                | LPImport => match hdb with [] => qdb | _ => hdb end
                end in
      if negb (valid_db db) then Some (reject 400 db [])
      else if (match ep with LPImport => nonempty filter_m && negb (valid_meas filter_m) | _ => false end) then Some (reject 400 db [])
      else if (match pr with PBad => true | _ => false end) then Some (reject 400 db [])
      else
        let pts1 := match ep with
                    | LPImport => if nonempty filter_m then filter (fun p => bytes_eqb (p_meas p) filter_m) pts else pts
                    | _ => pts end in
        match pts1 with
        | [] => Some (reject 400 db [])
        | _ =>
            let groups := batch_to_columnar now pr pts1 in
            let ms := map fst groups in
            if negb (forallb (allowed allow_all allow db) ms) then Some (reject 403 db ms)
            else if negb (forallb valid_meas ms) then Some (reject 400 db ms)
            else
              let ws := map (fun g => Some (BRows db (fst g) (snd g))) groups in
              Some {| f_status := match ep with LPImport => 200 | _ => 204 end; f_db := db; f_checked := ms;
                      f_writes := ws; f_flush := match ep with LPImport => true | _ => false end;
                      f_det := Nat.leb (List.length ws) 1 ||
                               forallb (fun w => match w with Some b => match live_rows san now b with Some _ => true | None => false end | None => false end) ws |}
        end
  | HMsg hdb payload =>
      match decode_payload san now payload with
      | None => None
      | Some None => Some (reject 400 (or_default hdb) [])
      | Some (Some rs) =>
          let db := or_default hdb in
          if negb (valid_db db) then Some (reject 400 db [])
          else
            let ms := dedup (flat_map (rec_measurements v) rs) [] in
            if negb (forallb valid_meas ms) then Some (reject 400 db [])
            else if negb (forallb (allowed allow_all allow db) ms) then Some (reject 403 db ms)
            else
              let ws := msg_writes db rs in
              let nrow := List.length (row_group_names rs) in
              Some {| f_status := 204; f_db := db; f_checked := ms; f_writes := ws; f_flush := false;
                      f_det := Nat.leb nrow 1 ||
                               forallb (fun w => match w with Some b => match live_rows san now b with Some _ => true | None => false end | None => false end) ws |}
      end
  end.

(* ------------------------------------------------------------------------------------ *)
(* correspondence cases: HTTP-level histories with the observations of the real code      *)

Record orow := { o_dir : bytes; o_hour : Z; o_cells : row }.     (* one row read back from Parquet *)

Inductive hevent :=
| HStart (hold repl rot : bool)
| HWrite (now : Z) (allow_all : bool) (allow : list (bytes * bytes)) (rq : hreq)
         (status : Z) (checked : list bytes)     (* observed: status, "database/measurement" of every permission check *)
| HPersist
| HFlush
| HRecover (now : Z) (crash_at : nat) (nleft : nat) (killed : bool)   (* observed: inactive files left, killed *)
| HRecoverFault (now : Z) (fd : dir) (nleft : nat)                     (* recovery under a storage fault; observed: files left *)
| HCrash.

Record ccase := { c_variant : variant; c_events : list hevent; c_stored : list orow; c_replica : list orow }.

Definition fres_writes (f : fres) : list bwrite * bool :=
  (flat_map (fun w => match w with Some b => [b] | None => [] end) (f_writes f),
   forallb (fun w => match w with Some _ => true | None => false end) (f_writes f)).

(* the Layer-B events of one HTTP request *)
(* [acked]: every buffer write succeeded (the import handler only reaches its FlushAll then) *)
Definition hreq_events (now : Z) (f : fres) (acked : bool) : list event :=
  let '(ws, tail_ok) := fres_writes f in
  match ws, tail_ok with
  | [], true => if f_flush f && acked then [EFlush] else []
  | _, _ => EWrite now ws tail_ok :: (if f_flush f && acked then [EFlush] else [])
  end.

Definition idsan (b : bytes) : bytes := b.
(* the storage directory "database/measurement"; an empty measurement leaves "database//YYYY/..",
   which the file system reads as "database/YYYY/.." *)
Definition dir_of (db m : bytes) : bytes := match m with [] => db | _ => db ++ [47%N] ++ m end.

Fixpoint row_sub (a b : row) : bool :=       (* every cell of a occurs in b *)
  match a with
  | [] => true
  | (k, x) :: r => match lookupb k b with Some y => cell_eqb x y && row_sub r b | None => false end
  end.
Definition row_equiv (a b : row) : bool := Nat.eqb (List.length a) (List.length b) && row_sub a b.

Definition orow_eqb (a b : orow) : bool :=
  bytes_eqb (o_dir a) (o_dir b) && (o_hour a =? o_hour b) && row_equiv (o_cells a) (o_cells b).

Definition obs_of (r : srow) : orow :=
  {| o_dir := dir_of (fst (r_dir r)) (snd (r_dir r));
     o_hour := match hour_of (r_cells r) with Some h => h | None => 0 end;
     o_cells := r_cells r |}.

Fixpoint remove_one (x : orow) (l : list orow) : option (list orow) :=
  match l with
  | [] => None
  | y :: r => if orow_eqb x y then Some r
              else match remove_one x r with Some r' => Some (y :: r') | None => None end
  end.

Fixpoint ms_sub (a b : list orow) : bool :=    (* multiset inclusion *)
  match a with
  | [] => true
  | x :: r => match remove_one x b with Some b' => ms_sub r b' | None => false end
  end.
Definition ms_eq (a b : list orow) : bool := Nat.eqb (List.length a) (List.length b) && ms_sub a b.

Definition set_sub (a b : list bytes) : bool := forallb (fun x => memb x b) a.
Definition set_eq (a b : list bytes) : bool :=
  Nat.eqb (List.length a) (List.length b) && set_sub a b && set_sub b a.

(* is every HTTP request of the case inside the modelled, map-order independent domain? *)
Fixpoint case_supported_from (v : variant) (evs : list hevent) : bool :=
  match evs with
  | [] => true
  | HWrite now aa al rq _ _ :: r =>
      match front v idsan now aa al rq with
      | Some f => f_det f && case_supported_from v r
      | None => false
      end
  | _ :: r => case_supported_from v r
  end.
Definition case_supported (c : ccase) : bool := case_supported_from (c_variant c) (c_events c).

(* run the model along the case, checking every per-event observation *)
Fixpoint run_case (v : variant) (s : state) (evs : list hevent) : state * bool :=
  match evs with
  | [] => (s, true)
  | e :: r =>
      let '(s1, ok1) :=
        match e with
        | HStart hold repl rot => (step v idsan s (EStart hold repl rot), true)
        | HPersist => (step v idsan s EPersist, true)
        | HFlush => (step v idsan s EFlush, true)
        | HCrash => (step v idsan s ECrash, true)
        | HRecover now n nleft killed =>
            let s' := step v idsan s (ERecover now n) in
            (s', Nat.eqb (List.length (s_files s')) (if killed then S nleft else nleft)
                 && Bool.eqb killed (negb (s_run s')))
        | HRecoverFault now fd nleft =>
            let s' := step v idsan s (ERecoverFault now fd) in
            (s', Nat.eqb (List.length (s_files s')) nleft)
        | HWrite now aa al rq status checked =>
            match front v idsan now aa al rq with
            | None => (s, false)
            | Some f =>
                let '(ws, tail_ok) := fres_writes f in
                let acked := let '(_, _, ok) := write_all v idsan now s ws in ok && tail_ok in
                let st := if acked then f_status f else 500 in
                let s' := run_events v idsan s (hreq_events now f acked) in
                let cd := map (dir_of (f_db f)) (f_checked f) in
                (s', (st =? status) &&
                     (if status =? 403 then set_sub checked cd && negb (Nat.eqb (List.length checked) 0)
                      else set_eq checked cd))
            end
        end in
      let '(s2, ok2) := run_case v s1 r in (s2, ok1 && ok2)
  end.

Definition case_agrees (c : ccase) : bool :=
  let '(s, ok) := run_case (c_variant c) st0 (c_events c) in
  ok && ms_eq (map obs_of (s_store s)) (c_stored c)
     && ms_eq (map obs_of (s_replica s)) (c_replica c).

(* ---- property oracles on the implementation's observations ---- *)

Fixpoint ends_settled (evs : list hevent) : bool :=     (* ... start; recover (not killed); flush *)
  match evs with
  | [HStart _ _ _; HRecover _ _ _ false; HFlush] => true
  | _ :: r => ends_settled r
  | [] => false
  end.

(* C05: every row of an acknowledged, persisted write (as the LIVE path stores it) is in the
   store after the final restart *)
Definition case_oracle (c : ccase) : bool :=
  if ends_settled (c_events c) then
    let '(s, _) := run_case (c_variant c) st0 (c_events c) in
    ms_sub (map obs_of (s_due s)) (c_stored c)
  else true.

(* C32: every stored row (locally and on the replica) lies in the directory of a database a
   request named and a measurement whose write permission was checked for that request *)
Fixpoint allowed_dirs (v : variant) (evs : list hevent) : list bytes :=
  match evs with
  | [] => []
  | HWrite now aa al rq status checked :: r =>
      (match front v idsan now aa al rq with
       | Some f => if status =? 403 then []
                   else filter (fun d => memb d (map (dir_of (f_db f)) (f_checked f))) checked
       | None => [] end) ++ allowed_dirs v r
  | _ :: r => allowed_dirs v r
  end.

Definition case_oracle32 (c : ccase) : bool :=
  let dirs := allowed_dirs (c_variant c) (c_events c) in
  forallb (fun o => memb (o_dir o) dirs) (c_stored c) && forallb (fun o => memb (o_dir o) dirs) (c_replica c).

(* all verdicts of a case from ONE run of the model: bit 0 supported, 1 agrees, 2 C05 oracle, 3 C32 oracle *)
Definition case_verdict (c : ccase) : N :=
  let sup := case_supported c in
  let '(s, ok) := if sup then run_case (c_variant c) st0 (c_events c) else (st0, false) in
  let agree := ok && ms_eq (map obs_of (s_store s)) (c_stored c) && ms_eq (map obs_of (s_replica s)) (c_replica c) in
  let o5 := if ends_settled (c_events c) then ms_sub (map obs_of (s_due s)) (c_stored c) else true in
  ((if sup then 1 else 0) + (if agree then 2 else 0) + (if o5 then 4 else 0) + (if case_oracle32 c then 8 else 0))%N.

(* ------------------------------------------------------------------------------------ *)
(* guard predicates of the C05 theorems (the classes the code as it is handles correctly)  *)

Definition same_kind (a b : gval) : bool :=
  match kind_of a, kind_of b with Some x, Some y => kind_eqb x y | _, _ => false end.

(* every non-nil value of the column has the Go kind class of the first one *)
Definition homog_col (col : list gval) : bool :=
  match first_non_nil col with
  | None => true
  | Some fv => forallb (fun v => match v with GNil => true | _ => same_kind fv v end) col
  end.

Definition us_window (z : Z) : bool := (10000000000000 <=? z) && (z <? 10000000000000000).
Definition time_us_val (v : gval) : bool := match v with GInt z => us_window z | _ => false end.

Definition legacy_key (k : bytes) : bool := bytes_eqb k k_meas || bytes_eqb k k_m || bytes_eqb k k_db.

(* SanitizeUTF8 leaves every string of the columns unchanged *)
Definition clean_cols (san : bytes -> bytes) (cols : columns) : Prop :=
  Forall (fun nc => Forall (fun x => san_val san x = x) (snd nc)) cols.

(* a row-format buffer write that is replayed exactly as it was stored live *)
Definition rows_guard (v : variant) (san : bytes -> bytes) (db meas : bytes) (cols : columns) : Prop :=
  nonempty db = true /\ nonempty meas = true /\
  NoDup (map fst cols) /\
  (exists tc, lookupb k_time cols = Some tc /\ tc <> [] /\
              (v_rows_no_renorm v = true \/ forallb time_us_val tc = true)) /\
  (exists n, all_len n cols = true) /\
  forallb (fun nc => homog_col (snd nc)) cols = true /\
  clean_cols san cols /\
  (v_routing_last v = true \/ forallb (fun nc => negb (is_routing_u (fst nc))) cols = true) /\
  (v_strict_keys v = true \/ forallb (fun nc => negb (legacy_key (fst nc))) cols = true).

(* a raw columnar buffer write that is replayed exactly as it was stored live *)
Definition raw_guard (v : variant) (db : bytes) (top : topmap) : Prop :=
  nonempty db = true /\
  (exists l tc, lookupb k_columns top = Some (GMap l) /\ lookupb k_time (array_cols l) = Some tc /\ tc <> []) /\
  ((exists s, lookupb k_m top = Some (GStr s)) \/ v_int_m v = true).

Definition bw_guard (v : variant) (san : bytes -> bytes) (w : bwrite) : Prop :=
  match w with
  | BRows db meas cols => rows_guard v san db meas cols
  | BRaw db top => raw_guard v db top
  end.
