(* C05 / C32 - the theorems instantiated at the variant the CURRENT source implements
   (ArcGen.Params_Recovery.deployed, regenerated from /repo on every run).

   The PRIMARY obligations are the unguarded ones: each of them needs a repair flag of [deployed]
   to be [true] (by computation).  If a repair disappears from the source, the flag is regenerated
   as [false], the obligation no longer type-checks, and the check looks for the failing input
   among the witnesses of the corresponding [_refuted] theorem. *)
From Coq Require Import List ZArith NArith Bool.
From ArcGen Require Import Params_Recovery.
From Arc Require Import Lib.AList Recovery.Model Recovery.Proofs.
Import ListNotations.
Open Scope Z_scope.

(* ---- primary: the deployed code is a repaired variant -------------------------------- *)

Theorem C05_deployed_replay_rows : forall san now now' db meas cols rows sg,
  nonempty db = true -> nonempty meas = true -> NoDup (map fst cols) ->
  (exists tc, lookupb k_time cols = Some tc /\ tc <> []) ->
  (exists n, all_len n cols = true) ->
  forallb (fun nc => homog_col (snd nc)) cols = true ->
  clean_cols san cols ->
  live_batch san now (BRows db meas cols) = Some (rows, sg) ->
  exists bs, replay_file deployed san now' (wal_entries deployed (BRows db meas cols)) = (bs, true) /\ batch_rows bs = rows.
Proof.
  intros san now now' db meas cols rows sg H1 H2 H3 H4 H5 H6 H7 Hl.
  apply (replay_equals_live deployed san now now' (BRows db meas cols) rows sg); [|exact Hl].
  exact (repaired_rows_guard deployed san db meas cols eq_refl eq_refl eq_refl H1 H2 H3 H4 H5 H6 H7).
Qed.
Print Assumptions C05_deployed_replay_rows.

Theorem C05_deployed_replay_raw : forall san now now' db top rows sg,
  nonempty db = true ->
  (exists l tc, lookupb k_columns top = Some (GMap l) /\ lookupb k_time (array_cols l) = Some tc /\ tc <> []) ->
  live_batch san now (BRaw db top) = Some (rows, sg) ->
  replay_file deployed san now' (wal_entries deployed (BRaw db top)) = ([(rows, sg)], true).
Proof.
  intros san now now' db top rows sg H1 H2 Hl.
  apply (replay_raw_equals_live deployed san now now' db top rows sg); [|exact Hl].
  exact (repaired_raw_guard deployed db top eq_refl H1 H2).
Qed.
Print Assumptions C05_deployed_replay_raw.

Theorem C05_deployed_crash_any_point : forall san evs k now,
  Forall (ev_guard deployed san) evs ->
  sub_ms (s_due (run_events deployed san st0 (firstn k evs)))
         (s_store (run_events deployed san st0 (firstn k evs ++ restart now))).
Proof. intros san evs k now. exact (crash_any_prefix_repaired deployed san evs k now eq_refl). Qed.
Print Assumptions C05_deployed_crash_any_point.

(* a write the conversion rejects is a legal event of those histories: it leaves no WAL entry *)
Theorem C05_deployed_rejected_write_harmless : forall san now s w,
  live_batch san now w = None -> write1 deployed san now s w = (s, None).
Proof. intros san now s w. exact (write1_rejected deployed san now s w eq_refl). Qed.
Print Assumptions C05_deployed_rejected_write_harmless.

Theorem C32_deployed_live : forall san now allow_all allow r f,
  front deployed san now allow_all allow r = Some f ->
  (forall w, In (Some w) (f_writes f) ->
     exists meas cols, bw_parts san now w = Some (f_db f, meas, cols) /\ In meas (f_checked f)) /\
  (f_writes f <> [] -> forallb (allowed allow_all allow (f_db f)) (f_checked f) = true).
Proof. intros san now aa al r f. exact (live_routing_repaired deployed san now aa al r f eq_refl). Qed.
Print Assumptions C32_deployed_live.

Theorem C32_deployed_replicated_rows : forall san now db meas cols n r,
  nonempty db = true -> nonempty meas = true -> all_len n cols = true ->
  In r (flat_map (apply_replicated deployed san now) (wal_entries deployed (BRows db meas cols))) ->
  r_dir r = (db, meas).
Proof.
  intros san now db meas cols n r H1 H2 H3.
  exact (replicated_rows_fixed deployed san now db meas cols n r eq_refl H1 H2 H3 (or_introl eq_refl)).
Qed.
Print Assumptions C32_deployed_replicated_rows.

Theorem C32_deployed_replay_dirs : forall san now now' db meas cols rows sg bs,
  nonempty db = true -> nonempty meas = true -> NoDup (map fst cols) ->
  (exists tc, lookupb k_time cols = Some tc /\ tc <> []) ->
  (exists n, all_len n cols = true) ->
  forallb (fun nc => homog_col (snd nc)) cols = true ->
  clean_cols san cols ->
  live_batch san now (BRows db meas cols) = Some (rows, sg) ->
  replay_file deployed san now' (wal_entries deployed (BRows db meas cols)) = (bs, true) ->
  map r_dir (batch_rows bs) = map r_dir rows.
Proof.
  intros san now now' db meas cols rows sg bs H1 H2 H3 H4 H5 H6 H7 Hl Hr.
  apply (replay_dirs deployed san now now' (BRows db meas cols) rows sg bs); [|exact Hl|exact Hr].
  exact (repaired_rows_guard deployed san db meas cols eq_refl eq_refl eq_refl H1 H2 H3 H4 H5 H6 H7).
Qed.
Print Assumptions C32_deployed_replay_dirs.

(* ---- whatever the deployed variant is -------------------------------------------------- *)

Theorem C05_deployed_replay_guarded : forall san now now' w rows sg,
  bw_guard deployed san w -> live_batch san now w = Some (rows, sg) ->
  exists bs, replay_file deployed san now' (wal_entries deployed w) = (bs, true) /\ batch_rows bs = rows.
Proof. exact (replay_equals_live deployed). Qed.
Print Assumptions C05_deployed_replay_guarded.

Theorem C05_deployed_crash_guarded : forall san evs k now,
  Forall (ev_guard deployed san) evs ->
  (v_flush_before_delete deployed = true \/ quiet deployed san st0 (firstn k evs ++ [ECrash])) ->
  sub_ms (s_due (run_events deployed san st0 (firstn k evs)))
         (s_store (run_events deployed san st0 (firstn k evs ++ restart now))).
Proof. exact (crash_any_prefix deployed). Qed.
Print Assumptions C05_deployed_crash_guarded.

(* every repair site that is open in the source has its witness (vacuous while all are closed) *)
Theorem C05_deployed_open_findings :
  (v_routing_last deployed = false ->
     map r_dir (replayed deployed w_routing) = [(k_default, b_cpu); (b_otherdb, b_cpu)]) /\
  (v_strict_keys deployed = false ->
     map (fun r => lookupb k_m (r_cells r)) (replayed deployed w_legacy) = [None]) /\
  (v_rows_no_renorm deployed = false ->
     map (fun r => lookupb k_time (r_cells r)) (replayed deployed w_time)
       = [Some (CInt 5000000000000); Some (CInt (-1000000000000))]) /\
  (v_int_m deployed = false -> replayed deployed w_intm = []) /\
  (v_flush_before_delete deployed = false ->
     s_store (run_events deployed idsan st0 (h_window ++ restart 0)) = []).
Proof.
  split; [|split; [|split; [|split]]]; intros H.
  - exact (proj2 (routing_refuted deployed H)).
  - exact (proj2 (legacy_refuted deployed H)).
  - exact (proj2 (time_refuted deployed H)).
  - exact (proj2 (intm_refuted deployed H)).
  - exact (proj2 (proj2 (window_refuted deployed H))).
Qed.
Print Assumptions C05_deployed_open_findings.

Theorem C32_deployed_replay_guarded : forall san now now' w rows sg bs,
  bw_guard deployed san w -> live_batch san now w = Some (rows, sg) ->
  replay_file deployed san now' (wal_entries deployed w) = (bs, true) ->
  map r_dir (batch_rows bs) = map r_dir rows.
Proof. exact (replay_dirs deployed). Qed.
Print Assumptions C32_deployed_replay_guarded.
