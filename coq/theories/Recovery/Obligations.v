(* C05 / C32 - the theorems instantiated at the variant the CURRENT source implements
   (ArcGen.Params_Recovery.deployed, regenerated from /repo on every run). *)
From Coq Require Import List ZArith NArith Bool.
From ArcGen Require Import Params_Recovery.
From Arc Require Import Lib.AList Recovery.Model Recovery.Proofs.
Import ListNotations.
Open Scope Z_scope.

Theorem C05_deployed_replay_guarded : forall san now now' w rows sg,
  bw_guard deployed san w -> live_batch san now w = Some (rows, sg) ->
  exists bs, replay_file deployed san now' (wal_entries deployed w) = (bs, true) /\ batch_rows bs = rows.
Proof. exact (replay_equals_live deployed). Qed.
Print Assumptions C05_deployed_replay_guarded.

Theorem C05_deployed_crash_guarded : forall san evs k now,
  Forall (ev_guard deployed san) evs ->
  (v_flush_before_delete deployed = true \/ quiet deployed san st0 (firstn k evs ++ [ECrash])) ->
  sub_ms (s_due (run_events deployed san st0 (firstn k evs)))
         (s_store (run_events deployed san st0 (firstn k evs ++ restart now))).
Proof. exact (crash_any_prefix deployed). Qed.
Print Assumptions C05_deployed_crash_guarded.

(* every repair site that is still open in the source has its witness *)
Theorem C05_deployed_open_findings :
  (v_routing_last deployed = false ->
     map r_dir (replayed deployed w_routing) = [(k_default, b_cpu); (b_otherdb, b_cpu)]) /\
  (v_strict_keys deployed = false ->
     map (fun r => lookupb k_m (r_cells r)) (replayed deployed w_legacy) = [None]) /\
  (v_rows_no_renorm deployed = false ->
     map (fun r => lookupb k_time (r_cells r)) (replayed deployed w_time)
       = [Some (CInt 5000000000000); Some (CInt (-1000000000000))]) /\
  (v_int_m deployed = false -> replayed deployed w_intm = []) /\
  (v_flush_before_delete deployed = false ->
     s_store (run_events deployed idsan st0 (h_window ++ restart 0)) = []).
Proof.
  split; [|split; [|split; [|split]]]; intros H.
  - exact (proj2 (routing_refuted deployed H)).
  - exact (proj2 (legacy_refuted deployed H)).
  - exact (proj2 (time_refuted deployed H)).
  - exact (proj2 (intm_refuted deployed H)).
  - exact (proj2 (proj2 (window_refuted deployed H))).
Qed.
Print Assumptions C05_deployed_open_findings.

Theorem C32_deployed_replay_guarded : forall san now now' w rows sg bs,
  bw_guard deployed san w -> live_batch san now w = Some (rows, sg) ->
  replay_file deployed san now' (wal_entries deployed w) = (bs, true) ->
  map r_dir (batch_rows bs) = map r_dir rows.
Proof. exact (replay_dirs deployed). Qed.
Print Assumptions C32_deployed_replay_guarded.
