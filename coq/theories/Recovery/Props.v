(* C05 - WAL crash recovery restores exactly the acknowledged rows.
   C32 - Writes land only where the caller is allowed to write.
   Only property statements live here; proofs are in Proofs.v.

   [variant] has one flag per repair site.  The CURRENT source has all eight repairs (commits
   42c3150 7b9e05e 3357074 80b73d4 e9d7934 b4081e3 of /repo; regenerated into
   ArcGen.Params_Recovery.deployed on every run and instantiated in Obligations.v).  The PRIMARY
   statements are the ones about repaired variants (part I); part II keeps the statements about
   ALL variants (guards shrinking as flags are switched on) and the refutations of the old ones.  [san] is
   SanitizeUTF8 (arbitrary), [now] / [now'] the clock readings of the live write and of the
   replay (arbitrary). *)
From Coq Require Import List ZArith NArith Bool Lia.
From Arc Require Import Lib.AList Recovery.Model Recovery.Proofs.
Import ListNotations.
Open Scope Z_scope.

(* ============================== part I: the repaired code ========================== *)

(* C05, replay = live, row-format writes (line protocol, msgpack row / batch / array): with routing
   keys written last, strict callback keys and no second unit guess, NO column name and NO
   timestamp is excluded.  What remains: the write names a database and a measurement, has a
   non-empty time column, rectangular columns whose values have one kind per column (see
   C05_mixed_column_refuted) and strings SanitizeUTF8 leaves alone. *)
Theorem C05_repaired_rows_guard : forall v san db meas cols,
  v_routing_last v = true -> v_strict_keys v = true -> v_rows_no_renorm v = true ->
  nonempty db = true -> nonempty meas = true -> NoDup (map fst cols) ->
  (exists tc, lookupb k_time cols = Some tc /\ tc <> []) ->
  (exists n, all_len n cols = true) ->
  forallb (fun nc => homog_col (snd nc)) cols = true ->
  clean_cols san cols ->
  rows_guard v san db meas cols.
Proof. exact repaired_rows_guard. Qed.
Print Assumptions C05_repaired_rows_guard.

(* ... raw msgpack columnar writes: string or integer measurement alike *)
Theorem C05_repaired_raw_guard : forall v db top,
  v_int_m v = true -> nonempty db = true ->
  (exists l tc, lookupb k_columns top = Some (GMap l) /\ lookupb k_time (array_cols l) = Some tc /\ tc <> []) ->
  raw_guard v db top.
Proof. exact repaired_raw_guard. Qed.
Print Assumptions C05_repaired_raw_guard.

(* C05, every crash point of every history, UNCONDITIONALLY (no "quiet" premise) once recovery
   flushes before it deletes; with convert-before-append the histories may contain any write the
   conversion rejects *)
Theorem C05_crash_any_point_repaired : forall v san evs k now,
  v_flush_before_delete v = true ->
  Forall (ev_guard v san) evs ->
  sub_ms (s_due (run_events v san st0 (firstn k evs)))
         (s_store (run_events v san st0 (firstn k evs ++ restart now))).
Proof. exact crash_any_prefix_repaired. Qed.
Print Assumptions C05_crash_any_point_repaired.

(* C32, live path without the empty-measurement exception *)
Theorem C32_live_repaired : forall v san now allow_all allow r f,
  v_empty_meas_checked v = true ->
  front v san now allow_all allow r = Some f ->
  (forall w, In (Some w) (f_writes f) ->
     exists meas cols, bw_parts san now w = Some (f_db f, meas, cols) /\ In meas (f_checked f)) /\
  (f_writes f <> [] -> forallb (allowed allow_all allow (f_db f)) (f_checked f) = true).
Proof. exact live_routing_repaired. Qed.
Print Assumptions C32_live_repaired.

(* (C32_replicated_rows_fixed and C05_replay_equals_live / C32_replay_guarded of part II complete
   part I: they are stated for every variant and need no flag-specific guard once the flags are on) *)

(* ============================== part II: all variants, old variants ================== *)

(* ============================== C05 ============================================== *)

(* replay (wal_entry w) = live w: for EVERY buffer write of the guarded class (row-format - LP,
   msgpack row / batch / array - and raw msgpack columnar), whatever the clock says at replay
   time, the recovery callbacks re-buffer exactly the rows the live path buffered, under the
   same (database, measurement), with the same non-NULL cells, in the same order. *)
Theorem C05_replay_equals_live : forall v san now now' w rows sg,
  bw_guard v san w -> live_batch san now w = Some (rows, sg) ->
  exists bs, replay_file v san now' (wal_entries v w) = (bs, true) /\ batch_rows bs = rows.
Proof. exact replay_equals_live. Qed.
Print Assumptions C05_replay_equals_live.

(* with the repairs, no column name and no timestamp is excluded any more *)
Theorem C05_fixed_rows_guard : forall san db meas cols,
  nonempty db = true -> nonempty meas = true -> NoDup (map fst cols) ->
  (exists tc, lookupb k_time cols = Some tc /\ tc <> []) ->
  (exists n, all_len n cols = true) ->
  forallb (fun nc => homog_col (snd nc)) cols = true ->
  clean_cols san cols ->
  rows_guard v_fixed san db meas cols.
Proof. exact fixed_rows_guard. Qed.
Print Assumptions C05_fixed_rows_guard.

(* For EVERY history (any interleaving of process starts, requests, writer persistence,
   flushes, recoveries - also killed between replay and delete - and crashes) and EVERY crash
   point k: after the next startup (recover, flush) every row of every acknowledged write
   whose WAL entry reached a file is in the store at least as often as it was acknowledged.
   Code as it is: provided no process dies while replayed rows are still unflushed ([quiet]);
   with flush-before-delete: unconditionally. *)
Theorem C05_crash_any_point : forall v san evs k now,
  Forall (ev_guard v san) evs ->
  (v_flush_before_delete v = true \/ quiet v san st0 (firstn k evs ++ [ECrash])) ->
  sub_ms (s_due (run_events v san st0 (firstn k evs)))
         (s_store (run_events v san st0 (firstn k evs ++ restart now))).
Proof. exact crash_any_prefix. Qed.
Print Assumptions C05_crash_any_point.

(* ---- refutations: the code as it is (flag = false) violates the property on these witnesses ---- *)

(* `cpu v=1i` + `cpu,_database=otherdb v=2i` written to mydb: replayed into default/ and otherdb/ *)
Theorem C05_routing_key_refuted : forall v, v_routing_last v = false ->
  option_map (map r_dir) (live_rows idsan 0 w_routing) = Some [(b_mydb, b_cpu); (b_mydb, b_cpu)] /\
  map r_dir (replayed v w_routing) = [(k_default, b_cpu); (b_otherdb, b_cpu)].
Proof. exact routing_refuted. Qed.
Print Assumptions C05_routing_key_refuted.

(* `cpu,m=zz v=3i`: column m is stored live, dropped by the replay *)
Theorem C05_legacy_column_dropped_refuted : forall v, v_strict_keys v = false ->
  option_map (map (fun r => lookupb k_m (r_cells r))) (live_rows idsan 0 w_legacy) = Some [Some (CStr b_zz)] /\
  map (fun r => lookupb k_m (r_cells r)) (replayed v w_legacy) = [None].
Proof. exact legacy_refuted. Qed.
Print Assumptions C05_legacy_column_dropped_refuted.

(* rows at 1970-01-01T00:00:05 and at -1 s: replayed a factor 10^6 away *)
Theorem C05_time_rescaled_refuted : forall v, v_rows_no_renorm v = false ->
  option_map (map (fun r => lookupb k_time (r_cells r))) (live_rows idsan 0 w_time)
    = Some [Some (CInt 5000000); Some (CInt (-1000000))] /\
  map (fun r => lookupb k_time (r_cells r)) (replayed v w_time)
    = [Some (CInt 5000000000000); Some (CInt (-1000000000000))].
Proof. exact time_refuted. Qed.
Print Assumptions C05_time_rescaled_refuted.

(* msgpack columnar with an integer measurement id: acknowledged, never replayed *)
Theorem C05_int_measurement_lost_refuted : forall v, v_int_m v = false ->
  option_map (@List.length srow) (live_rows idsan 0 w_intm) = Some 1%nat /\ replayed v w_intm = [].
Proof. exact intm_refuted. Qed.
Print Assumptions C05_int_measurement_lost_refuted.

(* write; crash; restart replays and deletes the WAL file; crash before the flush: row lost *)
Theorem C05_crash_window_refuted : forall v, v_flush_before_delete v = false ->
  Forall (ev_guard v idsan) h_window /\
  List.length (s_due (run_events v idsan st0 h_window)) = 1%nat /\
  s_store (run_events v idsan st0 (h_window ++ restart 0)) = [].
Proof. exact window_refuted. Qed.
Print Assumptions C05_crash_window_refuted.

(* not repaired by any proposed patch (the guard [homog_col] is necessary in every variant):
   `cpu v=1i` + `cpu v=1.5` in one request: live truncates 1.5 to 1, the replay stores 1.5 *)
Theorem C05_mixed_column_refuted : forall v,
  option_map (map (fun r => lookupb b_v (r_cells r))) (live_rows idsan 0 w_mixed)
    = Some [Some (CInt 1); Some (CInt 1)] /\
  map (fun r => lookupb b_v (r_cells r)) (replayed v w_mixed)
    = [Some (CInt 1); Some (CFloat 4609434218613702656%N)].
Proof. exact mixed_refuted. Qed.
Print Assumptions C05_mixed_column_refuted.

(* a write rejected AFTER its WAL append (`cpu,time=abc v=1i`) poisons the file: the acknowledged
   write that follows is never replayed and the file is never deleted *)
Theorem C05_poisoned_file_refuted : forall v, v_convert_first v = false ->
  List.length (s_due (run_events v idsan st0 h_poison)) = 1%nat /\
  s_store (run_events v idsan st0 (h_poison ++ restart 0)) = [] /\
  List.length (s_files (run_events v idsan st0 (h_poison ++ restart 0))) = 1%nat.
Proof. exact poison_refuted. Qed.
Print Assumptions C05_poisoned_file_refuted.

(* ---- non-vacuity ---- *)

Example C05_guard_satisfiable : forall v, write_guard v idsan 0 w_plain.
Proof. exact plain_guard. Qed.

(* a history with a persisted write, a crash, and a second process whose write never reaches
   the file (writer held) before it crashes too:
   the persisted write is owed and stored, the other is not owed *)
Example C05_crash_nonvacuous :
  let evs := [EStart true false false; EWrite 0 [w_plain] true; EPersist; ECrash;
              EStart true false false; EWrite 0 [w_plain] true; ECrash] in
  Forall (ev_guard v_current idsan) evs /\ quiet v_current idsan st0 (evs ++ [ECrash]) /\
  List.length (s_due (run_events v_current idsan st0 evs)) = 1%nat /\
  List.length (s_store (run_events v_current idsan st0 (evs ++ restart 0))) = 1%nat.
Proof.
  assert (G : ev_guard v_current idsan (EWrite 0 [w_plain] true))
    by (cbn [ev_guard]; constructor; [apply plain_guard|constructor]).
  split; [repeat (constructor; [first [exact I|exact G]|]); constructor|].
  split; [cbn; repeat split; right; reflexivity|].
  vm_compute. split; reflexivity.
Qed.

(* ============================== C32 ============================================== *)

(* Live path, every endpoint (msgpack columnar / row / batch / array; line protocol v1, v2,
   simple; LP import), every payload, every header / query combination, every policy: every
   buffer write the handler issues goes to the database the handler resolved from the request
   and to a measurement that was passed to CheckWritePermissions (code as it is: or to the EMPTY
   measurement - see C32_empty_measurement_unchecked), and writes are only issued when every check
   allowed. *)
Theorem C32_live : forall v san now allow_all allow r f,
  front v san now allow_all allow r = Some f ->
  (forall w, In (Some w) (f_writes f) ->
     exists meas cols, bw_parts san now w = Some (f_db f, meas, cols) /\
                       ((v_empty_meas_checked v = false /\ meas = []) \/ In meas (f_checked f))) /\
  (f_writes f <> [] -> forallb (allowed allow_all allow (f_db f)) (f_checked f) = true).
Proof. exact live_routing. Qed.
Print Assumptions C32_live.

(* ... and the rows of a buffer write are stored under exactly that (database, measurement) *)
Theorem C32_live_rows_dir : forall san now w rows sg db meas cols,
  live_batch san now w = Some (rows, sg) -> bw_parts san now w = Some (db, meas, cols) ->
  Forall (fun r => r_dir r = (db, meas)) rows.
Proof. exact live_batch_dirs. Qed.
Print Assumptions C32_live_rows_dir.

(* WAL replay: inside the guarded class the replayed rows land in the live directories *)
Theorem C32_replay_guarded : forall v san now now' w rows sg bs,
  bw_guard v san w -> live_batch san now w = Some (rows, sg) ->
  replay_file v san now' (wal_entries v w) = (bs, true) ->
  map r_dir (batch_rows bs) = map r_dir rows.
Proof. exact replay_dirs. Qed.
Print Assumptions C32_replay_guarded.

(* ... outside it they do not (same witness as C05_routing_key_refuted) *)
Theorem C32_replay_refuted : forall v, v_routing_last v = false ->
  option_map (map r_dir) (live_rows idsan 0 w_routing) = Some [(b_mydb, b_cpu); (b_mydb, b_cpu)] /\
  map r_dir (replayed v w_routing) = [(k_default, b_cpu); (b_otherdb, b_cpu)].
Proof. exact routing_refuted. Qed.
Print Assumptions C32_replay_refuted.

(* WAL replication: EVERY row a replica stores for a row-format entry is in "default" *)
Theorem C32_replicated_rows_default : forall v san now recs r,
  v_repl_rows v = false ->
  In r (apply_replicated v san now (ERows recs)) -> fst (r_dir r) = k_default.
Proof. exact replicated_rows_default. Qed.
Print Assumptions C32_replicated_rows_default.

Theorem C32_replicated_refuted :
  option_map (map r_dir) (live_rows idsan 0 w_plain) = Some [(b_mydb, b_mem)] /\
  map r_dir (flat_map (apply_replicated v_current idsan 0) (wal_entries v_current w_plain)) = [(k_default, b_mem)].
Proof. exact replicated_refuted. Qed.
Print Assumptions C32_replicated_refuted.

(* with the replica repair every replicated row of a row-format write lands under the
   request's database and measurement *)
Theorem C32_replicated_rows_fixed : forall v san now db meas cols n r,
  v_repl_rows v = true ->
  nonempty db = true -> nonempty meas = true -> all_len n cols = true ->
  (v_routing_last v = true \/ forallb (fun nc => keep_col (fst nc)) cols = true) ->
  In r (flat_map (apply_replicated v san now) (wal_entries v (BRows db meas cols))) ->
  r_dir r = (db, meas).
Proof. exact replicated_rows_fixed. Qed.
Print Assumptions C32_replicated_rows_fixed.

(* raw msgpack columnar entries (string measurement) are applied on the replica as stored live *)
Theorem C32_replicated_raw_guarded : forall v san now now' db top rows sg,
  raw_guard v_current db top ->
  (exists s, lookupb k_m top = Some (GStr s) /\ nonempty s = true) ->
  live_batch san now (BRaw db top) = Some (rows, sg) ->
  apply_replicated v san now' (EEnv db top) = rows.
Proof. exact replicated_raw_equals_live. Qed.
Print Assumptions C32_replicated_raw_guarded.

(* {m: "", columns: ...}: accepted (204) with NO permission check and no name validation *)
Theorem C32_empty_measurement_unchecked :
  match front v_current idsan 0 false [] r_empty_meas with
  | Some f =>
      f_status f = 204 /\ f_checked f = [] /\
      match f_writes f with
      | [Some w] => option_map (fun p => snd (fst p)) (bw_parts idsan 0 w) = Some [] /\
                    option_map (map r_dir) (live_rows idsan 0 w) = Some [(b_mydb, [])]
      | _ => False
      end
  | None => False
  end.
Proof. exact empty_measurement_unchecked. Qed.
Print Assumptions C32_empty_measurement_unchecked.

(* ---- non-vacuity of the C32 statements ---- *)

(* a line-protocol request of a caller allowed only mydb.cpu: one permission check, one buffer
   write, status 204; the same request against db3 is refused with no write *)
Example C32_live_nonvacuous :
  let p := {| p_meas := b_cpu; p_tags := [(k_udb, b_otherdb)]; p_fields := [(b_v, GInt 2)]; p_ts := t0 |} in
  match front v_current idsan 0 false [(b_mydb, b_cpu)] (HLP LPSimple [] b_mydb PUs [] [p]) with
  | Some f => f_status f = 204 /\ f_db f = b_mydb /\ f_checked f = [b_cpu] /\ List.length (f_writes f) = 1%nat
  | None => False
  end /\
  match front v_current idsan 0 false [(b_mydb, b_cpu)] (HLP LPv1 b_mydb b_otherdb PUs [] [p]) with
  | Some f => f_status f = 403 /\ f_db f = b_otherdb /\ f_writes f = []
  | None => False
  end.
Proof. vm_compute. repeat split; reflexivity. Qed.

(* the raw-columnar guard is satisfiable: {m: "cpu", columns: {time: [t0], v: [7]}} *)
Example C05_raw_guard_satisfiable : forall v,
  let top := [(k_m, GStr b_cpu); (k_columns, GMap [(k_time, GArr [GInt t0]); (b_v, GArr [GInt 7])])] in
  bw_guard v idsan (BRaw b_mydb top) /\ live_rows idsan 0 (BRaw b_mydb top) <> None.
Proof.
  intros v top. split; [|vm_compute; discriminate].
  cbn [bw_guard]. unfold raw_guard. split; [reflexivity|]. split.
  - exists [(k_time, GArr [GInt t0]); (b_v, GArr [GInt 7])], [GInt t0]. repeat split; try reflexivity. discriminate.
  - left. exists b_cpu. reflexivity.
Qed.

(* ---- size-triggered rotation (tiny MaxSizeBytes: a fresh file after every entry) ---- *)

(* the writer's appends - with or without rotation - keep every file made of replayable entries and
   add exactly the rows of the appended entries to what recovery will replay: rotation never loses
   or re-frames an entry (C05_crash_any_point* quantify over histories whose lifetimes rotate) *)
Theorem C05_rotation_keeps_entries : forall v san rot es files act,
  Forall (Forall (good v san)) files -> Forall (good v san) act -> Forall (good v san) es ->
  Forall (Forall (good v san)) (fst (log_append rot files act es)) /\
  Forall (good v san) (snd (log_append rot files act es)) /\
  files_rows v san (fst (log_append rot files act es)) ++ frows v san (snd (log_append rot files act es))
  = files_rows v san files ++ frows v san act ++ frows v san es.
Proof. exact log_append_facts. Qed.
Print Assumptions C05_rotation_keeps_entries.

(* a rotating lifetime: three acknowledged writes end in three files (plus the empty active one);
   after the crash all three rows are owed and stored by the next startup *)
Example C05_rotation_nonvacuous :
  let evs := [EStart false false true; EWrite 0 [w_plain] true; EWrite 0 [w_plain] true; EWrite 0 [w_plain] true] in
  List.length (s_files (run_events v_fixed idsan st0 (evs ++ [ECrash]))) = 4%nat /\
  List.length (s_due (run_events v_fixed idsan st0 evs)) = 3%nat /\
  List.length (s_store (run_events v_fixed idsan st0 (evs ++ restart 0))) = 3%nat /\
  s_files (run_events v_fixed idsan st0 (evs ++ restart 0)) = [].
Proof. vm_compute. repeat split; reflexivity. Qed.
