(* C05 / C32 - proofs about Arc.Recovery.Model. *)
From Coq Require Import List ZArith NArith Bool Lia Permutation.
From Coq Require Import ZifyBool ZifyN ZifyNat.
From Arc Require Import Lib.AList Recovery.Model.
Import ListNotations.
Open Scope Z_scope.

(* ------------------------------------------------------------------------------------ *)
(* bytes and association lists                                                            *)

Lemma bytes_eqb_spec : forall a b, reflect (a = b) (bytes_eqb a b).
Proof.
  induction a as [|x a IH]; destruct b as [|y b]; cbn; try (constructor; congruence).
  destruct (N.eqb_spec x y) as [->|Hn]; cbn.
  - destruct (IH b) as [->|Hn]; constructor; congruence.
  - constructor; congruence.
Qed.

Lemma bytes_eqb_refl a : bytes_eqb a a = true.
Proof. destruct (bytes_eqb_spec a a); congruence. Qed.

Lemma bytes_eqb_eq a b : bytes_eqb a b = true -> a = b.
Proof. destruct (bytes_eqb_spec a b); congruence. Qed.

Lemma bytes_eqb_sym a b : bytes_eqb a b = bytes_eqb b a.
Proof. destruct (bytes_eqb_spec a b), (bytes_eqb_spec b a); congruence. Qed.

Lemma lookupb_app {V} k (a b : list (bytes * V)) :
  lookupb k (a ++ b) = match lookupb k a with Some v => Some v | None => lookupb k b end.
Proof.
  unfold lookupb. induction a as [|[k' v] a IH]; cbn; [reflexivity|].
  destruct (bytes_eqb k k'); [reflexivity|exact IH].
Qed.

Lemma lookupb_none_notin {V} k (l : list (bytes * V)) :
  forallb (fun kv => negb (bytes_eqb (fst kv) k)) l = true -> lookupb k l = None.
Proof.
  unfold lookupb. induction l as [|[k' v] l IH]; cbn; [reflexivity|].
  rewrite andb_true_iff, negb_true_iff. intros [H1 H2]. rewrite bytes_eqb_sym, H1. auto.
Qed.

Lemma setb_same {V} k (v : V) l : lookupb k l = Some v -> setb k v l = l.
Proof.
  unfold lookupb. induction l as [|[k' v'] l IH]; cbn; [discriminate|].
  destruct (bytes_eqb_spec k k') as [->|Hn].
  - intros [= ->]. reflexivity.
  - intros H. rewrite IH by exact H. reflexivity.
Qed.

Lemma lookupb_map_snd {V W} (f : V -> W) k (l : list (bytes * V)) :
  lookupb k (map (fun nc => (fst nc, f (snd nc))) l) = option_map f (lookupb k l).
Proof.
  unfold lookupb. induction l as [|[k' v] l IH]; cbn; [reflexivity|].
  destruct (bytes_eqb k k'); [reflexivity|exact IH].
Qed.

Lemma lookupb_filter_keep {V} (p : bytes -> bool) k (l : list (bytes * V)) :
  p k = true -> lookupb k (filter (fun nc => p (fst nc)) l) = lookupb k l.
Proof.
  intros Hp. unfold lookupb. induction l as [|[k' v] l IH]; cbn; [reflexivity|].
  destruct (p k') eqn:E; cbn.
  - destruct (bytes_eqb k k'); [reflexivity|exact IH].
  - destruct (bytes_eqb_spec k k') as [->|]; [congruence|exact IH].
Qed.

(* ------------------------------------------------------------------------------------ *)
(* conversion of a batch, row by row                                                      *)

Lemma conv_all_length f l cells : conv_all f l = Some cells -> length cells = length l.
Proof.
  revert cells. induction l as [|v l IH]; cbn; intros cells H.
  - inversion H; reflexivity.
  - destruct (f v); [|discriminate]. destruct (conv_all f l); [|discriminate].
    inversion H; subst; cbn. f_equal. apply IH. reflexivity.
Qed.

Lemma conv_all_nth f l cells i d d' :
  conv_all f l = Some cells -> (i < length l)%nat -> f (nth i l d) = Some (nth i cells d').
Proof.
  revert cells i. induction l as [|v l IH]; cbn; intros cells i H Hi; [lia|].
  destruct (f v) eqn:Ev; [|discriminate]. destruct (conv_all f l) eqn:El; [|discriminate].
  inversion H; subst. destruct i; cbn; [exact Ev|]. apply IH; [reflexivity|lia].
Qed.

Lemma first_non_nil_none l : first_non_nil l = None -> forall i, nth i l GNil = GNil.
Proof.
  induction l as [|v l IH]; intros H i; [destruct i; reflexivity|].
  destruct v; cbn in H; try discriminate. destruct i; cbn; [reflexivity|]. apply IH. exact H.
Qed.

Lemma first_non_nil_one v : first_non_nil [v] = match v with GNil => None | _ => Some v end.
Proof. destruct v; reflexivity. Qed.

Lemma first_non_nil_kind l fv : first_non_nil l = Some fv -> fv <> GNil.
Proof.
  induction l as [|v l IH]; cbn; [discriminate|].
  destruct v; try (intros [= <-]; discriminate). exact IH.
Qed.

Lemma kind_eqb_eq a b : kind_eqb a b = true -> a = b.
Proof. destruct a, b; cbn; congruence. Qed.

Definition one (A : Type) (x : A) : list A := [x].

(* one column: converting the single value of row i gives cell i of the batch conversion *)
Lemma conv_col_row name col cells i :
  conv_col name col = Some cells -> homog_col col = true -> (i < length col)%nat ->
  conv_col name [nth i col GNil] = Some [nth i cells None].
Proof.
  unfold conv_col, homog_col. intros H Hh Hi.
  destruct (first_non_nil col) as [fv|] eqn:Ef.
  - destruct (bytes_eqb name k_time) eqn:Et.
    + assert (Hc : conv_all conv_time_val col = Some cells) by (destruct fv; congruence).
      pose proof (conv_all_nth _ _ _ i GNil None Hc Hi) as Hv.
      rewrite first_non_nil_one.
      destruct (nth i col GNil) eqn:Ev; try (cbn in Hv; discriminate);
        cbn [conv_all]; rewrite Hv; reflexivity.
    + destruct (kind_of fv) as [k|] eqn:Ek; [|discriminate].
      pose proof (conv_all_nth _ _ _ i GNil None H Hi) as Hv.
      rewrite forallb_forall in Hh.
      assert (Hin : In (nth i col GNil) col) by (apply nth_In; exact Hi).
      specialize (Hh _ Hin).
      rewrite first_non_nil_one.
      destruct (nth i col GNil) eqn:Ev.
      * cbn in Hv. inversion Hv. reflexivity.
      * unfold same_kind in Hh. rewrite Ek in Hh. cbn [kind_of] in Hh. apply kind_eqb_eq in Hh. subst k.
        cbn [kind_of conv_all]. rewrite Hv. reflexivity.
      * unfold same_kind in Hh. rewrite Ek in Hh. cbn [kind_of] in Hh. apply kind_eqb_eq in Hh. subst k.
        cbn [kind_of conv_all]. rewrite Hv. reflexivity.
      * unfold same_kind in Hh. rewrite Ek in Hh. cbn [kind_of] in Hh. apply kind_eqb_eq in Hh. subst k.
        cbn [kind_of conv_all]. rewrite Hv. reflexivity.
      * unfold same_kind in Hh. rewrite Ek in Hh. cbn [kind_of] in Hh. apply kind_eqb_eq in Hh. subst k.
        cbn [kind_of conv_all]. rewrite Hv. reflexivity.
      * unfold same_kind in Hh. rewrite Ek in Hh. cbn [kind_of] in Hh. apply kind_eqb_eq in Hh. subst k.
        cbn [kind_of conv_all]. rewrite Hv. reflexivity.
      * unfold same_kind in Hh. rewrite Ek in Hh. cbn [kind_of] in Hh. discriminate.
      * unfold same_kind in Hh. rewrite Ek in Hh. cbn [kind_of] in Hh. discriminate.
      * unfold same_kind in Hh. rewrite Ek in Hh. cbn [kind_of] in Hh. discriminate.
  - destruct (bytes_eqb name k_time) eqn:Et; [discriminate|].
    inversion H; subst. rewrite (first_non_nil_none _ Ef i). cbn.
    f_equal. f_equal. clear. revert i. induction col as [|v col IH]; intros [|i]; cbn; auto.
Qed.

Definition one_cols (cols : columns) (i : nat) : columns :=
  map (fun nc => (fst nc, [nth i (snd nc) GNil])) cols.
Definition one_typed (t : tcolumns) (i : nat) : tcolumns :=
  map (fun nc => (fst nc, [nth i (snd nc) None])) t.

Lemma all_len_cons n name col r :
  all_len n ((name, col) :: r) = true <-> length col = n /\ all_len n r = true.
Proof.
  unfold all_len; cbn. rewrite andb_true_iff, Nat.eqb_eq. tauto.
Qed.

Lemma convert_row n cols t i :
  all_len n cols = true -> (i < n)%nat ->
  forallb (fun nc => homog_col (snd nc)) cols = true ->
  convert cols = Some t -> convert (one_cols cols i) = Some (one_typed t i).
Proof.
  revert t. induction cols as [|[name col] r IH]; intros t Hl Hi Hh Hc.
  - inversion Hc; reflexivity.
  - apply all_len_cons in Hl. destruct Hl as [Hlen Hl].
    cbn [forallb snd] in Hh. apply andb_true_iff in Hh. destruct Hh as [Hh1 Hh2].
    destruct col as [|v col]; [cbn in Hlen; lia|].
    cbn [convert] in Hc.
    destruct (conv_col name (v :: col)) as [cells|] eqn:Ec; [|discriminate].
    destruct (convert r) as [t'|] eqn:Er; [|discriminate].
    inversion Hc; subst t; clear Hc.
    cbn [one_cols map fst snd convert].
    rewrite (conv_col_row name (v :: col) cells i Ec Hh1) by lia.
    fold (one_cols r i). rewrite (IH t' Hl Hi Hh2 eq_refl). reflexivity.
Qed.

Lemma convert_shape n cols t :
  all_len n cols = true -> (0 < n)%nat -> convert cols = Some t ->
  map fst t = map fst cols /\ Forall (fun nc => length (snd nc) = n) t.
Proof.
  revert t. induction cols as [|[name col] r IH]; intros t Hl Hn Hc.
  - inversion Hc; split; constructor.
  - apply all_len_cons in Hl. destruct Hl as [Hlen Hl].
    destruct col as [|v col]; [cbn in Hlen; lia|].
    cbn [convert] in Hc.
    destruct (conv_col name (v :: col)) as [cells|] eqn:Ec; [|discriminate].
    destruct (convert r) as [t'|] eqn:Er; [|discriminate].
    inversion Hc; subst t; clear Hc.
    destruct (IH t' Hl Hn eq_refl) as [H1 H2]. split; [cbn; f_equal; exact H1|].
    constructor; [|exact H2]. cbn [snd].
    unfold conv_col in Ec.
    destruct (first_non_nil (v :: col)).
    + destruct (bytes_eqb name k_time).
      * assert (conv_all conv_time_val (v :: col) = Some cells) by (destruct g; congruence).
        erewrite conv_all_length by eassumption. exact Hlen.
      * destruct (kind_of g); [|discriminate]. erewrite conv_all_length by eassumption. exact Hlen.
    + destruct (bytes_eqb name k_time); [discriminate|]. inversion Ec. cbn [map length]. rewrite map_length. exact Hlen.
Qed.

Lemma row_at_one t i : row_at (one_typed t i) 0 = row_at t i.
Proof.
  induction t as [|[name c] t IH]; [reflexivity|].
  cbn [one_typed map fst snd row_at nth]. fold (one_typed t i). rewrite IH. reflexivity.
Qed.

Lemma rows_of_one db meas t i :
  t <> [] -> rows_of db meas (one_typed t i) = [ {| r_dir := (db, meas); r_cells := row_at t i |} ].
Proof.
  intros Ht. destruct t as [|[name c] t]; [congruence|].
  unfold rows_of. cbn [one_typed map num_rows fst snd length seq].
  f_equal. f_equal. exact (row_at_one ((name, c) :: t) i).
Qed.

(* dropping columns that Parquet would not keep anyway *)
Lemma convert_filter (p : bytes -> bool) cols t :
  convert cols = Some t ->
  convert (filter (fun nc => p (fst nc)) cols) = Some (filter (fun nc => p (fst nc)) t).
Proof.
  revert t. induction cols as [|[name col] r IH]; intros t Hc.
  - inversion Hc; reflexivity.
  - destruct col as [|v col].
    + cbn [convert] in Hc. cbn [filter fst]. destruct (p name); cbn [convert]; apply IH; exact Hc.
    + cbn [convert] in Hc.
      destruct (conv_col name (v :: col)) as [cells|] eqn:Ec; [|discriminate].
      destruct (convert r) as [t'|] eqn:Er; [|discriminate].
      inversion Hc; subst t; clear Hc.
      cbn [filter fst]. destruct (p name); cbn [convert].
      * rewrite Ec, (IH t' eq_refl). reflexivity.
      * apply IH. reflexivity.
Qed.

Lemma row_at_filter (p : bytes -> bool) t i :
  (forall n, p n = false -> stored_name n = false) ->
  row_at (filter (fun nc => p (fst nc)) t) i = row_at t i.
Proof.
  intros Hp. induction t as [|[name c] t IH]; cbn [filter fst row_at]; [reflexivity|].
  destruct (p name) eqn:E; cbn [row_at].
  - rewrite IH. reflexivity.
  - rewrite (Hp _ E). exact IH.
Qed.

(* ------------------------------------------------------------------------------------ *)
(* the WAL row of batch row i and its replay                                              *)

Definition row_kv (cols : columns) (i : nat) : rowmap :=
  map (fun nc => (fst nc, nth i (snd nc) GNil)) cols.

Lemma cols_row_rect n cols i :
  all_len n cols = true -> (i < n)%nat -> cols_row cols i = row_kv cols i.
Proof.
  intros Hl Hi. unfold cols_row, row_kv. induction cols as [|[name col] r IH]; [reflexivity|].
  apply all_len_cons in Hl. destruct Hl as [Hlen Hl].
  cbn [flat_map map fst snd]. rewrite (IH Hl).
  destruct (nth_error col i) eqn:E.
  - rewrite (nth_error_nth _ _ GNil E). reflexivity.
  - apply nth_error_None in E. lia.
Qed.

Lemma row_kv_filter (p : bytes -> bool) cols i :
  filter (fun kv => p (fst kv)) (row_kv cols i) = row_kv (filter (fun nc => p (fst nc)) cols) i.
Proof.
  unfold row_kv. induction cols as [|[name col] r IH]; [reflexivity|].
  cbn [map filter fst snd]. destruct (p name); cbn [map fst snd]; rewrite IH; reflexivity.
Qed.

Lemma row_kv_one cols i : map (fun kv => (fst kv, [snd kv])) (row_kv cols i) = one_cols cols i.
Proof. unfold row_kv, one_cols. rewrite map_map. reflexivity. Qed.

Lemma filter_id {A} (p : A -> bool) l : forallb p l = true -> filter p l = l.
Proof.
  induction l as [|x l IH]; cbn; [reflexivity|]. rewrite andb_true_iff. intros [H1 H2].
  rewrite H1, IH by exact H2. reflexivity.
Qed.

Lemma filter_none {A} (p : A -> bool) l : forallb (fun x => negb (p x)) l = true -> filter p l = [].
Proof.
  induction l as [|x l IH]; cbn; [reflexivity|]. rewrite andb_true_iff, negb_true_iff. intros [H1 H2].
  rewrite H1. exact (IH H2).
Qed.

Lemma forallb_row_kv (p : bytes -> bool) cols i :
  forallb (fun kv => p (fst kv)) (row_kv cols i) = forallb (fun nc => p (fst nc)) cols.
Proof. unfold row_kv. induction cols as [|[n c] r IH]; cbn; [reflexivity|]. rewrite IH. reflexivity. Qed.

Lemma forallb_filter_self {A} (p : A -> bool) l : forallb p (filter p l) = true.
Proof. induction l as [|x l IH]; cbn; [reflexivity|]. destruct (p x) eqn:E; cbn; rewrite ?E; exact IH. Qed.

Lemma forallb_filter_mono {A} (p q : A -> bool) l : forallb q l = true -> forallb q (filter p l) = true.
Proof.
  induction l as [|x l IH]; cbn; [reflexivity|]. rewrite andb_true_iff. intros [H1 H2].
  destruct (p x); cbn; rewrite ?H1; auto.
Qed.

Definition keep_col (k : bytes) : bool := negb (is_routing_u k).

Lemma routing_not_stored k : keep_col k = false -> stored_name k = false.
Proof.
  unfold keep_col, is_routing_u. rewrite negb_false_iff, orb_true_iff.
  intros [H|H]; apply bytes_eqb_eq in H; subst; reflexivity.
Qed.

Lemma str_key_routing_meas db meas : str_key k_umeas (routing db meas) = meas.
Proof. reflexivity. Qed.
Lemma str_key_routing_db db meas : str_key k_udb (routing db meas) = db.
Proof. reflexivity. Qed.

Lemma lookupb_notkey {V} (p : bytes -> bool) k (l : list (bytes * V)) :
  forallb (fun kv => p (fst kv)) l = true -> p k = false -> lookupb k l = None.
Proof.
  intros Hall Hk. apply lookupb_none_notin. rewrite forallb_forall in *. intros kv Hin.
  specialize (Hall kv Hin). apply negb_true_iff. destruct (bytes_eqb_spec (fst kv) k); congruence.
Qed.

(* what the row callback routes and rebuilds from the WAL row of batch row i *)
Lemma rec_route_wal_row v db meas cols n i :
  nonempty db = true -> nonempty meas = true ->
  all_len n cols = true -> (i < n)%nat ->
  (v_routing_last v = true \/ forallb (fun nc => keep_col (fst nc)) cols = true) ->
  (v_strict_keys v = true \/ forallb (fun nc => negb (legacy_key (fst nc))) cols = true) ->
  rec_route v (wal_row v db meas cols i) =
  Some (db, meas, one_cols (filter (fun nc => keep_col (fst nc)) cols) i).
Proof.
  intros Hdb Hmeas Hl Hi Hr Hs.
  set (cols' := filter (fun nc => keep_col (fst nc)) cols).
  assert (Hkeep' : forallb (fun kv => keep_col (fst kv)) (row_kv cols' i) = true).
  { rewrite forallb_row_kv. apply forallb_filter_self. }
  assert (Hleg' : v_strict_keys v = true \/ forallb (fun kv => negb (legacy_key (fst kv))) (row_kv cols' i) = true).
  { destruct Hs as [Hs|Hs]; [left; exact Hs|right].
    rewrite forallb_row_kv with (p := fun k => negb (legacy_key k)).
    apply forallb_filter_mono with (q := fun nc => negb (legacy_key (fst nc))). exact Hs. }
  (* both variants produce a record whose non-routing part is row_kv cols' i and whose
     routing keys read db / meas *)
  assert (Hrec : exists rec, wal_row v db meas cols i = rec /\
            str_key k_umeas rec = meas /\ str_key k_udb rec = db /\
            forall F : bytes * gval -> bool,
              (forall kv, is_routing_u (fst kv) = true -> F kv = false) ->
              (forall kv, In kv (row_kv cols' i) -> F kv = true) ->
              filter F rec = row_kv cols' i).
  { unfold wal_row. cbv zeta. rewrite (cols_row_rect n cols i Hl Hi).
    destruct (v_routing_last v) eqn:Erl.
    - eexists; split; [reflexivity|].
      change (fun kv : bytes * gval => negb (is_routing_u (fst kv))) with (fun kv : bytes * gval => keep_col (fst kv)).
      rewrite row_kv_filter. fold cols'.
      split; [reflexivity|]. split; [reflexivity|].
      intros F Hd1 Hd2. cbn [routing app filter].
      rewrite (Hd1 (k_udb, GStr db) eq_refl), (Hd1 (k_umeas, GStr meas) eq_refl).
      apply filter_id. rewrite forallb_forall. intros kv Hin. exact (Hd2 kv Hin).
    - destruct Hr as [Hr|Hr]; [congruence|].
      assert (Hc : cols' = cols) by (apply filter_id; exact Hr). rewrite Hc in *.
      assert (Hnk : forall k, is_routing_u k = true -> lookupb k (row_kv cols i) = None).
      { intros k Hk. apply (lookupb_notkey keep_col); [exact Hkeep'|]. unfold keep_col. rewrite Hk. reflexivity. }
      assert (Hf : filter (fun kv => negb (has_key (fst kv) (row_kv cols i))) (routing db meas) = routing db meas).
      { cbn [routing filter fst]. unfold has_key. rewrite (Hnk k_udb eq_refl), (Hnk k_umeas eq_refl). reflexivity. }
      rewrite Hf. eexists; split; [reflexivity|].
      unfold str_key. rewrite !lookupb_app, (Hnk k_udb eq_refl), (Hnk k_umeas eq_refl).
      split; [reflexivity|]. split; [reflexivity|].
      intros F Hd1 Hd2. rewrite filter_app. cbn [routing filter].
      rewrite (Hd1 (k_udb, GStr db) eq_refl), (Hd1 (k_umeas, GStr meas) eq_refl). rewrite app_nil_r.
      apply filter_id. rewrite forallb_forall. intros kv Hin. exact (Hd2 kv Hin). }
  destruct Hrec as [rec [Erec [Hum [Hud Hfil]]]]. rewrite Erec.
  unfold rec_route. cbv beta zeta. rewrite Hum, Hud. repeat (rewrite ?Hmeas, ?Hdb; cbn [negb orb andb]; cbv iota).
  match goal with |- context [filter ?F rec] => rewrite (Hfil F) end.
  - rewrite row_kv_one. reflexivity.
  - intros kv Hk. rewrite Hk. reflexivity.
  - intros kv Hin.
    assert (Hk : is_routing_u (fst kv) = false).
    { rewrite forallb_forall in Hkeep'. specialize (Hkeep' kv Hin). unfold keep_col in Hkeep'.
      apply negb_true_iff in Hkeep'. exact Hkeep'. }
    rewrite Hk. cbn [orb].
    destruct Hleg' as [Hs'|Hl'].
    + rewrite Hs'. reflexivity.
    + rewrite forallb_forall in Hl'. specialize (Hl' kv Hin). apply negb_true_iff in Hl'.
      unfold legacy_key in Hl'. rewrite Hl'. rewrite andb_false_r. reflexivity.
Qed.

(* ------------------------------------------------------------------------------------ *)
(* WriteColumnarDirectNoWAL on the one-row batch of row i                                 *)

Lemma all_len_filter n (p : bytes * list gval -> bool) cols :
  all_len n cols = true -> all_len n (filter p cols) = true.
Proof. unfold all_len. apply forallb_filter_mono. Qed.

Lemma all_len_one cols i : all_len 1 (one_cols cols i) = true.
Proof. unfold all_len, one_cols. induction cols as [|[n c] r IH]; cbn; [reflexivity|exact IH]. Qed.

Lemma all_len_lookup n cols k c : all_len n cols = true -> lookupb k cols = Some c -> length c = n.
Proof.
  unfold lookupb. induction cols as [|[k' c'] r IH]; intros Hl H; [discriminate|].
  apply all_len_cons in Hl. destruct Hl as [Hlen Hl]. cbn in H.
  destruct (bytes_eqb k k'); [inversion H as [Hc]; rewrite <- Hc; exact Hlen|apply IH; assumption].
Qed.

Lemma us_window_mult z : us_window z = true -> mult_of z = 1 /\ wrap64 (z * 1) = z.
Proof.
  unfold us_window, mult_of, wrap64, two63, two64. intros H.
  apply andb_true_iff in H. destruct H as [H1 H2].
  destruct (Z.ltb_spec z 10000000000); [lia|].
  destruct (Z.ltb_spec z 10000000000000); [lia|].
  destruct (Z.ltb_spec z 10000000000000000); [|lia].
  split; [reflexivity|]. rewrite Z.mul_1_r.
  rewrite Z.mod_small by lia. lia.
Qed.

Lemma normalize_one_noop cols i tc :
  lookupb k_time cols = Some tc -> (i < length tc)%nat -> forallb time_us_val tc = true ->
  normalize_time (one_cols cols i) = Some (one_cols cols i).
Proof.
  intros Hl Hi Hw. unfold normalize_time.
  assert (Hl1 : lookupb k_time (one_cols cols i) = Some [nth i tc GNil]).
  { unfold one_cols. rewrite (lookupb_map_snd (fun c => [nth i c GNil])), Hl. reflexivity. }
  rewrite Hl1.
  rewrite forallb_forall in Hw. specialize (Hw (nth i tc GNil) (nth_In _ _ Hi)).
  destruct (nth i tc GNil) eqn:Ev; cbn in Hw; try discriminate.
  destruct (us_window_mult z Hw) as [Hm Hwz].
  cbn [to_i64_ts scale_all]. rewrite Hm. unfold scale. cbn [Z.ltb Z.compare].
  rewrite Hwz. rewrite setb_same; [reflexivity|exact Hl1].
Qed.

Lemma clean_one san cols i : clean_cols san cols -> sanitize_cols san (one_cols cols i) = one_cols cols i.
Proof.
  unfold clean_cols, sanitize_cols, one_cols. induction 1 as [|[n c] r Hc Hr IH]; [reflexivity|].
  cbn [map fst snd] in *. rewrite IH. f_equal. f_equal. f_equal.
  destruct (Nat.lt_ge_cases i (length c)) as [Hi|Hi].
  - rewrite Forall_forall in Hc. apply Hc. apply nth_In. exact Hi.
  - rewrite nth_overflow by exact Hi. reflexivity.
Qed.

Lemma clean_filter san (p : bytes * list gval -> bool) cols : clean_cols san cols -> clean_cols san (filter p cols).
Proof.
  unfold clean_cols. induction 1 as [|x r Hx Hr IH]; cbn; [constructor|].
  destruct (p x); [constructor; assumption|exact IH].
Qed.

Lemma write_nowal_one san rn now db meas cols :
  cols <> [] -> all_len 1 cols = true -> has_key k_time cols = true ->
  write_nowal san rn now db meas cols =
  match (if rn then normalize_time cols else Some cols) with
  | None => None
  | Some cols2 => match convert (sanitize_cols san cols2) with
                  | Some t => Some (rows_of db meas t, sig_of (sanitize_cols san cols2))
                  | None => None
                  end
  end.
Proof.
  intros Hne Hl Hk. destruct cols as [|[n0 c0] rest]; [congruence|].
  unfold write_nowal. pose proof Hl as Hl2. apply all_len_cons in Hl2. destruct Hl2 as [Hc0 _].
  rewrite Hc0, Hl, Hk. reflexivity.
Qed.

Lemma write_nowal_row v san now db meas cols n t i tc :
  all_len n cols = true -> (i < n)%nat ->
  lookupb k_time cols = Some tc ->
  (v_rows_no_renorm v = true \/ forallb time_us_val tc = true) ->
  forallb (fun nc => homog_col (snd nc)) cols = true ->
  clean_cols san cols ->
  convert cols = Some t ->
  exists sg,
    write_nowal san (negb (v_rows_no_renorm v)) now db meas
                (one_cols (filter (fun nc => keep_col (fst nc)) cols) i)
    = Some ([ {| r_dir := (db, meas); r_cells := row_at t i |} ], sg).
Proof.
  intros Hl Hi Ht Hw Hh Hcl Hc.
  set (cols' := filter (fun nc => keep_col (fst nc)) cols).
  assert (Ht' : lookupb k_time cols' = Some tc).
  { unfold cols'. rewrite (lookupb_filter_keep keep_col) by reflexivity. exact Ht. }
  assert (Hl' : all_len n cols' = true) by (apply all_len_filter; exact Hl).
  assert (Hlen : length tc = n) by (eapply all_len_lookup; eassumption).
  assert (Hne : cols' <> []) by (intros E; rewrite E in Ht'; discriminate).
  assert (Hone : one_cols cols' i <> []) by (destruct cols'; [congruence|discriminate]).
  assert (Hc' : convert cols' = Some (filter (fun nc => keep_col (fst nc)) t)) by (apply convert_filter; exact Hc).
  assert (Hh' : forallb (fun nc => homog_col (snd nc)) cols' = true).
  { unfold cols'. apply forallb_filter_mono with (q := fun nc => homog_col (snd nc)). exact Hh. }
  pose proof (convert_row n cols' _ i Hl' Hi Hh' Hc') as Hrow.
  assert (Hn0 : (0 < n)%nat) by lia.
  destruct (convert_shape n cols' _ Hl' Hn0 Hc') as [Hnames _].
  assert (Htne : filter (fun nc => keep_col (fst nc)) t <> []).
  { intros E. rewrite E in Hnames. destruct cols'; [congruence|discriminate]. }
  assert (Hk : has_key k_time (one_cols cols' i) = true).
  { unfold has_key, one_cols. rewrite (lookupb_map_snd (fun c => [nth i c GNil])), Ht'. reflexivity. }
  rewrite (write_nowal_one san _ now db meas _ Hone (all_len_one cols' i) Hk).
  assert (Hnorm : v_rows_no_renorm v = false -> normalize_time (one_cols cols' i) = Some (one_cols cols' i)).
  { intros Er. destruct Hw as [Hw|Hw]; [congruence|].
    apply (normalize_one_noop cols' i tc Ht'); [lia|exact Hw]. }
  destruct (v_rows_no_renorm v) eqn:Er; cbn [negb]; [|rewrite (Hnorm eq_refl)];
  (rewrite (clean_one san cols' i) by (apply clean_filter; exact Hcl);
   rewrite Hrow; eexists; f_equal; f_equal;
   rewrite (rows_of_one db meas _ i Htne); f_equal; f_equal;
   apply row_at_filter; exact routing_not_stored).
Qed.

(* ------------------------------------------------------------------------------------ *)
(* replay (wal_entry w) = live w                                                          *)

Definition batch_rows (bs : list batch) : list srow := flat_map fst bs.

Lemma replay_recs_rows v san now db meas cols n t tc :
  nonempty db = true -> nonempty meas = true ->
  all_len n cols = true ->
  lookupb k_time cols = Some tc ->
  (v_rows_no_renorm v = true \/ forallb time_us_val tc = true) ->
  forallb (fun nc => homog_col (snd nc)) cols = true ->
  clean_cols san cols ->
  (v_routing_last v = true \/ forallb (fun nc => keep_col (fst nc)) cols = true) ->
  (v_strict_keys v = true \/ forallb (fun nc => negb (legacy_key (fst nc))) cols = true) ->
  convert cols = Some t ->
  forall idx, Forall (fun i => (i < n)%nat) idx ->
  exists bs, replay_recs v san now (map (wal_row v db meas cols) idx) = (bs, true) /\
             batch_rows bs = map (fun i => {| r_dir := (db, meas); r_cells := row_at t i |}) idx.
Proof.
  intros Hdb Hmeas Hl Ht Hw Hh Hcl Hr Hs Hc idx Hidx.
  induction Hidx as [|i idx Hi Hrest IH].
  - exists []. split; reflexivity.
  - destruct IH as [bs [Hbs Hrows]].
    cbn [map replay_recs].
    rewrite (rec_route_wal_row v db meas cols n i Hdb Hmeas Hl Hi Hr Hs).
    destruct (write_nowal_row v san now db meas cols n t i tc Hl Hi Ht Hw Hh Hcl Hc) as [sg Hwn].
    rewrite Hwn, Hbs. eexists. split; [reflexivity|].
    unfold batch_rows in *. cbn [flat_map fst app]. rewrite Hrows. reflexivity.
Qed.

Lemma rows_of_seq db meas t :
  rows_of db meas t = map (fun i => {| r_dir := (db, meas); r_cells := row_at t i |}) (seq 0 (num_rows t)).
Proof. reflexivity. Qed.

Lemma seq_lt a n : Forall (fun i => (i < a + n)%nat) (seq a n).
Proof.
  revert a. induction n as [|n IH]; intros a; cbn; constructor; [lia|].
  replace (a + S n)%nat with (S a + n)%nat by lia. apply IH.
Qed.

Lemma wal_rows_seq v db meas cols n :
  cols <> [] -> all_len n cols = true -> wal_rows v db meas cols = map (wal_row v db meas cols) (seq 0 n).
Proof.
  intros Hne Hl. destruct cols as [|[n0 c0] rest]; [congruence|].
  pose proof Hl as Hl2. apply all_len_cons in Hl2. destruct Hl2 as [Hc0 _].
  unfold wal_rows. rewrite Hc0. reflexivity.
Qed.

Lemma wal_entries_rows v db meas cols l :
  wal_rows v db meas cols = l -> l <> [] -> wal_entries v (BRows db meas cols) = [ERows l].
Proof. intros E Hne. unfold wal_entries. rewrite E. destruct l; [congruence|reflexivity]. Qed.

Theorem replay_rows_equals_live : forall v san now now' db meas cols rows sg,
  rows_guard v san db meas cols ->
  live_batch san now (BRows db meas cols) = Some (rows, sg) ->
  exists bs, replay_file v san now' (wal_entries v (BRows db meas cols)) = (bs, true) /\ batch_rows bs = rows.
Proof.
  intros v san now now' db meas cols rows sg G Hlive.
  destruct G as [Hdb [Hmeas [_ [[tc [Ht [Htne Hw]]] [[n Hl] [Hh [Hcl [Hr Hs]]]]]]]].
  unfold live_batch in Hlive. cbn [bw_parts] in Hlive.
  destruct (convert cols) as [t|] eqn:Hc; [|discriminate]. inversion Hlive; subst rows sg; clear Hlive.
  assert (Hlen : length tc = n) by (eapply all_len_lookup; eassumption).
  assert (Hn : (0 < n)%nat) by (destruct tc; [congruence|cbn in Hlen; lia]).
  destruct (convert_shape n cols t Hl Hn Hc) as [Hnames Hlens].
  assert (Hcne : cols <> []) by (intros E; rewrite E in Ht; discriminate).
  assert (Hnr : num_rows t = n).
  { destruct t as [|[tn tcells] t']; [destruct cols; [congruence|discriminate]|].
    inversion Hlens; subst. cbn. assumption. }
  assert (Hr' : v_routing_last v = true \/ forallb (fun nc => keep_col (fst nc)) cols = true) by exact Hr.
  destruct (replay_recs_rows v san now' db meas cols n t tc Hdb Hmeas Hl Ht Hw Hh Hcl Hr' Hs Hc (seq 0 n) (seq_lt 0 n))
    as [bs [Hbs Hrows]].
  rewrite (wal_entries_rows v db meas cols _ (wal_rows_seq v db meas cols n Hcne Hl))
    by (destruct n; [lia|discriminate]).
  cbn [replay_file read_entry]. rewrite Hbs.
  exists bs. split; [cbn; rewrite app_nil_r; reflexivity|].
  rewrite Hrows, rows_of_seq, Hnr. reflexivity.
Qed.

Lemma decode_columnar_inv san now top cols0 meas cols :
  decode_columnar san now top cols0 = Some (meas, cols) ->
  forall tc, lookupb k_time cols0 = Some tc -> tc <> [] ->
  extract_meas (lookupb k_m top) = Some meas /\
  exists n0 c0 rest cols2, cols0 = (n0, c0) :: rest /\ all_len (length c0) cols0 = true /\
     normalize_time cols0 = Some cols2 /\ cols = sanitize_cols san cols2.
Proof.
  unfold decode_columnar. intros H tc Ht Hne.
  destruct (extract_meas (lookupb k_m top)) as [m|]; [|discriminate].
  destruct cols0 as [|[n0 c0] rest]; [discriminate|].
  destruct (all_len (length c0) ((n0, c0) :: rest)) eqn:El; cbn [negb] in H; [|discriminate].
  rewrite Ht in H. destruct tc as [|x tc']; [congruence|].
  destruct (normalize_time ((n0, c0) :: rest)) as [cols2|] eqn:En; [|discriminate].
  inversion H; subst. split; [reflexivity|].
  exists n0, c0, rest, cols2. repeat split; assumption.
Qed.

Theorem replay_raw_equals_live : forall v san now now' db top rows sg,
  raw_guard v db top ->
  live_batch san now (BRaw db top) = Some (rows, sg) ->
  replay_file v san now' (wal_entries v (BRaw db top)) = ([(rows, sg)], true).
Proof.
  intros v san now now' db top rows sg [Hdb [[l [tc [Hcols [Ht Htne]]]] Hm]] Hlive.
  unfold live_batch in Hlive. cbn [bw_parts] in Hlive. unfold raw_parts in Hlive. rewrite Hcols in Hlive.
  destruct (decode_columnar san now top (array_cols l)) as [[meas cols]|] eqn:Hd; [|discriminate].
  destruct (decode_columnar_inv san now top _ meas cols Hd tc Ht Htne)
    as [Hem [n0 [c0 [rest [cols2 [Ec [Hl [Hn ->]]]]]]]].
  destruct (convert (sanitize_cols san cols2)) as [t|] eqn:Hc; [|discriminate].
  inversion Hlive; subst rows sg; clear Hlive.
  cbn [wal_entries replay_file read_entry]. rewrite Hcols.
  assert (Hmm : (if v_int_m v then extract_meas (lookupb k_m top)
                 else match lookupb k_m top with Some (GStr s) => Some s | _ => None end) = Some meas).
  { destruct (v_int_m v) eqn:Ei; [exact Hem|].
    destruct Hm as [[s Hs]|Hs]; [|congruence]. rewrite Hs in *. cbn in Hem. exact Hem. }
  rewrite Hmm. unfold replay_env.
  assert (Hdb' : match db with [] => k_default | _ => db end = db) by (destruct db; [discriminate|reflexivity]).
  rewrite Hdb'. unfold write_nowal. rewrite Ec. rewrite <- Ec. rewrite Hl. cbn [negb].
  assert (Hlen : length tc = length c0) by (eapply all_len_lookup; eassumption).
  assert (Hn0 : Nat.eqb (length c0) 0 = false).
  { apply Nat.eqb_neq. destruct tc; [congruence|cbn in Hlen; lia]. }
  rewrite Hn0. unfold has_key. rewrite Ht. rewrite Hn, Hc. reflexivity.
Qed.

(* ------------------------------------------------------------------------------------ *)
(* multisets of stored rows                                                               *)

Lemma cell_eq_dec : forall a b : cell, {a = b} + {a <> b}.
Proof. decide equality; try apply Z.eq_dec; try apply N.eq_dec; try apply bool_dec; apply (list_eq_dec N.eq_dec). Qed.

Lemma srow_eq_dec : forall a b : srow, {a = b} + {a <> b}.
Proof.
  decide equality.
  - apply (list_eq_dec (fun x y : bytes * cell => ltac:(decide equality; [apply cell_eq_dec|apply (list_eq_dec N.eq_dec)]))).
  - decide equality; apply (list_eq_dec N.eq_dec).
Qed.

Definition cnt (l : list srow) (x : srow) : nat := count_occ srow_eq_dec l x.

(* multiset inclusion: every row occurs in b at least as often as in a *)
Definition sub_ms (a b : list srow) : Prop := forall x, (cnt a x <= cnt b x)%nat.

Lemma cnt_app a b x : cnt (a ++ b) x = (cnt a x + cnt b x)%nat.
Proof. apply count_occ_app. Qed.

Lemma cnt_nil x : cnt [] x = 0%nat.
Proof. reflexivity. Qed.

Lemma cnt_filter_split (p : srow -> bool) l x :
  (cnt (filter p l) x + cnt (filter (fun r => negb (p r)) l) x = cnt l x)%nat.
Proof.
  unfold cnt. induction l as [|y l IH]; cbn; [reflexivity|].
  destruct (p y); cbn; destruct (srow_eq_dec y x); lia.
Qed.

Ltac ms :=
  unfold sub_ms in *; intros;
  repeat match goal with H : forall x : srow, _ |- context [cnt _ ?y] => specialize (H y) end;
  repeat rewrite cnt_app in *; repeat rewrite cnt_nil in *; try lia.

Lemma sub_ms_refl a : sub_ms a a.
Proof. ms. Qed.

Lemma sub_ms_trans a b c : sub_ms a b -> sub_ms b c -> sub_ms a c.
Proof. intros H1 H2 x. specialize (H1 x). specialize (H2 x). lia. Qed.

(* ------------------------------------------------------------------------------------ *)
(* files of good entries replay entry by entry                                            *)

(* an entry that replays without error, to rows that do not depend on the clock *)
Definition good_entry (v : variant) (san : bytes -> bytes) (e : entry) (rows : list srow) : Prop :=
  forall now, exists bs, replay_file v san now [e] = (bs, true) /\ batch_rows bs = rows.

Definition good (v : variant) (san : bytes -> bytes) (e : entry) : Prop := exists rows, good_entry v san e rows.

Definition frows (v : variant) (san : bytes -> bytes) (f : list entry) : list srow :=
  batch_rows (fst (replay_file v san 0 f)).

Lemma batch_rows_app a b : batch_rows (a ++ b) = batch_rows a ++ batch_rows b.
Proof. unfold batch_rows. apply flat_map_app. Qed.

Lemma replay_file_cons v san now e r bs :
  replay_file v san now [e] = (bs, true) ->
  replay_file v san now (e :: r) = (bs ++ fst (replay_file v san now r), snd (replay_file v san now r)).
Proof.
  cbn [replay_file]. destruct (read_entry v e) as [[db meas cols|recs]|].
  - destruct (replay_env san now db meas cols) as [b|]; [|discriminate].
    intros [= <-]. destruct (replay_file v san now r). reflexivity.
  - destruct (replay_recs v san now recs) as [rows ok]. destruct ok; [|discriminate].
    intros [= <-]. destruct (replay_file v san now r). cbn. rewrite app_nil_r. reflexivity.
  - intros [= <-]. destruct (replay_file v san now r). reflexivity.
Qed.

Lemma replay_good_file v san f :
  Forall (good v san) f ->
  forall now, exists bs, replay_file v san now f = (bs, true) /\ batch_rows bs = frows v san f.
Proof.
  induction 1 as [|e f [rows He] Hf IH]; intros now.
  - exists []. split; reflexivity.
  - destruct (He now) as [bs [Hbs Hr]]. destruct (IH now) as [bs' [Hbs' Hr']].
    exists (bs ++ bs'). rewrite (replay_file_cons v san now e f bs Hbs), Hbs'. split; [reflexivity|].
    unfold frows. destruct (He 0) as [b0 [Hb0 Hr0]]. destruct (IH 0) as [b0' [Hb0' Hr0']].
    rewrite (replay_file_cons v san 0 e f b0 Hb0), Hb0'. cbn [fst].
    rewrite !batch_rows_app. unfold frows in Hr0'. rewrite Hb0' in Hr0'. cbn [fst] in Hr0'.
    unfold frows in Hr'. rewrite Hb0' in Hr'. cbn [fst] in Hr'. congruence.
Qed.

Lemma frows_app v san f g :
  Forall (good v san) f -> Forall (good v san) g -> frows v san (f ++ g) = frows v san f ++ frows v san g.
Proof.
  intros Hf Hg. induction Hf as [|e f [rows He] Hf IH]; [reflexivity|].
  unfold frows in *. destruct (He 0) as [b0 [Hb0 Hr0]].
  cbn [app]. rewrite (replay_file_cons v san 0 e (f ++ g) b0 Hb0), (replay_file_cons v san 0 e f b0 Hb0).
  cbn [fst]. rewrite !batch_rows_app, IH, app_assoc. reflexivity.
Qed.

Lemma frows_nil v san : frows v san [] = [].
Proof. reflexivity. Qed.

(* Theorem A packaged: the entries of a guarded, successful buffer write are good and replay to its rows *)
Lemma write_entries_good v san now w rows sg :
  bw_guard v san w -> live_batch san now w = Some (rows, sg) ->
  Forall (good v san) (wal_entries v w) /\ frows v san (wal_entries v w) = rows.
Proof.
  intros G Hl. destruct w as [db meas cols|db top]; cbn [bw_guard] in G.
  - assert (He : forall now', exists bs, replay_file v san now' (wal_entries v (BRows db meas cols)) = (bs, true)
                                         /\ batch_rows bs = rows)
      by (intros now'; eapply replay_rows_equals_live; eassumption).
    assert (Hshape : exists l, wal_entries v (BRows db meas cols) = [ERows l]).
    { unfold wal_entries. destruct (wal_rows v db meas cols) eqn:E.
      - exfalso.    (* no rows would contradict the non-empty time column *)
        destruct G as [_ [_ [_ [[tc [Ht [Htne _]]] [[n Hn] _]]]]].
        unfold live_batch in Hl. cbn [bw_parts] in Hl. destruct (convert cols) as [t|] eqn:Hc; [|discriminate].
        assert (Hlen : length tc = n) by (eapply all_len_lookup; eassumption).
        assert (Hcne : cols <> []) by (intros E0; rewrite E0 in Ht; discriminate).
        rewrite (wal_rows_seq v db meas cols n Hcne Hn) in E.
        destruct n; [destruct tc; [congruence|discriminate]|discriminate].
      - eexists; reflexivity. }
    destruct Hshape as [l El]. rewrite El in *. split.
    + constructor; [|constructor]. exists rows. exact He.
    + unfold frows. destruct (He 0) as [bs [Hbs Hr]]. rewrite Hbs. exact Hr.
  - pose proof (fun now' => replay_raw_equals_live v san now now' db top rows sg G Hl) as He.
    split.
    + constructor; [|constructor]. exists rows. intros now'. eexists. split; [apply He|].
      unfold batch_rows. cbn. apply app_nil_r.
    + unfold frows. rewrite He. unfold batch_rows. cbn. apply app_nil_r.
Qed.

(* ------------------------------------------------------------------------------------ *)
(* buffer operations only move rows towards the store                                     *)

Definition tot (s : state) : list srow := s_store s ++ s_rbuf s.
Definition rb (v : variant) (s : state) : list srow := if v_flush_before_delete v then [] else s_rbuf s.
Definition cov (v : variant) (s : state) : list srow := s_store s ++ rb v s.

Definition same_log (s s' : state) : Prop :=
  s_files s' = s_files s /\ s_act s' = s_act s /\ s_chan s' = s_chan s /\ s_due s' = s_due s /\
  s_pend s' = s_pend s /\ s_run s' = s_run s /\ s_gate s' = s_gate s.

Lemma same_log_refl s : same_log s s.
Proof. repeat split. Qed.

Lemma same_log_trans a b c : same_log a b -> same_log b c -> same_log a c.
Proof. unfold same_log. intuition congruence. Qed.

Lemma same_log_set_buffers s a b c d : same_log s (set_buffers s a b c d).
Proof. repeat split. Qed.

Lemma flush_key_mono s d :
  same_log s (flush_key s d) /\ sub_ms (tot s) (tot (flush_key s d)) /\ sub_ms (s_store s) (s_store (flush_key s d)) /\
  sub_ms (s_rbuf (flush_key s d)) (s_rbuf s).
Proof.
  split; [apply same_log_set_buffers|]. unfold tot, flush_key. cbn.
  repeat split; intros x; repeat rewrite cnt_app;
    pose proof (cnt_filter_split (in_dir d) (s_rbuf s) x) as H; unfold not_in_dir; lia.
Qed.

Lemma buffer_add_mono s d b replayed :
  let s' := buffer_add s d b replayed in
  same_log s s' /\ sub_ms (s_store s) (s_store s') /\
  sub_ms (tot s ++ (if replayed then fst b else [])) (tot s') /\
  (replayed = false -> sub_ms (s_rbuf s') (s_rbuf s)).
Proof.
  unfold buffer_add.
  set (s1 := match lookup dir_eqb d (s_sigs s) with
             | Some sg => if sig_eqb sg (snd b) then s else flush_key s d
             | None => s end).
  assert (H1 : same_log s s1 /\ sub_ms (tot s) (tot s1) /\ sub_ms (s_store s) (s_store s1) /\ sub_ms (s_rbuf s1) (s_rbuf s)).
  { unfold s1. destruct (lookup dir_eqb d (s_sigs s)) as [sg|].
    - destruct (sig_eqb sg (snd b)); [|apply flush_key_mono].
      repeat split; apply sub_ms_refl.
    - repeat split; apply sub_ms_refl. }
  destruct H1 as [Hl [Ht [Hs Hr]]]. cbv zeta.
  split; [eapply same_log_trans; [exact Hl|apply same_log_set_buffers]|].
  unfold tot in *. cbn. destruct replayed; repeat split; try (intros; discriminate); ms.
Qed.

Lemma rebuffer_mono s bs :
  same_log s (rebuffer s bs) /\ sub_ms (s_store s) (s_store (rebuffer s bs)) /\
  sub_ms (tot s ++ batch_rows bs) (tot (rebuffer s bs)).
Proof.
  revert s. induction bs as [|b bs IH]; intros s.
  - cbn. repeat split; unfold batch_rows; cbn; ms.
  - cbn [rebuffer].
    set (s1 := match batch_key b with Some d => buffer_add s d b true | None => s end).
    assert (H1 : same_log s s1 /\ sub_ms (s_store s) (s_store s1) /\ sub_ms (tot s ++ fst b) (tot s1)).
    { unfold s1. destruct (batch_key b) as [d|] eqn:Ek.
      - destruct (buffer_add_mono s d b true) as [A [B [C _]]]. auto.
      - unfold batch_key in Ek. destruct (fst b) eqn:Ef; [|discriminate].
        repeat split; ms. }
    destruct H1 as [A [B C]]. destruct (IH s1) as [A' [B' C']].
    split; [eapply same_log_trans; eassumption|].
    split; [eapply sub_ms_trans; eassumption|].
    unfold batch_rows in *. cbn [flat_map]. ms.
Qed.

(* ------------------------------------------------------------------------------------ *)
(* the durability invariant                                                               *)

Definition files_rows (v : variant) (san : bytes -> bytes) (fs : list (list entry)) : list srow :=
  flat_map (frows v san) fs.

Ltac ms ::=
  unfold sub_ms, files_rows, cov, rb, tot in *; intros;
  repeat match goal with H : forall x : srow, _ |- context [cnt _ ?y] => specialize (H y) end;
  repeat rewrite cnt_app in *; repeat rewrite cnt_nil in *; try lia.

Record Inv (v : variant) (san : bytes -> bytes) (s : state) : Prop := {
  i_files : Forall (Forall (good v san)) (s_files s);
  i_act : Forall (good v san) (s_act s);
  i_chan : Forall (good v san) (s_chan s);
  i_due : sub_ms (s_due s) (cov v s ++ files_rows v san (s_files s) ++ frows v san (s_act s));
  i_pend : sub_ms (s_pend s) (frows v san (s_chan s));
  i_idle : s_run s = false -> s_act s = [] /\ s_chan s = [] /\ s_rbuf s = [] /\ s_pend s = []
}.

(* a buffer write of the guarded class that converts, or - once the conversion comes before the
   WAL append - ANY write that the conversion rejects (it leaves no trace) *)
Definition write_guard (v : variant) (san : bytes -> bytes) (now : Z) (w : bwrite) : Prop :=
  (bw_guard v san w /\ live_batch san now w <> None) \/
  (v_convert_first v = true /\ live_batch san now w = None).

Lemma write1_rejected v san now s w :
  v_convert_first v = true -> live_batch san now w = None -> write1 v san now s w = (s, None).
Proof.
  intros Hv Hl. unfold write1. destruct (bw_parts san now w) as [[[db meas] cols]|]; [|reflexivity].
  rewrite Hl, Hv. reflexivity.
Qed.

(* histories of the crash theorems: guarded writes; recoveries run against a healthy storage (the
   storage-fault event is exercised by the correspondence only: a failing schema-change flush
   during replay is only logged by the code, so no unconditional statement holds for it) *)
Definition ev_guard (v : variant) (san : bytes -> bytes) (e : event) : Prop :=
  match e with
  | EWrite now ws _ => Forall (write_guard v san now) ws
  | ERecoverFault _ _ => False
  | _ => True
  end.

Lemma files_rows_app v san a b : files_rows v san (a ++ b) = files_rows v san a ++ files_rows v san b.
Proof. unfold files_rows. apply flat_map_app. Qed.

Definition extends (s s' : state) (E : list entry) : Prop :=
  s_rot s' = s_rot s /\ s_due s' = s_due s /\ s_pend s' = s_pend s /\ s_run s' = s_run s /\
  s_gate s' = s_gate s /\
  (if s_gate s then (s_files s', s_act s') = log_append (s_rot s) (s_files s) (s_act s) E /\ s_chan s' = s_chan s
   else (s_files s', s_act s') = (s_files s, s_act s) /\ s_chan s' = s_chan s ++ E).

Lemma log_append_app rot : forall E1 E2 files act,
  log_append rot files act (E1 ++ E2) =
  log_append rot (fst (log_append rot files act E1)) (snd (log_append rot files act E1)) E2.
Proof.
  induction E1 as [|e E1 IH]; intros E2 files act; [reflexivity|].
  cbn [app log_append]. destruct rot; apply IH.
Qed.

(* appending good entries - with or without rotation - keeps the log good and adds exactly their rows *)
Lemma log_append_facts v san rot : forall es files act,
  Forall (Forall (good v san)) files -> Forall (good v san) act -> Forall (good v san) es ->
  Forall (Forall (good v san)) (fst (log_append rot files act es)) /\
  Forall (good v san) (snd (log_append rot files act es)) /\
  files_rows v san (fst (log_append rot files act es)) ++ frows v san (snd (log_append rot files act es))
  = files_rows v san files ++ frows v san act ++ frows v san es.
Proof.
  induction es as [|e es IH]; intros files act Hf Ha He.
  - cbn [log_append fst snd]. rewrite frows_nil, app_nil_r. auto.
  - inversion He as [|? ? He1 He2]; subst. cbn [log_append].
    assert (Hae : Forall (good v san) (act ++ [e])) by (apply Forall_app; split; [exact Ha|constructor; [exact He1|constructor]]).
    assert (Hcons : frows v san (e :: es) = frows v san [e] ++ frows v san es)
      by (apply (frows_app v san [e] es); [constructor; [exact He1|constructor]|exact He2]).
    destruct rot.
    + destruct (IH (files ++ [act ++ [e]]) [] (proj2 (Forall_app _ _ _) (conj Hf (Forall_cons _ Hae (Forall_nil _))))
                  (Forall_nil _) He2) as [I1 [I2 I3]].
      split; [exact I1|]. split; [exact I2|]. rewrite I3, files_rows_app.
      unfold files_rows at 2. cbn [flat_map]. rewrite frows_nil, app_nil_r.
      rewrite (frows_app v san act [e] Ha (Forall_cons _ He1 (Forall_nil _))), Hcons.
      rewrite <- !app_assoc. reflexivity.
    + destruct (IH files (act ++ [e]) Hf Hae He2) as [I1 [I2 I3]].
      split; [exact I1|]. split; [exact I2|]. rewrite I3.
      rewrite (frows_app v san act [e] Ha (Forall_cons _ He1 (Forall_nil _))), Hcons.
      rewrite <- !app_assoc. reflexivity.
Qed.

Lemma buffer_add_rot s d b replayed : s_rot (buffer_add s d b replayed) = s_rot s.
Proof.
  unfold buffer_add. destruct (lookup dir_eqb d (s_sigs s)) as [sg|]; [destruct (sig_eqb sg (snd b))|]; reflexivity.
Qed.

Lemma cov_mono v s s' :
  sub_ms (s_store s) (s_store s') -> sub_ms (tot s) (tot s') -> sub_ms (cov v s) (cov v s').
Proof.
  intros Hs Ht. unfold cov, rb, tot in *. destruct (v_flush_before_delete v); ms.
Qed.

Lemma write1_ok v san now s w :
  bw_guard v san w /\ live_batch san now w <> None ->
  exists rows s', write1 v san now s w = (s', Some rows) /\
    extends s s' (wal_entries v w) /\ Forall (good v san) (wal_entries v w) /\
    frows v san (wal_entries v w) = rows /\ sub_ms (cov v s) (cov v s') /\ sub_ms (s_rbuf s') (s_rbuf s).
Proof.
  intros [G Hl]. destruct (live_batch san now w) as [[rows sg]|] eqn:El; [|congruence].
  destruct (write_entries_good v san now w rows sg G El) as [Hgood Hrows].
  unfold write1. unfold live_batch in El.
  destruct (bw_parts san now w) as [[[db meas] cols]|] eqn:Ep; [|discriminate].
  assert (El' : live_batch san now w = Some (rows, sg)) by (unfold live_batch; rewrite Ep; exact El).
  rewrite El'.
  match goal with |- context [buffer_add ?s1 ?d ?b false] =>
    destruct (buffer_add_mono s1 d b false) as [[A1 [A2 [A3 [A4 [A5 [A6 A7]]]]]] [B [C D]]]; cbv zeta in *;
    exists rows, (buffer_add s1 d b false) end.
  split; [reflexivity|].
  cbn [s_files s_act s_chan s_due s_pend s_run s_gate s_store s_rbuf] in *.
  split.
  { unfold extends. rewrite buffer_add_rot, A1, A2, A3, A4, A5, A6, A7. cbn.
    destruct (s_gate s); repeat split. symmetry. apply surjective_pairing. }
  split; [exact Hgood|]. split; [exact Hrows|].
  split.
  - apply cov_mono; [exact B|]. cbn [fst] in C. unfold tot in *. cbn in *. ms.
  - apply D. reflexivity.
Qed.

Lemma extends_trans s s1 s2 E1 E2 : extends s s1 E1 -> extends s1 s2 E2 -> extends s s2 (E1 ++ E2).
Proof.
  unfold extends. intros [A1 [A2 [A3 [A4 [A5 A6]]]]] [B1 [B2 [B3 [B4 [B5 B6]]]]].
  rewrite A5, A1 in B6. repeat split; try congruence.
  destruct (s_gate s); destruct A6 as [X Y]; destruct B6 as [X' Y'].
  - split; [|congruence]. rewrite log_append_app, <- X. cbn [fst snd]. exact X'.
  - split; [congruence|]. rewrite Y', Y, app_assoc. reflexivity.
Qed.

Lemma write_all_ok v san now ws : forall s,
  Forall (write_guard v san now) ws ->
  exists rows s' E ok, write_all v san now s ws = (s', rows, ok) /\
    extends s s' E /\ Forall (good v san) E /\ frows v san E = rows /\
    sub_ms (cov v s) (cov v s') /\ sub_ms (s_rbuf s') (s_rbuf s).
Proof.
  induction ws as [|w ws IH]; intros s Hg.
  - exists [], s, [], true. cbn. repeat split; try apply sub_ms_refl; try constructor.
    unfold extends. rewrite !app_nil_r. destruct (s_gate s); repeat split.
  - inversion Hg as [|? ? Hw Hws]; subst. destruct Hw as [Hw|[Hv Hl]].
    + destruct (write1_ok v san now s w Hw) as [rows [s1 [H1 [Hx [Hgd [Hfr [Hc Hr]]]]]]].
      destruct (IH s1 Hws) as [rows' [s2 [E [ok [H2 [Hx' [Hgd' [Hfr' [Hc' Hr']]]]]]]]].
      exists (rows ++ rows'), s2, (wal_entries v w ++ E), ok.
      cbn [write_all]. rewrite H1, H2.
      split; [reflexivity|]. split; [eapply extends_trans; eassumption|].
      split; [apply Forall_app; split; assumption|].
      split; [rewrite frows_app by assumption; congruence|].
      split; eapply sub_ms_trans; eassumption.
    + (* rejected before anything was appended: the request stops here, nothing changed *)
      exists [], s, [], false. cbn [write_all]. rewrite (write1_rejected v san now s w Hv Hl).
      split; [reflexivity|]. split; [unfold extends; rewrite !app_nil_r; destruct (s_gate s); repeat split|].
      repeat split; try constructor; apply sub_ms_refl.
Qed.


Lemma flush_facts v s :
  same_log s (flush s) /\ sub_ms (s_store s ++ s_rbuf s) (s_store (flush s)) /\ s_rbuf (flush s) = [] /\
  sub_ms (cov v s) (cov v (flush s)).
Proof.
  split; [apply same_log_set_buffers|]. unfold flush, cov, rb. cbn.
  repeat split; destruct (v_flush_before_delete v); ms.
Qed.

Definition readable (v : variant) (f : list entry) : bool :=
  existsb (fun e => match read_entry v e with Some _ => true | None => false end) f.

Lemma replay_unreadable v san now f : readable v f = false -> replay_file v san now f = ([], true).
Proof.
  unfold readable. induction f as [|e f IH]; [reflexivity|].
  cbn [existsb replay_file]. destruct (read_entry v e); [discriminate|]. exact IH.
Qed.

(* recovery over the remaining files keeps every owed row covered *)
Lemma recover_files_inv v san now : forall todo kept s n,
  Forall (Forall (good v san)) todo -> Forall (Forall (good v san)) kept ->
  Forall (good v san) (s_act s) -> Forall (good v san) (s_chan s) ->
  s_run s = true ->
  sub_ms (s_due s) (cov v s ++ files_rows v san kept ++ files_rows v san todo ++ frows v san (s_act s)) ->
  sub_ms (s_pend s) (frows v san (s_chan s)) ->
  (v_flush_before_delete v = true \/ n = 0%nat) ->
  Inv v san (recover_files v san now s todo kept n).
Proof.
  induction todo as [|f rest IH]; intros kept s n Htodo Hkept Hact Hchan Hrun Hdue Hpend Hq.
  - cbn [recover_files]. constructor; cbn; [exact Hkept|exact Hact|exact Hchan| |exact Hpend|intros E; congruence].
    unfold cov, rb in *. cbn. unfold files_rows in *. cbn in Hdue. rewrite ?app_nil_r in *. exact Hdue.
  - inversion Htodo as [|? ? Hf Hrest]; subst.
    cbn [recover_files].
    destruct (replay_good_file v san f Hf now) as [bs [Hbs Hrows]]. rewrite Hbs.
    destruct (rebuffer_mono s bs) as [[A1 [A2 [A3 [A4 [A5 [A6 A7]]]]]] [Hst Htot]].
    set (s1 := rebuffer s bs) in *.
    fold (readable v f).
    set (s2 := if v_flush_before_delete v && readable v f then flush s1 else s1).
    assert (Hs2 : same_log s s2 /\ sub_ms (cov v s ++ frows v san f) (cov v s2) /\ sub_ms (s_store s) (s_store s2)).
    { unfold s2. destruct (v_flush_before_delete v) eqn:Ef; [destruct (readable v f) eqn:Erd|]; cbn [andb].
      - destruct (flush_facts v s1) as [[B1 [B2 [B3 [B4 [B5 [B6 B7]]]]]] [C [D E]]].
        split; [unfold same_log; repeat split; congruence|].
        unfold cov, rb. rewrite Ef. unfold tot in Htot. rewrite Hrows in Htot. split; ms.
      - (* nothing decodable in this file: nothing was re-buffered *)
        rewrite (replay_unreadable v san now f Erd) in Hbs. inversion Hbs; subst bs.
        split; [unfold same_log; repeat split; congruence|].
        unfold cov, rb. rewrite Ef. rewrite <- Hrows. unfold batch_rows. cbn [flat_map]. split; ms.
      - split; [unfold same_log; repeat split; congruence|].
        unfold cov, rb. rewrite Ef. unfold tot in Htot. rewrite Hrows in Htot. split; ms. }
    destruct Hs2 as [[B1 [B2 [B3 [B4 [B5 [B6 B7]]]]]] [Hcov Hx]].
    assert (Hdue2 : sub_ms (s_due s2) (cov v s2 ++ files_rows v san kept ++ files_rows v san rest ++ frows v san (s_act s2))).
    { rewrite B4, B2. unfold files_rows in *. cbn [flat_map] in Hdue. ms. }
    destruct n as [|[|n']].
    + apply IH; [exact Hrest|exact Hkept|rewrite B2; exact Hact|rewrite B3; exact Hchan|rewrite B6; exact Hrun
                |exact Hdue2|rewrite B5, B3; exact Hpend|right; reflexivity].
    + (* killed before this delete: every file is still there *)
      destruct Hq as [Hq|Hq]; [|discriminate].
      unfold crash. cbn [set_files s_run]. rewrite B6, Hrun.
      constructor; cbn.
      * apply Forall_app. split; [apply Forall_app; split; [exact Hkept|exact Htodo]|].
        constructor; [congruence|constructor].
      * constructor.
      * constructor.
      * rewrite B4. unfold cov, rb in *. cbn [s_store s_rbuf s_files s_act]. unfold files_rows in *.
        rewrite !flat_map_app. cbn [flat_map] in *. rewrite B2 in *. rewrite Hq in *.
        clear Hcov Hdue2. ms.
      * unfold frows. cbn. ms.
      * intros _. repeat split.
    + apply IH; [exact Hrest|exact Hkept|rewrite B2; exact Hact|rewrite B3; exact Hchan|rewrite B6; exact Hrun
                |exact Hdue2|rewrite B5, B3; exact Hpend|].
      destruct Hq as [Hq|Hq]; [left; exact Hq|discriminate].
Qed.

(* a crash (or a kill inside recovery) while replayed rows sit unflushed in the buffer is the
   window the code as it is does not cover *)
Definition quiet_at (v : variant) (s : state) (e : event) : Prop :=
  v_flush_before_delete v = true \/
  match e with
  | ECrash => s_rbuf s = []
  | ERecover _ n => n = 0%nat
  | _ => True
  end.

Lemma inv_st0 v san : Inv v san st0.
Proof.
  constructor; cbn; [constructor|constructor|constructor| | |intros _; repeat split];
    intros x; cbn; lia.
Qed.

Lemma step_inv v san s e :
  Inv v san s -> ev_guard v san e -> quiet_at v s e -> Inv v san (step v san s e).
Proof.
  intros HI G Q. pose proof HI as [If Ia Ic Id Ip Ii]. destruct e as [hold repl rot|now ws tail_ok| | |now n|now fd|]; cbn [step]; [| | | | |destruct G|].
  - (* start *)
    destruct (s_run s) eqn:Er; [exact HI|].
    destruct (Ii eq_refl) as [Ea [Ec [Erb Epd]]].
    constructor; cbn.
    + exact If.
    + constructor.
    + constructor.
    + unfold cov, rb in *. cbn. rewrite Ea, Erb in Id. exact Id.
    + intros x; cbn; lia.
    + intros E; discriminate.
  - (* write *)
    destruct (s_run s) eqn:Er; [|exact HI].
    cbn [ev_guard] in G.
    destruct (write_all_ok v san now ws s G) as [rows [s1 [E [ok [Hw [[X1 [X2 [X3 [X4 [X5 X6]]]]] [Hg [Hfr [Hc Hr]]]]]]]]].
    rewrite Hw.
    assert (L : Forall (Forall (good v san)) (s_files s1) /\ Forall (good v san) (s_act s1) /\
                Forall (good v san) (s_chan s1) /\
                (if s_gate s
                 then files_rows v san (s_files s1) ++ frows v san (s_act s1)
                      = files_rows v san (s_files s) ++ frows v san (s_act s) ++ rows /\ s_chan s1 = s_chan s
                 else files_rows v san (s_files s1) ++ frows v san (s_act s1)
                      = files_rows v san (s_files s) ++ frows v san (s_act s) /\
                      frows v san (s_chan s1) = frows v san (s_chan s) ++ rows)).
    { destruct (s_gate s); destruct X6 as [Y1 Y2].
      - destruct (log_append_facts v san (s_rot s) E (s_files s) (s_act s) If Ia Hg) as [F1 [F2 F3]].
        rewrite <- Y1 in F1, F2, F3. cbn [fst snd] in F1, F2, F3.
        rewrite Y2, <- Hfr. auto.
      - inversion Y1 as [[Yf Ya]]. rewrite Yf, Ya, Y2.
        repeat split; try assumption; [apply Forall_app; split; assumption|].
        rewrite frows_app by assumption. congruence. }
    destruct L as [Lf [La [Lc Lr]]].
    assert (I1 : Inv v san s1).
    { constructor; [exact Lf|exact La|exact Lc| | |rewrite X4, Er; discriminate].
      - rewrite X2. destruct (s_gate s); destruct Lr as [Lr1 Lr2]; rewrite Lr1; ms.
      - rewrite X3. destruct (s_gate s); destruct Lr as [Lr1 Lr2]; [rewrite Lr2|rewrite Lr2]; ms. }
    destruct (ok && tail_ok); [|exact I1].
    destruct I1 as [If1 Ia1 Ic1 Id1 Ip1 Ii1].
    constructor; unfold add_due, cov, rb in *; cbn [s_files s_act s_chan s_due s_pend s_run s_gate s_store s_rbuf].
    + exact If1.
    + exact Ia1.
    + exact Ic1.
    + rewrite X5. destruct (s_gate s) eqn:Eg.
      * destruct Lr as [Lr1 Lr2]. rewrite X2, Lr1. rewrite X2, Lr1 in Id1. ms.
      * exact Id1.
    + rewrite X5. destruct (s_gate s) eqn:Eg.
      * exact Ip1.
      * destruct Lr as [Lr1 Lr2]. rewrite X3, Lr2. ms.
    + intros E0. rewrite X4, Er in E0. discriminate.
  - (* persist *)
    destruct (s_run s) eqn:Er; [|exact HI].
    destruct (log_append_facts v san (s_rot s) (s_chan s) (s_files s) (s_act s) If Ia Ic) as [F1 [F2 F3]].
    constructor; unfold persist, cov, rb in *; cbn [s_files s_act s_chan s_due s_pend s_run s_gate s_store s_rbuf].
    + exact F1.
    + exact F2.
    + constructor.
    + rewrite F3. ms.
    + intros x; cbn; lia.
    + rewrite Er; discriminate.
  - (* flush *)
    destruct (s_run s) eqn:Er; [|exact HI].
    destruct (flush_facts v s) as [[B1 [B2 [B3 [B4 [B5 [B6 B7]]]]]] [_ [_ Hc]]].
    constructor.
    + rewrite B1; exact If.
    + rewrite B2; exact Ia.
    + rewrite B3; exact Ic.
    + rewrite B4, B1, B2. ms.
    + rewrite B5, B3. exact Ip.
    + rewrite B6, Er. discriminate.
  - (* recover *)
    destruct (s_run s) eqn:Er; [|exact HI].
    apply recover_files_inv; [exact If|constructor|exact Ia|exact Ic|exact Er| |exact Ip|].
    + unfold files_rows at 1. cbn [flat_map]. exact Id.
    + destruct Q as [Q|Q]; [left|right]; assumption.
  - (* crash *)
    unfold crash. destruct (s_run s) eqn:Er; [|exact HI].
    constructor; cbn.
    + apply Forall_app; split; [exact If|constructor; [exact Ia|constructor]].
    + constructor.
    + constructor.
    + unfold cov, rb, files_rows in *. cbn. rewrite flat_map_app. cbn [flat_map].
      destruct Q as [Q|Q]; [rewrite Q in *|rewrite Q in *; destruct (v_flush_before_delete v)]; ms.
    + intros x; cbn; lia.
    + intros _. repeat split.
Qed.

Fixpoint quiet (v : variant) (san : bytes -> bytes) (s : state) (evs : list event) : Prop :=
  match evs with
  | [] => True
  | e :: r => quiet_at v s e /\ quiet v san (step v san s e) r
  end.

Lemma run_inv v san evs : forall s,
  Inv v san s -> Forall (ev_guard v san) evs -> quiet v san s evs -> Inv v san (run_events v san s evs).
Proof.
  induction evs as [|e r IH]; intros s I G Q; [exact I|].
  inversion G; subst. destruct Q as [Q1 Q2]. cbn [run_events fold_left].
  apply IH; [apply step_inv|..]; assumption.
Qed.

Lemma quiet_fixed v san evs : v_flush_before_delete v = true -> forall s, quiet v san s evs.
Proof. intros Hf. induction evs as [|e r IH]; intros s; cbn; [exact I|]. split; [left; exact Hf|apply IH]. Qed.

Lemma run_events_app v san s a b : run_events v san s (a ++ b) = run_events v san (run_events v san s a) b.
Proof. unfold run_events. apply fold_left_app. Qed.

Lemma recover_files_all v san now : forall todo kept s,
  Forall (Forall (good v san)) todo ->
  let s' := recover_files v san now s todo kept 0 in
  s_files s' = kept /\ s_act s' = s_act s /\ s_due s' = s_due s /\ s_run s' = s_run s.
Proof.
  induction todo as [|f rest IH]; intros kept s Hall; [cbn; repeat split|].
  inversion Hall as [|? ? Hf Hrest]; subst. cbn [recover_files].
  destruct (replay_good_file v san f Hf now) as [bs [Hbs _]]. rewrite Hbs.
  destruct (rebuffer_mono s bs) as [[A1 [A2 [A3 [A4 [A5 [A6 A7]]]]]] _].
  cbn [Nat.pred].
  match goal with |- context [recover_files v san now ?s2 rest kept 0] =>
    destruct (IH kept s2 Hrest) as [C1 [C2 [C3 C4]]];
    assert (Hs2 : s_act s2 = s_act s /\ s_due s2 = s_due s /\ s_run s2 = s_run s)
      by (destruct (v_flush_before_delete v && _); cbn; repeat split; congruence)
  end.
  destruct Hs2 as [D1 [D2 D3]]. cbv zeta in *. repeat split; congruence.
Qed.

(* the next startup (new process, recovery, flush) stores every owed row *)
Lemma restart_stores v san now s :
  Inv v san s -> (v_flush_before_delete v = true \/ s_rbuf s = []) ->
  sub_ms (s_due s) (s_store (run_events v san s (restart now))).
Proof.
  intros HI Hq. unfold restart, run_events. cbn [fold_left].
  set (s1 := step v san s ECrash).
  assert (I1 : Inv v san s1) by (apply step_inv; [exact HI|exact I|exact Hq]).
  assert (R1 : s_run s1 = false /\ s_due s1 = s_due s).
  { unfold s1. cbn [step]. unfold crash. destruct (s_run s) eqn:Er; cbn; auto. }
  destruct R1 as [R1 D1].
  set (s2 := step v san s1 (EStart false false false)).
  assert (I2 : Inv v san s2) by (apply step_inv; [exact I1|exact I|left + right; exact I || (right; exact I)]).
  assert (R2 : s_run s2 = true /\ s_due s2 = s_due s1 /\ s_act s2 = [] /\ s_files s2 = s_files s1).
  { unfold s2. cbn [step]. rewrite R1. cbn. auto. }
  destruct R2 as [R2 [D2 [A2 F2]]].
  set (s3 := step v san s2 (ERecover now 0)).
  assert (I3 : Inv v san s3) by (apply step_inv; [exact I2|exact I|right; reflexivity]).
  assert (R3 : s_files s3 = [] /\ s_act s3 = [] /\ s_due s3 = s_due s2 /\ s_run s3 = true).
  { unfold s3. cbn [step]. rewrite R2.
    destruct (recover_files_all v san now (s_files s2) [] s2 (i_files _ _ _ I2)) as [C1 [C2 [C3 C4]]].
    cbv zeta in *. rewrite C1, C2, C3, C4. auto. }
  destruct R3 as [F3 [A3 [D3 R3]]].
  cbn [step]. rewrite R3.
  destruct (flush_facts v s3) as [_ [Hst [Hrb _]]].
  pose proof (i_due _ _ _ I3) as Hd. rewrite F3, A3 in Hd. rewrite D3, D2, D1 in Hd.
  unfold files_rows in Hd. cbn [flat_map] in Hd. rewrite frows_nil in Hd.
  unfold cov, rb in Hd. destruct (v_flush_before_delete v); ms.
Qed.

Lemma quiet_app_crash v san : forall evs s,
  quiet v san s (evs ++ [ECrash]) ->
  quiet v san s evs /\ (v_flush_before_delete v = true \/ s_rbuf (run_events v san s evs) = []).
Proof.
  induction evs as [|e r IH]; intros s Hq.
  - cbn in Hq. destruct Hq as [Hq _]. split; [exact I|exact Hq].
  - cbn [app quiet] in Hq. destruct Hq as [Q1 Q2].
    destruct (IH (step v san s e) Q2) as [A B]. split; [split; assumption|exact B].
Qed.

(* C05, crash half: for every history and every crash point *)
Theorem crash_any_point : forall v san evs now,
  Forall (ev_guard v san) evs ->
  (v_flush_before_delete v = true \/ quiet v san st0 (evs ++ [ECrash])) ->
  sub_ms (s_due (run_events v san st0 evs)) (s_store (run_events v san st0 (evs ++ restart now))).
Proof.
  intros v san evs now G Hq.
  rewrite run_events_app.
  assert (Hquiet : quiet v san st0 evs /\
                   (v_flush_before_delete v = true \/ s_rbuf (run_events v san st0 evs) = [])).
  { destruct Hq as [Hf|Hq]; [split; [apply quiet_fixed; exact Hf|left; exact Hf]|].
    apply quiet_app_crash. exact Hq. }
  destruct Hquiet as [Hq1 Hq2].
  apply restart_stores; [|exact Hq2].
  apply run_inv; [apply inv_st0|exact G|exact Hq1].
Qed.

(* ------------------------------------------------------------------------------------ *)
(* C32: the live path routes by the request's database and the checked measurements        *)

Lemma memb_in k l : memb k l = true <-> In k l.
Proof.
  unfold memb. rewrite existsb_exists. split.
  - intros [x [Hin He]]. apply bytes_eqb_eq in He. subst. exact Hin.
  - intros Hin. exists k. split; [exact Hin|apply bytes_eqb_refl].
Qed.

Lemma dedup_in l : forall acc x, In x (dedup l acc) <-> In x acc \/ In x l.
Proof.
  induction l as [|y l IH]; intros acc x; cbn [dedup].
  - cbn. tauto.
  - rewrite IH. destruct (memb y acc) eqn:E.
    + apply memb_in in E. cbn. split; [tauto|]. intros [H|[H|H]]; subst; tauto.
    + rewrite in_app_iff. cbn. tauto.
Qed.

Lemma upto_none_in l x : In x (fst (upto_none l)) -> In x l.
Proof.
  induction l as [|[w|] l IH]; cbn; [tauto| |].
  - destruct (upto_none l) as [a b]. cbn in *. intros [H|H]; [left; exact H|right; apply IH; exact H].
  - intros [H|[]]. left; exact H.
Qed.

(* a decoded record that carries raw bytes carries the bytes it was decoded from *)
Definition rec_wf (san : bytes -> bytes) (now : Z) (r : mrec) : Prop :=
  match r with
  | MCol m cols (Some top) => raw_parts san now top = Some (m, cols)
  | _ => True
  end.

Definition no_raw (r : mrec) : Prop :=
  match r with MCol _ _ (Some _) => False | _ => True end.

Lemma no_raw_wf san now r : no_raw r -> rec_wf san now r.
Proof. destruct r as [m cols [top|]| |]; cbn; tauto. Qed.

Lemma decode_row_no_raw san now top r : decode_row san now top = DRec r -> no_raw r.
Proof.
  unfold decode_row. destruct (extract_meas (lookupb k_m top)); [|discriminate].
  repeat match goal with |- context [match ?x with _ => _ end] => destruct x end;
    intros H; inversion H; exact I.
Qed.

Lemma batch_items_no_raw (dec : topmap -> dres) :
  (forall m r, dec m = DRec r -> no_raw r) ->
  forall items, (forall r, batch_items dec items <> DRec r) /\
                (forall l, batch_items dec items = DList l -> Forall no_raw l).
Proof.
  intros Hdec. induction items as [|it items [IH1 IH2]]; cbn [batch_items].
  - split; [discriminate|]. intros l [= <-]. constructor.
  - destruct it; try (split; assumption).
    destruct (dec l) as [rc|sub| |] eqn:Ed; destruct (batch_items dec items) as [r0|rs| |] eqn:Eb;
      split; try discriminate; try (intros; exfalso; eapply IH1; reflexivity); try (apply IH2).
    + intros l0 [= <-]. constructor; [eapply Hdec; exact Ed|apply IH2; reflexivity].
    + intros l0 [= <-]. constructor; [exact I|apply IH2; reflexivity].
Qed.

Lemma decode_map_raw fuel san now : forall top raw,
  (forall r, decode_map fuel san now top raw = DRec r ->
             match raw with None => no_raw r | Some t => t = top -> rec_wf san now r end) /\
  (forall l, decode_map fuel san now top raw = DList l -> Forall no_raw l).
Proof.
  induction fuel as [|fuel IH]; intros top raw; [split; intros; discriminate|].
  assert (Hdec : forall m r, decode_map fuel san now m None = DRec r -> no_raw r)
    by (intros m r Hr; exact (proj1 (IH m None) r Hr)).
  assert (Hnb : (forall r, (match lookupb k_columns top with
                            | Some (GMap l) => match decode_columnar san now top (array_cols l) with
                                               | Some (meas, cols) => DRec (MCol meas cols raw)
                                               | None => DErr end
                            | _ => decode_row san now top end) = DRec r ->
                           match raw with None => no_raw r | Some t => t = top -> rec_wf san now r end) /\
                (forall l, (match lookupb k_columns top with
                            | Some (GMap l) => match decode_columnar san now top (array_cols l) with
                                               | Some (meas, cols) => DRec (MCol meas cols raw)
                                               | None => DErr end
                            | _ => decode_row san now top end) = DList l -> Forall no_raw l)).
  { split.
    - intros r Hr.
      destruct (lookupb k_columns top) as [[| | | | | | |cl|]|] eqn:Ec;
        try (apply decode_row_no_raw in Hr; destruct raw; [intros _; apply no_raw_wf|]; exact Hr).
      destruct (decode_columnar san now top (array_cols cl)) as [[meas cols]|] eqn:Ed; [|discriminate].
      inversion Hr; subst. destruct raw as [t|]; [|exact I].
      intros ->. cbn. unfold raw_parts. rewrite Ec. exact Ed.
    - intros l Hl. exfalso.
      destruct (lookupb k_columns top) as [[| | | | | | |cl|]|];
        try (unfold decode_row in Hl;
             repeat match type of Hl with context [match ?x with _ => _ end] => destruct x end; discriminate). }
  cbn [decode_map].
  destruct (lookupb k_batch top) as [[| | | | | |items| |]|]; try exact Hnb.
  destruct (batch_items_no_raw _ Hdec items) as [B1 B2]. split.
  - intros r Hr. exfalso. exact (B1 r Hr).
  - exact B2.
Qed.

Lemma direct_writes_parts v san now db rs w :
  Forall (rec_wf san now) rs -> In (Some w) (direct_writes db rs) ->
  exists meas cols, bw_parts san now w = Some (db, meas, cols) /\
                    ((v_empty_meas_checked v = false /\ meas = []) \/ In meas (flat_map (rec_measurements v) rs)).
Proof.
  unfold direct_writes. induction 1 as [|r rs Hr Hrs IH]; cbn [flat_map]; [intros []|].
  rewrite in_app_iff. intros [Hin|Hin].
  - destruct r as [m cols [top|]| |]; cbn in Hin; try tauto; destruct Hin as [Hin|[]]; inversion Hin; subst; clear Hin.
    + cbn in Hr. exists m, cols. cbn [bw_parts]. rewrite Hr. split; [reflexivity|].
      cbn [rec_measurements]. destruct m; cbn [nonempty orb]; [|right; cbn; left; reflexivity].
      destruct (v_empty_meas_checked v); [right; cbn; left; reflexivity|left; split; reflexivity].
    + exists m, cols. split; [reflexivity|].
      cbn [rec_measurements]. destruct m; cbn [nonempty orb]; [|right; cbn; left; reflexivity].
      destruct (v_empty_meas_checked v); [right; cbn; left; reflexivity|left; split; reflexivity].
  - destruct (IH Hin) as [meas [cols [H1 H2]]]. exists meas, cols. split; [exact H1|].
    destruct H2 as [H2|H2]; [left; exact H2|right; apply in_app_iff; right; exact H2].
Qed.

Lemma row_group_names_meas v rs m :
  In m (row_group_names rs) -> (v_empty_meas_checked v = false /\ m = []) \/ In m (flat_map (rec_measurements v) rs).
Proof.
  unfold row_group_names. rewrite dedup_in. intros [[]|Hin].
  induction rs as [|r rs IH]; cbn [flat_map] in *; [destruct Hin|].
  rewrite in_app_iff in Hin. destruct Hin as [Hin|Hin].
  - destruct r as [? ? ?|m' ts tags fields|?]; cbn in Hin; try tauto. destruct Hin as [->|[]].
    cbn [rec_measurements]. destruct m; cbn [nonempty orb]; [|right; cbn; left; reflexivity].
    destruct (v_empty_meas_checked v); [right; cbn; left; reflexivity|left; split; reflexivity].
  - destruct (IH Hin) as [H|H]; [left; exact H|right; apply in_app_iff; right; exact H].
Qed.

Lemma msg_writes_parts v san now db rs w :
  Forall (rec_wf san now) rs -> In (Some w) (msg_writes db rs) ->
  exists meas cols, bw_parts san now w = Some (db, meas, cols) /\
                    ((v_empty_meas_checked v = false /\ meas = []) \/ In meas (dedup (flat_map (rec_measurements v) rs) [])).
Proof.
  intros Hwf Hin. unfold msg_writes in Hin.
  assert (Hcase : In (Some w) (fst (upto_none (direct_writes db rs))) \/
                  In (Some w) (map (fun m => Some (BRows db m (rows_to_columnar m rs))) (row_group_names rs))).
  { destruct (snd (upto_none (direct_writes db rs))); [apply in_app_iff in Hin; exact Hin|left; exact Hin]. }
  destruct Hcase as [H|H].
  - apply upto_none_in in H. destruct (direct_writes_parts v san now db rs w Hwf H) as [meas [cols [H1 H2]]].
    exists meas, cols. split; [exact H1|]. destruct H2 as [H2|H2]; [left; exact H2|right; apply dedup_in; right; exact H2].
  - apply in_map_iff in H. destruct H as [m [Hm Hin']]. inversion Hm; subst.
    exists m, (rows_to_columnar m rs). split; [reflexivity|].
    destruct (row_group_names_meas v rs m Hin') as [H|H]; [left; exact H|right; apply dedup_in; right; exact H].
Qed.

Lemma decode_payload_wf san now payload rs :
  decode_payload san now payload = Some (Some rs) -> Forall (rec_wf san now) rs.
Proof.
  unfold decode_payload. destruct payload as [| | | | | |items|top|]; try discriminate.
  - destruct (batch_items_no_raw (fun m => decode_map 6 san now m None)
                (fun m r Hr => proj1 (decode_map_raw 6 san now m None) r Hr) items) as [_ B2].
    destruct (batch_items _ items) eqn:Eb; try discriminate. intros [= <-].
    eapply Forall_impl; [|apply B2; reflexivity]. intros r. apply no_raw_wf.
  - destruct (decode_map_raw 6 san now top (Some top)) as [D1 D2].
    destruct (decode_map 6 san now top (Some top)) eqn:Ed; try discriminate; intros [= <-].
    + constructor; [exact (D1 r eq_refl eq_refl)|constructor].
    + eapply Forall_impl; [|apply D2; reflexivity]. intros r. apply no_raw_wf.
Qed.

Definition ok_status (f : fres) : Prop := f_writes f <> [].

Theorem live_routing : forall v san now aa al r f,
  front v san now aa al r = Some f ->
  (forall w, In (Some w) (f_writes f) ->
     exists meas cols, bw_parts san now w = Some (f_db f, meas, cols) /\
                       ((v_empty_meas_checked v = false /\ meas = []) \/ In meas (f_checked f))) /\
  (f_writes f <> [] -> forallb (allowed aa al (f_db f)) (f_checked f) = true).
Proof.
  intros v san now aa al r f H.
  destruct r as [ep qdb hdb pr fm pts|hdb payload]; cbn [front] in H.
  - set (db := match ep with
               | LPv1 | LPv2 => match hdb with [] => or_default qdb | _ => hdb end
               | LPSimple => or_default hdb
               | LPImport => match hdb with [] => qdb | _ => hdb end end) in *.
    destruct (negb (valid_db db)); [inversion H; subst; split; [intros w []|intros X; cbn in X; congruence]|].
    match type of H with (if ?c then _ else _) = _ => destruct c end;
      [inversion H; subst; split; [intros w []|intros X; cbn in X; congruence]|].
    match type of H with (if ?c then _ else _) = _ => destruct c end;
      [inversion H; subst; split; [intros w []|intros X; cbn in X; congruence]|].
    match type of H with (match ?l with [] => _ | _ => _ end) = _ => destruct l as [|p0 pts1] eqn:Ep end;
      [inversion H; subst; split; [intros w []|intros X; cbn in X; congruence]|].
    match type of H with context [batch_to_columnar now pr ?l] => set (groups := batch_to_columnar now pr l) in * end.
    destruct (forallb (allowed aa al db) (map fst groups)) eqn:Eal; cbn [negb] in H;
      [|inversion H; subst; split; [intros w []|intros X; cbn in X; congruence]].
    destruct (forallb valid_meas (map fst groups)); cbn [negb] in H;
      [|inversion H; subst; split; [intros w []|intros X; cbn in X; congruence]].
    inversion H; subst; clear H. cbn [f_writes f_db f_checked]. split.
    + intros w Hin. apply in_map_iff in Hin. destruct Hin as [g [Hg Hin]]. inversion Hg; subst.
      exists (fst g), (snd g). split; [reflexivity|]. right. apply in_map. exact Hin.
    + intros _. exact Eal.
  - destruct (decode_payload san now payload) as [[rs|]|] eqn:Ed; [|inversion H; subst; split; [intros w []|intros X; cbn in X; congruence]|discriminate].
    pose proof (decode_payload_wf san now payload rs Ed) as Hwf.
    destruct (negb (valid_db (or_default hdb))); [inversion H; subst; split; [intros w []|intros X; cbn in X; congruence]|].
    destruct (forallb valid_meas (dedup (flat_map (rec_measurements v) rs) [])); cbn [negb] in H;
      [|inversion H; subst; split; [intros w []|intros X; cbn in X; congruence]].
    destruct (forallb (allowed aa al (or_default hdb)) (dedup (flat_map (rec_measurements v) rs) [])) eqn:Eal; cbn [negb] in H;
      [|inversion H; subst; split; [intros w []|intros X; cbn in X; congruence]].
    inversion H; subst; clear H. cbn [f_writes f_db f_checked]. split.
    + intros w Hin. apply (msg_writes_parts v san now _ rs w Hwf Hin).
    + intros _. exact Eal.
Qed.

Lemma rows_of_dirs db meas t : Forall (fun r => r_dir r = (db, meas)) (rows_of db meas t).
Proof. unfold rows_of. apply Forall_forall. intros r Hin. apply in_map_iff in Hin. destruct Hin as [i [<- _]]. reflexivity. Qed.

Lemma live_batch_dirs san now w rows sg db meas cols :
  live_batch san now w = Some (rows, sg) -> bw_parts san now w = Some (db, meas, cols) ->
  Forall (fun r => r_dir r = (db, meas)) rows.
Proof.
  unfold live_batch. intros H Hp. rewrite Hp in H. destruct (convert cols); [|discriminate].
  inversion H; subst. apply rows_of_dirs.
Qed.

Lemma write_nowal_dirs san rn now db meas cols rows sg :
  write_nowal san rn now db meas cols = Some (rows, sg) -> Forall (fun r => r_dir r = (db, meas)) rows.
Proof.
  unfold write_nowal. destruct cols as [|[n0 c0] rest]; [discriminate|].
  destruct (negb (all_len (length c0) ((n0, c0) :: rest))); [discriminate|].
  destruct (Nat.eqb (length c0) 0); [discriminate|].
  match goal with |- context [if rn then ?a else ?b] => destruct (if rn then a else b) as [c2|] end; [|discriminate].
  destruct (convert (sanitize_cols san c2)); [|discriminate].
  intros [= <- _]. apply rows_of_dirs.
Qed.

(* every row a replica stores for a row-format entry (every line-protocol write, every
   msgpack row / batch write) lies in database "default", whatever the request named *)
Theorem replicated_rows_default : forall v san now recs r,
  v_repl_rows v = false ->
  In r (apply_replicated v san now (ERows recs)) -> fst (r_dir r) = k_default.
Proof.
  intros v san now recs r Hv. cbn [apply_replicated]. rewrite Hv. generalize (group_names recs []). intros ms.
  induction ms as [|m ms IH]; cbn [apply_groups]; [intros []|].
  destruct (rows_to_columns (filter (fun r0 => bytes_eqb (rec_meas_repl r0) m) recs)) as [|c cs] eqn:Ec; [exact IH|].
  destruct (write_nowal san true now k_default m (c :: cs)) as [[rows sg]|] eqn:Ew; [|intros []].
  cbn [fst]. rewrite in_app_iff. intros [Hin|Hin]; [|exact (IH Hin)].
  pose proof (write_nowal_dirs _ _ _ _ _ _ _ _ Ew) as Hd. rewrite Forall_forall in Hd.
  rewrite (Hd r Hin). reflexivity.
Qed.

(* a raw columnar entry is applied on the replica exactly as the writer stored it *)
Theorem replicated_raw_equals_live : forall v san now now' db top rows sg,
  raw_guard v_current db top ->
  (exists s, lookupb k_m top = Some (GStr s) /\ nonempty s = true) ->
  live_batch san now (BRaw db top) = Some (rows, sg) ->
  apply_replicated v san now' (EEnv db top) = rows.
Proof.
  intros v san now now' db top rows sg [Hdb [[l [tc [Hcols [Ht Htne]]]] Hm]] [s [Hs Hsne]] Hlive.
  unfold live_batch in Hlive. cbn [bw_parts] in Hlive. unfold raw_parts in Hlive. rewrite Hcols in Hlive.
  destruct (decode_columnar san now top (array_cols l)) as [[meas cols]|] eqn:Hd; [|discriminate].
  destruct (decode_columnar_inv san now top _ meas cols Hd tc Ht Htne)
    as [Hem [n0 [c0 [rest [cols2 [Ec [Hl [Hn ->]]]]]]]].
  destruct (convert (sanitize_cols san cols2)) as [t|] eqn:Hc; [|discriminate].
  inversion Hlive; subst rows sg; clear Hlive.
  rewrite Hs in Hem. cbn in Hem. inversion Hem; subst meas.
  cbn [apply_replicated]. rewrite Hs. cbn [extract_meas]. replace (if v_int_m v then Some s else Some s) with (Some s) by (destruct (v_int_m v); reflexivity).
  rewrite Hcols, Hsne.
  assert (Hl0 : Nat.eqb (length l) 0 = false).
  { destruct l; [cbn in Ec; discriminate|reflexivity]. }
  assert (Ha0 : Nat.eqb (length (array_cols l)) 0 = false) by (rewrite Ec; reflexivity).
  rewrite Hl0, Ha0. cbn [negb andb].
  unfold write_nowal. rewrite Ec. rewrite <- Ec. rewrite Hl. cbn [negb].
  assert (Hlen : length tc = length c0) by (eapply all_len_lookup; eassumption).
  assert (Hn0 : Nat.eqb (length c0) 0 = false).
  { apply Nat.eqb_neq. destruct tc; [congruence|cbn in Hlen; lia]. }
  rewrite Hn0. unfold has_key. rewrite Ht. rewrite Hn, Hc. reflexivity.
Qed.

(* ------------------------------------------------------------------------------------ *)
(* refutation witnesses (each is replayed against the real code on every run)             *)

From Coq Require Import String.
Open Scope string_scope.

Definition b_mydb := Eval compute in str "mydb".
Definition b_otherdb := Eval compute in str "otherdb".
Definition b_cpu := Eval compute in str "cpu".
Definition b_mem := Eval compute in str "mem".
Definition b_v := Eval compute in str "v".
Definition b_zz := Eval compute in str "zz".
Definition b_abc := Eval compute in str "abc".
Definition t0 : Z := 1700000000000000.

(* `cpu v=1i` and `cpu,_database=otherdb v=2i` written to mydb in one request *)
Definition w_routing : bwrite :=
  BRows b_mydb b_cpu [(k_time, [GInt t0; GInt (t0 + 1)]); (k_udb, [GNil; GStr b_otherdb]); (b_v, [GInt 1; GInt 2])].
(* `cpu,m=zz v=3i` *)
Definition w_legacy : bwrite :=
  BRows b_mydb b_cpu [(k_time, [GInt t0]); (k_m, [GStr b_zz]); (b_v, [GInt 3])].
(* a row at 1970-01-01T00:00:05 and one a second before the epoch *)
Definition w_time : bwrite :=
  BRows b_mydb b_mem [(k_time, [GInt 5000000; GInt (-1000000)]); (b_v, [GInt 1; GInt 2])].
(* msgpack columnar {m: 5, columns: {time: [t0], v: [7]}} *)
Definition w_intm : bwrite :=
  BRaw b_mydb [(k_m, GInt 5); (k_columns, GMap [(k_time, GArr [GInt t0]); (b_v, GArr [GInt 7])])].
(* `cpu v=1i` and `cpu v=1.5` in one request *)
Definition w_mixed : bwrite :=
  BRows b_mydb b_cpu [(k_time, [GInt t0; GInt (t0 + 1)]); (b_v, [GInt 1; GFloat 4609434218613702656%N])].
(* a plain write that every variant replays faithfully *)
Definition w_plain : bwrite :=
  BRows b_mydb b_mem [(k_time, [GInt (t0 + 5)]); (b_v, [GInt 2])].
(* `cpu,time=abc v=1i`: the WAL row is appended, then the conversion rejects the string time *)
Definition w_poison : bwrite :=
  BRows b_mydb b_cpu [(k_time, [GStr b_abc]); (b_v, [GInt 1])].

Definition replayed (v : variant) (w : bwrite) : list srow :=
  batch_rows (fst (replay_file v idsan 0 (wal_entries v w))).

Ltac all_variants v H :=
  destruct v as [f1 f2 f3 f4 f5 f6 f7 f8]; cbn in H; subst; repeat match goal with b : bool |- _ => destruct b end.

Lemma routing_refuted : forall v, v_routing_last v = false ->
  option_map (map r_dir) (live_rows idsan 0 w_routing) = Some [(b_mydb, b_cpu); (b_mydb, b_cpu)] /\
  map r_dir (replayed v w_routing) = [(k_default, b_cpu); (b_otherdb, b_cpu)].
Proof. intros v H. all_variants v H; vm_compute; split; reflexivity. Qed.

Lemma legacy_refuted : forall v, v_strict_keys v = false ->
  option_map (map (fun r => lookupb k_m (r_cells r))) (live_rows idsan 0 w_legacy) = Some [Some (CStr b_zz)] /\
  map (fun r => lookupb k_m (r_cells r)) (replayed v w_legacy) = [None].
Proof. intros v H. all_variants v H; vm_compute; split; reflexivity. Qed.

Lemma time_refuted : forall v, v_rows_no_renorm v = false ->
  option_map (map (fun r => lookupb k_time (r_cells r))) (live_rows idsan 0 w_time)
    = Some [Some (CInt 5000000); Some (CInt (-1000000))] /\
  map (fun r => lookupb k_time (r_cells r)) (replayed v w_time)
    = [Some (CInt 5000000000000); Some (CInt (-1000000000000))].
Proof. intros v H. all_variants v H; vm_compute; split; reflexivity. Qed.

Lemma intm_refuted : forall v, v_int_m v = false ->
  option_map (@List.length srow) (live_rows idsan 0 w_intm) = Some 1%nat /\ replayed v w_intm = [].
Proof. intros v H. all_variants v H; vm_compute; split; reflexivity. Qed.

Lemma mixed_refuted : forall v,
  option_map (map (fun r => lookupb b_v (r_cells r))) (live_rows idsan 0 w_mixed)
    = Some [Some (CInt 1); Some (CInt 1)] /\
  map (fun r => lookupb b_v (r_cells r)) (replayed v w_mixed)
    = [Some (CInt 1); Some (CFloat 4609434218613702656%N)].
Proof. intros v. destruct v as [[] [] [] [] [] [] [] []]; vm_compute; split; reflexivity. Qed.

(* the crash window: write, crash, restart and replay, crash again before the flush *)
Definition h_window : list event :=
  [EStart false false false; EWrite 0 [w_plain] true; ECrash; EStart false false false; ERecover 0 0].

Lemma plain_guard v : write_guard v idsan 0 w_plain.
Proof.
  left. split; [|vm_compute; discriminate].
  cbn [bw_guard w_plain]. unfold rows_guard.
  split; [reflexivity|]. split; [reflexivity|].
  split; [repeat constructor; cbn; intuition discriminate|].
  split; [exists [GInt (t0 + 5)]; split; [reflexivity|split; [discriminate|right; reflexivity]]|].
  split; [exists 1%nat; reflexivity|].
  split; [reflexivity|].
  split; [repeat constructor|].
  split; right; reflexivity.
Qed.

Lemma window_refuted : forall v, v_flush_before_delete v = false ->
  Forall (ev_guard v idsan) h_window /\
  List.length (s_due (run_events v idsan st0 h_window)) = 1%nat /\
  s_store (run_events v idsan st0 (h_window ++ restart 0)) = [].
Proof.
  intros v H. split.
  - unfold h_window. constructor; [exact I|]. constructor; [|repeat (constructor; [exact I|]); constructor].
    cbn [ev_guard]. constructor; [apply plain_guard|constructor].
  - all_variants v H; vm_compute; split; reflexivity.
Qed.

(* a rejected write poisons the WAL file: the acknowledged write after it is never replayed *)
Definition h_poison : list event :=
  [EStart false false false; EWrite 0 [w_poison] true; EWrite 0 [w_plain] true].

Lemma poison_refuted : forall v, v_convert_first v = false ->
  List.length (s_due (run_events v idsan st0 h_poison)) = 1%nat /\
  s_store (run_events v idsan st0 (h_poison ++ restart 0)) = [] /\
  List.length (s_files (run_events v idsan st0 (h_poison ++ restart 0))) = 1%nat.
Proof. intros v H. all_variants v H; vm_compute; repeat split; reflexivity. Qed.

(* C32: an empty measurement is neither validated nor permission-checked *)
Definition r_empty_meas : hreq :=
  HMsg b_mydb (GMap [(k_m, GStr []); (k_columns, GMap [(k_time, GArr [GInt t0]); (b_v, GArr [GInt 1])])]).

Lemma empty_measurement_unchecked :
  match front v_current idsan 0 false [] r_empty_meas with
  | Some f =>
      f_status f = 204 /\ f_checked f = [] /\
      match f_writes f with
      | [Some w] => option_map (fun p => snd (fst p)) (bw_parts idsan 0 w) = Some [] /\
                    option_map (map r_dir) (live_rows idsan 0 w) = Some [(b_mydb, [])]
      | _ => False
      end
  | None => False
  end.
Proof. vm_compute. repeat split; reflexivity. Qed.

(* C32: the replica stores the rows of a line-protocol write to mydb under "default" *)
Lemma replicated_refuted :
  option_map (map r_dir) (live_rows idsan 0 w_plain) = Some [(b_mydb, b_mem)] /\
  map r_dir (flat_map (apply_replicated v_current idsan 0) (wal_entries v_current w_plain)) = [(k_default, b_mem)].
Proof. vm_compute. split; reflexivity. Qed.

(* ------------------------------------------------------------------------------------ *)
(* the repaired replica route                                                             *)

Lemma wal_row_keys v db meas cols n i :
  all_len n cols = true -> (i < n)%nat ->
  (v_routing_last v = true \/ forallb (fun nc => keep_col (fst nc)) cols = true) ->
  str_key k_umeas (wal_row v db meas cols i) = meas /\ str_key k_udb (wal_row v db meas cols i) = db.
Proof.
  intros Hl Hi Hr. unfold wal_row. cbv zeta. rewrite (cols_row_rect n cols i Hl Hi).
  destruct (v_routing_last v) eqn:Erl; [split; reflexivity|].
  destruct Hr as [Hr|Hr]; [congruence|].
  assert (Hnk : forall k, is_routing_u k = true -> lookupb k (row_kv cols i) = None).
  { intros k Hk. apply (lookupb_notkey keep_col); [rewrite forallb_row_kv; exact Hr|].
    unfold keep_col. rewrite Hk. reflexivity. }
  assert (Hf : filter (fun kv => negb (has_key (fst kv) (row_kv cols i))) (routing db meas) = routing db meas).
  { cbn [routing filter fst]. unfold has_key. rewrite (Hnk k_udb eq_refl), (Hnk k_umeas eq_refl). reflexivity. }
  rewrite Hf. unfold str_key. rewrite !lookupb_app, (Hnk k_udb eq_refl), (Hnk k_umeas eq_refl). split; reflexivity.
Qed.

Lemma repl_target_wal_row v dflt db meas cols n i :
  nonempty db = true -> nonempty meas = true ->
  all_len n cols = true -> (i < n)%nat ->
  (v_routing_last v = true \/ forallb (fun nc => keep_col (fst nc)) cols = true) ->
  repl_target dflt (wal_row v db meas cols i) = Some (db, meas).
Proof.
  intros Hdb Hmeas Hl Hi Hr. destruct (wal_row_keys v db meas cols n i Hl Hi Hr) as [Hum Hud].
  unfold repl_target, rec_route. cbv beta zeta. rewrite Hum, Hud.
  repeat (rewrite ?Hmeas, ?Hdb; cbn [negb orb andb v_strict_keys strict_v]; cbv iota). reflexivity.
Qed.

Lemma apply_targets_dirs san now dflt recs ts r :
  In r (apply_targets san now dflt recs ts) -> In (r_dir r) ts.
Proof.
  induction ts as [|t ts IH]; cbn [apply_targets]; [intros []|].
  match goal with |- context [strict_columns ?rows] => destruct (strict_columns rows) as [|c cs] eqn:Ec end;
    [intros H; right; exact (IH H)|].
  destruct (write_nowal san false now (fst t) (snd t) (c :: cs)) as [[rows sg]|] eqn:Ew; [|intros []].
  cbn [fst]. rewrite in_app_iff. intros [Hin|Hin]; [left|right; exact (IH Hin)].
  pose proof (write_nowal_dirs _ _ _ _ _ _ _ _ Ew) as Hd. rewrite Forall_forall in Hd.
  rewrite (Hd r Hin). destruct t; reflexivity.
Qed.

Lemma group_targets_in dflt recs : forall acc t,
  In t (group_targets dflt recs acc) -> In t acc \/ exists rec, In rec recs /\ repl_target dflt rec = Some t.
Proof.
  induction recs as [|rec recs IH]; intros acc t; cbn [group_targets]; [tauto|].
  intros H. apply IH in H. destruct H as [H|[rec' [H1 H2]]]; [|right; exists rec'; split; [right; exact H1|exact H2]].
  destruct (repl_target dflt rec) as [t'|] eqn:Et; [|left; exact H].
  destruct (existsb (dir_t_eqb t') acc); [left; exact H|].
  apply in_app_iff in H. destruct H as [H|[H|[]]]; [left; exact H|].
  right. exists rec. split; [left; reflexivity|congruence].
Qed.

(* with the replica repair (and routing keys that cannot be overwritten) every replicated row
   of a row-format write lands under the database and measurement of the request *)
Theorem replicated_rows_fixed : forall v san now db meas cols n r,
  v_repl_rows v = true ->
  nonempty db = true -> nonempty meas = true -> all_len n cols = true ->
  (v_routing_last v = true \/ forallb (fun nc => keep_col (fst nc)) cols = true) ->
  In r (flat_map (apply_replicated v san now) (wal_entries v (BRows db meas cols))) ->
  r_dir r = (db, meas).
Proof.
  intros v san now db meas cols n r Hv Hdb Hmeas Hl Hr Hin.
  unfold wal_entries in Hin.
  destruct cols as [|[n0 c0] rest] eqn:Ecols; [destruct Hin|]. rewrite <- Ecols in *.
  assert (Hcne : cols <> []) by (rewrite Ecols; discriminate).
  rewrite (wal_rows_seq v db meas cols n Hcne Hl) in Hin.
  destruct (map (wal_row v db meas cols) (seq 0 n)) as [|r0 rs] eqn:Em; [destruct Hin|].
  rewrite <- Em in Hin. cbn [flat_map apply_replicated] in Hin. rewrite Hv, app_nil_r in Hin.
  apply apply_targets_dirs in Hin. apply group_targets_in in Hin. destruct Hin as [[]|[rec [Hrec Ht]]].
  apply in_map_iff in Hrec. destruct Hrec as [i [<- Hi]]. apply in_seq in Hi.
  rewrite (repl_target_wal_row v k_default db meas cols n i Hdb Hmeas Hl) in Ht by (try assumption; lia).
  congruence.
Qed.

(* ------------------------------------------------------------------------------------ *)
(* packaged statements                                                                    *)

Theorem replay_equals_live : forall v san now now' w rows sg,
  bw_guard v san w -> live_batch san now w = Some (rows, sg) ->
  exists bs, replay_file v san now' (wal_entries v w) = (bs, true) /\ batch_rows bs = rows.
Proof.
  intros v san now now' [db meas cols|db top] rows sg G Hl.
  - eapply replay_rows_equals_live; eassumption.
  - exists [(rows, sg)]. split; [eapply replay_raw_equals_live; eassumption|].
    unfold batch_rows. cbn. apply app_nil_r.
Qed.

Lemma Forall_firstn {A} (P : A -> Prop) k l : Forall P l -> Forall P (firstn k l).
Proof. revert k. induction l as [|x l IH]; intros [|k] H; cbn; try constructor; inversion H; subst; auto. Qed.

Theorem crash_any_prefix : forall v san evs k now,
  Forall (ev_guard v san) evs ->
  (v_flush_before_delete v = true \/ quiet v san st0 (firstn k evs ++ [ECrash])) ->
  sub_ms (s_due (run_events v san st0 (firstn k evs)))
         (s_store (run_events v san st0 (firstn k evs ++ restart now))).
Proof. intros v san evs k now G Q. apply crash_any_point; [apply Forall_firstn; exact G|exact Q]. Qed.

(* replayed rows land in the directories the live rows were stored in *)
Theorem replay_dirs : forall v san now now' w rows sg bs,
  bw_guard v san w -> live_batch san now w = Some (rows, sg) ->
  replay_file v san now' (wal_entries v w) = (bs, true) ->
  map r_dir (batch_rows bs) = map r_dir rows.
Proof.
  intros v san now now' w rows sg bs G Hl Hr.
  destruct (replay_equals_live v san now now' w rows sg G Hl) as [bs' [Hb He]].
  rewrite Hr in Hb. inversion Hb; subst. reflexivity.
Qed.

(* with the proposed repairs the name- and time-related guards disappear *)
Theorem fixed_rows_guard : forall san db meas cols,
  nonempty db = true -> nonempty meas = true -> NoDup (map fst cols) ->
  (exists tc, lookupb k_time cols = Some tc /\ tc <> []) ->
  (exists n, all_len n cols = true) ->
  forallb (fun nc => homog_col (snd nc)) cols = true ->
  clean_cols san cols ->
  rows_guard v_fixed san db meas cols.
Proof.
  intros san db meas cols H1 H2 H3 [tc [H4 H5]] H6 H7 H8. unfold rows_guard.
  repeat split; try assumption; try (left; reflexivity).
  exists tc. repeat split; try assumption. left; reflexivity.
Qed.

(* ------------------------------------------------------------------------------------ *)
(* the repaired code: what is left of the guards                                          *)

Theorem repaired_rows_guard : forall v san db meas cols,
  v_routing_last v = true -> v_strict_keys v = true -> v_rows_no_renorm v = true ->
  nonempty db = true -> nonempty meas = true -> NoDup (map fst cols) ->
  (exists tc, lookupb k_time cols = Some tc /\ tc <> []) ->
  (exists n, all_len n cols = true) ->
  forallb (fun nc => homog_col (snd nc)) cols = true ->
  clean_cols san cols ->
  rows_guard v san db meas cols.
Proof.
  intros v san db meas cols F1 F2 F3 H1 H2 H3 [tc [H4 H5]] H6 H7 H8. unfold rows_guard.
  repeat split; try assumption; try (left; assumption).
  exists tc. repeat split; try assumption. left; assumption.
Qed.

Theorem repaired_raw_guard : forall v db top,
  v_int_m v = true -> nonempty db = true ->
  (exists l tc, lookupb k_columns top = Some (GMap l) /\ lookupb k_time (array_cols l) = Some tc /\ tc <> []) ->
  raw_guard v db top.
Proof. intros v db top F H1 H2. unfold raw_guard. repeat split; try assumption. right; exact F. Qed.

Theorem crash_any_prefix_repaired : forall v san evs k now,
  v_flush_before_delete v = true ->
  Forall (ev_guard v san) evs ->
  sub_ms (s_due (run_events v san st0 (firstn k evs)))
         (s_store (run_events v san st0 (firstn k evs ++ restart now))).
Proof. intros v san evs k now F G. apply crash_any_prefix; [exact G|left; exact F]. Qed.

Theorem live_routing_repaired : forall v san now aa al r f,
  v_empty_meas_checked v = true ->
  front v san now aa al r = Some f ->
  (forall w, In (Some w) (f_writes f) ->
     exists meas cols, bw_parts san now w = Some (f_db f, meas, cols) /\ In meas (f_checked f)) /\
  (f_writes f <> [] -> forallb (allowed aa al (f_db f)) (f_checked f) = true).
Proof.
  intros v san now aa al r f F H. destruct (live_routing v san now aa al r f H) as [A B]. split; [|exact B].
  intros w Hin. destruct (A w Hin) as [meas [cols [H1 [[H2 _]|H2]]]]; [congruence|].
  exists meas, cols. split; assumption.
Qed.
