(* C26 obligations on the parameters regenerated from /repo on every run
   (coq/gen/Params_Nonce.v, written by tools/props/C26.py through tools/goast):
   every NewNonceCache(ttl) construction site must retain nonces for at least the whole
   acceptance window of the largest tolerance any validator is called with. *)
From Coq Require Import List ZArith Bool Lia String.
From Arc Require Import Lib.AList Nonce.Model Nonce.Proofs.
From ArcGen Require Import Params_Nonce.
Import ListNotations.
Open Scope Z_scope.

Definition site_ok (s : string * Z) : bool := (2 * (tolerance_ns / sec) + 1) * sec <=? snd s.

Theorem C26_sites_cover : 0 <= tolerance_ns /\ nonce_sites <> [] /\ forallb site_ok nonce_sites = true.
Proof. vm_compute. repeat split; try discriminate; intro; discriminate. Qed.
Print Assumptions C26_sites_cover.

(* The deployed configuration: for every construction site found in the source, with the
   tolerance found in the source, no replay is accepted. *)
Theorem C26_deployed_no_replay : forall site, In site nonce_sites ->
  forall evs c i j ti tj m,
  nondecr (map fst evs) -> (i < j)%nat ->
  nth_error evs i = Some (ti, m) -> nth_error evs j = Some (tj, m) ->
  nth_error (run tolerance_ns (snd site) c evs) i = Some true ->
  nth_error (run tolerance_ns (snd site) c evs) j = Some false.
Proof.
  intros site Hin evs c i j ti tj m. destruct C26_sites_cover as [Htol [_ Hall]].
  rewrite forallb_forall in Hall. specialize (Hall site Hin). unfold site_ok in Hall.
  apply Z.leb_le in Hall. apply no_replay; assumption.
Qed.
Print Assumptions C26_deployed_no_replay.
