(* C26 - Nonce-protected cluster requests cannot be replayed.
   Only property statements live here; proofs are in Proofs.v. *)
From Coq Require Import List ZArith Bool Lia.
From Arc Require Import Lib.AList Nonce.Model Nonce.Proofs.
Import ListNotations.
Open Scope Z_scope.

(* Full statement: in ANY history of deliveries with a non-decreasing clock, starting from
   ANY cache state, if the nonce retention covers the whole acceptance window
   (2*tolerance + 1 s, the +1 s because the validator floors the clock to seconds), a
   message (same sender, nonce, signed timestamp) accepted once is rejected at every later
   delivery. *)
Theorem C26_no_replay : forall tol ttl evs c i j ti tj m,
  0 <= tol -> (2 * (tol / sec) + 1) * sec <= ttl ->
  nondecr (map fst evs) -> (i < j)%nat ->
  nth_error evs i = Some (ti, m) -> nth_error evs j = Some (tj, m) ->
  nth_error (run tol ttl c evs) i = Some true ->
  nth_error (run tol ttl c evs) j = Some false.
Proof. exact no_replay. Qed.
Print Assumptions C26_no_replay.

(* A message whose timestamp is outside the tolerance window, or whose MAC does not verify, is rejected, whatever the
   cache holds and whatever the retention is. *)
Theorem C26_stale_rejected : forall tol ttl evs c j tj m,
  nth_error evs j = Some (tj, m) -> admissible tol tj m = false ->
  nth_error (run tol ttl c evs) j = Some false.
Proof. exact stale_rejected. Qed.
Print Assumptions C26_stale_rejected.

(* The retention bound is necessary: with retention = tolerance (whole seconds), for every
   tolerance and every start time, a message dated `tolerance` into the future is accepted
   on arrival and again `tolerance` later. *)
Theorem C26_short_ttl_replay : forall tol_s t1_s n,
  0 < tol_s -> 0 <= t1_s ->
  let tol := tol_s * sec in
  let m := {| m_key := (1%N, n); m_ts := t1_s + tol_s; m_auth := true |} in
  run tol tol (new_cache (t1_s * sec)) [(t1_s * sec, m); (t1_s * sec + tol, m)] = [true; true].
Proof. exact short_ttl_replay. Qed.
Print Assumptions C26_short_ttl_replay.

(* Non-vacuity: a concrete history meeting every hypothesis of C26_no_replay, in which the
   first delivery IS accepted (and a second sender's message in between is accepted too). *)
Example C26_no_replay_nonvacuous :
  let tol := 300 * sec in let ttl := 601 * sec in
  let m := {| m_key := (1%N, 7%N); m_ts := 1300; m_auth := true |} in
  let m' := {| m_key := (2%N, 7%N); m_ts := 1000; m_auth := true |} in
  let evs := [(1000 * sec, m); (1200 * sec, m'); (1600 * sec, m)] in
  nondecr (map fst evs) /\ (2 * (tol / sec) + 1) * sec <= ttl /\
  run tol ttl (new_cache 0) evs = [true; true; false].
Proof. vm_compute. repeat split; intro; discriminate. Qed.
