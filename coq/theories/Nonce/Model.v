(* Model of internal/cluster/security/nonce_cache.go (NonceCache.Track) and of the
   timestamp test shared by every Validate*HMAC function in auth.go, composed the way
   the handlers compose them: validate the signed timestamp first, then Track the
   (sender, nonce) pair.  Times are nanoseconds since the epoch (Z); the signed
   timestamp is in whole seconds.  The MAC itself is idealised: a replayed message
   carries the same (sender, nonce, timestamp) triple as the original. *)
From Coq Require Import List ZArith Bool.
From Arc Require Import Lib.AList.
Import ListNotations.
Open Scope Z_scope.

Definition sec : Z := 1000000000.
Definition evict_interval : Z := 60 * sec.

Definition key := (N * N)%type.            (* sender id, nonce id *)
Definition key_eqb (a b : key) : bool :=
  (N.eqb (fst a) (fst b) && N.eqb (snd a) (snd b))%bool.

Record cache := { entries : list (key * Z); last_evict : Z }.

Definition new_cache (now : Z) : cache := {| entries := []; last_evict := now |}.

(* Validate*HMAC: now := time.Now().Unix(); drift := |now - ts|;
   reject when drift > int64(tolerance.Seconds()). *)
Definition ts_fresh (tol_ns now ts : Z) : bool :=
  Z.abs (now / sec - ts) <=? tol_ns / sec.

(* NonceCache.Track *)
Definition track (ttl : Z) (c : cache) (now : Z) (k : key) : cache * bool :=
  let expiry := now + ttl in
  let dup := match lookup key_eqb k (entries c) with
             | Some e => now <? e
             | None => false
             end in
  if dup then (c, false)
  else
    let es := insert key_eqb k expiry (entries c) in
    if evict_interval <? now - last_evict c
    then ({| entries := filter (fun kv => negb (snd kv <=? now)) es; last_evict := now |}, true)
    else ({| entries := es; last_evict := last_evict c |}, true).

Record msg := { m_key : key; m_ts : Z; m_auth : bool }.   (* m_auth: the MAC verifies *)

Definition admissible (tol now : Z) (m : msg) : bool := ts_fresh tol now (m_ts m) && m_auth m.

(* handler: timestamp check, MAC check, then nonce tracking (a stale or forged message
   does not burn a nonce slot) *)
Definition receive (tol ttl : Z) (c : cache) (now : Z) (m : msg) : cache * bool :=
  if admissible tol now m then track ttl c now (m_key m) else (c, false).

Fixpoint run (tol ttl : Z) (c : cache) (evs : list (Z * msg)) : list bool :=
  match evs with
  | [] => []
  | (now, m) :: r =>
      let '(c', ok) := receive tol ttl c now m in ok :: run tol ttl c' r
  end.

(* ---- executable correspondence / oracle helpers -------------------------------- *)

Definition msg_eqb (a b : msg) : bool :=
  key_eqb (m_key a) (m_key b) && (m_ts a =? m_ts b) && Bool.eqb (m_auth a) (m_auth b).

(* spec oracle on an observed decision list: no message accepted twice, and nothing
   accepted whose timestamp is outside the window *)
Fixpoint accepted_twice (evs : list (Z * msg)) (outs : list bool) (seen : list msg) : bool :=
  match evs, outs with
  | (_, m) :: r, o :: ro =>
      if o then (if existsb (msg_eqb m) seen then true else accepted_twice r ro (m :: seen))
      else accepted_twice r ro seen
  | _, _ => false
  end.

Fixpoint accepted_stale (tol : Z) (evs : list (Z * msg)) (outs : list bool) : bool :=
  match evs, outs with
  | (now, m) :: r, o :: ro => (o && negb (admissible tol now m)) || accepted_stale tol r ro
  | _, _ => false
  end.

Definition oracle_ok (tol : Z) (evs : list (Z * msg)) (outs : list bool) : bool :=
  negb (accepted_twice evs outs []) && negb (accepted_stale tol evs outs).

Fixpoint list_bool_eqb (a b : list bool) : bool :=
  match a, b with
  | [], [] => true
  | x :: a', y :: b' => Bool.eqb x y && list_bool_eqb a' b'
  | _, _ => false
  end.

(* a correspondence case: parameters, start time, events, decisions observed on the Go code *)
Record ccase := { c_tol : Z; c_ttl : Z; c_t0 : Z; c_evs : list (Z * msg); c_obs : list bool }.

Definition case_agrees (c : ccase) : bool :=
  list_bool_eqb (run (c_tol c) (c_ttl c) (new_cache (c_t0 c)) (c_evs c)) (c_obs c).
Definition case_oracle (c : ccase) : bool := oracle_ok (c_tol c) (c_evs c) (c_obs c).

Fixpoint failing {A} (f : A -> bool) (n : nat) (l : list A) : list nat :=
  match l with
  | [] => []
  | x :: r => if f x then failing f (S n) r else n :: failing f (S n) r
  end.
