From Coq Require Import List ZArith Bool Lia.
From Arc Require Import Lib.AList Nonce.Model.
Import ListNotations.
Open Scope Z_scope.

Lemma key_eqb_spec : forall a b : key, reflect (a = b) (key_eqb a b).
Proof.
  intros [a1 a2] [b1 b2]; unfold key_eqb; cbn.
  destruct (N.eqb_spec a1 b1), (N.eqb_spec a2 b2); cbn; constructor; congruence.
Qed.

Fixpoint nondecr (l : list Z) : Prop :=
  match l with
  | [] => True
  | x :: r => match r with [] => True | y :: _ => x <= y end /\ nondecr r
  end.

Lemma nondecr_cons_inv x y r : nondecr (x :: y :: r) -> x <= y /\ nondecr (y :: r).
Proof. cbn. tauto. Qed.

(* the window in which a timestamp is accepted, in nanoseconds *)
Lemma ts_fresh_window tol now ts :
  0 <= tol -> ts_fresh tol now ts = true ->
  (ts - tol / sec) * sec <= now < (ts + tol / sec + 1) * sec.
Proof.
  unfold ts_fresh, sec. intros Htol H. apply Z.leb_le in H.
  assert (Hq : 0 <= tol / 1000000000) by (apply Z.div_pos; lia).
  pose proof (Z.div_mod now 1000000000 ltac:(lia)) as Hd.
  pose proof (Z.mod_pos_bound now 1000000000 ltac:(lia)) as Hm.
  lia.
Qed.

Section Inv.
  Variables (tol ttl : Z) (k : key) (t1 : Z).

  (* after (k) was accepted at time t1, and as long as the clock has not passed t1+ttl,
     the cache holds k with an expiry no earlier than t1+ttl *)
  Definition covered (c : cache) (t : Z) : Prop :=
    t < t1 + ttl -> exists e, lookup key_eqb k (entries c) = Some e /\ t1 + ttl <= e.

  Lemma track_accept_covers c now c' :
    now = t1 -> track ttl c now k = (c', true) -> covered c' now.
  Proof.
    intros -> H Hlt. unfold track in H.
    destruct (match lookup key_eqb k (entries c) with Some e => t1 <? e | None => false end);
      [discriminate|].
    remember (insert key_eqb k (t1 + ttl) (entries c)) as es eqn:Hes.
    assert (Hl : lookup key_eqb k es = Some (t1 + ttl))
      by (subst es; apply (lookup_insert_same key_eqb key_eqb_spec)).
    destruct (evict_interval <? t1 - last_evict c); injection H as Hc'; subst c'; cbn [entries].
    - exists (t1 + ttl). split; [|lia].
      apply (lookup_filter key_eqb key_eqb_spec); [exact Hl|].
      cbn. apply negb_true_iff. apply Z.leb_gt. lia.
    - exists (t1 + ttl). split; [exact Hl|lia].
  Qed.

  Lemma track_preserves c t now k' c' ok :
    covered c t -> t <= now -> track ttl c now k' = (c', ok) -> covered c' now.
  Proof.
    intros Hc Hle H Hlt. destruct (Hc ltac:(lia)) as [e [He Hee]].
    unfold track in H.
    destruct (key_eqb_spec k' k) as [->|Hne].
    - rewrite He in H. assert (Hd : (now <? e) = true) by (apply Z.ltb_lt; lia).
      rewrite Hd in H. inversion H; subst. exists e; tauto.
    - destruct (match lookup key_eqb k' (entries c) with Some e0 => now <? e0 | None => false end).
      + inversion H; subst. exists e; tauto.
      + remember (insert key_eqb k' (now + ttl) (entries c)) as es eqn:Hes.
        assert (Hl : lookup key_eqb k es = Some e).
        { subst es. rewrite (lookup_insert_other key_eqb key_eqb_spec); [exact He|congruence]. }
        destruct (evict_interval <? now - last_evict c); injection H as Hc' _; subst c'; cbn [entries]; exists e; split; try lia.
        * apply (lookup_filter key_eqb key_eqb_spec); [exact Hl|].
          cbn. apply negb_true_iff. apply Z.leb_gt. lia.
        * exact Hl.
  Qed.

  Lemma receive_preserves c t now m c' ok :
    covered c t -> t <= now -> receive tol ttl c now m = (c', ok) -> covered c' now.
  Proof.
    intros Hc Hle H. unfold receive in H. destruct (admissible tol now m).
    - eapply track_preserves; eassumption.
    - inversion H; subst. intros Hlt. apply Hc. lia.
  Qed.

  (* every later delivery of a message with key k strictly before t1+ttl is rejected *)
  Lemma covered_rejects : forall evs c t j tj m,
    covered c t -> nondecr (t :: map fst evs) ->
    nth_error evs j = Some (tj, m) -> m_key m = k -> tj < t1 + ttl ->
    nth_error (run tol ttl c evs) j = Some false.
  Proof.
    induction evs as [|[now m0] r IH]; intros c t j tj m Hc Hs Hn Hk Hlt.
    - destruct j; discriminate.
    - cbn [map fst] in Hs. apply nondecr_cons_inv in Hs. destruct Hs as [Hle Hs].
      cbn [run]. destruct (receive tol ttl c now m0) as [c' ok] eqn:Hr.
      destruct j as [|j].
      + cbn in Hn. inversion Hn; subst. cbn. f_equal.
        unfold receive in Hr. destruct (admissible tol tj m); [|inversion Hr; reflexivity].
        destruct (Hc ltac:(lia)) as [e [He Hee]].
        unfold track in Hr. rewrite Hk, He in Hr.
        assert (Hd : (tj <? e) = true) by (apply Z.ltb_lt; lia).
        rewrite Hd in Hr. inversion Hr; reflexivity.
      + cbn in Hn |- *. eapply IH; try eassumption.
        eapply receive_preserves; eassumption.
  Qed.
End Inv.

Lemma nondecr_head_le : forall r x j b, nondecr (x :: r) -> nth_error r j = Some b -> x <= b.
Proof.
  induction r as [|y r IH]; intros x j b Hs Hj; [destruct j; discriminate|].
  apply nondecr_cons_inv in Hs. destruct Hs as [Hxy Hs].
  destruct j as [|j]; cbn in Hj.
  - inversion Hj; subst; lia.
  - specialize (IH y j b Hs Hj). lia.
Qed.

Lemma no_replay : forall tol ttl evs c i j ti tj m,
  0 <= tol -> (2 * (tol / sec) + 1) * sec <= ttl ->
  nondecr (map fst evs) -> (i < j)%nat ->
  nth_error evs i = Some (ti, m) -> nth_error evs j = Some (tj, m) ->
  nth_error (run tol ttl c evs) i = Some true ->
  nth_error (run tol ttl c evs) j = Some false.
Proof.
  intros tol ttl. induction evs as [|[now m0] r IH]; intros c i j ti tj m Htol Httl Hs Hij Hi Hj Hacc.
  - destruct i; discriminate.
  - cbn [run] in *. destruct (receive tol ttl c now m0) as [c' ok] eqn:Hr.
    destruct j as [|j]; [lia|]. cbn in Hj.
    destruct i as [|i].
    + cbn in Hi, Hacc. inversion Hi; subst. inversion Hacc; subst. clear Hi Hacc.
      cbn. unfold receive in Hr.
      destruct (admissible tol ti m) eqn:Hf1; [|inversion Hr].
      unfold admissible in Hf1. apply andb_prop in Hf1. destruct Hf1 as [Hf1 _].
      (* is the replay still fresh? if not it is rejected outright, else it is inside t1+ttl *)
      assert (Hle : ti <= tj).
      { cbn [map fst] in Hs. eapply (nondecr_head_le (map fst r) ti j); [exact Hs|].
        rewrite nth_error_map, Hj. reflexivity. }
      destruct (ts_fresh tol tj (m_ts m)) eqn:Hf2.
      * apply ts_fresh_window in Hf1; [|exact Htol]. apply ts_fresh_window in Hf2; [|exact Htol].
        eapply (covered_rejects tol ttl (m_key m) ti r c' ti j tj m); try eassumption; try reflexivity.
        -- eapply track_accept_covers; [reflexivity|eassumption].
        -- lia.
      * (* stale replay: rejected by the timestamp check wherever it is *)
        clear - Hj Hf2. revert c' j Hj. induction r as [|[n2 m2] r IHr]; intros c' j Hj; [destruct j; discriminate|].
        cbn [run]. destruct (receive tol ttl c' n2 m2) as [c2 ok2] eqn:Hr2.
        destruct j as [|j]; cbn in Hj |- *.
        -- inversion Hj; subst. unfold receive, admissible in Hr2. rewrite Hf2 in Hr2. inversion Hr2; reflexivity.
        -- apply IHr; exact Hj.
    + cbn in Hi, Hacc |- *. apply (IH c' i j ti tj m); try assumption; try lia.
      cbn [map fst] in Hs. destruct r; cbn in *; tauto.
Qed.

(* nothing outside the tolerance window is ever accepted *)
Lemma stale_rejected : forall tol ttl evs c j tj m,
  nth_error evs j = Some (tj, m) -> admissible tol tj m = false ->
  nth_error (run tol ttl c evs) j = Some false.
Proof.
  intros tol ttl. induction evs as [|[n2 m2] r IH]; intros c j tj m Hj Hf; [destruct j; discriminate|].
  cbn [run]. destruct (receive tol ttl c n2 m2) as [c2 ok2] eqn:Hr2.
  destruct j as [|j]; cbn in Hj |- *.
  - inversion Hj; subst. unfold receive in Hr2. rewrite Hf in Hr2. inversion Hr2; reflexivity.
  - eapply IH; eassumption.
Qed.

(* necessity of the bound: with ttl = tol (whole seconds) a future-dated message is
   accepted twice.  Parametric witness, not just one instance. *)
Lemma short_ttl_replay : forall tol_s t1_s n,
  0 < tol_s -> 0 <= t1_s ->
  let tol := tol_s * sec in
  let m := {| m_key := (1%N, n); m_ts := t1_s + tol_s; m_auth := true |} in
  run tol tol (new_cache (t1_s * sec)) [(t1_s * sec, m); (t1_s * sec + tol, m)] = [true; true].
Proof.
  intros tol_s t1_s n Htol Ht1 tol m. subst tol m. cbn [run receive m_ts m_key].
  assert (Hs : sec = 1000000000) by reflexivity.
  assert (Hq : tol_s * sec / sec = tol_s) by (apply Z.div_mul; rewrite Hs; lia).
  assert (H1 : t1_s * sec / sec = t1_s) by (apply Z.div_mul; rewrite Hs; lia).
  assert (H2 : (t1_s * sec + tol_s * sec) / sec = t1_s + tol_s).
  { replace (t1_s * sec + tol_s * sec) with ((t1_s + tol_s) * sec) by lia. apply Z.div_mul; rewrite Hs; lia. }
  unfold receive, admissible, ts_fresh. cbn [m_ts m_key m_auth]. rewrite Hq, H1, H2.
  replace (Z.abs (t1_s - (t1_s + tol_s)) <=? tol_s) with true by (symmetry; apply Z.leb_le; lia).
  replace (Z.abs (t1_s + tol_s - (t1_s + tol_s)) <=? tol_s) with true by (symmetry; apply Z.leb_le; lia).
  cbn [andb].
  unfold track. cbn [new_cache entries last_evict lookup].
  replace (evict_interval <? t1_s * sec - t1_s * sec) with false
    by (symmetry; apply Z.ltb_ge; unfold evict_interval; rewrite Hs; lia).
  cbn [entries last_evict insert lookup remove].
  assert (Hk : key_eqb (1%N, n) (1%N, n) = true).
  { unfold key_eqb; cbn. rewrite N.eqb_refl. reflexivity. }
  rewrite Hk.
  replace (t1_s * sec + tol_s * sec <? t1_s * sec + tol_s * sec) with false by (symmetry; apply Z.ltb_irrefl).
  destruct (evict_interval <? t1_s * sec + tol_s * sec - t1_s * sec); reflexivity.
Qed.
