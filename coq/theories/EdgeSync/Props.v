(* C27 - Edge sync delivers each file exactly once with verified content.
   Only property statements live here; proofs are in Proofs.v.

   Every theorem quantifies over ALL histories [evs]: any interleaving of the spoke writing new
   immutable files, files vanishing, ledger pruning, operator requeue / dismiss, hub-side
   compaction and removal of received files, and agent passes [ERun sc] whose script [sc]
   gives an arbitrary fault to every PutFile call (delivered with a truncated and/or corrupted
   body, answer lost after the hub processed it, RegisterFile failing on the hub, dropped before
   the hub, backpressure, scripted conflict), an arbitrary reconcile fault, and an arbitrary
   crash point (the process dies before its k-th durable step; the next pass is the restart).
   [H] is SHA-256, assumed injective (idealised); [pt] gives the partition hour of a path
   (sending order) and [maxa] is MaxAttempts. *)
From Coq Require Import List NArith ZArith Bool Lia.
From Arc Require Import EdgeSync.Model EdgeSync.Proofs.
Import ListNotations.
Open Scope N_scope.

Definition injective (H : bytes -> digest) : Prop := forall a b, H a = H b -> a = b.

(* The hub never exposes a file whose bytes differ from the spoke's: whatever sits at the final
   path of (spoke, p) is byte-for-byte what the spoke wrote at p. *)
Theorem C27_hub_content : forall H pt maxa evs p b, injective H ->
  h_final (w_hub (run_history H pt maxa evs world0)) p = Some b -> created evs p = Some b.
Proof. intros H pt maxa evs p b Hi. exact (hub_content H Hi pt maxa evs p b). Qed.
Print Assumptions C27_hub_content.

(* The hub never stores the same spoke file twice: the number of promotes of p is at most one
   more than the number of genuine hub-side removals of p in the history (hub compaction is
   not a removal - the content lives on in the compacted output and is never re-accepted);
   exactly: promotes = removals + [a copy is currently delivered]. *)
Theorem C27_no_double_store : forall H pt maxa evs p, injective H ->
  h_commits (w_hub (run_history H pt maxa evs world0)) p <= 1 + count_removals evs p /\
  h_commits (w_hub (run_history H pt maxa evs world0)) p =
    h_removed (w_hub (run_history H pt maxa evs world0)) p +
    (if delivered (w_hub (run_history H pt maxa evs world0)) p then 1 else 0).
Proof. intros H pt maxa evs p Hi. exact (no_double_store H Hi pt maxa evs p). Qed.
Print Assumptions C27_no_double_store.

(* Ack-then-advance: every MarkSynced that ever took effect happened while the hub held the
   file with the row's digest (the model logs [hub_holds] at that instant). *)
Theorem C27_synced_implies_held : forall H pt maxa evs, injective H ->
  Forall (fun e => snd e = true) (w_slog (run_history H pt maxa evs world0)).
Proof. intros H pt maxa evs Hi. exact (synced_implies_held H Hi pt maxa evs). Qed.
Print Assumptions C27_synced_implies_held.

(* ... and it stays true: as long as nobody removed the file on the hub, a synced row means the
   hub holds identical content - the promoted file, or a receipt whose file the hub's own
   compaction consumed. *)
Theorem C27_synced_stays_held : forall H pt maxa evs r, injective H ->
  In r (w_led (run_history H pt maxa evs world0)) -> r_state r = Synced ->
  count_removals evs (r_path r) = 0 ->
  exists b, created evs (r_path r) = Some b /\ r_sha r = H b /\
    (h_final (w_hub (run_history H pt maxa evs world0)) (r_path r) = Some b \/
     (h_final (w_hub (run_history H pt maxa evs world0)) (r_path r) = None /\
      h_rcpt (w_hub (run_history H pt maxa evs world0)) (r_path r) = Some (H b, true))).
Proof. intros H pt maxa evs r Hi. exact (synced_stays_held H Hi pt maxa evs r). Qed.
Print Assumptions C27_synced_stays_held.

(* Ledger states change only along the documented transitions. *)
Theorem C27_transitions : forall H pt maxa evs, injective H ->
  Forall (fun t => documented t = true) (w_tlog (run_history H pt maxa evs world0)).
Proof. intros H pt maxa evs Hi. exact (transitions_documented H Hi pt maxa evs). Qed.
Print Assumptions C27_transitions.

(* Once crashes and reconcile faults stop, every discovered file ends synced, skipped or failed:
   after ANY history, MaxAttempts (at least one) further passes that do not crash and whose
   reconcile is answered leave every ledger row terminal - whatever the transfers themselves
   still suffer (every transfer outcome either finishes the row or costs it an attempt). *)
Theorem C27_quiescence : forall H pt maxa evs scs, injective H ->
  Forall quiet scs -> scs <> [] -> maxa <= N.of_nat (length scs) ->
  forall r, In r (w_led (run_history H pt maxa (evs ++ map ERun scs) world0)) ->
            terminal (r_state r) = true.
Proof. intros H pt maxa evs scs Hi. exact (quiescence H Hi pt maxa evs scs). Qed.
Print Assumptions C27_quiescence.

(* ---- non-vacuity ------------------------------------------------------------------------- *)

Definition ex_pt : pt_of := fun _ => 0%Z.
Definition ex_deliver (keep flip : option N) (lost regfail : bool) : pfault :=
  FDeliver {| bm_keep := keep; bm_flip := flip |} lost regfail.
Definition ex_run (crash : option nat) (rf : rfault) (puts : list pfault) : event :=
  ERun {| s_crash := crash; s_rec := rf; s_puts := puts |}.
Definition ex_quiet : script := {| s_crash := None; s_rec := ROk; s_puts := [] |}.

(* The identity is an injective digest, so the hypothesis of every theorem is satisfiable. *)
Example C27_injective_satisfiable : injective idH.
Proof. intros a b E. exact E. Qed.

(* A faulty history: truncated upload, lost acknowledgement after the resumed commit, crash,
   then a clean pass.  The file is stored exactly once, byte-identical, and the row is synced. *)
Example C27_history_nonvacuous :
  let evs := [ECreate 1 [10; 11; 12; 13; 14]; ex_run None ROk [ex_deliver (Some 2) None false false];
              ex_run None ROk [ex_deliver None None true false]; ex_run (Some 2%nat) ROk []; ex_run None ROk []] in
  let w := run_history idH ex_pt 3 evs world0 in
  h_final (w_hub w) 1 = Some [10; 11; 12; 13; 14] /\ h_commits (w_hub w) 1 = 1 /\
  map r_state (w_led w) = [Synced] /\ w_slog w = [(1, true)] /\ length (w_tlog w) = 6%nat.
Proof. vm_compute. repeat split; reflexivity. Qed.

(* Corrupted bytes never reach the final path; the quiet tail ends every row terminal. *)
Example C27_corruption_nonvacuous :
  let evs := [ECreate 1 [1; 2; 3]; ECreate 2 [7; 7];
              ex_run None ROk [ex_deliver None (Some 1) false false; FBackpressure]] in
  let w := run_history idH ex_pt 2 evs world0 in
  h_final (w_hub w) 1 = None /\ map r_state (w_led w) = [Pending; Pending] /\
  Forall quiet [ex_quiet; ex_quiet] /\
  map r_state (w_led (run_history idH ex_pt 2 (evs ++ map ERun [ex_quiet; ex_quiet]) world0)) = [Synced; Synced].
Proof. vm_compute. repeat split; try reflexivity. repeat constructor. Qed.

(* A synced row survives hub compaction and ledger pruning without a second copy being stored. *)
Example C27_compaction_nonvacuous :
  let evs := [ECreate 1 [5; 6]; ex_run None ROk []; EHubMarkCompacted 1; EPrune; ex_run None ROk []; EHubDeleteRaw 1; EPrune; ex_run None ROk [];
              ex_run None ROk []] in
  let w := run_history idH ex_pt 3 evs world0 in
  h_final (w_hub w) 1 = None /\ h_rcpt (w_hub w) 1 = Some ([5; 6], true) /\ h_commits (w_hub w) 1 = 1 /\
  map r_state (w_led w) = [Synced] /\ count_removals evs 1 = 0.
Proof. vm_compute. repeat split; reflexivity. Qed.
