(* C27 - obligations over facts re-extracted from the CURRENT Go sources on every run
   (coq/gen/Params_EdgeSync.v, written by tools/props/C27.py): the from-state set of every
   guarded ledger transition (the states bound in the UPDATE's WHERE clause, cross-checked
   against the checkTransition call) and DefaultMaxAttempts. *)
From Coq Require Import List String NArith Bool Lia.
From Arc Require Import EdgeSync.Model EdgeSync.Proofs EdgeSync.Props.
From ArcGen Require Import Params_EdgeSync.
Import ListNotations.
Open Scope N_scope.

(* SyncState strings of ledger.go; "exported" is the air-gap state, which the network path never
   produces and the model does not contain: it may appear in a from-set and is dropped. *)
Definition state_of (s : string) : option (option lstate) :=
  if String.eqb s "pending" then Some (Some Pending)
  else if String.eqb s "in_flight" then Some (Some InFlight)
  else if String.eqb s "synced" then Some (Some Synced)
  else if String.eqb s "failed" then Some (Some Failed)
  else if String.eqb s "skipped" then Some (Some Skipped)
  else if String.eqb s "exported" then Some None
  else None.

Fixpoint states_of (l : list string) : option (list lstate) :=
  match l with
  | [] => Some []
  | s :: t =>
      match state_of s, states_of t with
      | Some (Some x), Some r => Some (x :: r)
      | Some None, Some r => Some r
      | _, _ => None
      end
  end.

(* The guards the model uses are exactly the from-sets of the source. *)
Theorem C27_guards_match_source :
  (exists l, states_of from_MarkInFlight = Some l /\
     forall p w, mark_in_flight p w = led_update p (in_states l) (fun r => set_att (set_state r InFlight) (r_att r + 1)) w) /\
  (exists l, states_of from_RecordProgress = Some l /\
     forall p n w, record_progress p n w = led_update p (in_states l) (fun r => set_sent r (N.min n (r_size r))) w) /\
  (exists l, states_of from_MarkSynced = Some l /\
     forall H p w, w_led (fst (mark_synced H p w)) =
                   fst (upd_rows p (in_states l) (fun r => set_sent (set_state r Synced) (r_size r)) (w_led w))) /\
  (exists l, states_of from_MarkConflicted = Some l /\
     forall p w, mark_conflicted p w = led_update p (in_states l) (fun r => set_state r Failed) w) /\
  (exists l, states_of from_MarkFailed = Some l /\
     forall p m w, mark_failed p m w = led_update p (in_states l) (fun r => set_state r (if m <=? r_att r then Failed else Pending)) w) /\
  (exists l, states_of from_MarkSkipped = Some l /\
     forall p w, mark_skipped p w = led_update p (in_states l) (fun r => set_dism (set_state r Skipped) false) w) /\
  states_of [recover_from; recover_to] = Some [InFlight; Pending].
Proof.
  repeat split; try (eexists; split; [reflexivity|]; intros; try reflexivity).
  apply mark_synced_led.
Qed.
Print Assumptions C27_guards_match_source.

(* MarkFailed rejects maxAttempts <= 0 and NewAgent falls back to the default: it must be >= 1,
   and then that many quiet passes settle every row (C27_quiescence at the deployed value). *)
Theorem C27_deployed_quiescence : forall H pt evs scs, injective H ->
  1 <= default_max_attempts /\
  (Forall quiet scs -> default_max_attempts <= N.of_nat (List.length scs) ->
   forall r, In r (w_led (run_history H pt default_max_attempts (evs ++ map ERun scs) world0)) ->
             terminal (r_state r) = true).
Proof.
  intros H pt evs scs Hi. assert (D : 1 <= default_max_attempts) by (unfold default_max_attempts; lia).
  split; [exact D|]. intros FQ Hn. apply C27_quiescence; auto.
  destruct scs; [cbn in Hn; lia|discriminate].
Qed.
Print Assumptions C27_deployed_quiescence.
