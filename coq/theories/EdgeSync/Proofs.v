(* C27 - proofs about the edge-sync model (Model.v). *)
From Coq Require Import List NArith ZArith Bool Lia Permutation.
From Arc Require Import EdgeSync.Model.
Import ListNotations.
Open Scope N_scope.

(* ------------------------------------------------------------------ generalities *)

Lemma bytes_eqb_eq a b : bytes_eqb a b = true <-> a = b.
Proof.
  revert b; induction a as [|x a IH]; intros [|y b]; cbn; split; intro E; try congruence; try reflexivity.
  - apply andb_true_iff in E as [E1 E2]. apply N.eqb_eq in E1. apply IH in E2. congruence.
  - inversion E; subst. rewrite N.eqb_refl. cbn. apply IH. reflexivity.
Qed.

Lemma bytes_eqb_refl a : bytes_eqb a a = true.
Proof. apply bytes_eqb_eq. reflexivity. Qed.

Lemma lstate_eqb_eq a b : lstate_eqb a b = true <-> a = b.
Proof. destruct a, b; cbn; split; intro; congruence. Qed.

Lemma fset_same {V} (m : fmap V) k v : fset m k v k = v.
Proof. unfold fset. rewrite N.eqb_refl. reflexivity. Qed.

Lemma fset_other {V} (m : fmap V) k v q : q <> k -> fset m k v q = m q.
Proof. unfold fset. intro. destruct (N.eqb_spec q k); congruence. Qed.

Ltac eqb_cases q k := destruct (N.eqb_spec q k); [subst|].

(* ------------------------------------------------------------------ hub *)

Section Proofs.
Variable H : bytes -> digest.
Hypothesis H_inj : forall a b, H a = H b -> a = b.

Definition delivered (h : hub) (p : N) : bool :=
  match h_final h p with
  | Some _ => true
  | None => match rcpt_compacted h p with Some _ => true | None => false end
  end.

Record HubInv (o : fmap bytes) (h : hub) : Prop := {
  hi_final : forall p b, h_final h p = Some b -> o p = Some b;
  hi_rcpt : forall p d c, h_rcpt h p = Some (d, c) -> exists b, o p = Some b /\ d = H b;
  hi_count : forall p, h_commits h p = h_removed h p + (if delivered h p then 1 else 0)
}.

Lemma hub_holds_final h p d fb : h_final h p = Some fb -> hub_holds H h p d = bytes_eqb (H fb) d.
Proof. unfold hub_holds. intros ->. reflexivity. Qed.

Lemma rcpt_compacted_some h p d : rcpt_compacted h p = Some d <-> h_rcpt h p = Some (d, true).
Proof.
  unfold rcpt_compacted. destruct (h_rcpt h p) as [[d' [|]]|]; split; intro E; congruence.
Qed.

Lemma rcpt_compacted_record h p q d :
  rcpt_compacted (hub_record h p d) q = if N.eqb q p then None else rcpt_compacted h q.
Proof. unfold rcpt_compacted, hub_record, fset; cbn. destruct (N.eqb q p); reflexivity. Qed.

(* HubIndex.Record on a path without a compacted receipt *)
Lemma record_spec o h p b :
  HubInv o h -> o p = Some b -> rcpt_compacted h p = None ->
  HubInv o (hub_record h p (H b)) /\
  (forall q d, hub_holds H h q d = true -> hub_holds H (hub_record h p (H b)) q d = true).
Proof.
  intros HI Ho Hnc.
  assert (Hrc : forall q, rcpt_compacted (hub_record h p (H b)) q = rcpt_compacted h q).
  { intro q. rewrite rcpt_compacted_record. eqb_cases q p; [symmetry; exact Hnc|reflexivity]. }
  split.
  - constructor.
    + apply HI.
    + intros q d c. unfold hub_record, fset; cbn. eqb_cases q p.
      * intros [= <- <-]. eauto.
      * apply HI.
    + intro q. unfold delivered. rewrite Hrc. apply (hi_count _ _ HI).
  - intros q d. unfold hub_holds. rewrite Hrc. auto.
Qed.

Lemma receive_stage_spec o h p b off body rf prefix h' r :
  HubInv o h -> o p = Some b -> h_final h p = None -> rcpt_compacted h p = None ->
  receive_stage H h p (H b) (blen b) off body rf prefix = (h', r) ->
  HubInv o h' /\ h_removed h' = h_removed h /\
  (forall q d, hub_holds H h q d = true -> hub_holds H h' q d = true) /\
  ((exists n, r = HCommitted n \/ r = HAlready n) -> hub_holds H h' p (H b) = true).
Proof.
  intros HI Ho Hf Hnc. unfold receive_stage.
  set (np := prefix ++ btake (blen b - off) body).
  assert (Hpart : forall v, HubInv o (hub_set_part h v) /\
                            (forall q d, hub_holds H (hub_set_part h v) q d = hub_holds H h q d)).
  { intro v. split; [|reflexivity]. destruct HI; constructor; auto. }
  destruct (blen np <? blen b).
  { intros [= <- <-]. destruct (Hpart (fset (h_part h) p (Some np))) as [A B].
    split; [exact A|split; [reflexivity|split; [intros q d X; rewrite B; exact X|intros [n [|]]; discriminate]]]. }
  destruct (bytes_eqb (H np) (H b)) eqn:EH; cbn [negb].
  2:{ intros [= <- <-]. destruct (Hpart (fset (h_part h) p None)) as [A B].
      split; [exact A|split; [reflexivity|split; [intros q d X; rewrite B; exact X|intros [n [|]]; discriminate]]]. }
  apply bytes_eqb_eq in EH. apply H_inj in EH. clearbody np. subst np.
  set (h1 := hub_set_commits (hub_set_final (hub_set_part h (fset (h_part h) p None))
                                            (fset (h_final h) p (Some b))) (cinc (h_commits h) p)).
  assert (HI1 : HubInv o h1).
  { constructor.
    - intros q fb. unfold h1; cbn. unfold fset. eqb_cases q p.
      + intros [= <-]. exact Ho.
      + apply HI.
    - apply HI.
    - intro q. unfold delivered, h1; cbn. change (rcpt_compacted _ q) with (rcpt_compacted h q).
      unfold cinc, fset. eqb_cases q p.
      + pose proof (hi_count _ _ HI p) as C. unfold delivered in C. rewrite Hf, Hnc in C. lia.
      + apply (hi_count _ _ HI q). }
  assert (Hm1 : forall q d, hub_holds H h q d = true -> hub_holds H h1 q d = true).
  { intros q d. unfold hub_holds, h1; cbn. change (rcpt_compacted _ q) with (rcpt_compacted h q).
    unfold fset. eqb_cases q p; [|auto]. rewrite Hf, Hnc. discriminate. }
  assert (Hh1 : hub_holds H h1 p (H b) = true).
  { unfold hub_holds, h1; cbn. rewrite fset_same. apply bytes_eqb_refl. }
  assert (Hnc1 : rcpt_compacted h1 p = None) by exact Hnc.
  destruct rf.
  - intros [= <- <-]. split; [exact HI1|split; [reflexivity|split; [exact Hm1|intros [n [|]]; discriminate]]].
  - intros [= <- <-]. destruct (record_spec o h1 p b HI1 Ho Hnc1) as [A B].
    split; [exact A|split; [reflexivity|split; [intros q d X; apply B, Hm1, X|intros _; apply B, Hh1]]].
Qed.

(* Receiver.Receive: invariant, monotonicity of "holds", and what a success answer means *)
Lemma receive_spec o h p b off body rf h' r :
  HubInv o h -> o p = Some b ->
  receive H h p (H b) (blen b) off body rf = (h', r) ->
  HubInv o h' /\ h_removed h' = h_removed h /\
  (forall q d, hub_holds H h q d = true -> hub_holds H h' q d = true) /\
  ((exists n, r = HCommitted n \/ r = HAlready n) -> hub_holds H h' p (H b) = true).
Proof.
  intros HI Ho. unfold receive.
  assert (Triv : forall x, (h, x) = (h', r) -> (forall n, x <> HCommitted n /\ x <> HAlready n) ->
                 HubInv o h' /\ h_removed h' = h_removed h /\
                 (forall q d, hub_holds H h q d = true -> hub_holds H h' q d = true) /\
                 ((exists n, r = HCommitted n \/ r = HAlready n) -> hub_holds H h' p (H b) = true)).
  { intros x [= <- <-] Hx. split; [exact HI|split; [reflexivity|split; [auto|]]].
    intros [n [E|E]]; destruct (Hx n); congruence. }
  destruct (blen b <? off); [intro E; apply (Triv _ E); split; discriminate|].
  destruct (rcpt_compacted h p) as [d|] eqn:ERC.
  { destruct (bytes_eqb d (H b)) eqn:ED.
    - intros [= <- <-]. split; [exact HI|split; [reflexivity|split; [auto|]]]. intros _. apply bytes_eqb_eq in ED; subst.
      unfold hub_holds. rewrite ERC. destruct (h_final h p) as [fb|] eqn:EF; [|apply bytes_eqb_refl].
      rewrite (hi_final _ _ HI _ _ EF) in Ho. inversion Ho; subst. apply bytes_eqb_refl.
    - intro E; apply (Triv _ E); split; discriminate. }
  destruct (h_final h p) as [fb|] eqn:EF.
  { destruct (bytes_eqb (H fb) (H b)) eqn:ED; [|intro E; apply (Triv _ E); split; discriminate].
    destruct rf; [intro E; apply (Triv _ E); split; discriminate|].
    intros [= <- <-]. destruct (record_spec o h p b HI Ho ERC) as [A B].
    split; [exact A|split; [reflexivity|split; [exact B|]]]. intros _. apply B. rewrite (hub_holds_final _ _ _ _ EF). exact ED. }
  assert (Hpart : forall v, HubInv o (hub_set_part h v) /\
                            (forall q d, hub_holds H (hub_set_part h v) q d = hub_holds H h q d)).
  { intro v. split; [|reflexivity]. destruct HI; constructor; auto. }
  destruct (0 <? off).
  - destruct (h_part h p) as [sb|]; [|intro E; apply (Triv _ E); split; discriminate].
    destruct (N.eqb (blen sb) off); [apply receive_stage_spec; assumption|].
    destruct (blen b <=? blen sb); [|intro E; apply (Triv _ E); split; discriminate].
    intros [= <- <-]. destruct (Hpart (fset (h_part h) p None)) as [A B].
    split; [exact A|split; [reflexivity|split; [intros q d X; rewrite B; exact X|intros [n [|]]; discriminate]]].
  - apply receive_stage_spec; assumption.
Qed.

(* ---- Reconciler.Reconcile *)

Definition stale_free (h : hub) (p : N) : Prop :=
  h_rcpt h p <> None -> rcpt_compacted h p = None -> h_final h p <> None.

Lemma forget_one_spec o h p :
  HubInv o h ->
  HubInv o (forget_one h p) /\ h_removed (forget_one h p) = h_removed h /\
  h_final (forget_one h p) = h_final h /\
  (forall q, rcpt_compacted (forget_one h p) q = rcpt_compacted h q) /\
  (forall q, h_rcpt (forget_one h p) q = h_rcpt h q \/ h_rcpt (forget_one h p) q = None) /\
  stale_free (forget_one h p) p.
Proof.
  intro HI. unfold forget_one.
  destruct (h_rcpt h p) as [rc|] eqn:ER.
  2:{ split; [exact HI|split; [reflexivity|split; [reflexivity|split; [reflexivity|split; [auto|]]]]].
      intros X. exfalso. apply X. exact ER. }
  destruct (rcpt_compacted h p) as [d|] eqn:EC.
  { split; [exact HI|split; [reflexivity|split; [reflexivity|split; [reflexivity|split; [auto|]]]]].
    intros _ X. rewrite EC in X. discriminate. }
  destruct (h_final h p) as [fb|] eqn:EF.
  { split; [exact HI|split; [reflexivity|split; [reflexivity|split; [reflexivity|split; [auto|]]]]].
    intros _ _. rewrite EF. discriminate. }
  assert (Hrc : forall q, rcpt_compacted (hub_set_rcpt h (fset (h_rcpt h) p None)) q = rcpt_compacted h q).
  { intro q. unfold rcpt_compacted; cbn. unfold fset. eqb_cases q p; [|reflexivity].
    unfold rcpt_compacted in EC. rewrite ER in *. destruct rc as [d [|]]; congruence. }
  split; [|split; [reflexivity|split; [reflexivity|split; [exact Hrc|split]]]].
  - constructor.
    + apply HI.
    + intros q d c; cbn. unfold fset. eqb_cases q p; [discriminate|apply HI].
    + intro q. unfold delivered. rewrite Hrc. apply (hi_count _ _ HI).
  - intro q; cbn. unfold fset. eqb_cases q p; auto.
  - intros X; cbn in X. rewrite fset_same in X. congruence.
Qed.

Lemma forget_stale_spec o paths : forall h,
  HubInv o h ->
  HubInv o (hub_forget_stale h paths) /\ h_removed (hub_forget_stale h paths) = h_removed h /\
  h_final (hub_forget_stale h paths) = h_final h /\
  (forall q, rcpt_compacted (hub_forget_stale h paths) q = rcpt_compacted h q) /\
  (forall q, h_rcpt (hub_forget_stale h paths) q = h_rcpt h q \/ h_rcpt (hub_forget_stale h paths) q = None) /\
  (forall p, In p paths -> stale_free (hub_forget_stale h paths) p).
Proof.
  induction paths as [|p t IH]; intros h HI; cbn.
  - split; [exact HI|split; [reflexivity|split; [reflexivity|split; [reflexivity|split; [auto|intros p []]]]]].
  - destruct (forget_one_spec o h p HI) as (A & B & C & D & E & F).
    destruct (IH _ A) as (A' & B' & C' & D' & E' & F').
    unfold hub_forget_stale in *. 
    split; [exact A'|split; [congruence|split; [congruence|split; [|split]]]].
    + intro q. rewrite D'. apply D.
    + intro q. destruct (E' q) as [X|X]; [|auto]. rewrite X. apply E.
    + intros q [<-|Hin]; [|auto].
      unfold stale_free in *. rewrite C', D'. destruct (E' p) as [X|X]; [rewrite X; exact F|].
      intro Y. congruence.
Qed.

Lemma reconcile_spec o h entries h' res :
  HubInv o h -> hub_reconcile h entries = (h', res) ->
  HubInv o h' /\ h_removed h' = h_removed h /\
  (forall q d, hub_holds H h' q d = hub_holds H h q d) /\
  (forall p sha, In p (map fst entries) -> hub_classify h' p sha = RPresent -> hub_holds H h' p sha = true) /\
  res = map (fun e => (fst e, hub_classify h' (fst e) (snd e))) entries.
Proof.
  intros HI. unfold hub_reconcile. intros [= <- <-].
  destruct (forget_stale_spec o (map fst entries) h HI) as (A & B & C & D & E & F).
  split; [exact A|split; [exact B|split; [|split; [|reflexivity]]]].
  - intros q d. unfold hub_holds. rewrite C, D. reflexivity.
  - intros p sha Hin. set (h' := hub_forget_stale h (map fst entries)) in *.
    unfold hub_classify. destruct (h_rcpt h' p) as [[d c]|] eqn:ER; [|discriminate].
    destruct (bytes_eqb d sha) eqn:ED; [intros _|discriminate].
    destruct c.
    + pose proof ER as ER0. apply rcpt_compacted_some in ER. unfold hub_holds. rewrite ER.
      destruct (h_final h' p) as [fb|] eqn:EF; [|exact ED].
      destruct (hi_rcpt _ _ A _ _ _ ER0) as (b' & Ob & ->).
      rewrite (hi_final _ _ A _ _ EF) in Ob. inversion Ob; subst. exact ED.
    + assert (EC : rcpt_compacted h' p = None) by (unfold rcpt_compacted; rewrite ER; reflexivity).
      assert (NF : h_final h' p <> None) by (apply (F p Hin); congruence).
      destruct (h_final h' p) as [fb|] eqn:EF; [|congruence].
      rewrite (hub_holds_final _ _ _ _ EF).
      destruct (hi_rcpt _ _ A _ _ _ ER) as (b' & Ob & ->).
      rewrite (hi_final _ _ A _ _ EF) in Ob. inversion Ob; subst. exact ED.
Qed.

(* ---- hub-side environment events *)

Lemma hub_mark_compacted_inv o h p :
  HubInv o h ->
  HubInv o (hub_mark_compacted h p) /\ h_removed (hub_mark_compacted h p) = h_removed h /\
  (forall q x, hub_holds H h q x = true -> hub_holds H (hub_mark_compacted h p) q x = true).
Proof.
  intro HI. unfold hub_mark_compacted.
  destruct (h_final h p) as [fb|] eqn:EF; [|auto].
  destruct (h_rcpt h p) as [[d c]|] eqn:ER; [|auto].
  set (h' := hub_set_rcpt h (fset (h_rcpt h) p (Some (d, true)))).
  assert (Hrc : forall q, rcpt_compacted h' q = if N.eqb q p then Some d else rcpt_compacted h q).
  { intro q. unfold rcpt_compacted, h'; cbn. unfold fset. destruct (N.eqb q p); reflexivity. }
  split; [|split; [reflexivity|]].
  - constructor.
    + apply HI.
    + intros q d0 c0. unfold h'; cbn. unfold fset. eqb_cases q p.
      * intros [= <- <-]. apply (hi_rcpt _ _ HI _ _ _ ER).
      * apply HI.
    + intro q. unfold delivered. rewrite Hrc. change (h_final h' q) with (h_final h q).
      pose proof (hi_count _ _ HI q) as C. unfold delivered in C. eqb_cases q p; [|exact C].
      rewrite EF in *. exact C.
  - intros q x. unfold hub_holds. rewrite Hrc. change (h_final h' q) with (h_final h q).
    eqb_cases q p; [|auto]. rewrite EF. auto.
Qed.

Lemma hub_delete_raw_inv o h p :
  HubInv o h ->
  HubInv o (hub_delete_raw h p) /\ h_removed (hub_delete_raw h p) = h_removed h /\
  (forall q x, hub_holds H h q x = true -> hub_holds H (hub_delete_raw h p) q x = true).
Proof.
  intro HI. unfold hub_delete_raw.
  destruct (h_final h p) as [fb|] eqn:EF; [|auto].
  destruct (rcpt_compacted h p) as [d|] eqn:EC; [|auto].
  set (h' := hub_set_final h (fset (h_final h) p None)).
  split; [|split; [reflexivity|]].
  - constructor.
    + intros q b. unfold h'; cbn. unfold fset. eqb_cases q p; [discriminate|apply HI].
    + apply HI.
    + intro q. unfold delivered, h'; cbn. change (rcpt_compacted _ q) with (rcpt_compacted h q).
      unfold fset. pose proof (hi_count _ _ HI q) as C. unfold delivered in C. eqb_cases q p; [|exact C].
      rewrite EF in C. rewrite EC. exact C.
  - intros q x. unfold hub_holds, h'; cbn. change (rcpt_compacted _ q) with (rcpt_compacted h q).
    unfold fset. eqb_cases q p; [|auto]. rewrite EF, EC.
    apply rcpt_compacted_some in EC. destruct (hi_rcpt _ _ HI _ _ _ EC) as (b' & Ob & ->).
    rewrite (hi_final _ _ HI _ _ EF) in Ob. inversion Ob; subst. auto.
Qed.

Lemma hub_remove_inv o h p :
  HubInv o h ->
  HubInv o (hub_remove h p) /\
  (forall q x, hub_holds H h q x = true -> hub_holds H (hub_remove h p) q x = true \/ 0 < h_removed (hub_remove h p) q) /\
  (forall q, h_removed h q <= h_removed (hub_remove h p) q).
Proof.
  intro HI. unfold hub_remove.
  destruct (h_final h p) as [fb|] eqn:EF; [|split; [exact HI|split; [auto|intro; lia]]].
  destruct (rcpt_compacted h p) as [d|] eqn:Hc0; [split; [exact HI|split; [auto|intro; lia]]|].
  set (h' := hub_set_removed (hub_set_final h (fset (h_final h) p None)) (cinc (h_removed h) p)).
  split; [|split].
  - constructor.
    + intros q b. unfold h'; cbn. unfold fset. eqb_cases q p; [discriminate|apply HI].
    + apply HI.
    + intro q. unfold delivered, h'; cbn. change (rcpt_compacted _ q) with (rcpt_compacted h q).
      unfold cinc, fset. pose proof (hi_count _ _ HI q) as C. unfold delivered in C. eqb_cases q p; [|exact C].
      rewrite EF in C. rewrite Hc0. lia.
  - intros q x. unfold hub_holds, h'; cbn. change (rcpt_compacted _ q) with (rcpt_compacted h q).
    unfold cinc, fset. eqb_cases q p; [|auto]. intros _. right. lia.
  - intro q. unfold h'; cbn. unfold cinc. destruct (N.eqb q p); lia.
Qed.

(* ------------------------------------------------------------------ ledger and world invariant *)

Definition row_ok (o : fmap bytes) (r : row) : Prop :=
  exists b, o (r_path r) = Some b /\ r_sha r = H b /\ r_size r = blen b.

Definition held_row (h : hub) (r : row) : Prop :=
  r_state r = Synced -> hub_holds H h (r_path r) (r_sha r) = true \/ 0 < h_removed h (r_path r).

Definition doc (t : trans) : Prop := documented t = true.

Record Inv (w : world) : Prop := {
  i_files : forall p b, w_files w p = Some b -> w_origin w p = Some b;
  i_rows : Forall (row_ok (w_origin w)) (w_led w);
  i_hub : HubInv (w_origin w) (w_hub w);
  i_tlog : Forall doc (w_tlog w);
  i_slog : Forall (fun e => snd e = true) (w_slog w);
  i_held : Forall (held_row (w_hub w)) (w_led w)
}.

Lemma set_led_inv w rows lg :
  Inv w -> Forall (row_ok (w_origin w)) rows -> Forall (held_row (w_hub w)) rows -> Forall doc lg ->
  Inv (w_set_led w rows lg).
Proof.
  intros [A B C D E F] R1 R2 R3. constructor; cbn; auto. apply Forall_app; auto.
Qed.

Lemma upd_rows_forall (Q : row -> Prop) p g f : forall rows rows' o,
  upd_rows p g f rows = (rows', o) -> Forall Q rows ->
  (forall r, In r rows -> g r = true -> r_path r = p -> Q (f r)) -> Forall Q rows'.
Proof.
  induction rows as [|r t IH]; cbn; intros rows' o E FA Hf.
  - inversion E; subst. constructor.
  - inversion FA as [|? ? Qr Qt]; subst. destruct (N.eqb_spec (r_path r) p) as [Ep|Ep].
    + destruct (g r) eqn:G; inversion E; subst; constructor; auto.
    + destruct (upd_rows p g f t) as [t' o'] eqn:E'. inversion E; subst. constructor; auto.
      eapply IH; eauto.
Qed.

Lemma upd_rows_log p g f : forall rows rows' a b,
  upd_rows p g f rows = (rows', Some (a, b)) ->
  exists r, In r rows /\ g r = true /\ r_path r = p /\ a = r_state r /\ b = r_state (f r) /\
            find (fun r => N.eqb (r_path r) p) rows = Some r.
Proof.
  induction rows as [|r t IH]; cbn; intros rows' a b E; [discriminate|].
  destruct (N.eqb_spec (r_path r) p) as [Ep|Ep].
  - destruct (g r) eqn:G; inversion E; subst. exists r. repeat split; auto.
  - destruct (upd_rows p g f t) as [t' o'] eqn:E'. inversion E; subst.
    destruct (IH _ _ _ eq_refl) as (r0 & I0 & X). exists r0. split; [right; exact I0|exact X].
Qed.

Definition keeps_id (f : row -> row) : Prop :=
  forall r, r_path (f r) = r_path r /\ r_sha (f r) = r_sha r /\ r_size (f r) = r_size r.

Lemma row_ok_keeps o f r : keeps_id f -> row_ok o r -> row_ok o (f r).
Proof. intros K (b & A & B & C). destruct (K r) as (K1 & K2 & K3). exists b. rewrite K1, K2, K3. auto. Qed.

(* a guarded single-row update keeps the invariant when the transition is documented and the
   new row is still vouched for *)
Lemma led_update_inv p g f w w' ok :
  Inv w -> led_update p g f w = (w', ok) -> keeps_id f ->
  (forall r, g r = true -> r_state (f r) = r_state r \/ doc (p, Some (r_state r), Some (r_state (f r)))) ->
  (forall r, In r (w_led w) -> held_row (w_hub w) r -> row_ok (w_origin w) r -> g r = true -> r_path r = p ->
             held_row (w_hub w) (f r)) ->
  Inv w' /\ w_hub w' = w_hub w /\ w_origin w' = w_origin w /\ w_files w' = w_files w /\ w_slog w' = w_slog w.
Proof.
  intros HI E K Hd Hh. unfold led_update in E.
  destruct (upd_rows p g f (w_led w)) as [rows o] eqn:EU. inversion E; subst; clear E.
  split; [|cbn; auto]. apply set_led_inv; auto.
  - eapply upd_rows_forall; [exact EU|apply HI|]. intros r Hin _ _.
    apply row_ok_keeps; auto. pose proof (i_rows _ HI) as FA. rewrite Forall_forall in FA. auto.
  - pose proof (i_rows _ HI) as FA. rewrite Forall_forall in FA.
    pose proof (i_held _ HI) as FH. rewrite Forall_forall in FH.
    eapply upd_rows_forall; [exact EU|apply HI|]. intros r Hin G Ep. apply Hh; auto.
  - destruct o as [[a b]|]; [|constructor]. cbn.
    destruct (upd_rows_log _ _ _ _ _ _ _ EU) as (r & _ & G & _ & -> & -> & _).
    destruct (lstate_eqb (r_state r) (r_state (f r))) eqn:EQ; [constructor|].
    constructor; [|constructor]. destruct (Hd r G) as [X|X]; [|exact X].
    rewrite X in EQ. assert (lstate_eqb (r_state r) (r_state r) = true) by (apply lstate_eqb_eq; reflexivity).
    congruence.
Qed.

Lemma in_states_spec l r : in_states l r = true <-> In (r_state r) l.
Proof.
  unfold in_states. rewrite existsb_exists. split.
  - intros (x & Hin & E). apply lstate_eqb_eq in E. congruence.
  - intro Hin. exists (r_state r). split; [exact Hin|apply lstate_eqb_eq; reflexivity].
Qed.

(* the context in which the steps of one pass run: origin, spoke files and (between transport
   calls) the hub are fixed *)
Definition J (o fl : fmap bytes) (h : hub) (w : world) : Prop :=
  Inv w /\ w_origin w = o /\ w_files w = fl /\ w_hub w = h.

Lemma led_update_J o fl h p g f w w' ok :
  J o fl h w -> led_update p g f w = (w', ok) -> keeps_id f ->
  (forall r, g r = true -> r_state (f r) = r_state r \/ doc (p, Some (r_state r), Some (r_state (f r)))) ->
  (forall r, In r (w_led w) -> held_row h r -> row_ok o r -> g r = true -> r_path r = p -> held_row h (f r)) ->
  J o fl h w'.
Proof.
  intros (A & B & C & D) E K Hd Hh. subst o fl h.
  destruct (led_update_inv _ _ _ _ _ _ A E K Hd Hh) as (A' & B' & C' & D' & E').
  unfold J. split; [exact A'|]. split; [exact C'|]. split; [exact D'|exact B'].
Qed.

Ltac led_simple := eapply led_update_J; [eassumption|eassumption| | | ].

Lemma mark_in_flight_J o fl h p w w' ok : J o fl h w -> mark_in_flight p w = (w', ok) -> J o fl h w'.
Proof.
  intros HJ E. unfold mark_in_flight in E. led_simple.
  - intro r; cbn; auto.
  - intros r G. apply in_states_spec in G. cbn in G. destruct G as [G|[]]. right. cbn. rewrite <- G. reflexivity.
  - intros r _ _ _ _ _ X; cbn in X. discriminate.
Qed.

Lemma record_progress_J o fl h p n w w' ok : J o fl h w -> record_progress p n w = (w', ok) -> J o fl h w'.
Proof.
  intros HJ E. unfold record_progress in E. led_simple.
  - intro r; cbn; auto.
  - intros r G. left. reflexivity.
  - intros r _ Hh _ _ _. exact Hh.
Qed.

Lemma mark_failed_J o fl h p m w w' ok : J o fl h w -> mark_failed p m w = (w', ok) -> J o fl h w'.
Proof.
  intros HJ E. unfold mark_failed in E. led_simple.
  - intro r; cbn; auto.
  - intros r G. apply in_states_spec in G. cbn in G. destruct G as [G|[]]. right. cbn. rewrite <- G.
    destruct (m <=? r_att r); reflexivity.
  - intros r _ _ _ _ _ X; cbn in X. destruct (m <=? r_att r); discriminate.
Qed.

Lemma mark_conflicted_J o fl h p w w' ok : J o fl h w -> mark_conflicted p w = (w', ok) -> J o fl h w'.
Proof.
  intros HJ E. unfold mark_conflicted in E. led_simple.
  - intro r; cbn; auto.
  - intros r G. apply in_states_spec in G. cbn in G. destruct G as [G|[]]. right. cbn. rewrite <- G. reflexivity.
  - intros r _ _ _ _ _ X; cbn in X. discriminate.
Qed.

Lemma mark_skipped_J o fl h p w w' ok : J o fl h w -> mark_skipped p w = (w', ok) -> J o fl h w'.
Proof.
  intros HJ E. unfold mark_skipped in E. led_simple.
  - intro r; cbn; auto.
  - intros r G. apply in_states_spec in G. cbn in G. right. cbn. destruct G as [G|[G|[]]]; rewrite <- G; reflexivity.
  - intros r _ _ _ _ _ X; cbn in X. discriminate.
Qed.

(* MarkSynced: the ack-then-advance rule - allowed exactly when the hub holds the content *)
Lemma mark_synced_J o fl h p w w' ok :
  J o fl h w -> (forall b, o p = Some b -> hub_holds H h p (H b) = true) ->
  mark_synced H p w = (w', ok) -> J o fl h w'.
Proof.
  intros HJ Hheld E. unfold mark_synced in E.
  destruct (led_update p (in_states [Pending; InFlight]) (fun r => set_sent (set_state r Synced) (r_size r)) w)
    as [w1 ok1] eqn:EL.
  assert (J1 : J o fl h w1).
  { led_simple.
    - intro r; cbn; auto.
    - intros r G. apply in_states_spec in G. cbn in G. right. cbn. destruct G as [G|[G|[]]]; rewrite <- G; reflexivity.
    - intros r _ _ (b & Ob & Sb & _) _ Ep _. cbn. left. subst p. rewrite Sb. apply Hheld. congruence. }
  destruct ok1; inversion E; subst; [|exact J1].
  destruct J1 as (A & B & C & D). unfold J.
  split; [|unfold w_add_slog; cbn [w_files w_origin w_led w_hub w_tlog w_slog]; auto].
  destruct A as [A1 A2 A3 A4 A5 A6].
  constructor; unfold w_add_slog; cbn [w_files w_origin w_led w_hub w_tlog w_slog]; auto.
  constructor; [|exact A5]. cbn [snd].
  destruct HJ as (HA & HB & HC & HD).
  destruct (find (fun r => N.eqb (r_path r) p) (w_led w)) as [r|] eqn:EF.
  - apply find_some in EF as [Hin Ep]. apply N.eqb_eq in Ep.
    pose proof (i_rows _ HA) as FA. rewrite Forall_forall in FA.
    destruct (FA r Hin) as (b & Ob & Sb & _). rewrite HD, Sb. apply Hheld. congruence.
  - exfalso. unfold led_update in EL. destruct (upd_rows p _ _ (w_led w)) as [rows [[a b]|]] eqn:EU; [|inversion EL].
    destruct (upd_rows_log _ _ _ _ _ _ _ EU) as (r & _ & _ & _ & _ & _ & X). congruence.
Qed.

(* ------------------------------------------------------------------ Hoare rules for the pass monad *)

Section Rules.
Variable C : world -> Prop.     (* what is known of the world when the process dies *)

Definition mok {A} (P : world -> Prop) (m : M A) (Q : A -> world -> Prop) : Prop :=
  forall w c w' c' r, P w -> m (w, c) = ((w', c'), r) ->
    match r with Some a => Q a w' | None => C w' end.

Lemma mok_ret {A} (P : world -> Prop) (a : A) : mok P (ret a) (fun x w => x = a /\ P w).
Proof. intros w c w' c' r HP E. inversion E; subst. auto. Qed.

Lemma mok_ret' {A} (P : world -> Prop) (a : A) : mok P (ret a) (fun _ w => P w).
Proof. intros w c w' c' r HP E. inversion E; subst. auto. Qed.

Lemma mok_bind {A B} P (m : M A) Q (k : A -> M B) R :
  mok P m Q -> (forall a, mok (Q a) (k a) R) -> mok P (bind m k) R.
Proof.
  intros Hm Hk w c w' c' r HP E. unfold bind in E.
  destruct (m (w, c)) as [[w1 c1] [a|]] eqn:Em.
  - pose proof (Hm _ _ _ _ _ HP Em) as X. cbn in X. eapply Hk; eauto.
  - inversion E; subst. apply (Hm _ _ _ _ _ HP Em).
Qed.

Lemma mok_weaken {A} (P P' : world -> Prop) (m : M A) (Q Q' : A -> world -> Prop) :
  mok P m Q -> (forall w, P' w -> P w) -> (forall a w, Q a w -> Q' a w) -> mok P' m Q'.
Proof.
  intros Hm HP HQ w c w' c' r HP' E. pose proof (Hm _ _ _ _ _ (HP _ HP') E) as X.
  destruct r; auto.
Qed.

Lemma mok_tick (P : world -> Prop) : (forall w, P w -> C w) -> mok P tick (fun _ w => P w).
Proof.
  intros HI w c w' c' r HP E. unfold tick in E.
  destruct (c_crash c) as [[|k]|]; inversion E; subst; auto.
Qed.

Lemma mok_lift {A} (P : world -> Prop) (f : world -> world * A) (Q : A -> world -> Prop) :
  (forall w w' a, P w -> f w = (w', a) -> Q a w') -> mok P (lift f) Q.
Proof.
  intros Hf w c w' c' r HP E. unfold lift in E. cbn in E. destruct (f w) as [w1 a] eqn:Ef.
  inversion E; subst. eapply Hf; eauto.
Qed.

Lemma mok_getw (P : world -> Prop) : mok P getw (fun a w => a = w /\ P w).
Proof. intros w c w' c' r HP E. inversion E; subst. auto. Qed.

Lemma mok_getc (P : world -> Prop) : mok P getc (fun _ w => P w).
Proof. intros w c w' c' r HP E. inversion E; subst. auto. Qed.

Lemma mok_next_fault (P : world -> Prop) : mok P next_fault (fun _ w => P w).
Proof.
  intros w c w' c' r HP E. unfold next_fault in E. destruct (c_puts c); inversion E; subst; auto.
Qed.

Lemma mok_forM {A} (P : world -> Prop) (f : A -> M unit) (l : list A) :
  (forall x, In x l -> mok P (f x) (fun _ w => P w)) -> mok P (forM f l) (fun _ w => P w).
Proof.
  induction l as [|x t IH]; intro Hf; cbn [forM].
  - apply mok_ret'.
  - eapply mok_bind; [apply Hf; left; reflexivity|]. intro. apply IH. intros y Hy. apply Hf. right; exact Hy.
Qed.

Lemma mok_getw' (P : world -> Prop) : mok P getw (fun _ w => P w).
Proof. intros w c w' c' r HP E. inversion E; subst. auto. Qed.

Lemma mok_lift' {A} (P : world -> Prop) (f : world -> world * A) :
  (forall w, P w -> P (fst (f w))) -> mok P (lift f) (fun _ w => P w).
Proof.
  intros Hf w c w' c' r HP E. unfold lift in E. cbn in E. pose proof (Hf w HP) as X.
  destruct (f w) as [w1 a]. inversion E; subst. exact X.
Qed.

End Rules.

(* ------------------------------------------------------------------ one pass keeps the invariant *)

Definition K (o fl : fmap bytes) (w : world) : Prop := Inv w /\ w_origin w = o /\ w_files w = fl.

Lemma J_K o fl h w : J o fl h w -> K o fl w.
Proof. intros (A & B & C & D). unfold K. auto. Qed.
Lemma K_J o fl w : K o fl w -> J o fl (w_hub w) w.
Proof. intros (A & B & C). unfold J. auto. Qed.
Lemma K_Inv o fl w : K o fl w -> Inv w.
Proof. intros (A & _). exact A. Qed.

Lemma K_lift_led o fl (f : world -> world * bool) :
  (forall h w w' ok, J o fl h w -> f w = (w', ok) -> J o fl h w') ->
  mok (K o fl) (K o fl) (lift f) (fun _ w => K o fl w).
Proof.
  intro Hf. apply mok_lift. intros w w' aa HK E. eapply J_K. eapply Hf; [apply K_J; exact HK|exact E].
Qed.

Lemma fail_ok o fl p : mok (K o fl) (K o fl) (fail p) (fun _ w => K o fl w).
Proof.
  unfold fail. eapply mok_bind; [apply mok_getc|]. intro c. cbn beta.
  eapply mok_bind; [apply mok_tick; auto|]. intro.
  eapply mok_bind; [apply K_lift_led; intros; eapply mark_failed_J; eauto|]. intro.
  apply mok_ret'.
Qed.

Lemma skip_if_vanished_ok o fl p : mok (K o fl) (K o fl) (skip_if_vanished p) (fun _ w => K o fl w).
Proof.
  unfold skip_if_vanished. eapply mok_bind; [apply mok_getw|]. intro w0. cbn beta.
  destruct (w_files w0 p).
  - eapply mok_weaken; [apply (mok_ret' _ (K o fl))| |]; cbn; [intros w [_ X]; exact X|auto].
  - eapply mok_bind; [apply mok_tick; intros w [_ X]; exact X|]. intro.
    apply mok_lift. intros w w' aa [_ HK] E. eapply J_K. eapply mark_skipped_J; [apply K_J; exact HK|exact E].
Qed.

Lemma put_file_spec o f h e body h' r :
  HubInv o h -> row_ok o e -> put_file H f h e body = (h', r) ->
  HubInv o h' /\ h_removed h' = h_removed h /\
  (forall q d, hub_holds H h q d = true -> hub_holds H h' q d = true) /\
  ((exists n, r = PCommitted n \/ r = PAlready n) -> hub_holds H h' (r_path e) (r_sha e) = true).
Proof.
  intros HI (b & Ob & Sb & Zb). unfold put_file.
  assert (Triv : forall x, (h, x) = (h', r) -> (forall n, x <> PCommitted n /\ x <> PAlready n) ->
                 HubInv o h' /\ h_removed h' = h_removed h /\
                 (forall q d, hub_holds H h q d = true -> hub_holds H h' q d = true) /\
                 ((exists n, r = PCommitted n \/ r = PAlready n) -> hub_holds H h' (r_path e) (r_sha e) = true)).
  { intros x [= <- <-] Hx. split; [exact HI|split; [reflexivity|split; [auto|]]].
    intros [n [E|E]]; destruct (Hx n); congruence. }
  destruct f as [m lost rf|m mark lost2| |reached| |d]; try (intro E; apply (Triv _ E); split; discriminate).
  3:{ destruct reached; [|intro E; apply (Triv _ E); split; discriminate].
      rewrite Sb, Zb.
      destruct (receive H h (r_path e) (H b) (blen b) (r_sent e) body false) as [h1 r1] eqn:ER.
      destruct (receive_spec o h (r_path e) b _ _ _ _ _ HI Ob ER) as (A & B & C & D).
      intros [= <- <-]. split; [exact A|split; [exact B|split; [exact C|]]].
      intros [n [X|X]]; discriminate. }
  - rewrite Sb, Zb.
    destruct (receive H h (r_path e) (H b) (blen b) (r_sent e) (apply_mut m body) rf) as [h1 r1] eqn:ER.
    destruct (receive_spec o h (r_path e) b _ _ _ _ _ HI Ob ER) as (A & B & C & D).
    intros [= <- <-]. split; [exact A|split; [exact B|split; [exact C|]]].
    intros [n X]. destruct lost; [destruct X; discriminate|]. apply D.
    destruct r1; cbn in X; destruct X as [X|X]; try discriminate; eauto.
  - rewrite Sb, Zb.
    destruct (receive H h (r_path e) (H b) (blen b) (r_sent e) (apply_mut m body) false) as [h1 r1] eqn:ER1.
    destruct (receive_spec o h (r_path e) b _ _ _ _ _ HI Ob ER1) as (A1 & B1 & C1 & _).
    set (h2 := if mark then hub_mark_compacted h1 (r_path e) else h1).
    assert (H2 : HubInv o h2 /\ h_removed h2 = h_removed h1 /\
                 (forall q x, hub_holds H h1 q x = true -> hub_holds H h2 q x = true)).
    { unfold h2. destruct mark; [apply hub_mark_compacted_inv; exact A1|auto]. }
    destruct H2 as (A2 & B2 & C2).
    destruct (receive H h2 (r_path e) (H b) (blen b) (r_sent e) body false) as [h3 r3] eqn:ER3.
    destruct (receive_spec o h2 (r_path e) b _ _ _ _ _ A2 Ob ER3) as (A3 & B3 & C3 & D3).
    intros [= <- <-]. split; [exact A3|split; [congruence|split; [intros q x X; apply C3, C2, C1, X|]]].
    intros [n X]. destruct lost2; [destruct X; discriminate|]. apply D3.
    destruct r3; cbn in X; destruct X as [X|X]; try discriminate; eauto.
Qed.

Lemma held_row_mono h h' r :
  held_row h r -> (forall q d, hub_holds H h q d = true -> hub_holds H h' q d = true) ->
  h_removed h' = h_removed h -> held_row h' r.
Proof. intros Hh Hm Hr Hs. rewrite Hr. destruct (Hh Hs); auto. Qed.

(* a transport call: the hub moves, everything vouched for stays vouched for *)
Lemma set_hub_K o fl w h' :
  K o fl w -> HubInv o h' -> h_removed h' = h_removed (w_hub w) ->
  (forall q d, hub_holds H (w_hub w) q d = true -> hub_holds H h' q d = true) ->
  K o fl (w_set_hub w h').
Proof.
  intros ([A1 A2 A3 A4 A5 A6] & B & C) HI Hr Hm. unfold K. split; [|cbn; auto].
  constructor; cbn; auto.
  - rewrite B. exact HI.
  - eapply Forall_impl; [|exact A6]. intros r Hh. eapply held_row_mono; eauto.
Qed.

Lemma send_one_ok o fl e : row_ok o e -> mok (K o fl) (K o fl) (send_one H e) (fun _ w => K o fl w).
Proof.
  intro Re. unfold send_one.
  assert (RT : forall P : world -> Prop, (forall w, P w -> K o fl w) ->
               mok (K o fl) P (ret tt) (fun _ w => K o fl w)).
  { intros P HP. eapply mok_weaken; [apply (mok_ret' _ P)|auto|]. cbn. intros a w X; auto. }
  eapply mok_bind; [apply mok_tick; auto|]. intro.
  eapply mok_bind; [apply K_lift_led; intros; eapply mark_in_flight_J; eauto|]. intro ok.
  destruct ok; cbn [negb]; [|apply RT; auto].
  eapply mok_bind; [apply mok_getw|]. intro w0. cbn beta.
  eapply mok_bind; [apply mok_tick; intros w [_ X]; exact X|]. intro.
  eapply mok_bind; [apply mok_next_fault|]. intro f. cbn beta.
  set (Q := fun (r : pres) (w : world) =>
              K o fl w /\ ((exists n, r = PCommitted n \/ r = PAlready n) ->
                           hub_holds H (w_hub w) (r_path e) (r_sha e) = true)).
  eapply mok_bind with (Q := Q).
  { destruct (w_files w0 (r_path e)) as [b|].
    - apply mok_lift. intros w w' r [_ HK] E.
      destruct (put_file H f (w_hub w) e (bdrop (r_sent e) b)) as [h' r'] eqn:EP. inversion E; subst.
      destruct HK as (A & B & C).
      assert (HI : HubInv o (w_hub w)) by (rewrite <- B; apply A).
      destruct (put_file_spec o f _ e _ _ _ HI Re EP) as (A' & B' & C' & D').
      split; [apply set_hub_K; auto; unfold K; auto|]. cbn. exact D'.
    - intros w c w' c' r HP E. inversion E; subst. destruct HP as [_ X]. split; [exact X|].
      intros [n [|]]; discriminate. }
  intro r. unfold Q.
  assert (FAIL : mok (K o fl) (fun w => K o fl w /\ ((exists n, r = PCommitted n \/ r = PAlready n) ->
                              hub_holds H (w_hub w) (r_path e) (r_sha e) = true))
                     (fail (r_path e)) (fun _ w => K o fl w)).
  { eapply mok_weaken; [apply fail_ok| |]; cbn; [intros w [X _]; exact X|auto]. }
  assert (SYNC : forall n, (r = PCommitted n \/ r = PAlready n) ->
          mok (K o fl) (fun w => K o fl w /\ ((exists n, r = PCommitted n \/ r = PAlready n) ->
                         hub_holds H (w_hub w) (r_path e) (r_sha e) = true))
              (bind tick (fun _ => bind (lift (mark_synced H (r_path e))) (fun _ => ret tt)))
              (fun _ w => K o fl w)).
  { intros n Hr. eapply mok_bind; [apply mok_tick; intros w [X _]; exact X|]. intro.
    eapply mok_bind.
    - apply mok_lift with (Q := fun _ w => K o fl w). intros w w' aa [HK Hh] E.
      eapply J_K. eapply mark_synced_J; [apply K_J; exact HK| |exact E].
      intros b Ob. destruct Re as (b' & Ob' & Sb & _). destruct HK as (_ & B & _).
      assert (b = b') by congruence. subst b'. rewrite <- Sb. apply Hh. eauto.
    - intro. apply RT. auto. }
  destruct r as [n|n|n|d| | |].
  7:{ (* PErr *)
      eapply mok_bind with (Q := fun _ w => K o fl w).
      { destruct (exists_errs f).
        - eapply mok_weaken; [apply (mok_ret' _ (K o fl))| |]; cbn; [intros w [X _]; exact X|auto].
        - eapply mok_weaken; [apply skip_if_vanished_ok| |]; cbn; [intros w [X _]; exact X|intros aa w X; exact X]. }
      intro sk. destruct sk; [apply RT; auto|apply fail_ok]. }
  all: destruct (validate e _); cbn [negb]; try exact FAIL.
  - apply (SYNC n). left; reflexivity.
  - apply (SYNC n). right; reflexivity.
  - eapply mok_bind; [apply mok_tick; intros w [X _]; exact X|]. intro.
    eapply mok_bind; [apply mok_lift with (Q := fun _ w => K o fl w); intros w w' aa [HK _] E;
                      eapply J_K; eapply record_progress_J; [apply K_J; exact HK|exact E]|].
    intro. apply fail_ok.
  - eapply mok_bind; [apply mok_tick; intros w [X _]; exact X|]. intro.
    eapply mok_bind; [apply mok_lift with (Q := fun _ w => K o fl w); intros w w' aa [HK _] E;
                      eapply J_K; eapply mark_failed_J; [apply K_J; exact HK|exact E]|].
    intro. apply RT. auto.
Qed.

(* ---- the pending list *)

Lemma ins_pending_perm r l : Permutation (ins_pending r l) (r :: l).
Proof.
  induction l as [|x t IH]; cbn; [reflexivity|].
  destruct (r_pt x <=? r_pt r)%Z; [reflexivity|].
  rewrite IH. apply perm_swap.
Qed.

Lemma pending_sorted_perm rows :
  Permutation (pending_sorted rows) (filter (fun r => lstate_eqb (r_state r) Pending) rows).
Proof.
  unfold pending_sorted. induction (filter (fun r => lstate_eqb (r_state r) Pending) rows) as [|x t IH]; cbn.
  - reflexivity.
  - rewrite ins_pending_perm. constructor. exact IH.
Qed.

Lemma in_pending_sorted rows e :
  In e (pending_sorted rows) <-> In e rows /\ r_state e = Pending.
Proof.
  split.
  - intro Hin. apply (Permutation_in _ (pending_sorted_perm rows)) in Hin.
    apply filter_In in Hin as [A B]. apply lstate_eqb_eq in B. auto.
  - intros [A B]. apply (Permutation_in _ (Permutation_sym (pending_sorted_perm rows))).
    apply filter_In. split; [exact A|apply lstate_eqb_eq; exact B].
Qed.

Lemma class_of_map (g : N * digest -> rclass) entries p c :
  class_of (map (fun e => (fst e, g e)) entries) p = Some c ->
  exists e, In e entries /\ fst e = p /\ g e = c.
Proof.
  unfold class_of. destruct (find _ _) as [x|] eqn:EF; [|discriminate]. intros [= <-].
  apply find_some in EF as [Hin Ep]. apply N.eqb_eq in Ep.
  apply in_map_iff in Hin as (e & <- & Hin). exists e. cbn in *. auto.
Qed.

(* ---- recover and discover *)

Lemma recover_K o fl w : K o fl w -> K o fl (recover_in_flight w).
Proof.
  intros (A & B & C). unfold K. split; [|cbn; auto]. unfold recover_in_flight.
  apply set_led_inv; auto.
  - pose proof (i_rows _ A) as FA. induction FA as [|r t Hr Ht IH]; cbn; constructor; auto.
    destruct (lstate_eqb (r_state r) InFlight); [|exact Hr].
    apply (row_ok_keeps _ (fun r => set_state r Pending)); [intro; cbn; auto|exact Hr].
  - pose proof (i_held _ A) as FA. induction FA as [|r t Hr Ht IH]; cbn; constructor; auto.
    destruct (lstate_eqb (r_state r) InFlight); [|exact Hr]. intro X; cbn in X; discriminate.
  - apply Forall_rev. apply Forall_forall. intros t Hin. apply in_flat_map in Hin as (r & _ & Hin).
    destruct (lstate_eqb (r_state r) InFlight); [|destruct Hin]. destruct Hin as [<-|[]]. reflexivity.
Qed.

Lemma track_new_spec pt o files hb names : forall rows next rows' next' lg,
  (forall p b, files p = Some b -> o p = Some b) ->
  track_new H pt files names rows next = (rows', next', lg) ->
  Forall (row_ok o) rows -> Forall (held_row hb) rows ->
  Forall (row_ok o) rows' /\ Forall (held_row hb) rows' /\ Forall doc lg.
Proof.
  induction names as [|p t IH]; cbn; intros rows next rows' next' lg Hf E R1 R2.
  - inversion E; subst. auto.
  - destruct (files p) as [b|] eqn:EF; [|eapply IH; eauto].
    destruct (tracked rows p); [eapply IH; eauto|].
    destruct (track_new H pt files t _ _) as [[rows1 next1] lg1] eqn:ET. inversion E; subst.
    destruct (IH _ _ _ _ _ Hf ET) as (A & B & C).
    + apply Forall_app. split; [exact R1|]. constructor; [|constructor]. exists b. cbn. auto.
    + apply Forall_app. split; [exact R2|]. constructor; [|constructor]. intro X; cbn in X; discriminate.
    + split; [exact A|split; [exact B|]]. apply Forall_app. split; [exact C|]. constructor; [reflexivity|constructor].
Qed.

Lemma discover_K pt o fl w : K o fl w -> K o fl (discover H pt w).
Proof.
  intros (A & B & C). unfold discover.
  destruct (track_new H pt (w_files w) (w_names w) (w_led w) (w_next w)) as [[rows next] lg] eqn:E.
  unfold K. split; [|cbn; auto].
  destruct (track_new_spec pt (w_origin w) (w_files w) (w_hub w) _ _ _ _ _ _ (i_files _ A) E (i_rows _ A) (i_held _ A))
    as (R1 & R2 & R3).
  destruct A as [A1 A2 A3 A4 A5 A6]. constructor; cbn; auto. apply Forall_app; auto.
Qed.

Lemma agent_run_ok pt o fl : mok (K o fl) (K o fl) (agent_run H pt) (fun _ w => K o fl w).
Proof.
  unfold agent_run.
  eapply mok_bind; [apply mok_tick; auto|]. intro.
  eapply mok_bind; [apply mok_lift with (Q := fun _ w => K o fl w); intros w w' aa HK E; inversion E; subst; apply recover_K; exact HK|]. intro.
  eapply mok_bind; [apply mok_tick; auto|]. intro.
  eapply mok_bind; [apply mok_lift with (Q := fun _ w => K o fl w); intros w w' aa HK E; inversion E; subst; apply discover_K; exact HK|].
  intro. unfold agent_body. eapply mok_bind; [apply mok_getw|]. intro w0. cbn beta zeta.
  set (pending := pending_sorted (w_led w0)).
  assert (RT : forall P : world -> Prop, (forall w, P w -> K o fl w) -> mok (K o fl) P (ret tt) (fun _ w => K o fl w)).
  { intros P HP. eapply mok_weaken; [apply (mok_ret' _ P)|auto|]. cbn. intros aa w X; auto. }
  (* every pending entry is a ledger row of w0, hence consistent with the origin *)
  intros w c w' c' r [-> HK0] E. revert w' c' r E.
  assert (Rp : Forall (row_ok o) pending).
  { apply Forall_forall. intros e Hin. apply in_pending_sorted in Hin as [Hin _].
    destruct HK0 as (A & B & _). pose proof (i_rows _ A) as FA. rewrite Forall_forall in FA. rewrite <- B. auto. }
  change (mok (K o fl) (fun w' => w' = w /\ K o fl w') 
              (match pending with [] => ret tt | _ :: _ => _ end) (fun _ w => K o fl w) ) || idtac.
  intros w' c' r E.
  assert (G : mok (K o fl) (K o fl)
     (match pending with
      | [] => ret tt
      | _ :: _ =>
          bind getc (fun c0 => bind tick (fun _ =>
            match eff_rfault (c_rec c0) (w_hub w) (map r_path pending) with
            | RDropBefore => ret tt
            | rf =>
                bind (lift (fun w1 => let '(h', res) := hub_reconcile (w_hub w1) (map (fun r0 => (r_path r0, r_sha r0)) pending) in
                                      (w_set_hub w1 h', res)))
                  (fun res =>
                     match rf with
                     | RLostReply | RIndexFail => ret tt
                     | _ =>
                         bind (forM (fun e => match class_of res (r_path e) with
                                              | Some RPresent => bind tick (fun _ => bind (lift (mark_synced H (r_path e))) (fun _ => ret tt))
                                              | _ => ret tt end) pending)
                           (fun _ => bind (forM (fun e => match class_of res (r_path e) with
                                                          | Some (RConflict _) => bind tick (fun _ => bind (lift (mark_conflicted (r_path e))) (fun _ => ret tt))
                                                          | _ => ret tt end) pending)
                              (fun _ => forM (fun e => match class_of res (r_path e) with
                                                       | Some RMissing => send_one H e
                                                       | _ => ret tt end) pending))
                     end)
            end))
      end) (fun _ w => K o fl w)).
  { destruct pending as [|e0 pt0] eqn:EP; [apply RT; auto|]. rewrite <- EP in *. clear EP.
    eapply mok_bind; [apply mok_getc|]. intro c0. cbn beta.
    eapply mok_bind; [apply mok_tick; auto|]. intro.
    assert (REC : forall rf, rf <> RDropBefore ->
      mok (K o fl) (K o fl)
        (bind (lift (fun w1 => let '(h', res) := hub_reconcile (w_hub w1) (map (fun r0 => (r_path r0, r_sha r0)) pending) in
                               (w_set_hub w1 h', res)))
              (fun res =>
                 match rf with
                 | RLostReply | RIndexFail => ret tt
                 | _ =>
                     bind (forM (fun e => match class_of res (r_path e) with
                                          | Some RPresent => bind tick (fun _ => bind (lift (mark_synced H (r_path e))) (fun _ => ret tt))
                                          | _ => ret tt end) pending)
                       (fun _ => bind (forM (fun e => match class_of res (r_path e) with
                                                      | Some (RConflict _) => bind tick (fun _ => bind (lift (mark_conflicted (r_path e))) (fun _ => ret tt))
                                                      | _ => ret tt end) pending)
                          (fun _ => forM (fun e => match class_of res (r_path e) with
                                                   | Some RMissing => send_one H e
                                                   | _ => ret tt end) pending))
                 end)) (fun _ w => K o fl w)).
    { intros rf Hrf.
      set (Q := fun (res : list (N * rclass)) (w1 : world) =>
                  K o fl w1 /\ forall e, In e pending -> class_of res (r_path e) = Some RPresent ->
                                         hub_holds H (w_hub w1) (r_path e) (r_sha e) = true).
      eapply mok_bind with (Q := Q).
      { apply mok_lift. intros w1 w1' res HK1 E1.
        destruct (hub_reconcile (w_hub w1) (map (fun r0 => (r_path r0, r_sha r0)) pending)) as [h1 res1] eqn:ER.
        inversion E1; subst. destruct HK1 as (A & B & C).
        assert (HI : HubInv o (w_hub w1)) by (rewrite <- B; apply A).
        destruct (reconcile_spec o _ _ _ _ HI ER) as (A' & B' & C' & D' & E').
        split.
        - apply set_hub_K; auto; [unfold K; auto|]. intros q d. rewrite C'. auto.
        - intros e Hin Hc. cbn. rewrite E' in Hc.
          apply class_of_map in Hc as (x & Hx & Px & Cx).
          apply in_map_iff in Hx as (e' & <- & Hin'). cbn in Px, Cx.
          rewrite Forall_forall in Rp. destruct (Rp e Hin) as (b & Ob & Sb & _).
          destruct (Rp e' Hin') as (b' & Ob' & Sb' & _). rewrite Px in Ob'.
          assert (b' = b) by congruence. subst b'.
          rewrite Sb, <- Sb', <- Px. apply D'; [|exact Cx].
          rewrite map_map. cbn. apply in_map_iff. exists e'. auto. }
      intro res. destruct rf; [|congruence|apply RT; intros w1 [X _]; exact X|apply RT; intros w1 [X _]; exact X].
      (* the three loops *)
      eapply mok_bind with (Q := fun _ w1 => K o fl w1).
      { (* present: advance without sending a byte *)
        intros w1 c1 w1' c1' r1 [HK1 Hpres] E1.
        assert (L : mok (K o fl) (J o fl (w_hub w1))
                        (forM (fun e => match class_of res (r_path e) with
                                        | Some RPresent => bind tick (fun _ => bind (lift (mark_synced H (r_path e))) (fun _ => ret tt))
                                        | _ => ret tt end) pending) (fun _ w2 => J o fl (w_hub w1) w2)).
        { apply mok_forM. intros e Hin.
          destruct (class_of res (r_path e)) as [[| |d]|] eqn:EC; try apply mok_ret'.
          eapply mok_bind; [apply mok_tick; intros w2 X; eapply J_K; exact X|]. intro.
          eapply mok_bind; [|intro; apply mok_ret'].
          apply mok_lift with (Q := fun _ w2 => J o fl (w_hub w1) w2). intros w2 w2' aa HJ E2.
          eapply mark_synced_J; [exact HJ| |exact E2].
          intros b Ob. rewrite Forall_forall in Rp. destruct (Rp e Hin) as (b' & Ob' & Sb & _).
          assert (b' = b) by congruence. subst b'. rewrite <- Sb. apply Hpres; auto. }
        pose proof (L _ _ _ _ _ (K_J _ _ _ HK1) E1) as X. destruct r1; [eapply J_K; exact X|exact X]. }
      intro. eapply mok_bind with (Q := fun _ w1 => K o fl w1).
      { apply mok_forM. intros e Hin.
        destruct (class_of res (r_path e)) as [[| |d]|] eqn:EC; try apply mok_ret'.
        eapply mok_bind; [apply mok_tick; auto|]. intro.
        eapply mok_bind; [apply K_lift_led; intros; eapply mark_conflicted_J; eauto|]. intro. apply mok_ret'. }
      intro. apply mok_forM. intros e Hin.
      destruct (class_of res (r_path e)) as [[| |d]|] eqn:EC; try apply mok_ret'.
      apply send_one_ok. rewrite Forall_forall in Rp. auto. }
    destruct (eff_rfault (c_rec c0) (w_hub w) (map r_path pending)) eqn:ERF.
    - refine (REC ROk _). discriminate.
    - apply RT. auto.
    - refine (REC RLostReply _). discriminate.
    - refine (REC RIndexFail _). discriminate. }
  exact (G _ _ _ _ _ HK0 E).
Qed.

(* ------------------------------------------------------------------ environment events and histories *)

Lemma del_rows_inv keep w :
  Inv w -> (forall r, keep r = false -> r_state r = Synced \/ r_state r = Skipped) -> Inv (del_rows keep w).
Proof.
  intros A Hk. unfold del_rows. apply set_led_inv; auto.
  - pose proof (i_rows _ A) as FA. rewrite Forall_forall in *. intros r Hin. apply filter_In in Hin as [Hin _]. auto.
  - pose proof (i_held _ A) as FA. rewrite Forall_forall in *. intros r Hin. apply filter_In in Hin as [Hin _]. auto.
  - apply Forall_rev. apply Forall_forall. intros t Hin. apply in_map_iff in Hin as (r & <- & Hin).
    apply filter_In in Hin as [_ Hn]. apply negb_true_iff in Hn. unfold doc. cbn.
    destruct (Hk r Hn) as [-> | ->]; reflexivity.
Qed.

Lemma map_rows_inv f w :
  Inv w -> keeps_id f ->
  (forall r, r_state (f r) = r_state r \/
             (r_state (f r) <> Synced /\ doc (r_path r, Some (r_state r), Some (r_state (f r))))) ->
  Inv (map_rows f w).
Proof.
  intros A Kf Hd. unfold map_rows. apply set_led_inv; auto.
  - pose proof (i_rows _ A) as FA. induction FA as [|r t Hr Ht IH]; cbn; constructor; auto.
    apply row_ok_keeps; auto.
  - pose proof (i_held _ A) as FA. induction FA as [|r t Hr Ht IH]; cbn; constructor; auto.
    destruct (Kf r) as (K1 & K2 & _). intro X. rewrite K1, K2.
    destruct (Hd r) as [E|[E _]]; [apply Hr; congruence|congruence].
  - apply Forall_rev. apply Forall_forall. intros t Hin. apply in_flat_map in Hin as (r & _ & Hin).
    destruct (lstate_eqb (r_state r) (r_state (f r))) eqn:EQ; [destruct Hin|]. destruct Hin as [<-|[]].
    destruct (Hd r) as [E|[_ E]]; [|exact E].
    rewrite E in EQ. assert (lstate_eqb (r_state r) (r_state r) = true) by (apply lstate_eqb_eq; reflexivity). congruence.
Qed.

Lemma hubinv_extend o h p b : o p = None -> HubInv o h -> HubInv (fset o p (Some b)) h.
Proof.
  intros On [A B D]. constructor; auto.
  - intros q x E. unfold fset. eqb_cases q p; [rewrite (A _ _ E) in On; discriminate|auto].
  - intros q d c E. destruct (B _ _ _ E) as (x & Ox & Dx). exists x. split; [|exact Dx].
    unfold fset. eqb_cases q p; [congruence|exact Ox].
Qed.

Lemma apply_event_inv pt maxa w e : Inv w -> Inv (apply_event H pt maxa w e).
Proof.
  intro A. destruct e as [p b|p| | | |p|p|p|sc]; cbn [apply_event].
  - (* ECreate *)
    destruct (w_origin w p) eqn:EO; [exact A|].
    destruct A as [A1 A2 A3 A4 A5 A6]. constructor; cbn; auto.
    + intros q x. unfold fset. eqb_cases q p; auto.
    + eapply Forall_impl; [|exact A2]. intros r (x & Ox & Sx & Zx). exists x. split; [|auto].
      unfold fset. eqb_cases (r_path r) p; [congruence|exact Ox].
    + apply hubinv_extend; auto.
  - (* EVanish *)
    destruct A as [A1 A2 A3 A4 A5 A6]. constructor; cbn; auto.
    intros q x. unfold fset. eqb_cases q p; [discriminate|auto].
  - (* EPrune *)
    apply del_rows_inv; auto. intros r Hk. apply negb_false_iff in Hk. apply lstate_eqb_eq in Hk. auto.
  - (* ERequeue *)
    apply map_rows_inv; auto.
    + intro r. destruct (_ || _); cbn; auto.
    + intro r. destruct (lstate_eqb (r_state r) Failed) eqn:E1; cbn [orb].
      * apply lstate_eqb_eq in E1. right. cbn. rewrite E1. split; [discriminate|reflexivity].
      * destruct (lstate_eqb (r_state r) Skipped) eqn:E2; cbn [andb]; [|auto].
        destruct (r_dism r); [|auto]. apply lstate_eqb_eq in E2. right. cbn. rewrite E2. split; [discriminate|reflexivity].
  - (* EDismiss *)
    apply map_rows_inv; auto.
    + intro r. destruct (lstate_eqb _ _); cbn; auto.
    + intro r. destruct (lstate_eqb (r_state r) Failed) eqn:E1; [|auto].
      apply lstate_eqb_eq in E1. right. cbn. rewrite E1. split; [discriminate|reflexivity].
  - (* EHubMarkCompacted *)
    destruct (hub_mark_compacted_inv _ _ p (i_hub _ A)) as (HI & Hr & Hm).
    destruct A as [A1 A2 A3 A4 A5 A6]. constructor; cbn; auto.
    eapply Forall_impl; [|exact A6]. intros r Hh. eapply held_row_mono; eauto.
  - (* EHubDeleteRaw *)
    destruct (hub_delete_raw_inv _ _ p (i_hub _ A)) as (HI & Hr & Hm).
    destruct A as [A1 A2 A3 A4 A5 A6]. constructor; cbn; auto.
    eapply Forall_impl; [|exact A6]. intros r Hh. eapply held_row_mono; eauto.
  - (* EHubRemove *)
    destruct (hub_remove_inv _ _ p (i_hub _ A)) as (HI & Hm & Hr).
    destruct A as [A1 A2 A3 A4 A5 A6]. constructor; cbn; auto.
    eapply Forall_impl; [|exact A6]. intros r Hh Hs. destruct (Hh Hs) as [X|X].
    + apply Hm. exact X.
    + right. eapply N.lt_le_trans; [exact X|apply Hr].
  - (* ERun *)
    set (c := {| c_crash := s_crash sc; c_puts := s_puts sc; c_rec := s_rec sc; c_maxa := maxa |}).
    destruct (agent_run H pt (w, c)) as [[w' c'] r] eqn:ER. cbn.
    pose proof (agent_run_ok pt (w_origin w) (w_files w) w c w' c' r) as X.
    assert (HK : K (w_origin w) (w_files w) w) by (unfold K; auto).
    specialize (X HK ER). destruct r; apply X.
Qed.

Lemma inv_world0 : Inv world0.
Proof.
  constructor; cbn; auto; try discriminate.
  constructor; cbn; try discriminate. intro p. unfold delivered. cbn. reflexivity.
Qed.

Theorem history_inv pt maxa evs : Inv (run_history H pt maxa evs world0).
Proof.
  unfold run_history. generalize inv_world0. generalize world0.
  induction evs as [|e t IH]; cbn; intros w A; [exact A|]. apply IH. apply apply_event_inv. exact A.
Qed.

(* ---- the removal counter is touched by nothing but EHubRemove (frame argument) *)

Lemma receive_removed h p dsha dsize off body rf :
  h_removed (fst (receive H h p dsha dsize off body rf)) = h_removed h.
Proof.
  unfold receive, receive_stage, hub_record.
  repeat match goal with
         | |- context [match ?x with _ => _ end] => destruct x
         | |- context [if ?x then _ else _] => destruct x
         end; reflexivity.
Qed.

Lemma put_file_removed f h e body : h_removed (fst (put_file H f h e body)) = h_removed h.
Proof.
  destruct f as [m lost rf|m mark lost2| |reached| |d]; cbn; try reflexivity.
  3:{ destruct reached; [|reflexivity]. cbn. apply receive_removed. }
  - pose proof (receive_removed h (r_path e) (r_sha e) (r_size e) (r_sent e) (apply_mut m body) rf) as X.
    destruct (receive H h _ _ _ _ _ rf). exact X.
  - pose proof (receive_removed h (r_path e) (r_sha e) (r_size e) (r_sent e) (apply_mut m body) false) as X1.
    destruct (receive H h _ _ _ _ _ false) as [h1 r1]. cbn in X1.
    set (h2 := if mark then hub_mark_compacted h1 (r_path e) else h1).
    assert (X2 : h_removed h2 = h_removed h1).
    { unfold h2, hub_mark_compacted. destruct mark; [|reflexivity].
      destruct (h_final h1 (r_path e)); [destruct (h_rcpt h1 (r_path e)) as [[d c]|]|]; reflexivity. }
    pose proof (receive_removed h2 (r_path e) (r_sha e) (r_size e) (r_sent e) body false) as X3.
    destruct (receive H h2 _ _ _ _ _ false) as [h3 r3]. cbn in *. congruence.
Qed.

Lemma forget_stale_removed paths : forall h, h_removed (hub_forget_stale h paths) = h_removed h.
Proof.
  induction paths as [|p t IH]; intro h; cbn; [reflexivity|]. unfold hub_forget_stale in IH. rewrite IH.
  unfold forget_one. destruct (h_rcpt h p), (rcpt_compacted h p), (h_final h p); reflexivity.
Qed.

Lemma hub_reconcile_removed h es : h_removed (fst (hub_reconcile h es)) = h_removed h.
Proof. unfold hub_reconcile. cbn [fst]. apply forget_stale_removed. Qed.

Lemma led_update_hub p g f w : w_hub (fst (led_update p g f w)) = w_hub w.
Proof. unfold led_update. destruct (upd_rows p g f (w_led w)). reflexivity. Qed.

Lemma mark_synced_hub p w : w_hub (fst (mark_synced H p w)) = w_hub w.
Proof.
  unfold mark_synced. pose proof (led_update_hub p (in_states [Pending; InFlight])
    (fun r => set_sent (set_state r Synced) (r_size r)) w) as X.
  destruct (led_update _ _ _ w) as [w1 [|]]; cbn in *; exact X.
Qed.

Section RemovedFrame.
Variable rm : cmap.
Let R (w : world) : Prop := h_removed (w_hub w) = rm.

Ltac fr :=
  lazymatch goal with
  | |- mok _ _ (bind _ _) _ => apply (mok_bind R R _ (fun _ => R)); [fr | intro; fr]
  | |- mok _ _ (ret _) _ => apply mok_ret'
  | |- mok _ _ tick _ => apply mok_tick; auto
  | |- mok _ _ getw _ => apply mok_getw'
  | |- mok _ _ getc _ => apply mok_getc
  | |- mok _ _ next_fault _ => apply mok_next_fault
  | |- mok _ _ (forM _ _) _ => apply mok_forM; intros; fr
  | |- mok _ _ (lift _) _ => apply mok_lift'; unfold R; intros ? <-
  | |- mok _ _ (match ?x with _ => _ end) _ => destruct x; fr
  | |- mok _ _ (if ?x then _ else _) _ => destruct x; fr
  | _ => idtac
  end.

Lemma fail_fr p : mok R R (fail p) (fun _ w => R w).
Proof. unfold fail. fr. unfold mark_failed. rewrite led_update_hub. reflexivity. Qed.

Lemma skip_fr p : mok R R (skip_if_vanished p) (fun _ w => R w).
Proof. unfold skip_if_vanished. fr. unfold mark_skipped. rewrite led_update_hub. reflexivity. Qed.

Lemma send_one_fr e : mok R R (send_one H e) (fun _ w => R w).
Proof.
  unfold send_one. fr; try apply fail_fr; try apply skip_fr;
    try (unfold mark_in_flight, mark_failed, record_progress; rewrite led_update_hub; reflexivity);
    try (rewrite mark_synced_hub; reflexivity).
  match goal with
  | |- context [put_file H ?f ?h ?e ?bd] =>
      pose proof (put_file_removed f h e bd) as X; destruct (put_file H f h e bd); exact X
  end.
Qed.

Lemma agent_run_fr pt : mok R R (agent_run H pt) (fun _ w => R w).
Proof.
  unfold agent_run, agent_body. fr; try apply send_one_fr;
    try (rewrite mark_synced_hub; reflexivity);
    try (unfold mark_conflicted; rewrite led_update_hub; reflexivity);
    try reflexivity.
  1: { unfold discover. destruct (track_new H pt _ _ _ _) as [[? ?] ?]. reflexivity. }
  all: match goal with
       | |- context [hub_reconcile ?h ?es] =>
           pose proof (hub_reconcile_removed h es) as X; destruct (hub_reconcile h es); exact X
       end.
Qed.

End RemovedFrame.

Lemma apply_event_removed pt maxa w e p :
  h_removed (w_hub (apply_event H pt maxa w e)) p <=
  h_removed (w_hub w) p + (match e with EHubRemove q => if N.eqb q p then 1 else 0 | _ => 0 end).
Proof.
  destruct e as [q b|q| | | |q|q|q|sc]; cbn [apply_event].
  - destruct (w_origin w q); cbn; lia.
  - cbn; lia.
  - cbn; lia.
  - cbn; lia.
  - cbn; lia.
  - cbn. unfold hub_mark_compacted. destruct (h_final (w_hub w) q); [destruct (h_rcpt (w_hub w) q) as [[d c]|]|]; cbn; lia.
  - cbn. unfold hub_delete_raw. destruct (h_final (w_hub w) q); [destruct (rcpt_compacted (w_hub w) q)|]; cbn; lia.
  - cbn. unfold hub_remove. destruct (h_final (w_hub w) q); [destruct (rcpt_compacted (w_hub w) q)|]; cbn;
      try (destruct (N.eqb q p); lia).
    unfold cinc. rewrite (N.eqb_sym q p). destruct (N.eqb p q); lia.
  - set (c := {| c_crash := s_crash sc; c_puts := s_puts sc; c_rec := s_rec sc; c_maxa := maxa |}).
    destruct (agent_run H pt (w, c)) as [[w' c'] r] eqn:ER. cbn.
    pose proof (agent_run_fr (h_removed (w_hub w)) pt w c w' c' r eq_refl ER) as X.
    destruct r; rewrite X; lia.
Qed.

Lemma history_removed pt maxa evs : forall w p,
  h_removed (w_hub (run_history H pt maxa evs w)) p <= h_removed (w_hub w) p + count_removals evs p.
Proof.
  unfold run_history, count_removals.
  induction evs as [|e t IH]; intros w p; cbn [fold_left]; [cbn; lia|].
  specialize (IH (apply_event H pt maxa w e) p).
  pose proof (apply_event_removed pt maxa w e p) as X.
  cbn [filter]. destruct e as [q b|q| | | |q|q|q|sc]; try (cbn [length] in *; lia).
  destruct (N.eqb q p); cbn [length] in *; lia.
Qed.

(* ---- the origin is what the history created *)

Lemma apply_event_origin pt maxa w e :
  Inv w ->
  w_origin (apply_event H pt maxa w e) =
  match e with
  | ECreate p b => match w_origin w p with Some _ => w_origin w | None => fset (w_origin w) p (Some b) end
  | _ => w_origin w
  end.
Proof.
  intro A. destruct e as [q b|q| | | |q|q|q|sc]; cbn [apply_event]; try reflexivity.
  - destruct (w_origin w q); reflexivity.
  - set (c := {| c_crash := s_crash sc; c_puts := s_puts sc; c_rec := s_rec sc; c_maxa := maxa |}).
    destruct (agent_run H pt (w, c)) as [[w' c'] r] eqn:ER. cbn.
    pose proof (agent_run_ok pt (w_origin w) (w_files w) w c w' c' r) as X.
    assert (HK : K (w_origin w) (w_files w) w) by (unfold K; auto).
    specialize (X HK ER). destruct r; apply X.
Qed.

Lemma history_origin pt maxa evs : forall w p,
  Inv w ->
  w_origin (run_history H pt maxa evs w) p =
  match w_origin w p with Some b => Some b | None => created evs p end.
Proof.
  unfold run_history. induction evs as [|e t IH]; intros w p A; cbn [fold_left created].
  - destruct (w_origin w p); reflexivity.
  - rewrite (IH _ p (apply_event_inv pt maxa w e A)). rewrite (apply_event_origin pt maxa w e A).
    destruct e as [q b|q| | | |q|q|q|sc]; try reflexivity.
    destruct (w_origin w q) eqn:EQ.
    + eqb_cases q p; [rewrite EQ; reflexivity|reflexivity].
    + unfold fset. rewrite (N.eqb_sym q p). eqb_cases p q; [rewrite EQ; reflexivity|reflexivity].
Qed.

(* ================================================================== quiescence *)
(* Ledger-only reasoning about passes that do not crash.  The hub's answers are arbitrary: every
   outcome of a transfer either finishes the row or costs it one attempt. *)

Definition rfind (rows : list row) (p : N) : option row := find (fun r => N.eqb (r_path r) p) rows.
Definition paths (rows : list row) : list N := map r_path rows.

Lemma rfind_some rows p r : rfind rows p = Some r -> In r rows /\ r_path r = p.
Proof. intro E. apply find_some in E as [A B]. apply N.eqb_eq in B. auto. Qed.

Lemma rfind_in rows r : NoDup (paths rows) -> In r rows -> rfind rows (r_path r) = Some r.
Proof.
  induction rows as [|x t IH]; cbn; intros ND Hin; [destruct Hin|].
  inversion ND as [|? ? Hn Hd]; subst. unfold rfind; cbn. destruct Hin as [->|Hin].
  - rewrite N.eqb_refl. reflexivity.
  - destruct (N.eqb_spec (r_path x) (r_path r)) as [E|E].
    + exfalso. apply Hn. rewrite E. apply in_map. exact Hin.
    + apply IH; auto.
Qed.

Lemma rfind_none rows p : rfind rows p = None <-> ~ In p (paths rows).
Proof.
  unfold rfind, paths. induction rows as [|x t IH]; cbn; [tauto|].
  destruct (N.eqb_spec (r_path x) p) as [E|E].
  - split; [discriminate|]. intro X. exfalso. apply X. auto.
  - rewrite IH. tauto.
Qed.

Lemma upd_rows_paths p g f : (forall r, r_path (f r) = r_path r) ->
  forall rows, paths (fst (upd_rows p g f rows)) = paths rows.
Proof.
  intros Kf. induction rows as [|r t IH]; cbn; [reflexivity|].
  destruct (N.eqb (r_path r) p).
  - destruct (g r); cbn; [rewrite Kf|]; reflexivity.
  - destruct (upd_rows p g f t) as [t' o]. cbn in *. rewrite IH. reflexivity.
Qed.

Lemma upd_rows_rfind_other p g f q : q <> p -> (forall r, r_path (f r) = r_path r) ->
  forall rows, rfind (fst (upd_rows p g f rows)) q = rfind rows q.
Proof.
  intros Hne Kf. unfold rfind. induction rows as [|r t IH]; cbn; [reflexivity|].
  destruct (N.eqb_spec (r_path r) p) as [E|E].
  - destruct (g r); cbn; [|reflexivity]. rewrite Kf.
    destruct (N.eqb_spec (r_path r) q); [congruence|reflexivity].
  - destruct (upd_rows p g f t) as [t' o]. cbn in *. rewrite IH. reflexivity.
Qed.

Lemma upd_rows_rfind_same p g f : (forall r, r_path (f r) = r_path r) ->
  forall rows, rfind (fst (upd_rows p g f rows)) p =
               match rfind rows p with Some r => Some (if g r then f r else r) | None => None end.
Proof.
  intros Kf. unfold rfind. induction rows as [|r t IH]; cbn; [reflexivity|].
  destruct (N.eqb_spec (r_path r) p) as [E|E].
  - destruct (g r); cbn; [rewrite Kf|]; destruct (N.eqb_spec (r_path r) p); congruence.
  - destruct (upd_rows p g f t) as [t' o]. cbn in *.
    destruct (N.eqb_spec (r_path r) p); [congruence|]. exact IH.
Qed.

Lemma led_update_led p g f w : w_led (fst (led_update p g f w)) = fst (upd_rows p g f (w_led w)).
Proof. unfold led_update. destruct (upd_rows p g f (w_led w)). reflexivity. Qed.

Lemma mark_synced_led p w :
  w_led (fst (mark_synced H p w)) =
  fst (upd_rows p (in_states [Pending; InFlight]) (fun r => set_sent (set_state r Synced) (r_size r)) (w_led w)).
Proof.
  unfold mark_synced. rewrite <- led_update_led.
  destruct (led_update _ _ _ w) as [w1 [|]]; reflexivity.
Qed.

(* ---- discovery *)

Lemma tracked_iff rows p : tracked rows p = true <-> In p (paths rows).
Proof.
  unfold tracked, paths. rewrite existsb_exists. split.
  - intros (r & Hin & E). apply N.eqb_eq in E. subst. apply in_map. exact Hin.
  - intro Hin. apply in_map_iff in Hin as (r & E & Hin). exists r. split; [exact Hin|apply N.eqb_eq; exact E].
Qed.

Definition fresh_row (r : row) : Prop := r_state r = Pending /\ r_att r = 0.

Lemma track_new_ext pt files names : forall rows next rows' next' lg,
  track_new H pt files names rows next = (rows', next', lg) ->
  NoDup (paths rows) ->
  exists ext, rows' = rows ++ ext /\ Forall fresh_row ext /\ NoDup (paths rows') /\
              (forall p, In p names -> files p <> None -> In p (paths rows')).
Proof.
  induction names as [|p t IH]; cbn; intros rows next rows' next' lg E ND.
  - inversion E; subst. exists []. rewrite app_nil_r. repeat split; auto. intros p [].
  - destruct (files p) as [b|] eqn:EF.
    + destruct (tracked rows p) eqn:ET.
      * destruct (IH _ _ _ _ _ E ND) as (ext & A & B & C & D). exists ext. repeat split; auto.
        intros q [<-|Hq] Hf; [|auto]. rewrite A. unfold paths. rewrite map_app. apply in_or_app. left.
        apply tracked_iff. exact ET.
      * destruct (track_new H pt files t _ _) as [[rows1 next1] lg1] eqn:E1. inversion E; subst.
        set (r := {| r_id := next; r_path := p; r_sha := H b; r_size := blen b; r_pt := pt p;
                     r_state := Pending; r_att := 0; r_sent := 0; r_dism := false |}) in *.
        assert (ND1 : NoDup (paths (rows ++ [r]))).
        { unfold paths. rewrite map_app. cbn. apply NoDup_app_intro || idtac.
          rewrite <- (rev_involutive (map r_path rows ++ [p])). apply NoDup_rev. rewrite rev_app_distr. cbn.
          constructor.
          - rewrite <- in_rev. intro X. apply tracked_iff in X. congruence.
          - apply NoDup_rev. exact ND. }
        destruct (IH _ _ _ _ _ E1 ND1) as (ext & A & B & C & D).
        match type of A with ?x = _ => subst x end. rewrite <- app_assoc in *. cbn [app] in *.
        exists (r :: ext). split; [reflexivity|split; [|split]].
        -- constructor; [split; reflexivity|exact B].
        -- exact C.
        -- intros q [<-|Hq] Hf.
           ++ unfold paths. rewrite map_app. apply in_or_app. right. left. reflexivity.
           ++ apply D; auto.
    + destruct (IH _ _ _ _ _ E ND) as (ext & A & B & C & D). exists ext. repeat split; auto.
      intros q [<-|Hq] Hf; [congruence|auto].
Qed.

Lemma track_new_id pt files names : forall rows next,
  (forall p, In p names -> files p <> None -> In p (paths rows)) ->
  track_new H pt files names rows next = (rows, next, []).
Proof.
  induction names as [|p t IH]; cbn; intros rows next Hall; [reflexivity|].
  destruct (files p) as [b|] eqn:EF.
  - assert (ET : tracked rows p = true) by (apply tracked_iff; apply Hall; [left; reflexivity|congruence]).
    rewrite ET. apply IH. intros q Hq. apply Hall. right; exact Hq.
  - apply IH. intros q Hq. apply Hall. right; exact Hq.
Qed.

Lemma upd_rows_hit p g f rows r :
  rfind rows p = Some r -> g r = true -> snd (upd_rows p g f rows) <> None.
Proof.
  unfold rfind. induction rows as [|x t IH]; cbn; [discriminate|].
  destruct (N.eqb (r_path x) p).
  - intros [= ->] G. rewrite G. cbn. discriminate.
  - intros E G. specialize (IH E G). destruct (upd_rows p g f t) as [t' o]. cbn in *. exact IH.
Qed.

Lemma upd_rows_miss p g f rows :
  (forall r, rfind rows p = Some r -> g r = false) -> upd_rows p g f rows = (rows, None).
Proof.
  unfold rfind. induction rows as [|x t IH]; cbn; [reflexivity|].
  destruct (N.eqb (r_path x) p).
  - intro G. rewrite (G x eq_refl). reflexivity.
  - intro G. rewrite (IH G). reflexivity.
Qed.

Section Quiet.
Variable maxa : N.
Variable rf : rfault.

Definition qok {A} (m : M A) (P : list row -> Prop) (Q : A -> list row -> Prop) : Prop :=
  forall w c, c_crash c = None -> c_maxa c = maxa -> c_rec c = rf -> P (w_led w) ->
  exists w' c' a, m (w, c) = ((w', c'), Some a) /\ c_crash c' = None /\ c_maxa c' = maxa /\ c_rec c' = rf /\
                  Q a (w_led w') /\ w_files w' = w_files w /\ w_names w' = w_names w.

Lemma qok_ret {A} (a : A) (P : list row -> Prop) : qok (ret a) P (fun _ l => P l).
Proof. intros w c C1 C2 C3 HP. exists w, c, a. repeat split; auto. Qed.

Lemma qok_ret_eq {A} (a : A) (P : list row -> Prop) : qok (ret a) P (fun x l => x = a /\ P l).
Proof. intros w c C1 C2 C3 HP. exists w, c, a. repeat split; auto. Qed.

Lemma qok_bind {A B} (m : M A) (k : A -> M B) (P : list row -> Prop) (Q : A -> list row -> Prop) (R : B -> list row -> Prop) :
  qok m P Q -> (forall a, qok (k a) (Q a) R) -> qok (bind m k) P R.
Proof.
  intros Hm Hk w c C1 C2 C3 HP. destruct (Hm w c C1 C2 C3 HP) as (w1 & c1 & a & E & D1 & D2 & D3 & HQ & G1 & G2).
  destruct (Hk a w1 c1 D1 D2 D3 HQ) as (w2 & c2 & b & E2 & F1 & F2 & F3 & HR & G3 & G4).
  exists w2, c2, b. unfold bind. rewrite E. repeat split; auto; congruence.
Qed.

Lemma qok_conseq {A} (m : M A) (P P' : list row -> Prop) (Q Q' : A -> list row -> Prop) :
  qok m P Q -> (forall l, P' l -> P l) -> (forall a l, Q a l -> Q' a l) -> qok m P' Q'.
Proof.
  intros Hm HP HQ w c C1 C2 C3 HP'. destruct (Hm w c C1 C2 C3 (HP _ HP')) as (w1 & c1 & a & E & D1 & D2 & D3 & X & G1 & G2).
  exists w1, c1, a. repeat split; auto.
Qed.

Lemma qok_tick (P : list row -> Prop) : qok tick P (fun _ l => P l).
Proof. intros w c C1 C2 C3 HP. exists w, c, tt. unfold tick. rewrite C1. repeat split; auto. Qed.

Definition fnp {A} (f : world -> world * A) : Prop :=
  forall w, w_files (fst (f w)) = w_files w /\ w_names (fst (f w)) = w_names w.

Lemma qok_lift {A} (f : world -> world * A) (P : list row -> Prop) (Q : A -> list row -> Prop) :
  fnp f -> (forall w, P (w_led w) -> Q (snd (f w)) (w_led (fst (f w)))) -> qok (lift f) P Q.
Proof.
  intros Hn Hf w c C1 C2 C3 HP. pose proof (Hf w HP) as X. destruct (Hn w) as [N1 N2].
  unfold lift. cbn. destruct (f w) as [w1 a]. cbn in *.
  exists w1, c, a. repeat split; auto.
Qed.

Lemma led_update_fnp p g f : fnp (led_update p g f).
Proof. intro w. unfold led_update. destruct (upd_rows p g f (w_led w)). split; reflexivity. Qed.

Lemma mark_synced_fnp p : fnp (mark_synced H p).
Proof.
  intro w. unfold mark_synced. pose proof (led_update_fnp p (in_states [Pending; InFlight])
    (fun r => set_sent (set_state r Synced) (r_size r)) w) as X.
  destruct (led_update _ _ _ w) as [w1 [|]]; cbn in *; exact X.
Qed.

Ltac fnp_tac :=
  first [ apply led_update_fnp | apply mark_synced_fnp
        | unfold mark_failed, mark_in_flight, record_progress, mark_conflicted, mark_skipped; apply led_update_fnp
        | intro; match goal with
                 | |- context [put_file ?a ?b ?c ?d ?e] => destruct (put_file a b c d e)
                 | |- context [hub_reconcile ?a ?b] => destruct (hub_reconcile a b)
                 end; split; reflexivity
        | intro; split; reflexivity ].

Lemma qok_getw (P : list row -> Prop) : qok getw P (fun _ l => P l).
Proof. intros w c C1 C2 C3 HP. exists w, c, w. repeat split; auto. Qed.

Lemma qok_getc (P : list row -> Prop) : qok getc P (fun c l => P l /\ c_maxa c = maxa /\ c_rec c = rf).
Proof. intros w c C1 C2 C3 HP. exists w, c, c. repeat split; auto. Qed.

Lemma qok_next_fault (P : list row -> Prop) : qok next_fault P (fun _ l => P l).
Proof.
  intros w c C1 C2 C3 HP. unfold next_fault. destruct (c_puts c) as [|f t].
  - exists w, c, (FDeliver no_mut false false). repeat split; auto.
  - exists w, {| c_crash := c_crash c; c_puts := t; c_rec := c_rec c; c_maxa := c_maxa c |}, f. repeat split; auto.
Qed.

(* frame: everything but the row of path p is as in rows0 *)
Definition Fr (rows0 : list row) (p : N) (l : list row) : Prop :=
  paths l = paths rows0 /\ forall q, q <> p -> rfind l q = rfind rows0 q.
Definition At (l : list row) (p : N) (X : row -> Prop) : Prop := exists r, rfind l p = Some r /\ X r.
Definition FA (rows0 : list row) (p : N) (X : row -> Prop) (l : list row) : Prop := Fr rows0 p l /\ At l p X.

Lemma FA_upd rows0 p (g : row -> bool) (f : row -> row) (X Y : row -> Prop) l :
  (forall r, r_path (f r) = r_path r) -> (forall r, X r -> Y (if g r then f r else r)) ->
  FA rows0 p X l -> FA rows0 p Y (fst (upd_rows p g f l)).
Proof.
  intros Kf HXY [[F1 F2] (r & Er & Xr)]. split; [split|].
  - rewrite upd_rows_paths; auto.
  - intros q Hq. rewrite upd_rows_rfind_other; auto.
  - exists (if g r then f r else r). split; [|auto]. rewrite upd_rows_rfind_same; auto. rewrite Er. reflexivity.
Qed.

Lemma qok_led rows0 p (g : row -> bool) (f : row -> row) (X Y : row -> Prop) :
  (forall r, r_path (f r) = r_path r) -> (forall r, X r -> g r = true /\ Y (f r)) ->
  qok (lift (led_update p g f)) (FA rows0 p X) (fun ok l => ok = true /\ FA rows0 p Y l).
Proof.
  intros Kf HXY. apply qok_lift; [fnp_tac|]. intros w HP. split.
  - destruct HP as [_ (r & Er & Xr)]. unfold led_update.
    pose proof (upd_rows_hit p g f (w_led w) r Er (proj1 (HXY r Xr))) as Hh.
    destruct (upd_rows p g f (w_led w)) as [rows [o|]]; cbn in *; congruence.
  - rewrite led_update_led. eapply FA_upd; eauto. intros r Xr. destruct (HXY r Xr) as [G Yr]. rewrite G. exact Yr.
Qed.

Definition Good (a : N) (r : row) : Prop :=
  terminal (r_state r) = true \/ (r_state r = Pending /\ r_att r = a + 1 /\ a + 1 < maxa).
Definition Flying (a : N) (r : row) : Prop := r_state r = InFlight /\ r_att r = a + 1.

Lemma fail_q rows0 p a : qok (fail p) (FA rows0 p (Flying a)) (fun _ l => FA rows0 p (Good a) l).
Proof.
  unfold fail. eapply qok_bind; [apply qok_getc|]. intro c. cbn beta.
  eapply qok_bind; [apply qok_tick|]. intro.
  eapply qok_bind.
  - apply qok_lift with (Q := fun _ l => FA rows0 p (Good a) l); [fnp_tac|]. intros w [HP [Cm _]].
    unfold mark_failed. rewrite led_update_led. eapply FA_upd; [intro; reflexivity| |exact HP].
    intros r [S A]. rewrite Cm. replace (in_states [InFlight] r) with true by (unfold in_states; rewrite S; reflexivity).
    unfold Good. cbn. rewrite A. destruct (N.leb_spec maxa (a + 1)); [left; reflexivity|right; auto].
  - intro. apply qok_ret.
Qed.

Lemma send_one_q rows0 e a :
  qok (send_one H e) (FA rows0 (r_path e) (fun r => r_state r = Pending /\ r_att r = a))
      (fun _ l => FA rows0 (r_path e) (Good a) l).
Proof.
  unfold send_one. set (p := r_path e).
  eapply qok_bind; [apply qok_tick|]. intro.
  eapply qok_bind.
  { apply (qok_led rows0 p _ _ _ (Flying a)); [intro; reflexivity|].
    intros r [S A]. split; [unfold in_states; rewrite S; reflexivity|]. split; cbn; [reflexivity|rewrite A; reflexivity]. }
  intro ok. destruct ok; cbn [negb].
  2:{ intros w c C1 C2 C3 [X _]. discriminate. }
  eapply qok_conseq with (P := FA rows0 p (Flying a)) (Q := fun _ l => FA rows0 p (Good a) l);
    [|intros l [_ X]; exact X|auto].
  eapply qok_bind; [apply qok_getw|]. intro w0. cbn beta.
  eapply qok_bind; [apply qok_tick|]. intro.
  eapply qok_bind; [apply qok_next_fault|]. intro f. cbn beta.
  eapply qok_bind with (Q := fun _ l => FA rows0 p (Flying a) l).
  { destruct (w_files w0 p).
    - apply qok_lift; [fnp_tac|]. intros w HP. destruct (put_file H f (w_hub w) e _). exact HP.
    - apply qok_ret. }
  intro r.
  assert (SYNC : qok (bind tick (fun _ => bind (lift (mark_synced H p)) (fun _ => ret tt)))
                     (FA rows0 p (Flying a)) (fun _ l => FA rows0 p (Good a) l)).
  { eapply qok_bind; [apply qok_tick|]. intro. eapply qok_bind; [|intro; apply qok_ret].
    apply qok_lift with (Q := fun _ l => FA rows0 p (Good a) l); [fnp_tac|]. intros w HP. rewrite mark_synced_led.
    eapply FA_upd; [intro; reflexivity| |exact HP]. intros r0 [S A].
    replace (in_states [Pending; InFlight] r0) with true by (unfold in_states; rewrite S; reflexivity).
    left. reflexivity. }
  destruct r as [n|n|n|d| | |].
  7:{ (* PErr *)
      unfold skip_if_vanished.
      eapply qok_bind with (Q := fun (sk : bool) (l : list row) => if sk then FA rows0 p (Good a) l else FA rows0 p (Flying a) l).
      { destruct (exists_errs f).
        { eapply qok_conseq; [apply (qok_ret_eq false (FA rows0 p (Flying a)))|auto|].
          cbn. intros sk l [-> X]. exact X. }
        eapply qok_bind; [apply qok_getw|]. intro w1. cbn beta. destruct (w_files w1 p).
        - eapply qok_conseq; [apply (qok_ret_eq false (FA rows0 p (Flying a)))|auto|].
          cbn. intros sk l [-> X]. exact X.
        - eapply qok_bind; [apply qok_tick|]. intro.
          eapply qok_conseq; [apply (qok_led rows0 p _ _ (Flying a) (Good a)); [intro; reflexivity|]|auto|].
          + intros r0 [S A]. split; [unfold in_states; rewrite S; reflexivity|]. left. reflexivity.
          + cbn. intros ok l [-> X]. exact X. }
      intro sk. destruct sk; [apply qok_ret|apply fail_q]. }
  all: destruct (validate e _); cbn [negb]; try apply fail_q; try exact SYNC.
  - (* partial *)
    eapply qok_bind; [apply qok_tick|]. intro.
    eapply qok_bind with (Q := fun _ l => FA rows0 p (Flying a) l); [|intro; apply fail_q].
    apply qok_lift; [fnp_tac|]. intros w HP. unfold record_progress. rewrite led_update_led.
    eapply FA_upd; [intro; reflexivity| |exact HP]. intros r0 [S A].
    destruct (in_states [InFlight] r0); split; cbn; auto.
  - (* conflict: terminal at once *)
    eapply qok_bind; [apply qok_tick|]. intro.
    eapply qok_bind; [|intro; apply qok_ret].
    apply qok_lift with (Q := fun _ l => FA rows0 p (Good a) l); [fnp_tac|]. intros w HP. unfold mark_failed. rewrite led_update_led.
    eapply FA_upd; [intro; reflexivity| |exact HP]. intros r0 [S A].
    replace (in_states [InFlight] r0) with true by (unfold in_states; rewrite S; reflexivity).
    left. cbn. rewrite A. destruct (N.leb_spec 1 (a + 1)); [reflexivity|lia].
Qed.

(* ---- the three loops of a pass *)

Definition GoodRow (k : N) (r : row) : Prop :=
  terminal (r_state r) = true \/ (r_state r = Pending /\ k + 1 <= r_att r /\ r_att r < maxa).
Definition TodoRow (k : N) (r : row) : Prop := r_state r = Pending /\ k <= r_att r.

Definition elem_spec (k : N) (f : row -> M unit) (sel : row -> bool) : Prop :=
  forall e rows0,
    (sel e = false -> qok (f e) (fun l => l = rows0) (fun _ l => l = rows0)) /\
    (sel e = true -> forall r, rfind rows0 (r_path e) = Some r -> TodoRow k r ->
       qok (f e) (fun l => l = rows0) (fun _ l => FA rows0 (r_path e) (GoodRow k) l)).

Lemma qok_forall {A} (m : M A) (P : list row -> Prop) (R : A -> list row -> Prop) :
  (forall rows1, P rows1 -> qok m (fun l => l = rows1) R) -> qok m P R.
Proof. intros Hm w c C1 C2 C3 HP. exact (Hm (w_led w) HP w c C1 C2 C3 eq_refl). Qed.

Lemma FA_init rows0 p (X : row -> Prop) r : rfind rows0 p = Some r -> X r -> FA rows0 p X rows0.
Proof. intros E Xr. split; [split; auto|exists r; auto]. Qed.

Lemma loop_q k f sel : elem_spec k f sel -> forall L, NoDup (paths L) -> forall rows0,
  (forall e, In e L -> sel e = true -> exists r, rfind rows0 (r_path e) = Some r /\ TodoRow k r) ->
  qok (forM f L) (fun l => l = rows0)
      (fun _ l => paths l = paths rows0 /\
                  (forall q, (forall e, In e L -> sel e = true -> r_path e <> q) -> rfind l q = rfind rows0 q) /\
                  (forall e, In e L -> sel e = true -> At l (r_path e) (GoodRow k))).
Proof.
  intros ES. induction L as [|e t IH]; intros ND rows0 Hpre; cbn [forM].
  - eapply qok_conseq; [apply (qok_ret tt (fun l => l = rows0))|auto|]. cbn. intros _ l ->.
    split; [reflexivity|split; [reflexivity|intros e []]].
  - cbn in ND. inversion ND as [|? ? Hn Hd]; subst.
    destruct (sel e) eqn:SE.
    + destruct (Hpre e (or_introl eq_refl) SE) as (r & Er & Tr).
      eapply qok_bind; [apply (proj2 (ES e rows0) SE r Er Tr)|]. intro. cbn beta.
      apply qok_forall. intros rows1 [[F1 F2] HA].
      eapply qok_conseq; [apply (IH Hd rows1)|auto|].
      * intros e' Hin Se'. destruct (Hpre e' (or_intror Hin) Se') as (r' & Er' & Tr').
        exists r'. split; [|exact Tr']. rewrite F2; [exact Er'|].
        intro X. apply Hn. rewrite <- X. apply in_map. exact Hin.
      * cbn. intros _ l (P1 & P2 & P3). split; [congruence|split].
        -- intros q Hq. rewrite P2; [apply F2|].
           ++ intro X. apply (Hq e (or_introl eq_refl) SE). congruence.
           ++ intros e' Hin Se'. apply Hq; [right; exact Hin|exact Se'].
        -- intros e' [<-|Hin] Se'.
           ++ destruct HA as (r1 & Er1 & G1). exists r1. split; [|exact G1]. rewrite P2; [exact Er1|].
              intros e' Hin _ X. apply Hn. rewrite <- X. apply in_map. exact Hin.
           ++ apply P3; auto.
    + eapply qok_bind; [apply (proj1 (ES e rows0) SE)|]. intro. cbn beta.
      eapply qok_conseq; [apply (IH Hd rows0)|auto|].
      * intros e' Hin Se'. apply Hpre; [right; exact Hin|exact Se'].
      * cbn. intros _ l (P1 & P2 & P3). split; [exact P1|split].
        -- intros q Hq. apply P2. intros e' Hin Se'. apply Hq; [right; exact Hin|exact Se'].
        -- intros e' [<-|Hin] Se'; [congruence|apply P3; auto].
Qed.

Definition sel_present (res : list (N * rclass)) (e : row) : bool :=
  match class_of res (r_path e) with Some RPresent => true | _ => false end.
Definition sel_conflict (res : list (N * rclass)) (e : row) : bool :=
  match class_of res (r_path e) with Some (RConflict _) => true | _ => false end.
Definition sel_missing (res : list (N * rclass)) (e : row) : bool :=
  match class_of res (r_path e) with Some RMissing => true | _ => false end.

Lemma spec_present k res :
  elem_spec k (fun e => match class_of res (r_path e) with
                        | Some RPresent => bind tick (fun _ => bind (lift (mark_synced H (r_path e))) (fun _ => ret tt))
                        | _ => ret tt end) (sel_present res).
Proof.
  intros e rows0. unfold sel_present.
  destruct (class_of res (r_path e)) as [[| |d]|]; split; try discriminate; try (intros _; apply qok_ret).
  intros _ r Er [S A].
  eapply qok_conseq with (P := FA rows0 (r_path e) (TodoRow k))
                         (Q := fun _ l => FA rows0 (r_path e) (GoodRow k) l); [| |auto].
  2:{ intros l ->. eapply FA_init; eauto. split; auto. }
  eapply qok_bind; [apply qok_tick|]. intro. eapply qok_bind; [|intro; apply qok_ret].
  apply qok_lift with (Q := fun _ l => FA rows0 (r_path e) (GoodRow k) l); [fnp_tac|]. intros w HP.
  rewrite mark_synced_led. eapply FA_upd; [intro; reflexivity| |exact HP]. intros r0 [S0 A0].
  replace (in_states [Pending; InFlight] r0) with true by (unfold in_states; rewrite S0; reflexivity).
  left. reflexivity.
Qed.

Lemma spec_conflict k res :
  elem_spec k (fun e => match class_of res (r_path e) with
                        | Some (RConflict _) => bind tick (fun _ => bind (lift (mark_conflicted (r_path e))) (fun _ => ret tt))
                        | _ => ret tt end) (sel_conflict res).
Proof.
  intros e rows0. unfold sel_conflict.
  destruct (class_of res (r_path e)) as [[| |d]|]; split; try discriminate; try (intros _; apply qok_ret).
  intros _ r Er [S A].
  eapply qok_conseq with (P := FA rows0 (r_path e) (TodoRow k))
                         (Q := fun _ l => FA rows0 (r_path e) (GoodRow k) l); [| |auto].
  2:{ intros l ->. eapply FA_init; eauto. split; auto. }
  eapply qok_bind; [apply qok_tick|]. intro. eapply qok_bind; [|intro; apply qok_ret].
  apply qok_lift with (Q := fun _ l => FA rows0 (r_path e) (GoodRow k) l); [fnp_tac|]. intros w HP.
  unfold mark_conflicted. rewrite led_update_led. eapply FA_upd; [intro; reflexivity| |exact HP]. intros r0 [S0 A0].
  replace (in_states [Pending] r0) with true by (unfold in_states; rewrite S0; reflexivity).
  left. reflexivity.
Qed.

Lemma spec_missing k res :
  elem_spec k (fun e => match class_of res (r_path e) with
                        | Some RMissing => send_one H e
                        | _ => ret tt end) (sel_missing res).
Proof.
  intros e rows0. unfold sel_missing.
  destruct (class_of res (r_path e)) as [[| |d]|]; split; try discriminate; try (intros _; apply qok_ret).
  intros _ r Er [S A].
  eapply qok_conseq; [apply (send_one_q rows0 e (r_att r))| |].
  - intros l ->. eapply FA_init; eauto.
  - cbn. intros _ l [F (r1 & E1 & G1)]. split; [exact F|]. exists r1. split; [exact E1|].
    destruct G1 as [G1|(G1 & G2 & G3)]; [left; exact G1|right]. split; [exact G1|]. lia.
Qed.

Lemma qok_getw_eq (P : list row -> Prop) : qok getw P (fun w0 l => P l /\ w_led w0 = l).
Proof. intros w c C1 C2 C3 HP. exists w, c, w. repeat split; auto. Qed.

Lemma NoDup_map_inj_in {A B} (f : A -> B) l x y :
  NoDup (map f l) -> In x l -> In y l -> f x = f y -> x = y.
Proof.
  induction l as [|a t IH]; cbn; intros ND Hx Hy E; [destruct Hx|].
  inversion ND as [|? ? Hn Hd]; subst.
  destruct Hx as [->|Hx], Hy as [->|Hy]; auto.
  - exfalso. apply Hn. rewrite E. apply in_map. exact Hy.
  - exfalso. apply Hn. rewrite <- E. apply in_map. exact Hx.
Qed.

Section Phases.
Variable k : N.
Variable L rows1 : list row.
Hypothesis ND_L : NoDup (paths L).
Hypothesis L_todo : forall e, In e L -> TodoRow k e.

Definition Ij (done : row -> bool) (l : list row) : Prop :=
  paths l = paths rows1 /\
  (forall q, ~ In q (paths L) -> rfind l q = rfind rows1 q) /\
  (forall e, In e L -> if done e then At l (r_path e) (GoodRow k) else rfind l (r_path e) = Some e).

Lemma phase_step f sel (done : row -> bool) :
  elem_spec k f sel -> (forall e, sel e = true -> done e = false) ->
  qok (forM f L) (Ij done) (fun _ l => Ij (fun e => done e || sel e) l).
Proof.
  intros ES Hex. apply qok_forall. intros rows2 (I1 & I2 & I3).
  eapply qok_conseq; [apply (loop_q k f sel ES L ND_L rows2)|auto|].
  - intros e Hin Se. exists e. split; [|apply L_todo; exact Hin].
    pose proof (I3 e Hin) as X. rewrite (Hex e Se) in X. exact X.
  - cbn. intros _ l (P1 & P2 & P3). split; [congruence|split].
    + intros q Hq. rewrite P2; [apply I2; exact Hq|].
      intros e Hin _ X. apply Hq. rewrite <- X. apply in_map. exact Hin.
    + intros e Hin. destruct (sel e) eqn:Se.
      * rewrite orb_true_r. apply P3; auto.
      * rewrite orb_false_r.
        assert (U : rfind l (r_path e) = rfind rows2 (r_path e)).
        { apply P2. intros e' Hin' Se' X.
          assert (e' = e) by (eapply NoDup_map_inj_in; [exact ND_L| | |]; auto). congruence. }
        pose proof (I3 e Hin) as X. destruct (done e).
        -- destruct X as (r & Er & Gr). exists r. split; [congruence|exact Gr].
        -- congruence.
Qed.

End Phases.

End Quiet.

(* ---- a pass that does not crash and whose reconcile is answered *)

Lemma NoDup_paths_filter (g : row -> bool) rows : NoDup (paths rows) -> NoDup (paths (filter g rows)).
Proof.
  unfold paths. induction rows as [|r t IH]; cbn; intro ND; [constructor|].
  inversion ND as [|? ? Hn Hd]; subst. destruct (g r); cbn; auto.
  constructor; auto. intro X. apply Hn. apply in_map_iff in X as (x & E & Hin).
  apply filter_In in Hin as [Hin _]. rewrite <- E. apply in_map. exact Hin.
Qed.

Lemma pending_sorted_nodup rows : NoDup (paths rows) -> NoDup (paths (pending_sorted rows)).
Proof.
  intro ND. unfold paths. eapply Permutation_NoDup.
  - apply Permutation_map. apply Permutation_sym. apply pending_sorted_perm.
  - apply NoDup_paths_filter. exact ND.
Qed.

Lemma class_of_reconcile h es p :
  In p (map fst es) -> class_of (snd (hub_reconcile h es)) p <> None.
Proof.
  unfold hub_reconcile. cbn [snd]. unfold class_of. intros Hin.
  destruct (find _ _) as [x|] eqn:EF; [discriminate|].
  apply in_map_iff in Hin as (e & Ep & Hin).
  eapply find_none in EF; [|apply in_map_iff; exists e; split; [reflexivity|exact Hin]].
  cbn in EF. rewrite Ep, N.eqb_refl in EF. discriminate.
Qed.

Lemma body_q maxa k rows1 :
  NoDup (paths rows1) ->
  (forall r, In r rows1 -> terminal (r_state r) = true \/ TodoRow k r) ->
  qok maxa ROk (agent_body H) (fun l => l = rows1)
      (fun _ l => paths l = paths rows1 /\ forall r, In r l -> GoodRow maxa k r).
Proof.
  intros ND Hrows. unfold agent_body.
  eapply qok_bind; [apply qok_getw_eq|]. intro w0. cbn beta zeta.
  apply qok_forall. intros rows [-> Ew]. rewrite Ew. clear Ew.
  set (L := pending_sorted rows1).
  assert (L_in : forall e, In e L -> In e rows1 /\ r_state e = Pending) by (intro e; apply in_pending_sorted).
  assert (L_todo : forall e, In e L -> TodoRow k e).
  { intros e Hin. destruct (L_in e Hin) as [A B]. destruct (Hrows e A) as [T|T]; [|exact T].
    rewrite B in T. discriminate. }
  assert (ND_L : NoDup (paths L)) by (apply pending_sorted_nodup; exact ND).
  assert (FIN : forall l, Ij maxa k L rows1 (fun _ => true) l ->
                paths l = paths rows1 /\ forall r, In r l -> GoodRow maxa k r).
  { intros l (I1 & I2 & I3). split; [exact I1|]. intros r' Hin.
    assert (NDl : NoDup (paths l)) by (rewrite I1; exact ND).
    pose proof (rfind_in l r' NDl Hin) as Er'.
    destruct (in_dec N.eq_dec (r_path r') (paths L)) as [HinL|HnL].
    - apply in_map_iff in HinL as (e & Ep & He). destruct (I3 e He) as (r & Er & Gr).
      rewrite Ep in Er. assert (r = r') by congruence. subst r. exact Gr.
    - rewrite (I2 _ HnL) in Er'. apply rfind_some in Er' as [Hr1 _].
      destruct (Hrows r' Hr1) as [T|[T1 T2]]; [left; exact T|].
      exfalso. apply HnL. apply in_map. apply in_pending_sorted. auto. }
  destruct L as [|e0 t0] eqn:EL.
  { eapply qok_conseq; [apply (qok_ret _ _ tt (fun l => l = rows1))|auto|]. cbn. intros _ l ->.
    apply FIN. split; [reflexivity|split; [reflexivity|intros e []]]. }
  rewrite <- EL in *. clear EL e0 t0.
  eapply qok_bind; [apply qok_getc|]. intro c. cbn beta.
  eapply qok_bind; [apply qok_tick|]. intro.
  apply qok_forall. intros rows [-> [_ Hrf]]. rewrite Hrf. cbn [eff_rfault].
  set (Q := fun (res : list (N * rclass)) (l : list row) =>
              l = rows1 /\ forall e, In e L -> class_of res (r_path e) <> None).
  eapply qok_bind with (Q := Q).
  { apply qok_lift; [intro w'; destruct (hub_reconcile _ _); split; reflexivity|]. intros w Ew. unfold Q.
    pose proof (fun p => class_of_reconcile (w_hub w) (map (fun r0 => (r_path r0, r_sha r0)) L) p) as X.
    destruct (hub_reconcile (w_hub w) (map (fun r0 => (r_path r0, r_sha r0)) L)) as [h' res]. cbn in *.
    split; [exact Ew|]. intros e Hin. apply X. rewrite map_map. cbn. apply in_map. exact Hin. }
  intro res. apply qok_forall. intros rows [-> Hcls].
  (* the three loops *)
  eapply qok_conseq with (P := Ij maxa k L rows1 (fun _ => false))
                         (Q := fun _ l => Ij maxa k L rows1 (fun e => (false || sel_present res e) || sel_conflict res e || sel_missing res e) l).
  - eapply qok_bind; [apply (phase_step maxa ROk k L rows1 ND_L L_todo _ _ _ (spec_present maxa ROk k res)); reflexivity|].
    intro. eapply qok_bind.
    + apply (phase_step maxa ROk k L rows1 ND_L L_todo _ _ _ (spec_conflict maxa ROk k res)).
      intros e. unfold sel_conflict, sel_present. destruct (class_of res (r_path e)) as [[| |d]|]; cbn; congruence.
    + intro. apply (phase_step maxa ROk k L rows1 ND_L L_todo _ _ _ (spec_missing maxa ROk k res)).
      intros e. unfold sel_missing, sel_conflict, sel_present. destruct (class_of res (r_path e)) as [[| |d]|]; cbn; congruence.
  - intros l ->. split; [reflexivity|split; [reflexivity|]]. intros e Hin.
    apply rfind_in; [exact ND|apply L_in; exact Hin].
  - cbn. intros _ l (I1 & I2 & I3). apply FIN. split; [exact I1|split; [exact I2|]].
    intros e Hin. pose proof (I3 e Hin) as X. pose proof (Hcls e Hin) as Y.
    unfold sel_present, sel_conflict, sel_missing in X.
    destruct (class_of res (r_path e)) as [[| |d]|]; cbn in X; [exact X|exact X|exact X|congruence].
Qed.

(* ---- the ledger's UNIQUE(hub_id, path) constraint, for every history *)

Section NoDupFrame.
Let R (w : world) : Prop := NoDup (paths (w_led w)).

Ltac frn :=
  lazymatch goal with
  | |- mok _ _ (bind _ _) _ => apply (mok_bind R R _ (fun _ => R)); [frn | intro; frn]
  | |- mok _ _ (ret _) _ => apply mok_ret'
  | |- mok _ _ tick _ => apply mok_tick; auto
  | |- mok _ _ getw _ => apply mok_getw'
  | |- mok _ _ getc _ => apply mok_getc
  | |- mok _ _ next_fault _ => apply mok_next_fault
  | |- mok _ _ (forM _ _) _ => apply mok_forM; intros; frn
  | |- mok _ _ (lift _) _ => apply mok_lift'; unfold R; intros ? ?
  | |- mok _ _ (match ?x with _ => _ end) _ => destruct x; frn
  | |- mok _ _ (if ?x then _ else _) _ => destruct x; frn
  | _ => idtac
  end.

Lemma led_update_nodup p g f w : (forall r, r_path (f r) = r_path r) ->
  NoDup (paths (w_led w)) -> NoDup (paths (w_led (fst (led_update p g f w)))).
Proof. intros Kf ND. rewrite led_update_led, upd_rows_paths; auto. Qed.

Lemma mark_synced_nodup p w : NoDup (paths (w_led w)) -> NoDup (paths (w_led (fst (mark_synced H p w)))).
Proof. intro ND. rewrite mark_synced_led, upd_rows_paths; auto. Qed.

Lemma fail_frn p : mok R R (fail p) (fun _ w => R w).
Proof. unfold fail. frn. apply led_update_nodup; auto. Qed.

Lemma skip_frn p : mok R R (skip_if_vanished p) (fun _ w => R w).
Proof. unfold skip_if_vanished. frn. apply led_update_nodup; auto. Qed.

Lemma send_one_frn e : mok R R (send_one H e) (fun _ w => R w).
Proof.
  unfold send_one. frn; try apply fail_frn; try apply skip_frn;
    try (apply led_update_nodup; auto; fail); try (apply mark_synced_nodup; auto; fail).
  match goal with
  | |- context [put_file H ?f ?h ?e ?bd] => destruct (put_file H f h e bd); cbn; auto
  end.
Qed.

Lemma recover_paths w : paths (w_led (recover_in_flight w)) = paths (w_led w).
Proof.
  unfold recover_in_flight, paths; cbn. rewrite map_map. apply map_ext. intro r.
  destruct (lstate_eqb (r_state r) InFlight); reflexivity.
Qed.

Lemma discover_nodup pt w : NoDup (paths (w_led w)) -> NoDup (paths (w_led (discover H pt w))).
Proof.
  intro ND. unfold discover.
  destruct (track_new H pt (w_files w) (w_names w) (w_led w) (w_next w)) as [[rows next] lg] eqn:E.
  destruct (track_new_ext _ _ _ _ _ _ _ _ E ND) as (ext & A & B & C & D). exact C.
Qed.

Lemma agent_run_frn pt : mok R R (agent_run H pt) (fun _ w => R w).
Proof.
  unfold agent_run, agent_body. frn; try apply send_one_frn;
    try (apply mark_synced_nodup; auto; fail); try (apply led_update_nodup; auto; fail).
  1: { cbn [fst]. rewrite recover_paths. auto. }
  1: { cbn [fst]. apply discover_nodup. auto. }
  all: match goal with |- context [hub_reconcile ?h ?es] => destruct (hub_reconcile h es); cbn; auto end.
Qed.

End NoDupFrame.

Lemma apply_event_nodup pt maxa w e :
  NoDup (paths (w_led w)) -> NoDup (paths (w_led (apply_event H pt maxa w e))).
Proof.
  intro ND. destruct e as [q b|q| | | |q|q|q|sc]; cbn [apply_event].
  - destruct (w_origin w q); auto.
  - auto.
  - cbn. apply NoDup_paths_filter. exact ND.
  - cbn. unfold paths in *. rewrite map_map. erewrite map_ext; [exact ND|]. intro r. destruct (_ || _); reflexivity.
  - cbn. unfold paths in *. rewrite map_map. erewrite map_ext; [exact ND|]. intro r. destruct (lstate_eqb _ _); reflexivity.
  - auto.
  - auto.
  - auto.
  - set (c := {| c_crash := s_crash sc; c_puts := s_puts sc; c_rec := s_rec sc; c_maxa := maxa |}).
    destruct (agent_run H pt (w, c)) as [[w' c'] r] eqn:ER. cbn.
    pose proof (agent_run_frn pt w c w' c' r ND ER) as X. destruct r; exact X.
Qed.

Lemma history_nodup pt maxa evs : forall w,
  NoDup (paths (w_led w)) -> NoDup (paths (w_led (run_history H pt maxa evs w))).
Proof.
  unfold run_history. induction evs as [|e t IH]; intros w ND; cbn; [exact ND|].
  apply IH. apply apply_event_nodup. exact ND.
Qed.

(* ---- quiescence *)

Definition AllTracked (w : world) : Prop :=
  forall p, In p (w_names w) -> w_files w p <> None -> In p (paths (w_led w)).

Definition RowQ (maxa k : N) (r : row) : Prop :=
  terminal (r_state r) = true \/ (r_state r = Pending /\ k <= r_att r /\ r_att r < maxa).

Definition quiet (sc : script) : Prop := s_crash sc = None /\ s_rec sc = ROk.

Lemma quiet_run_step pt maxa k w sc :
  quiet sc -> NoDup (paths (w_led w)) ->
  (k = 0 \/ (AllTracked w /\ forall r, In r (w_led w) -> RowQ maxa k r)) ->
  NoDup (paths (w_led (apply_event H pt maxa w (ERun sc)))) /\
  AllTracked (apply_event H pt maxa w (ERun sc)) /\
  forall r, In r (w_led (apply_event H pt maxa w (ERun sc))) -> RowQ maxa (k + 1) r.
Proof.
  intros [Q1 Q2] ND Hk. destruct sc as [cr rc pf]. cbn in Q1, Q2. subst cr rc. cbn [apply_event s_crash s_rec s_puts].
  set (c := {| c_crash := None; c_puts := pf; c_rec := ROk; c_maxa := maxa |}).
  set (w1 := recover_in_flight w). set (w2 := discover H pt w1).
  assert (ER : agent_run H pt (w, c) = agent_body H (w2, c)) by reflexivity.
  rewrite ER. clear ER.
  assert (P1 : paths (w_led w1) = paths (w_led w)) by apply recover_paths.
  assert (ND1 : NoDup (paths (w_led w1))) by (rewrite P1; exact ND).
  assert (R1 : forall r1, In r1 (w_led w1) -> exists r, In r (w_led w) /\
                 r1 = (if lstate_eqb (r_state r) InFlight then set_state r Pending else r)).
  { intros r1 Hin. unfold w1, recover_in_flight in Hin; cbn in Hin. apply in_map_iff in Hin as (r & <- & Hin). eauto. }
  (* discovery *)
  unfold discover in w2.
  destruct (track_new H pt (w_files w1) (w_names w1) (w_led w1) (w_next w1)) as [[rows2 next2] lg2] eqn:ET.
  destruct (track_new_ext _ _ _ _ _ _ _ _ ET ND1) as (ext & A & B & C & D).
  assert (Hrows : forall r, In r rows2 -> terminal (r_state r) = true \/ TodoRow k r).
  { destruct Hk as [->|[AT HQ]].
    - intros r Hin. rewrite A in Hin. apply in_app_or in Hin as [Hin|Hin].
      + destruct (R1 r Hin) as (r0 & _ & ->). destruct (r_state r0) eqn:S; cbn; rewrite ?S; cbn;
          try (left; reflexivity); right; split; cbn; auto; lia.
      + rewrite Forall_forall in B. destruct (B r Hin) as [S _]. right. split; [exact S|lia].
    - assert (Eid : track_new H pt (w_files w1) (w_names w1) (w_led w1) (w_next w1) = (w_led w1, w_next w1, [])).
      { apply track_new_id. intros p Hp Hf. rewrite P1. apply AT; auto. }
      assert (E2 : rows2 = w_led w1) by congruence. rewrite E2. intros r Hin.
      destruct (R1 r Hin) as (r0 & Hin0 & ->). destruct (HQ r0 Hin0) as [T|(S & A1 & A2)].
      + left. destruct (r_state r0) eqn:S; cbn in T; try discriminate; cbn [lstate_eqb]; rewrite S; reflexivity.
      + right. rewrite S. cbn [lstate_eqb]. split; [exact S|exact A1]. }
  destruct (body_q maxa k rows2 C Hrows w2 c eq_refl eq_refl eq_refl eq_refl)
    as (w' & c' & a & E & _ & _ & _ & (PL & GL) & F1 & F2).
  rewrite E. cbn [fst]. split; [rewrite PL; exact C|split].
  - intros p Hp Hf. rewrite PL. rewrite F2 in Hp. rewrite F1 in Hf. apply D; auto.
  - intros r Hin. destruct (GL r Hin) as [T|(S & A1 & A2)]; [left; exact T|right; auto].
Qed.

Lemma quiet_runs pt maxa : forall scs w k,
  Forall quiet scs -> scs <> [] -> NoDup (paths (w_led w)) ->
  (k = 0 \/ (AllTracked w /\ forall r, In r (w_led w) -> RowQ maxa k r)) ->
  forall r, In r (w_led (run_history H pt maxa (map ERun scs) w)) -> RowQ maxa (k + N.of_nat (length scs)) r.
Proof.
  induction scs as [|sc t IH]; intros w k FQ NE ND Hk; [congruence|].
  inversion FQ as [|? ? Qs Qt]; subst.
  destruct (quiet_run_step pt maxa k w sc Qs ND Hk) as (ND' & AT' & RQ').
  unfold run_history. cbn [map fold_left]. destruct t as [|sc2 t2].
  - cbn [map fold_left length]. intros r Hin. replace (k + N.of_nat 1) with (k + 1) by lia. apply RQ'. exact Hin.
  - intros r Hin. replace (k + N.of_nat (length (sc :: sc2 :: t2))) with ((k + 1) + N.of_nat (length (sc2 :: t2))).
    + eapply IH; eauto. discriminate.
    + cbn [length]. lia.
Qed.

Theorem quiescence pt maxa evs scs :
  Forall quiet scs -> scs <> [] -> maxa <= N.of_nat (length scs) ->
  forall r, In r (w_led (run_history H pt maxa (evs ++ map ERun scs) world0)) -> terminal (r_state r) = true.
Proof.
  intros FQ NE Hn r Hin. unfold run_history in Hin. rewrite fold_left_app in Hin.
  assert (ND : NoDup (paths (w_led (run_history H pt maxa evs world0)))) by (apply history_nodup; constructor).
  pose proof (quiet_runs pt maxa scs _ 0 FQ NE ND (or_introl eq_refl) r Hin) as [T|(S & A1 & A2)]; [exact T|lia].
Qed.

(* ---- the property statements, derived from the invariant *)

Lemma origin_world0 pt maxa evs p :
  w_origin (run_history H pt maxa evs world0) p = created evs p.
Proof. rewrite (history_origin pt maxa evs world0 p inv_world0). reflexivity. Qed.

Theorem hub_content pt maxa evs p b :
  h_final (w_hub (run_history H pt maxa evs world0)) p = Some b -> created evs p = Some b.
Proof.
  intro E. rewrite <- (origin_world0 pt maxa). eapply hi_final; [apply i_hub; apply history_inv|exact E].
Qed.

Theorem no_double_store pt maxa evs p :
  h_commits (w_hub (run_history H pt maxa evs world0)) p <= 1 + count_removals evs p /\
  h_commits (w_hub (run_history H pt maxa evs world0)) p =
    h_removed (w_hub (run_history H pt maxa evs world0)) p +
    (if delivered (w_hub (run_history H pt maxa evs world0)) p then 1 else 0).
Proof.
  pose proof (hi_count _ _ (i_hub _ (history_inv pt maxa evs)) p) as C.
  pose proof (history_removed pt maxa evs world0 p) as R. cbn in R.
  split; [|exact C]. destruct (delivered _ p); lia.
Qed.

Theorem synced_implies_held pt maxa evs :
  Forall (fun e => snd e = true) (w_slog (run_history H pt maxa evs world0)).
Proof. apply i_slog. apply history_inv. Qed.

Theorem synced_stays_held pt maxa evs r :
  In r (w_led (run_history H pt maxa evs world0)) -> r_state r = Synced ->
  count_removals evs (r_path r) = 0 ->
  exists b, created evs (r_path r) = Some b /\ r_sha r = H b /\
    (h_final (w_hub (run_history H pt maxa evs world0)) (r_path r) = Some b \/
     (h_final (w_hub (run_history H pt maxa evs world0)) (r_path r) = None /\
      h_rcpt (w_hub (run_history H pt maxa evs world0)) (r_path r) = Some (H b, true))).
Proof.
  intros Hin Hs Hr. set (w := run_history H pt maxa evs world0) in *.
  pose proof (history_inv pt maxa evs) as A. fold w in A.
  pose proof (i_rows _ A) as FR. rewrite Forall_forall in FR. destruct (FR r Hin) as (b & Ob & Sb & _).
  pose proof (i_held _ A) as FH. rewrite Forall_forall in FH.
  exists b. split; [rewrite <- (origin_world0 pt maxa); exact Ob|split; [exact Sb|]].
  destruct (FH r Hin Hs) as [X|X].
  - unfold hub_holds in X. destruct (h_final (w_hub w) (r_path r)) as [fb|] eqn:EF.
    + left. rewrite Sb in X. apply bytes_eqb_eq in X. apply H_inj in X. congruence.
    + right. split; [reflexivity|]. destruct (rcpt_compacted (w_hub w) (r_path r)) as [d|] eqn:EC; [|discriminate].
      apply bytes_eqb_eq in X. apply rcpt_compacted_some in EC. congruence.
  - exfalso. pose proof (history_removed pt maxa evs world0 (r_path r)) as R. fold w in R. cbn in R. lia.
Qed.

Theorem transitions_documented pt maxa evs :
  Forall (fun t => documented t = true) (w_tlog (run_history H pt maxa evs world0)).
Proof. apply (i_tlog _ (history_inv pt maxa evs)). Qed.

End Proofs.
