(* C27 - executable model of edge sync (internal/edgesync): the spoke ledger
   (ledger.go), one agent pass (agent.go: Run, reconcileAndSend, sendAll, sendOne with
   BatchSize = 0 and MaxConcurrent = 1), the hub Receiver (receive.go on a LocalBackend,
   i.e. a resumable backend), the hub receipt index and Reconciler (hubindex.go,
   reconcile.go), a fault-injecting transport, spoke crashes and the environment
   (files appearing / vanishing, ledger pruning, operator requeue / dismiss, hub-side
   compaction and removal of received files).

   Conventions.  Paths are numbers (the harness numbers the path strings of a case in
   lexical order, which is the order LocalBackend.ListObjects walks them).  File contents
   are byte lists.  SHA-256 is the Section variable [H]; the proofs assume it injective
   (idealised collision freedom), the correspondence instantiates it with the identity.
   Maps are total functions [N -> option _]; the ledger is the list of rows in id order.
   Definitions only - the proofs are in Proofs.v. *)
From Coq Require Import List NArith ZArith Bool.
Import ListNotations.
Open Scope N_scope.

Definition bytes := list N.
Definition digest := list N.

Fixpoint bytes_eqb (a b : list N) : bool :=
  match a, b with
  | [], [] => true
  | x :: a', y :: b' => N.eqb x y && bytes_eqb a' b'
  | _, _ => false
  end.

Definition blen (b : bytes) : N := N.of_nat (length b).
Definition btake (n : N) (b : bytes) : bytes := firstn (N.to_nat n) b.
Definition bdrop (n : N) (b : bytes) : bytes := skipn (N.to_nat n) b.

Definition fmap (V : Type) := N -> option V.
Definition fempty {V} : fmap V := fun _ => None.
Definition fset {V} (m : fmap V) (k : N) (v : option V) : fmap V :=
  fun q => if N.eqb q k then v else m q.
Definition cmap := N -> N.                      (* counters, default 0 *)
Definition cinc (m : cmap) (k : N) : cmap := fun q => if N.eqb q k then m q + 1 else m q.

(* ------------------------------------------------------------------ ledger *)

Inductive lstate := Pending | InFlight | Synced | Failed | Skipped.

Definition lstate_eqb (a b : lstate) : bool :=
  match a, b with
  | Pending, Pending | InFlight, InFlight | Synced, Synced | Failed, Failed | Skipped, Skipped => true
  | _, _ => false
  end.

Record row := {
  r_id : N; r_path : N; r_sha : digest; r_size : N; r_pt : Z;
  r_state : lstate; r_att : N; r_sent : N;
  r_dism : bool                (* skipped row carries NoteOperatorDismissed *)
}.

Definition set_state (r : row) (s : lstate) : row :=
  {| r_id := r_id r; r_path := r_path r; r_sha := r_sha r; r_size := r_size r; r_pt := r_pt r;
     r_state := s; r_att := r_att r; r_sent := r_sent r; r_dism := r_dism r |}.
Definition set_att (r : row) (a : N) : row :=
  {| r_id := r_id r; r_path := r_path r; r_sha := r_sha r; r_size := r_size r; r_pt := r_pt r;
     r_state := r_state r; r_att := a; r_sent := r_sent r; r_dism := r_dism r |}.
Definition set_sent (r : row) (n : N) : row :=
  {| r_id := r_id r; r_path := r_path r; r_sha := r_sha r; r_size := r_size r; r_pt := r_pt r;
     r_state := r_state r; r_att := r_att r; r_sent := n; r_dism := r_dism r |}.
Definition set_dism (r : row) (d : bool) : row :=
  {| r_id := r_id r; r_path := r_path r; r_sha := r_sha r; r_size := r_size r; r_pt := r_pt r;
     r_state := r_state r; r_att := r_att r; r_sent := r_sent r; r_dism := d |}.

(* a transition-log entry: path, state before (None = no row), state after (None = row deleted) *)
Definition trans := (N * option lstate * option lstate)%type.

(* the documented edges of the ledger state machine (ledger.go):
   Track: none->pending; MarkInFlight: pending->in_flight; MarkFailed: in_flight->pending|failed;
   MarkSynced: pending|in_flight->synced; MarkSkipped: pending|in_flight->skipped;
   RecoverInFlight: in_flight->pending; MarkConflicted: pending->failed;
   RequeueFailed: failed->pending, skipped(dismissed)->pending; DismissFailed: failed->skipped;
   PruneSynced: synced->deleted; PruneSkipped/SweepSkippedRows: skipped->deleted. *)
Definition documented (t : trans) : bool :=
  match snd (fst t), snd t with
  | None, Some Pending => true
  | Some Pending, Some InFlight => true
  | Some InFlight, Some Pending | Some InFlight, Some Failed => true
  | Some Pending, Some Synced | Some InFlight, Some Synced => true
  | Some Pending, Some Skipped | Some InFlight, Some Skipped => true
  | Some Pending, Some Failed => true
  | Some Failed, Some Pending | Some Skipped, Some Pending => true
  | Some Failed, Some Skipped => true
  | Some Synced, None | Some Skipped, None => true
  | _, _ => false
  end.

(* A guarded single-row UPDATE ... WHERE hub_id = ? AND path = ? AND <guard>:
   returns the new rows, whether a row was affected, and the state change. *)
Fixpoint upd_rows (p : N) (guard : row -> bool) (f : row -> row) (rows : list row)
  : list row * option (lstate * lstate) :=
  match rows with
  | [] => ([], None)
  | r :: t =>
      if N.eqb (r_path r) p then
        if guard r then (f r :: t, Some (r_state r, r_state (f r))) else (r :: t, None)
      else let '(t', o) := upd_rows p guard f t in (r :: t', o)
  end.

Definition in_states (l : list lstate) (r : row) : bool := existsb (lstate_eqb (r_state r)) l.

Definition log_of (p : N) (o : option (lstate * lstate)) : list trans :=
  match o with
  | Some (a, b) => if lstate_eqb a b then [] else [(p, Some a, Some b)]
  | None => []
  end.

(* ------------------------------------------------------------------ hub *)

Record hub := {
  h_final : fmap bytes;            (* {spoke}/{path}: verified, promoted files *)
  h_part : fmap bytes;             (* .sync-staging/{spoke}/{path}.part: resumable partials *)
  h_rcpt : fmap (digest * bool);   (* sync_received: sha256, compacted_at IS NOT NULL *)
  h_commits : cmap;                (* ghost: number of promotes per path *)
  h_removed : cmap                 (* ghost: genuine hub-side removals per path *)
}.

Definition hub0 : hub :=
  {| h_final := fempty; h_part := fempty; h_rcpt := fempty;
     h_commits := fun _ => 0; h_removed := fun _ => 0 |}.

Definition hub_set_final h v := {| h_final := v; h_part := h_part h; h_rcpt := h_rcpt h;
                                   h_commits := h_commits h; h_removed := h_removed h |}.
Definition hub_set_part h v := {| h_final := h_final h; h_part := v; h_rcpt := h_rcpt h;
                                  h_commits := h_commits h; h_removed := h_removed h |}.
Definition hub_set_rcpt h v := {| h_final := h_final h; h_part := h_part h; h_rcpt := v;
                                  h_commits := h_commits h; h_removed := h_removed h |}.
Definition hub_set_commits h v := {| h_final := h_final h; h_part := h_part h; h_rcpt := h_rcpt h;
                                     h_commits := v; h_removed := h_removed h |}.
Definition hub_set_removed h v := {| h_final := h_final h; h_part := h_part h; h_rcpt := h_rcpt h;
                                     h_commits := h_commits h; h_removed := v |}.

Inductive hres :=
| HCommitted (n : N) | HAlready (n : N) | HPartial (n : N) | HConflict (d : digest)
| HMismatch | HErr.

Section WithHash.
Variable H : bytes -> digest.

(* HubIndex.Record: upsert, clears compacted_at *)
Definition hub_record (h : hub) (p : N) (d : digest) : hub :=
  hub_set_rcpt h (fset (h_rcpt h) p (Some (d, false))).

(* the digest of a receipt whose file the hub's own compaction consumed *)
Definition rcpt_compacted (h : hub) (p : N) : option digest :=
  match h_rcpt h p with Some (d, true) => Some d | _ => None end.

(* Receive, once the receipt pre-check and the Exists check found nothing: stage the body
   behind [prefix] (LimitReader to the declared remainder, tee into the hasher), short-body
   guard, verify BEFORE promote, register, record. *)
Definition receive_stage (h : hub) (p : N) (dsha : digest) (dsize off : N) (body : bytes) (regfail : bool)
           (prefix : bytes) : hub * hres :=
  let np := prefix ++ btake (dsize - off) body in
  if blen np <? dsize then
    (* short body: the .part survives as the resume checkpoint *)
    (hub_set_part h (fset (h_part h) p (Some np)), HPartial (blen np))
  else if negb (bytes_eqb (H np) dsha) then
    (* checksum mismatch: the staged bytes are discarded, nothing reaches the final path *)
    (hub_set_part h (fset (h_part h) p None), HMismatch)
  else
    let h1 := hub_set_commits
                (hub_set_final (hub_set_part h (fset (h_part h) p None))
                               (fset (h_final h) p (Some np)))
                (cinc (h_commits h) p) in
    if regfail then (h1, HErr) else (hub_record h1 p dsha, HCommitted dsize).

(* Receiver.Receive (receive.go) for one (spoke, sourcePath); [regfail] = the
   RegisterFile hook fails in this call (cluster manifest write during an election). *)
Definition receive (h : hub) (p : N) (dsha : digest) (dsize off : N) (body : bytes) (regfail : bool)
  : hub * hres :=
  if dsize <? off then (h, HErr) else
  (* receipt pre-check: a compacted receipt answers without touching storage *)
  match rcpt_compacted h p with
  | Some d => if bytes_eqb d dsha then (h, HAlready dsize) else (h, HConflict d)
  | None =>
  match h_final h p with
  | Some fb =>
      (* resolveExisting *)
      if bytes_eqb (H fb) dsha then
        if regfail then (h, HErr) else (hub_record h p dsha, HAlready (blen fb))
      else (h, HConflict (H fb))
  | None =>
      if 0 <? off then
        match h_part h p with
        | Some sb =>
            if N.eqb (blen sb) off then receive_stage h p dsha dsize off body regfail sb
            else if dsize <=? blen sb
                 then (hub_set_part h (fset (h_part h) p None), HPartial 0)
                 else (h, HPartial (blen sb))
        | None => (h, HPartial 0)     (* staged = -1 is reported as 0; 0 >= dsize is impossible (0 < off <= dsize) *)
        end
      else receive_stage h p dsha dsize off body regfail []
  end
  end.

(* Reconciler.Reconcile for a batch of (path, sha): forget stale (non-compacted, file gone)
   receipts, then classify each entry. *)
Inductive rclass := RMissing | RPresent | RConflict (d : digest).

Definition forget_one (h : hub) (p : N) : hub :=
  match h_rcpt h p, rcpt_compacted h p, h_final h p with
  | Some _, None, None => hub_set_rcpt h (fset (h_rcpt h) p None)
  | _, _, _ => h
  end.
Definition hub_forget_stale (h : hub) (paths : list N) : hub := fold_left forget_one paths h.

Definition hub_classify (h : hub) (p : N) (sha : digest) : rclass :=
  match h_rcpt h p with
  | None => RMissing
  | Some (d, _) => if bytes_eqb d sha then RPresent else RConflict d
  end.

Definition hub_reconcile (h : hub) (entries : list (N * digest)) : hub * list (N * rclass) :=
  let h' := hub_forget_stale h (map fst entries) in
  (h', map (fun e => (fst e, hub_classify h' (fst e) (snd e))) entries).

(* what "the hub holds p with digest d" means: the promoted file, or a receipt whose file the
   hub's own compaction consumed (content lives on in the compacted output) *)
Definition hub_holds (h : hub) (p : N) (d : digest) : bool :=
  match h_final h p with
  | Some fb => bytes_eqb (H fb) d
  | None => match rcpt_compacted h p with Some d' => bytes_eqb d' d | None => false end
  end.

(* Hub compaction of a received file happens in two steps that other requests can interleave
   with: the consumed-inputs observer marks the receipt (MarkCompacted is an UPDATE: only an
   existing receipt; compaction only consumes files that exist), and later - possibly much
   later, when the source deletion failed or was deferred - the raw file is deleted. *)
Definition hub_mark_compacted (h : hub) (p : N) : hub :=
  match h_final h p, h_rcpt h p with
  | Some _, Some (d, _) => hub_set_rcpt h (fset (h_rcpt h) p (Some (d, true)))
  | _, _ => h
  end.

Definition hub_delete_raw (h : hub) (p : N) : hub :=
  match h_final h p, rcpt_compacted h p with
  | Some _, Some _ => hub_set_final h (fset (h_final h) p None)
  | _, _ => h
  end.

(* a genuine hub-side removal (retention, operator): the content is gone; not applicable to a
   file the hub's compaction has consumed (its deletion is hub_delete_raw) *)
Definition hub_remove (h : hub) (p : N) : hub :=
  match h_final h p, rcpt_compacted h p with
  | Some _, None => hub_set_removed (hub_set_final h (fset (h_final h) p None)) (cinc (h_removed h) p)
  | _, _ => h
  end.

(* ------------------------------------------------------------------ world *)

Record world := {
  w_files : fmap bytes;        (* spoke storage *)
  w_origin : fmap bytes;       (* ghost: the content ever written at a path (paths are immutable) *)
  w_names : list N;            (* every path ever created, ascending (= listing order) *)
  w_led : list row;            (* sync_ledger rows in id order *)
  w_next : N;                  (* AUTOINCREMENT *)
  w_hub : hub;
  w_tlog : list trans;         (* ghost: every ledger state change, newest first *)
  w_slog : list (N * bool)     (* ghost: every MarkSynced that took effect, with "hub holds it now" *)
}.

Definition world0 : world :=
  {| w_files := fempty; w_origin := fempty; w_names := []; w_led := []; w_next := 1;
     w_hub := hub0; w_tlog := []; w_slog := [] |}.

Definition w_set_led (w : world) (l : list row) (lg : list trans) : world :=
  {| w_files := w_files w; w_origin := w_origin w; w_names := w_names w; w_led := l;
     w_next := w_next w; w_hub := w_hub w; w_tlog := lg ++ w_tlog w; w_slog := w_slog w |}.
Definition w_set_hub (w : world) (h : hub) : world :=
  {| w_files := w_files w; w_origin := w_origin w; w_names := w_names w; w_led := w_led w;
     w_next := w_next w; w_hub := h; w_tlog := w_tlog w; w_slog := w_slog w |}.
Definition w_add_slog (w : world) (e : N * bool) : world :=
  {| w_files := w_files w; w_origin := w_origin w; w_names := w_names w; w_led := w_led w;
     w_next := w_next w; w_hub := w_hub w; w_tlog := w_tlog w; w_slog := e :: w_slog w |}.

(* one guarded UPDATE on the row of path p; result = rows affected > 0 *)
Definition led_update (p : N) (guard : row -> bool) (f : row -> row) (w : world) : world * bool :=
  let '(rows, o) := upd_rows p guard f (w_led w) in
  (w_set_led w rows (log_of p o), match o with Some _ => true | None => false end).

Definition mark_in_flight (p : N) : world -> world * bool :=
  led_update p (in_states [Pending]) (fun r => set_att (set_state r InFlight) (r_att r + 1)).

Definition record_progress (p : N) (n : N) : world -> world * bool :=
  led_update p (in_states [InFlight]) (fun r => set_sent r (N.min n (r_size r))).

Definition mark_synced (p : N) (w : world) : world * bool :=
  let '(w', ok) := led_update p (in_states [Pending; InFlight])
                     (fun r => set_sent (set_state r Synced) (r_size r)) w in
  if ok then
    let held := match find (fun r => N.eqb (r_path r) p) (w_led w) with
                | Some r => hub_holds (w_hub w) p (r_sha r)
                | None => false
                end in
    (w_add_slog w' (p, held), true)
  else (w', false).

Definition mark_failed (p : N) (maxa : N) : world -> world * bool :=
  led_update p (in_states [InFlight])
    (fun r => set_state r (if maxa <=? r_att r then Failed else Pending)).

Definition mark_conflicted (p : N) : world -> world * bool :=
  led_update p (in_states [Pending]) (fun r => set_state r Failed).

Definition mark_skipped (p : N) : world -> world * bool :=
  led_update p (in_states [Pending; InFlight]) (fun r => set_dism (set_state r Skipped) false).

(* UPDATE sync_ledger SET state = 'pending' WHERE state = 'in_flight' *)
Definition recover_in_flight (w : world) : world :=
  let rows := map (fun r => if lstate_eqb (r_state r) InFlight then set_state r Pending else r) (w_led w) in
  let lg := flat_map (fun r => if lstate_eqb (r_state r) InFlight
                               then [(r_path r, Some InFlight, Some Pending)] else []) (w_led w) in
  w_set_led w rows (rev lg).

Definition tracked (rows : list row) (p : N) : bool := existsb (fun r => N.eqb (r_path r) p) rows.

(* Discoverer.Discover + TrackBatch: every listed, untracked file is hashed and inserted pending *)
Definition pt_of := N -> Z.
Fixpoint track_new (pt : pt_of) (files : fmap bytes) (names : list N) (rows : list row) (next : N)
  : list row * N * list trans :=
  match names with
  | [] => (rows, next, [])
  | p :: t =>
      match files p with
      | Some b =>
          if tracked rows p then track_new pt files t rows next
          else
            let r := {| r_id := next; r_path := p; r_sha := H b; r_size := blen b; r_pt := pt p;
                        r_state := Pending; r_att := 0; r_sent := 0; r_dism := false |} in
            let '(rows', next', lg) := track_new pt files t (rows ++ [r]) (next + 1) in
            (rows', next', lg ++ [(p, None, Some Pending)])
      | None => track_new pt files t rows next
      end
  end.

(* ------------------------------------------------------------------ transport faults *)

Record body_mut := { bm_keep : option N;     (* deliver only the first k bytes of the body *)
                     bm_flip : option N }.   (* corrupt byte i of what is delivered *)

Fixpoint flip_at (i : nat) (b : bytes) : bytes :=
  match b, i with
  | [], _ => []
  | x :: t, O => (if N.eqb x 255 then 0 else x + 1) :: t
  | x :: t, S i' => x :: flip_at i' t
  end.

Definition apply_mut (m : body_mut) (b : bytes) : bytes :=
  let b1 := match bm_keep m with Some k => btake k b | None => b end in
  match bm_flip m with Some i => flip_at (N.to_nat i) b1 | None => b1 end.

Inductive pfault :=
| FDeliver (m : body_mut) (lost : bool) (regfail : bool)  (* reaches the hub; the answer may be lost *)
| FRetry (m : body_mut) (mark : bool) (lost2 : bool)
    (* transport-level retry: the first delivery (body mutated by m) reaches the hub but its
       answer is lost, the transport sends the whole request again without a new reconcile;
       in between the hub's compaction may mark the path's receipt (mark) *)
| FDropBefore                                              (* never reaches the hub *)
| FExistsErr (reached : bool)
    (* the transfer fails (after the hub processed a clean delivery when [reached], before it otherwise)
       AND the spoke backend's Exists errors when the agent asks whether the source vanished *)
| FBackpressure                                            (* 429 before the receiver runs *)
| FConflict (d : digest).                                  (* scripted 409 carrying digest d *)

Inductive rfault :=
| ROk | RDropBefore | RLostReply
| RIndexFail.   (* the hub index refuses writes while this reconcile runs (shared SQLite writer busy / read-only) *)

Definition no_mut : body_mut := {| bm_keep := None; bm_flip := None |}.
Definition fault_free (f : pfault) : bool :=
  match f with
  | FDeliver {| bm_keep := None; bm_flip := None |} false false => true
  | _ => false
  end.

Definition exists_errs (f : pfault) : bool :=
  match f with FExistsErr _ => true | _ => false end.

Inductive pres :=
| PCommitted (n : N) | PAlready (n : N) | PPartial (n : N) | PConflict (d : digest)
| PMismatch | PBackpressure | PErr.

Definition pres_of (r : hres) : pres :=
  match r with
  | HCommitted n => PCommitted n | HAlready n => PAlready n | HPartial n => PPartial n
  | HConflict d => PConflict d | HMismatch => PMismatch | HErr => PErr
  end.

(* SyncTransport.PutFile through the faulting transport *)
Definition put_file (f : pfault) (h : hub) (e : row) (body : bytes) : hub * pres :=
  match f with
  | FDropBefore => (h, PErr)
  | FExistsErr reached =>
      if reached
      then (fst (receive h (r_path e) (r_sha e) (r_size e) (r_sent e) body false), PErr)
      else (h, PErr)
  | FBackpressure => (h, PBackpressure)
  | FConflict d => (h, PConflict d)
  | FDeliver m lost regfail =>
      let '(h', r) := receive h (r_path e) (r_sha e) (r_size e) (r_sent e) (apply_mut m body) regfail in
      (h', if lost then PErr else pres_of r)
  | FRetry m mark lost2 =>
      let '(h1, _) := receive h (r_path e) (r_sha e) (r_size e) (r_sent e) (apply_mut m body) false in
      let h2 := if mark then hub_mark_compacted h1 (r_path e) else h1 in
      let '(h3, r) := receive h2 (r_path e) (r_sha e) (r_size e) (r_sent e) body false in
      (h3, if lost2 then PErr else pres_of r)
  end.

(* PutResult.Validate(entry) as far as the outcomes above can violate it *)
Definition validate (e : row) (r : pres) : bool :=
  match r with
  | PCommitted n | PAlready n => N.eqb n (r_size e)
  | PPartial n => n <? r_size e
  | PConflict d => negb (bytes_eqb d (r_sha e))
  | _ => true
  end.

(* ------------------------------------------------------------------ one agent pass *)

Record rctx := { c_crash : option nat;       (* the process dies before its k-th durable step *)
                 c_puts : list pfault;       (* fault of the k-th PutFile call of this pass *)
                 c_rec : rfault;
                 c_maxa : N }.

Definition st := (world * rctx)%type.
Definition M (A : Type) := st -> st * option A.      (* None: the process is dead *)

Definition ret {A} (a : A) : M A := fun s => (s, Some a).
Definition bind {A B} (m : M A) (k : A -> M B) : M B :=
  fun s => match m s with
           | (s', Some a) => k a s'
           | (s', None) => (s', None)
           end.
Local Notation "x <- m ;; k" := (bind m (fun x => k)) (at level 61, m at next level, right associativity).
Local Notation "m ;;; k" := (bind m (fun _ => k)) (at level 61, right associativity).

Definition tick : M unit := fun s =>
  let '(w, c) := s in
  match c_crash c with
  | Some O => (s, None)
  | Some (S k) => ((w, {| c_crash := Some k; c_puts := c_puts c; c_rec := c_rec c; c_maxa := c_maxa c |}), Some tt)
  | None => (s, Some tt)
  end.

Definition lift {A} (f : world -> world * A) : M A := fun s =>
  let '(w', a) := f (fst s) in ((w', snd s), Some a).
Definition getw : M world := fun s => (s, Some (fst s)).
Definition getc : M rctx := fun s => (s, Some (snd s)).

Definition next_fault : M pfault := fun s =>
  let '(w, c) := s in
  match c_puts c with
  | [] => (s, Some (FDeliver no_mut false false))
  | f :: t => ((w, {| c_crash := c_crash c; c_puts := t; c_rec := c_rec c; c_maxa := c_maxa c |}), Some f)
  end.

Fixpoint forM {A} (f : A -> M unit) (l : list A) : M unit :=
  match l with
  | [] => ret tt
  | x :: t => f x ;;; forM f t
  end.

(* Agent.fail *)
Definition fail (p : N) : M unit :=
  c <- getc ;; tick ;;; _ <- lift (mark_failed p (c_maxa c)) ;; ret tt.

(* Agent.skipIfVanished *)
Definition skip_if_vanished (p : N) : M bool :=
  w <- getw ;;
  match w_files w p with
  | Some _ => ret false
  | None => tick ;;; lift (mark_skipped p)
  end.

(* Agent.sendOne; e is the row as read by PendingPage at the start of the pass *)
Definition send_one (e : row) : M unit :=
  let p := r_path e in
  tick ;;;
  ok <- lift (mark_in_flight p) ;;
  if negb ok then ret tt else
  w <- getw ;;
  tick ;;;
  f <- next_fault ;;
  (* openAt streams through a pipe: a vanished source surfaces as a transfer error *)
  r <- match w_files w p with
       | None => ret PErr
       | Some b => lift (fun w => let '(h', r) := put_file f (w_hub w) e (bdrop (r_sent e) b) in
                                   (w_set_hub w h', r))
       end ;;
  match r with
  | PErr =>
      (* skipIfVanished: on an Exists ERROR nothing is skipped - uncertainty falls through to retry *)
      sk <- (if exists_errs f then ret false else skip_if_vanished p) ;;
      if sk then ret tt else fail p
  | _ =>
      if negb (validate e r) then fail p else
      match r with
      | PCommitted _ | PAlready _ => tick ;;; _ <- lift (mark_synced p) ;; ret tt
      | PPartial n => tick ;;; _ <- lift (record_progress p n) ;; fail p
      | PConflict _ => tick ;;; _ <- lift (mark_failed p 1) ;; ret tt
      | _ => fail p
      end
  end.

(* insertion sort: partition_time DESC, id ASC.  Rows are in id order and fold_right inserts
   them last-first, so an inserted row has a smaller id than everything already in [l] and goes
   in front of the first row whose partition is not newer. *)
Fixpoint ins_pending (r : row) (l : list row) : list row :=
  match l with
  | [] => [r]
  | x :: t => if (r_pt x <=? r_pt r)%Z then r :: l else x :: ins_pending r t
  end.
Definition pending_sorted (rows : list row) : list row :=
  fold_right ins_pending [] (filter (fun r => lstate_eqb (r_state r) Pending) rows).

Definition class_of (res : list (N * rclass)) (p : N) : option rclass :=
  match find (fun x => N.eqb (fst x) p) res with Some x => Some (snd x) | None => None end.

(* Agent.Discover: every listed, untracked file is hashed and inserted pending (one transaction) *)
Definition discover (pt : pt_of) (w : world) : world :=
  let '(rows, next, lg) := track_new pt (w_files w) (w_names w) (w_led w) (w_next w) in
  {| w_files := w_files w; w_origin := w_origin w; w_names := w_names w; w_led := rows;
     w_next := next; w_hub := w_hub w; w_tlog := lg ++ w_tlog w; w_slog := w_slog w |}.

(* Reconciler.Reconcile writes to the index only to forget stale receipts; when that write fails
   the batch fails (503) before anything was answered, otherwise the failure goes unnoticed *)
Definition has_stale (h : hub) (paths : list N) : bool :=
  existsb (fun p => match h_rcpt h p, rcpt_compacted h p, h_final h p with
                    | Some _, None, None => true
                    | _, _, _ => false
                    end) paths.

Definition eff_rfault (rf : rfault) (h : hub) (paths : list N) : rfault :=
  match rf with
  | RIndexFail => if has_stale h paths then RDropBefore else ROk
  | x => x
  end.

(* the rest of Agent.Run with BatchSize = 0: one reconcile, then send what is missing *)
Definition agent_body : M unit :=
  w <- getw ;;
  let pending := pending_sorted (w_led w) in
  match pending with
  | [] => ret tt
  | _ =>
      c <- getc ;;
      tick ;;;
      match eff_rfault (c_rec c) (w_hub w) (map r_path pending) with
      | RDropBefore => ret tt
      | rf =>
          res <- lift (fun w => let '(h', res) := hub_reconcile (w_hub w) (map (fun r => (r_path r, r_sha r)) pending) in
                                (w_set_hub w h', res)) ;;
          match rf with
          | RLostReply | RIndexFail => ret tt      (* RIndexFail cannot occur here: eff_rfault resolved it *)
          | _ =>
              forM (fun e => match class_of res (r_path e) with
                             | Some RPresent => tick ;;; _ <- lift (mark_synced (r_path e)) ;; ret tt
                             | _ => ret tt end) pending ;;;
              forM (fun e => match class_of res (r_path e) with
                             | Some (RConflict _) => tick ;;; _ <- lift (mark_conflicted (r_path e)) ;; ret tt
                             | _ => ret tt end) pending ;;;
              forM (fun e => match class_of res (r_path e) with
                             | Some RMissing => send_one e
                             | _ => ret tt end) pending
          end
      end
  end.

(* Agent.Run: recover interrupted transfers, discover, then the body *)
Definition agent_run (pt : pt_of) : M unit :=
  tick ;;;
  _ <- lift (fun w => (recover_in_flight w, tt)) ;;
  tick ;;;
  _ <- lift (fun w => (discover pt w, tt)) ;;
  agent_body.

(* ------------------------------------------------------------------ histories *)

Record script := { s_crash : option nat; s_rec : rfault; s_puts : list pfault }.

Inductive event :=
| ECreate (p : N) (b : bytes)      (* the spoke writes a NEW immutable file (no-op if the path was ever used) *)
| EVanish (p : N)                  (* compaction / retention removes a spoke file *)
| EPrune                           (* PruneSynced once the retention has elapsed for every synced row *)
| ERequeue                         (* operator: RequeueFailed(all) *)
| EDismiss                         (* operator: DismissFailed(all) *)
| EHubMarkCompacted (p : N)        (* hub compaction consumed a received file: the receipt is marked *)
| EHubDeleteRaw (p : N)            (* ... and its (possibly deferred) source deletion completes *)
| EHubRemove (p : N)               (* genuine hub-side removal (retention, operator) - index not told *)
| ERun (sc : script).              (* one Agent.Run, possibly cut short by a crash *)

Fixpoint ins_name (p : N) (l : list N) : list N :=
  match l with
  | [] => [p]
  | x :: t => if p <? x then p :: l else if N.eqb p x then l else x :: ins_name p t
  end.

Definition del_rows (keep : row -> bool) (w : world) : world :=
  let gone := filter (fun r => negb (keep r)) (w_led w) in
  w_set_led w (filter keep (w_led w)) (rev (map (fun r => (r_path r, Some (r_state r), None)) gone)).

Definition map_rows (f : row -> row) (w : world) : world :=
  let lg := flat_map (fun r => if lstate_eqb (r_state r) (r_state (f r)) then []
                               else [(r_path r, Some (r_state r), Some (r_state (f r)))]) (w_led w) in
  w_set_led w (map f (w_led w)) (rev lg).

Definition apply_event (pt : pt_of) (maxa : N) (w : world) (e : event) : world :=
  match e with
  | ECreate p b =>
      match w_origin w p with
      | Some _ => w
      | None => {| w_files := fset (w_files w) p (Some b); w_origin := fset (w_origin w) p (Some b);
                   w_names := ins_name p (w_names w); w_led := w_led w; w_next := w_next w;
                   w_hub := w_hub w; w_tlog := w_tlog w; w_slog := w_slog w |}
      end
  | EVanish p =>
      {| w_files := fset (w_files w) p None; w_origin := w_origin w; w_names := w_names w;
         w_led := w_led w; w_next := w_next w; w_hub := w_hub w; w_tlog := w_tlog w; w_slog := w_slog w |}
  | EPrune => del_rows (fun r => negb (lstate_eqb (r_state r) Synced)) w
  | ERequeue =>
      map_rows (fun r => if lstate_eqb (r_state r) Failed || (lstate_eqb (r_state r) Skipped && r_dism r)
                         then set_dism (set_att (set_state r Pending) 0) false else r) w
  | EDismiss =>
      map_rows (fun r => if lstate_eqb (r_state r) Failed then set_dism (set_state r Skipped) true else r) w
  | EHubMarkCompacted p => w_set_hub w (hub_mark_compacted (w_hub w) p)
  | EHubDeleteRaw p => w_set_hub w (hub_delete_raw (w_hub w) p)
  | EHubRemove p => w_set_hub w (hub_remove (w_hub w) p)
  | ERun sc =>
      fst (fst (agent_run pt (w, {| c_crash := s_crash sc; c_puts := s_puts sc; c_rec := s_rec sc; c_maxa := maxa |})))
  end.

Definition run_history (pt : pt_of) (maxa : N) (evs : list event) (w : world) : world :=
  fold_left (apply_event pt maxa) evs w.

End WithHash.

(* ------------------------------------------------------------------ correspondence *)
(* Observations are written compactly (Coq parses large literals slowly): byte strings and
   digests are indices into the content table of the case, per-path data is positional
   (path id = position + 1), and an observation equal to the previous one is [None]. *)

Definition opt_eqb {A} (eqb : A -> A -> bool) (a b : option A) : bool :=
  match a, b with
  | Some x, Some y => eqb x y
  | None, None => true
  | _, _ => false
  end.

Fixpoint list_eqb {A} (eqb : A -> A -> bool) (a b : list A) : bool :=
  match a, b with
  | [], [] => true
  | x :: a', y :: b' => eqb x y && list_eqb eqb a' b'
  | _, _ => false
  end.

Definition row_eqb (a b : row) : bool :=
  N.eqb (r_id a) (r_id b) && N.eqb (r_path a) (r_path b) && bytes_eqb (r_sha a) (r_sha b) &&
  N.eqb (r_size a) (r_size b) && Z.eqb (r_pt a) (r_pt b) && lstate_eqb (r_state a) (r_state b) &&
  N.eqb (r_att a) (r_att b) && N.eqb (r_sent a) (r_sent b) &&
  (negb (lstate_eqb (r_state a) Skipped) || Bool.eqb (r_dism a) (r_dism b)).

Definition trans_eqb (a b : trans) : bool :=
  N.eqb (fst (fst a)) (fst (fst b)) && opt_eqb lstate_eqb (snd (fst a)) (snd (fst b)) &&
  opt_eqb lstate_eqb (snd a) (snd b).

(* multi-row statements fire the trigger in an unspecified row order: compare per path *)
Fixpoint ins_trans (t : trans) (l : list trans) : list trans :=
  match l with
  | [] => [t]
  | x :: r => if fst (fst t) <=? fst (fst x) then t :: l else x :: ins_trans t r
  end.
Definition sort_trans (l : list trans) : list trans := fold_right ins_trans [] l.

Definition rcpt_eqb (a b : digest * bool) : bool := bytes_eqb (fst a) (fst b) && Bool.eqb (snd a) (snd b).

(* a ledger row as observed: digest = index into the content table, partition hour relative
   to the case's base hour *)
Inductive orow := OR (id path sha size : N) (pt : Z) (s : lstate) (att sent : N) (dism : bool).

(* what the harness observes on the real system after one event *)
Record obs := {
  o_led : list orow;                     (* ledger rows in id order *)
  o_final : list (option N);             (* per path: hub file bytes (table index) *)
  o_part : list (option N);              (* per path: resumable staging partial (table index) *)
  o_rcpt : list (option (N * bool));     (* per path: receipt (digest as table index, compacted) *)
  o_commits : list N;                    (* per path: promotes so far (counted by the backend wrapper) *)
  o_trans : list trans                   (* state changes logged by the SQLite triggers during the event, oldest first *)
}.

Definition obs0 : obs := {| o_led := []; o_final := []; o_part := []; o_rcpt := []; o_commits := []; o_trans := [] |}.
Definition obs_quiet (o : obs) : obs :=
  {| o_led := o_led o; o_final := o_final o; o_part := o_part o; o_rcpt := o_rcpt o; o_commits := o_commits o; o_trans := [] |}.

Definition idH : bytes -> digest := fun b => b.

Definition tab_get (tab : list bytes) (i : N) : bytes := nth (N.to_nat i) tab [].

Definition row_of (tab : list bytes) (o : orow) : row :=
  match o with
  | OR id p sha size pt s att sent dism =>
      {| r_id := id; r_path := p; r_sha := tab_get tab sha; r_size := size; r_pt := pt; r_state := s;
         r_att := att; r_sent := sent; r_dism := dism |}
  end.

(* positional check: element k of [l] describes path k + 1 *)
Fixpoint forall_pos {A} (f : N -> A -> bool) (p : N) (l : list A) : bool :=
  match l with
  | [] => true
  | x :: t => f p x && forall_pos f (p + 1) t
  end.

Definition obs_matches (tab : list bytes) (w0 w : world) (o : obs) : bool :=
  list_eqb row_eqb (w_led w) (map (row_of tab) (o_led o)) &&
  forall_pos (fun p x => opt_eqb bytes_eqb (h_final (w_hub w) p) (option_map (tab_get tab) x)) 1 (o_final o) &&
  forall_pos (fun p x => opt_eqb bytes_eqb (h_part (w_hub w) p) (option_map (tab_get tab) x)) 1 (o_part o) &&
  forall_pos (fun p x => opt_eqb rcpt_eqb (h_rcpt (w_hub w) p)
                                 (option_map (fun y => (tab_get tab (fst y), snd y)) x)) 1 (o_rcpt o) &&
  forall_pos (fun p x => N.eqb (h_commits (w_hub w) p) x) 1 (o_commits o) &&
  list_eqb trans_eqb (sort_trans (rev (firstn (length (w_tlog w) - length (w_tlog w0)) (w_tlog w))))
           (sort_trans (o_trans o)).

Record ccase := { c_tab : list bytes;           (* every byte string of the case *)
                  c_pt : list Z;                (* partition hour of path 1, 2, ... *)
                  c_max : N;                    (* MaxAttempts the agent was configured with *)
                  c_steps : list (event * option obs) }.   (* None: nothing observable changed *)

Definition pt_fun (l : list Z) : pt_of := fun p => nth (N.to_nat (p - 1)) l 0%Z.

Definition resolve (prev : obs) (o : option obs) : obs :=
  match o with Some x => x | None => obs_quiet prev end.

Fixpoint steps_agree (tab : list bytes) (pt : pt_of) (maxa : N) (w : world) (prev : obs)
         (l : list (event * option obs)) : bool :=
  match l with
  | [] => true
  | (e, oo) :: t =>
      let o := resolve prev oo in
      let w' := apply_event idH pt maxa w e in
      obs_matches tab w w' o && steps_agree tab pt maxa w' o t
  end.

Definition case_agrees (c : ccase) : bool :=
  steps_agree (c_tab c) (pt_fun (c_pt c)) (c_max c) world0 obs0 (c_steps c).

(* --- the property oracle, evaluated on the IMPLEMENTATION's observations only ------------- *)

(* content the spoke wrote at p according to the event list *)
Fixpoint created (evs : list event) (p : N) : option bytes :=
  match evs with
  | [] => None
  | ECreate q b :: t => if N.eqb q p then Some b else created t p
  | _ :: t => created t p
  end.

Definition count_removals (evs : list event) (p : N) : N :=
  N.of_nat (length (filter (fun x => match x with EHubRemove q => N.eqb q p | _ => false end) evs)).

Definition terminal (s : lstate) : bool :=
  match s with Synced | Failed | Skipped => true | _ => false end.

Definition is_quiet_run (e : event) : bool :=
  match e with
  | ERun {| s_crash := None; s_rec := ROk; s_puts := _ |} => true
  | _ => false
  end.

(* the history ends with at least maxa quiet runs (no crash, reconcile answered) *)
Definition quiet_tail (maxa : N) (evs : list event) : bool :=
  let fix cnt (l : list event) : nat :=
      match l with e :: t => if is_quiet_run e then S (cnt t) else O | [] => O end in
  Nat.leb (N.to_nat maxa) (cnt (rev evs)).

Definition or_path (o : orow) : N := match o with OR _ p _ _ _ _ _ _ _ => p end.
Definition or_sha (o : orow) : N := match o with OR _ _ s _ _ _ _ _ _ => s end.
Definition or_state (o : orow) : lstate := match o with OR _ _ _ _ _ s _ _ _ => s end.

Definition hub_held_obs (tab : list bytes) (o : obs) (p : N) (d : digest) : bool :=
  match nth (N.to_nat (p - 1)) (o_final o) None with
  | Some fb => bytes_eqb (tab_get tab fb) d
  | None => match nth (N.to_nat (p - 1)) (o_rcpt o) None with
            | Some (d', true) => bytes_eqb (tab_get tab d') d
            | _ => false
            end
  end.

(* is the spoke's file of path p present after the events (paths are never reused) *)
Fixpoint spoke_has (evs : list event) (p : N) (cur : bool) : bool :=
  match evs with
  | [] => cur
  | ECreate q _ :: t => spoke_has t p (if N.eqb q p then true else cur)
  | EVanish q :: t => spoke_has t p (if N.eqb q p then false else cur)
  | _ :: t => spoke_has t p cur
  end.

(* genuine removals so far, per path, as OBSERVED: an EHubRemove after which the file is gone *)
Definition removed_now (e : event) (prev o : obs) (p : N) : N :=
  match e with
  | EHubRemove q =>
      if N.eqb q p then
        match nth (N.to_nat (p - 1)) (o_final prev) None, nth (N.to_nat (p - 1)) (o_final o) None with
        | Some _, None => 1
        | _, _ => 0
        end
      else 0
  | _ => 0
  end.

Fixpoint oracle_steps (tab : list bytes) (seen : list event) (rm : N -> N) (prev : obs)
         (l : list (event * option obs)) : bool :=
  match l with
  | [] => true
  | (e, oo) :: t =>
      let o := resolve prev oo in
      let rm' := fun p => rm p + removed_now e prev o p in
      let evs := seen ++ [e] in
      (* hub content: every promoted file is byte-identical to what the spoke wrote *)
      forall_pos (fun p x => match x with
                             | Some fb => opt_eqb bytes_eqb (created evs p) (Some (tab_get tab fb))
                             | None => true end) 1 (o_final o) &&
      (* no double store *)
      forall_pos (fun p x => x <=? 1 + rm' p) 1 (o_commits o) &&
      (* only documented transitions *)
      forallb documented (o_trans o) &&
      (* a row that became synced during this event is held by the hub with identical content *)
      forallb (fun tr => match snd tr with
                         | Some Synced =>
                             match find (fun r => N.eqb (or_path r) (fst (fst tr))) (o_led o) with
                             | Some r => hub_held_obs tab o (or_path r) (tab_get tab (or_sha r))
                             | None => false
                             end
                         | _ => true end) (o_trans o) &&
      (* a row is skipped (vanished source) only when the source file is really absent *)
      forallb (fun tr => match snd (fst tr), snd tr with
                         | Some Pending, Some Skipped | Some InFlight, Some Skipped => negb (spoke_has evs (fst (fst tr)) false)
                         | _, _ => true end) (o_trans o) &&
      oracle_steps tab evs rm' o t
  end.

Fixpoint last_obs (prev : obs) (l : list (event * option obs)) : obs :=
  match l with
  | [] => prev
  | (_, oo) :: t => last_obs (resolve prev oo) t
  end.

Definition case_oracle (c : ccase) : bool :=
  oracle_steps (c_tab c) [] (fun _ => 0) obs0 (c_steps c) &&
  (* quiescence: after max_attempts quiet runs every row is synced, skipped or failed *)
  (if quiet_tail (c_max c) (map fst (c_steps c))
   then forallb (fun r => terminal (or_state r)) (o_led (last_obs obs0 (c_steps c)))
   else true).
