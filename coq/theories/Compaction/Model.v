(* Model of the compaction crash protocol of internal/compaction (job.go, manifest.go,
   manager.go, tier.go, subprocess.go).  DURABLE state only: the files of one hour
   partition (path -> rows + flags) and the manifests under _compaction_state/.
   Executable definitions only; proofs are in Proofs.v.

   Row = (key, val): key stands for the (tag values, timestamp) dedup key, val for the
   rest of the row.  Paths are interned as N.  Lists of rows are read up to permutation.

   Transcribed code:
     Job.Run                       -> job_steps_ord (the durable micro-steps of one job, in the
                                      order given by a [list phase]; the order the code has is
                                      re-extracted into ArcGen.Params_Compaction on every run)
     ManifestManager.recoverManifest / RecoverOrphanedManifests -> recover_steps / recover_all
     HourlyTier.ShouldCompact      -> should_compact
     Manager.filterCandidateFiles + GetFilesInManifests -> filter_candidates / tracked
     SplitCandidateIntoBatches, clampFilesPerBatch -> split_batches / clamp
     Manager.compactFilesAdaptively, ClassifySubprocessError (killed => recoverable) -> adaptive
                                      (incl. the tracked-by-a-manifest check before a retry)
     Manager.runCycleInternal (one partition, one tier, MaxConcurrent = 1) -> cycle
   The DuckDB COPY (buildCompactionQuery) is the oracle [compact]. *)
From Coq Require Import List NArith Bool Arith.
Import ListNotations.

Definition path := N.
(* r_key: the full dedup key (every tag column of the measurement, timestamp);
   r_ckey: the key a job uses when the only tag metadata among its inputs names just PART of
   the tag columns (rows differing only in a missing tag share it); r_val: the rest of the row *)
Record row := mkRow { r_key : N; r_ckey : N; r_val : N }.
(* f_meta: carries arc:tags naming every tag column (or arc:dedup_time); f_part: carries arc:tags
   naming only part of the tag columns; f_comp: name ends in _compacted.parquet; f_size: byte
   size; f_ok: a complete, readable Parquet file *)
Record file := mkFile { f_rows : list row; f_meta : bool; f_part : bool; f_comp : bool; f_size : N; f_ok : bool }.
(* what buildCompactionQuery does: no dedup | dedup on the partial key | dedup on the full key *)
Inductive dmode := DNone | DPart | DFull.
Record manifest := mkMan { m_out : path; m_size : N; m_inputs : list path }.
Record state := mkState { files : list (path * file); mans : list (path * manifest) }.

(* ---- association lists keyed by N (listing order is kept: a new key goes last) ---- *)
Fixpoint lookup {V} (k : N) (l : list (N * V)) : option V :=
  match l with
  | [] => None
  | (k', v) :: r => if N.eqb k k' then Some v else lookup k r
  end.

Fixpoint put {V} (k : N) (v : V) (l : list (N * V)) : list (N * V) :=
  match l with
  | [] => [(k, v)]
  | (k', v') :: r => if N.eqb k k' then (k, v) :: r else (k', v') :: put k v r
  end.

Definition memb (k : N) (l : list N) : bool := existsb (N.eqb k) l.
Definition dels {V} (D : list N) (l : list (N * V)) : list (N * V) :=
  filter (fun kv => negb (memb (fst kv) D)) l.
Definition del {V} (k : N) (l : list (N * V)) : list (N * V) := dels [k] l.
Definition keys {V} (l : list (N * V)) : list N := map fst l.

Definition maxN (l : list N) : N := fold_right N.max 0%N l.

(* ---- durable micro-steps ---- *)
Inductive step :=
| SPutMan (mp : path) (m : manifest)      (* ManifestManager.WriteManifest *)
| SPut (p : path) (f : file)              (* Backend.WriteReader (upload) *)
| SDel (p : path)                         (* Backend.Delete / DeleteBatch element *)
| SDelMan (mp : path).                    (* ManifestManager.DeleteManifest *)

Definition apply (st : step) (s : state) : state :=
  match st with
  | SPutMan mp m => mkState (files s) (put mp m (mans s))
  | SPut p f => mkState (put p f (files s)) (mans s)
  | SDel p => mkState (del p (files s)) (mans s)
  | SDelMan mp => mkState (files s) (del mp (mans s))
  end.

Definition run (l : list step) (s : state) : state := fold_left (fun s st => apply st s) l s.

(* what a DuckDB scan of the partition's files returns *)
Definition vis (l : list (path * file)) : list row := flat_map (fun kv => f_rows (snd kv)) l.
Definition visible (s : state) : list row := vis (files s).

Definition rows_in (l : list (path * file)) (p : path) : list row :=
  match lookup p l with Some f => f_rows f | None => [] end.
Definition meta_in (l : list (path * file)) (p : path) : bool :=
  match lookup p l with Some f => f_meta f | None => false end.
Definition part_in (l : list (path * file)) (p : path) : bool :=
  match lookup p l with Some f => f_part f | None => false end.
(* readTagColumnsFromParquetFiles: the UNION of the inputs' arc:tags; the compacted outputs
   carry no metadata at all *)
Definition job_mode (l : list (path * file)) (pres : list path) : dmode :=
  if existsb (meta_in l) pres then DFull else if existsb (part_in l) pres then DPart else DNone.
Definition mode_of_bool (b : bool) : dmode := if b then DFull else DNone.
(* an input a job can use: it exists (downloadFiles skips vanished files) and passes
   validateParquetFile (compactFiles skips corrupt / truncated files and leaves them alone) *)
Definition has_file (l : list (path * file)) (p : path) : bool :=
  match lookup p l with Some f => f_ok f | None => false end.

(* every path a manifest mentions: its output and its inputs (GetFilesInManifests) *)
Definition tracked_of (ms : list (path * manifest)) : list path :=
  flat_map (fun km => m_out (snd km) :: m_inputs (snd km)) ms.

(* output names embed a nanosecond clock: a new name is above every name still known *)
Definition fresh_path (s : state) : path :=
  N.succ (maxN (keys (files s) ++ tracked_of (mans s))).
Definition fresh_man (s : state) : path := N.succ (maxN (keys (mans s))).

Definition size_of (rows : list row) : N := N.succ (N.of_nat (length rows)).
(* an interrupted non-atomic upload: a truncated object, never of the full size *)
Definition torn_file : file := mkFile [] false false true 0%N false.

Inductive phase := PhManifest | PhUpload | PhDeleteInputs | PhDeleteManifest.
Definition code_order : list phase := [PhManifest; PhUpload; PhDeleteInputs; PhDeleteManifest].

Record params := mkParams { p_min_batch : nat; p_default_batch : nat; p_max_allowed : nat; p_max_depth : nat }.
Record config := mkConfig { c_min_files : nat; c_max_batch : nat }.

Inductive outcome :=
| ODone                (* the job subprocess runs to completion *)
| OKill (k : nat)      (* the subprocess is killed after k durable micro-steps; the parent lives on *)
| OCrash (k : nat)     (* the whole process dies after k durable micro-steps of this job *)
| OFailPerm.           (* the subprocess fails with a non-recoverable error before any mutation *)
Inductive jres := JOk | JRecoverable | JPermanent | JStop.
Inductive res := ROk | RErr | RStop.

Section Compaction.
  (* DuckDB COPY of buildCompactionQuery *)
  Variable compact : dmode -> list row -> list row.
  Variable ord : list phase.
  Variable pr : params.

  (* downloadFiles: inputs that no longer exist are skipped *)
  Definition present (s : state) (ins : list path) : list path := filter (has_file (files s)) ins.

  Definition job_output (s : state) (pres : list path) : file :=
    let rows := compact (job_mode (files s) pres) (flat_map (rows_in (files s)) pres) in
    mkFile rows false false true (size_of rows) true.

  Definition phase_steps (out mp : path) (outf : file) (pres : list path) (ph : phase) : list step :=
    match ph with
    | PhManifest => [SPutMan mp (mkMan out (f_size outf) pres)]
    | PhUpload => [SPut out torn_file; SPut out outf]
    | PhDeleteInputs => map SDel pres
    | PhDeleteManifest => [SDelMan mp]
    end.

  Definition job_steps_named (out mp : path) (ins : list path) (s : state) : list step :=
    let pres := present s ins in
    match pres with
    | [] => []
    | _ => flat_map (phase_steps out mp (job_output s pres) pres) ord
    end.
  Definition job_steps (ins : list path) (s : state) : list step :=
    job_steps_named (fresh_path s) (fresh_man s) ins s.

  (* recoverManifest *)
  Definition recover_steps (mp : path) (m : manifest) (s : state) : list step :=
    match lookup (m_out m) (files s) with
    | None => [SDelMan mp]
    | Some f => if N.eqb (f_size f) (m_size m)
                then map SDel (m_inputs m) ++ [SDelMan mp]
                else [SDel (m_out m); SDelMan mp]
    end.

  Fixpoint recover_list (ms : list (path * manifest)) (s : state) : state :=
    match ms with
    | [] => s
    | (mp, m) :: r => recover_list r (run (recover_steps mp m s) s)
    end.
  Definition recover_all (s : state) : state := recover_list (mans s) s.

  Definition uncompacted (l : list (path * file)) := filter (fun kv => negb (f_comp (snd kv))) l.
  Definition should_compact (cfg : config) (s : state) : bool :=
    (c_min_files cfg <=? length (files s)) && (c_min_files cfg <=? length (uncompacted (files s))).

  (* GetFilesInManifests: inputs and outputs of every manifest *)
  Definition tracked (s : state) : list path := tracked_of (mans s).
  Definition filter_candidates (s : state) (l : list path) : list path :=
    filter (fun p => negb (memb p (tracked s))) l.

  Definition clamp (n : nat) : nat :=
    if n <? p_min_batch pr then p_default_batch pr
    else if p_max_allowed pr <? n then p_max_allowed pr else n.

  Fixpoint split_go (nb mx : nat) (l : list path) : list (list path) :=
    match nb with
    | 0 => []
    | S nb' => match nb' with
               | 0 => [l]
               | _ => firstn mx l :: split_go nb' mx (skipn mx l)
               end
    end.

  Definition split_batches (mx0 : nat) (l : list path) : list (list path) :=
    let mx := clamp mx0 in
    if length l <=? mx then [l]
    else
      let nb := (length l + mx - 1) / mx in
      let rem := length l mod mx in
      let nb' := if negb (rem =? 0) && (rem <? p_min_batch pr) && (1 <? nb) then nb - 1 else nb in
      split_go nb' mx l.

  Definition pop (ocs : list outcome) : outcome * list outcome :=
    match ocs with [] => (ODone, []) | o :: r => (o, r) end.

  (* CompactPartition with the subprocess outcome *)
  Definition run_job (ins : list path) (oc : outcome) (s : state) : state * jres :=
    match oc with
    | ODone => (run (job_steps ins s) s, JOk)
    | OKill k => (run (firstn k (job_steps ins s)) s, JRecoverable)
    | OCrash k => (run (firstn k (job_steps ins s)) s, JStop)
    | OFailPerm => (s, JPermanent)
    end.

  (* compactFilesAdaptively *)
  Fixpoint adaptive (fuel depth : nat) (ins : list path) (ocs : list outcome) (s : state)
    : state * list outcome * res :=
    match fuel with
    | 0 => (s, ocs, RErr)
    | S fuel' =>
      if p_max_depth pr <? depth then (s, ocs, RErr)
      else if length ins <? p_min_batch pr then (s, ocs, RErr)
      else
        let '(oc, ocs1) := pop ocs in
        let '(s1, jr) := run_job ins oc s in
        match jr with
        | JOk => (s1, ocs1, ROk)
        | JStop => (s1, ocs1, RStop)
        | JPermanent => (s1, ocs1, RErr)
        | JRecoverable =>
          (* the failed attempt left a manifest tracking this batch: defer to manifest
             recovery instead of retrying (invalidateCache + GetFilesInManifests) *)
          if existsb (fun p => memb p (tracked s1)) ins then (s1, ocs1, RErr)
          else if length ins <=? p_min_batch pr then (s1, ocs1, RErr)
          else
            let mid := length ins / 2 in
            let '(s2, ocs2, r2) := adaptive fuel' (S depth) (firstn mid ins) ocs1 s1 in
            match r2 with
            | ROk => adaptive fuel' (S depth) (skipn mid ins) ocs2 s2
            | _ => (s2, ocs2, r2)
            end
        end
    end.

  Fixpoint run_batches (fuel : nat) (bs : list (list path)) (ocs : list outcome) (s : state)
    : state * list outcome * bool :=
    match bs with
    | [] => (s, ocs, false)
    | b :: r =>
      let '(s1, ocs1, r1) := adaptive fuel 0 b ocs s in
      match r1 with
      | RStop => (s1, ocs1, true)
      | _ => run_batches fuel r ocs1 s1
      end
    end.

  (* runCycleInternal for the partition.  [elig]: the hourly tier considers the partition
     old enough (partition hour and newest file name older than MinAgeHours) - a fact about
     the clock, supplied by the environment. *)
  Definition cycle (cfg : config) (elig : bool) (ocs : list outcome) (s : state) : state :=
    let s1 := recover_all s in
    if elig && should_compact cfg s1 then
      let cand := filter_candidates s1 (keys (files s1)) in
      match cand with
      | [] => s1
      | _ => fst (fst (run_batches (S (S (p_max_depth pr))) (split_batches (c_max_batch cfg) cand) ocs s1))
      end
    else s1.
End Compaction.

(* ---- executable spec: "same rows, modulo dedup" ---- *)
Definition row_eqb (a b : row) : bool :=
  N.eqb (r_key a) (r_key b) && N.eqb (r_ckey a) (r_ckey b) && N.eqb (r_val a) (r_val b).

Fixpoint remove_one (r : row) (l : list row) : option (list row) :=
  match l with
  | [] => None
  | x :: t => if row_eqb r x then Some t
              else match remove_one r t with Some t' => Some (x :: t') | None => None end
  end.

Fixpoint submset (small big : list row) : bool :=
  match small with
  | [] => true
  | r :: t => match remove_one r big with Some big' => submset t big' | None => false end
  end.

Definition keys_coveredb (l1 l2 : list row) : bool :=
  forallb (fun r => existsb (fun r' => N.eqb (r_key r') (r_key r)) l2) l1.

(* relb true  l1 l2 : l2 is l1 with some duplicate-key rows collapsed (every key survives)
   relb false l1 l2 : l2 is a permutation of l1 *)
Definition relb (b : bool) (l1 l2 : list row) : bool :=
  if b then submset l2 l1 && keys_coveredb l1 l2
  else submset l2 l1 && (length l1 =? length l2).

(* reference dedup used to run the model: keep the first row of every key *)
Fixpoint dedup_first (key : row -> N) (seen : list N) (l : list row) : list row :=
  match l with
  | [] => []
  | r :: t => if memb (key r) seen then dedup_first key seen t
              else r :: dedup_first key (key r :: seen) t
  end.
Definition dedup_ref (m : dmode) (l : list row) : list row :=
  match m with DNone => l | DPart => dedup_first r_ckey [] l | DFull => dedup_first r_key [] l end.

Definition any_meta (l : list (path * file)) : bool := existsb (fun kv => f_meta (snd kv)) l.
Definition any_part (l : list (path * file)) : bool := existsb (fun kv => f_part (snd kv)) l.
Definition all_ok (l : list (path * file)) : bool := forallb (fun kv => f_ok (snd kv)) l.

(* ---- correspondence cases ---- *)
Fixpoint ins_sorted (x : N) (l : list N) : list N :=
  match l with
  | [] => [x]
  | y :: r => if N.leb x y then x :: l else y :: ins_sorted x r
  end.
Definition sortN (l : list N) : list N := fold_right ins_sorted [] l.

Record cfile := mkCFile { cf_rows : list row; cf_meta : bool; cf_part : bool; cf_comp : bool; cf_ok : bool }.
Record ccycle := mkCCycle { cc_elig : bool; cc_ocs : list outcome; cc_files : list cfile; cc_mans : nat }.
Record ccase := mkCCase { c_params : params; c_cfg : config; c_files : list cfile; c_cycles : list ccycle }.

Fixpoint number_files (n : N) (l : list cfile) : list (path * file) :=
  match l with
  | [] => []
  | c :: r => (n, mkFile (cf_rows c) (cf_meta c) (cf_part c) (cf_comp c) (size_of (cf_rows c)) (cf_ok c)) :: number_files (N.succ n) r
  end.
Definition case_init (c : ccase) : state := mkState (number_files 1%N (c_files c)) [].

Definition list_eqb {A} (e : A -> A -> bool) : list A -> list A -> bool :=
  fix go a b := match a, b with
                | [], [] => true
                | x :: a', y :: b' => e x y && go a' b'
                | _, _ => false
                end.

(* observable of a file: its sorted (partial) dedup keys and flags - DuckDB may keep any row of a key,
   and rows dropped by a full-key dedup share their partial key too *)
Definition canon_file (f : file) : list N * (bool * bool * bool) :=
  (sortN (map r_ckey (f_rows f)), (f_meta f || f_part f, f_comp f, f_ok f)).
Definition canon_cfile (f : cfile) : list N * (bool * bool * bool) :=
  (sortN (map r_ckey (cf_rows f)), (cf_meta f || cf_part f, cf_comp f, cf_ok f)).
Definition canon_eqb (a b : list N * (bool * bool * bool)) : bool :=
  list_eqb N.eqb (fst a) (fst b) &&
  (let '(m1, c1, o1) := snd a in let '(m2, c2, o2) := snd b in Bool.eqb m1 m2 && Bool.eqb c1 c2 && Bool.eqb o1 o2).

Definition state_agrees (s : state) (cy : ccycle) : bool :=
  list_eqb canon_eqb (map (fun kv => canon_file (snd kv)) (files s)) (map canon_cfile (cc_files cy)) &&
  (length (mans s) =? cc_mans cy).

Definition model_cycle (c : ccase) (cy : ccycle) (s : state) : state :=
  cycle dedup_ref code_order (c_params c) (c_cfg c) (cc_elig cy) (cc_ocs cy) s.

Fixpoint cycles_agree (c : ccase) (cys : list ccycle) (s : state) : bool :=
  match cys with
  | [] => true
  | cy :: r => let s' := model_cycle c cy s in state_agrees s' cy && cycles_agree c r s'
  end.

Definition case_agrees (c : ccase) : bool := cycles_agree c (c_cycles c) (case_init c).

Definition cvis (l : list cfile) : list row := flat_map cf_rows l.

(* property oracle on the IMPLEMENTATION's observations: after the last cycle the partition
   shows the initial rows modulo dedup, every file is readable, no manifest is left *)
Definition case_oracle (c : ccase) : bool :=
  match rev (c_cycles c) with
  | [] => true
  | last :: _ =>
    relb (existsb cf_meta (c_files c)) (cvis (c_files c)) (cvis (cc_files last)) &&
    (length (filter (fun f => negb (cf_ok f)) (cc_files last)) <=? length (filter (fun f => negb (cf_ok f)) (c_files c))) &&
    (cc_mans last =? 0)
  end.

(* the same oracle on the MODEL's final state *)
Definition case_model_oracle (c : ccase) : bool :=
  let s := fold_left (fun s cy => model_cycle c cy s) (c_cycles c) (case_init c) in
  relb (existsb cf_meta (c_files c)) (cvis (c_files c)) (visible s) &&
  (length (filter (fun kv => negb (f_ok (snd kv))) (files s)) <=? length (filter (fun f => negb (cf_ok f)) (c_files c))) &&
  (length (mans s) =? 0).

(* ---- unit correspondences: SplitCandidateIntoBatches and filterCandidateFiles ---- *)
Definition split_case_agrees (pr : params) (c : nat * nat * list (list N)) : bool :=
  let '(n, mx, obs) := c in
  list_eqb (list_eqb N.eqb) (split_batches pr mx (map N.of_nat (seq 0 n))) obs.

Fixpoint number_mans (n : N) (l : list (list N)) : list (path * manifest) :=
  match l with
  | [] => []
  | [] :: r => number_mans n r
  | (o :: ins) :: r => (n, mkMan o 0%N ins) :: number_mans (N.succ n) r
  end.

Definition filter_case_agrees (c : list N * list (list N) * list N) : bool :=
  let '(fs, ms, obs) := c in
  list_eqb N.eqb (filter_candidates (mkState [] (number_mans 1%N ms)) fs) obs.
