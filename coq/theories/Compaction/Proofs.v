(* Proofs for the compaction crash protocol (C09). *)
From Coq Require Import List NArith Bool Arith Lia Permutation.
From Arc Require Import Compaction.Model.
Import ListNotations.

(* ------------------------------------------------------------------------------------ *)
(* association lists                                                                    *)
(* ------------------------------------------------------------------------------------ *)

Lemma memb_In k l : memb k l = true <-> In k l.
Proof.
  unfold memb. rewrite existsb_exists. split.
  - intros [x [Hin He]]. apply N.eqb_eq in He. subst; exact Hin.
  - intros H. exists k. split; [exact H|apply N.eqb_refl].
Qed.

Lemma memb_false k l : memb k l = false <-> ~ In k l.
Proof.
  rewrite <- memb_In. destruct (memb k l); intuition congruence.
Qed.

Lemma memb_app k D1 D2 : memb k (D1 ++ D2) = memb k D1 || memb k D2.
Proof. unfold memb. apply existsb_app. Qed.

Section AL.
  Context {V : Type}.
  Implicit Types (l : list (N * V)).

  Lemma lookup_None k l : lookup k l = None <-> ~ In k (keys l).
  Proof.
    induction l as [|[k' v] r IH]; cbn; [tauto|].
    destruct (N.eqb_spec k k') as [->|Hne].
    - split; [discriminate|]. intros H; exfalso; apply H; left; reflexivity.
    - rewrite IH. split; intros H; [intros [E|E]; [congruence|tauto]|tauto].
  Qed.

  Lemma lookup_Some_In k v l : lookup k l = Some v -> In (k, v) l.
  Proof.
    induction l as [|[k' v'] r IH]; cbn; [discriminate|].
    destruct (N.eqb_spec k k') as [->|Hne]; intros H.
    - inversion H; subst. left; reflexivity.
    - right; apply IH; exact H.
  Qed.

  Lemma lookup_Some_key k v l : lookup k l = Some v -> In k (keys l).
  Proof. intros H. apply lookup_Some_In in H. apply (in_map fst) in H. exact H. Qed.

  Lemma In_lookup k v l : NoDup (keys l) -> In (k, v) l -> lookup k l = Some v.
  Proof.
    induction l as [|[k' v'] r IH]; cbn; [tauto|]. intros Hnd [E|Hin].
    - inversion E; subst. rewrite N.eqb_refl. reflexivity.
    - inversion Hnd as [|? ? Hn Hd]; subst.
      destruct (N.eqb_spec k k') as [->|Hne].
      + exfalso. apply Hn. apply (in_map fst) in Hin. exact Hin.
      + apply IH; assumption.
  Qed.

  Lemma In_keys_lookup k l : In k (keys l) -> exists v, lookup k l = Some v.
  Proof.
    intros H. destruct (lookup k l) eqn:E; [eexists; reflexivity|].
    apply lookup_None in E. contradiction.
  Qed.

  Lemma put_absent k v l : ~ In k (keys l) -> put k v l = l ++ [(k, v)].
  Proof.
    induction l as [|[k' v'] r IH]; cbn; [reflexivity|]. intros H.
    destruct (N.eqb_spec k k') as [->|Hne]; [exfalso; apply H; left; reflexivity|].
    rewrite IH; [reflexivity|tauto].
  Qed.

  Lemma put_last k v v' l : ~ In k (keys l) -> put k v (l ++ [(k, v')]) = l ++ [(k, v)].
  Proof.
    induction l as [|[k' w] r IH]; cbn; intros H.
    - rewrite N.eqb_refl. reflexivity.
    - destruct (N.eqb_spec k k') as [->|Hne]; [exfalso; apply H; left; reflexivity|].
      rewrite IH; [reflexivity|tauto].
  Qed.

  Lemma keys_app l1 l2 : keys (l1 ++ l2) = keys l1 ++ keys l2.
  Proof. unfold keys. apply map_app. Qed.

  Lemma lookup_app_l k l1 l2 : In k (keys l1) -> lookup k (l1 ++ l2) = lookup k l1.
  Proof.
    induction l1 as [|[k' v] r IH]; cbn; [tauto|]. intros H.
    destruct (N.eqb_spec k k') as [->|Hne]; [reflexivity|]. apply IH. destruct H; [congruence|assumption].
  Qed.

  Lemma lookup_app_r k l1 l2 : ~ In k (keys l1) -> lookup k (l1 ++ l2) = lookup k l2.
  Proof.
    induction l1 as [|[k' v] r IH]; cbn; [reflexivity|]. intros H.
    destruct (N.eqb_spec k k') as [->|Hne]; [exfalso; apply H; left; reflexivity|]. apply IH. tauto.
  Qed.

  Lemma dels_app D l1 l2 : dels D (l1 ++ l2) = dels D l1 ++ dels D l2.
  Proof. unfold dels. apply filter_app. Qed.

  Lemma dels_nil l : dels [] l = l.
  Proof. unfold dels. induction l as [|x r IH]; cbn; [reflexivity|]. f_equal. exact IH. Qed.

  Lemma dels_dels D1 D2 l : dels D1 (dels D2 l) = dels (D2 ++ D1) l.
  Proof.
    unfold dels. induction l as [|[k v] r IH]; cbn; [reflexivity|].
    rewrite memb_app.
    destruct (memb k D2); cbn.
    - exact IH.
    - destruct (memb k D1); cbn; rewrite IH; reflexivity.
  Qed.

  Lemma dels_ext D1 D2 l : (forall k, In k (keys l) -> (In k D1 <-> In k D2)) -> dels D1 l = dels D2 l.
  Proof.
    unfold dels. induction l as [|[k v] r IH]; cbn; [reflexivity|]. intros H.
    assert (E : memb k D1 = memb k D2).
    { destruct (memb k D1) eqn:E1, (memb k D2) eqn:E2; try reflexivity.
      - apply memb_In in E1. apply memb_false in E2. exfalso. apply E2. apply (H k); [left; reflexivity|exact E1].
      - apply memb_In in E2. apply memb_false in E1. exfalso. apply E1. apply (H k); [left; reflexivity|exact E2]. }
    rewrite E. rewrite IH; [reflexivity|]. intros k' Hk'. apply H. right; exact Hk'.
  Qed.

  Lemma dels_id D l : (forall k, In k D -> ~ In k (keys l)) -> dels D l = l.
  Proof.
    intros H. rewrite <- (dels_nil l) at 2. apply dels_ext. intros k Hk. split; [|intros []].
    intros HD. exfalso. exact (H k HD Hk).
  Qed.

  Lemma In_dels k v D l : In (k, v) (dels D l) <-> In (k, v) l /\ ~ In k D.
  Proof.
    unfold dels. rewrite filter_In. cbn. rewrite negb_true_iff, memb_false. tauto.
  Qed.

  Lemma keys_dels k D l : In k (keys (dels D l)) <-> In k (keys l) /\ ~ In k D.
  Proof.
    unfold keys. rewrite !in_map_iff. split.
    - intros [[k' v] [E Hin]]. cbn in E; subst. apply In_dels in Hin. destruct Hin as [Hin Hn].
      split; [exists (k, v); split; [reflexivity|exact Hin]|exact Hn].
    - intros [[[k' v] [E Hin]] Hn]. cbn in E; subst. exists (k, v). split; [reflexivity|].
      apply In_dels. split; assumption.
  Qed.

  Lemma NoDup_keys_dels D l : NoDup (keys l) -> NoDup (keys (dels D l)).
  Proof.
    unfold dels. induction l as [|[k v] r IH]; cbn; intros H; [constructor|].
    inversion H as [|? ? Hn Hd]; subst.
    destruct (memb k D); cbn; [apply IH; exact Hd|].
    constructor; [|apply IH; exact Hd].
    intros Hin. apply Hn. fold (dels D r) in Hin. apply keys_dels in Hin. tauto.
  Qed.

  Lemma lookup_dels_in k D l : In k D -> lookup k (dels D l) = None.
  Proof. intros H. apply lookup_None. rewrite keys_dels. tauto. Qed.

  Lemma lookup_dels_notin k D l : ~ In k D -> lookup k (dels D l) = lookup k l.
  Proof.
    intros H. unfold dels. induction l as [|[k' v] r IH]; cbn; [reflexivity|].
    destruct (memb k' D) eqn:E; cbn.
    - destruct (N.eqb_spec k k') as [->|Hne]; [apply memb_In in E; contradiction|exact IH].
    - destruct (N.eqb k k'); [reflexivity|exact IH].
  Qed.

  Lemma NoDup_keys_snoc k v l : NoDup (keys l) -> ~ In k (keys l) -> NoDup (keys (l ++ [(k, v)])).
  Proof.
    intros Hnd Hn. rewrite keys_app. cbn.
    apply (Permutation_NoDup (l := k :: keys l)); [apply Permutation_cons_append|constructor; assumption].
  Qed.
End AL.

(* ------------------------------------------------------------------------------------ *)
(* the specification relation: same rows modulo dedup                                    *)
(* ------------------------------------------------------------------------------------ *)

Definition keys_covered (l1 l2 : list row) : Prop :=
  forall r, In r l1 -> exists r', In r' l2 /\ r_key r' = r_key r.
(* l2 is l1 with some rows dropped, and every dedup key of l1 is still represented *)
Definition collapse (l1 l2 : list row) : Prop :=
  (exists d, Permutation l1 (l2 ++ d)) /\ keys_covered l1 l2.
(* b = "some file carries dedup metadata": rows may collapse; otherwise exactly the same rows *)
Definition rel (b : bool) (l1 l2 : list row) : Prop :=
  if b then collapse l1 l2 else Permutation l1 l2.

Lemma collapse_of_perm l1 l2 : Permutation l1 l2 -> collapse l1 l2.
Proof.
  intros H. split.
  - exists []. rewrite app_nil_r. exact H.
  - intros r Hr. exists r. split; [eapply Permutation_in; eassumption|reflexivity].
Qed.

Lemma collapse_trans l1 l2 l3 : collapse l1 l2 -> collapse l2 l3 -> collapse l1 l3.
Proof.
  intros [[d1 H1] K1] [[d2 H2] K2]. split.
  - exists (d2 ++ d1). rewrite app_assoc. rewrite H1. apply Permutation_app_tail. exact H2.
  - intros r Hr. destruct (K1 r Hr) as [r' [Hr' E']]. destruct (K2 r' Hr') as [r'' [Hr'' E'']].
    exists r''. split; [exact Hr''|congruence].
Qed.

Lemma collapse_perm_l l1 l1' l2 : Permutation l1 l1' -> collapse l1 l2 -> collapse l1' l2.
Proof.
  intros HP [[d H] K]. split.
  - exists d. rewrite <- HP. exact H.
  - intros r Hr. apply K. eapply Permutation_in; [symmetry; exact HP|exact Hr].
Qed.

Lemma collapse_frame X Y R : collapse X Y -> collapse (X ++ R) (Y ++ R).
Proof.
  intros [[d H] K]. split.
  - exists d. rewrite H. rewrite <- !app_assoc. apply Permutation_app_head. apply Permutation_app_comm.
  - intros r Hr. apply in_app_or in Hr. destruct Hr as [Hr|Hr].
    + destruct (K r Hr) as [r' [Hr' E]]. exists r'. split; [apply in_or_app; left; exact Hr'|exact E].
    + exists r. split; [apply in_or_app; right; exact Hr|reflexivity].
Qed.

Lemma rel_of_perm b l1 l2 : Permutation l1 l2 -> rel b l1 l2.
Proof. destruct b; cbn; [apply collapse_of_perm|trivial]. Qed.

Lemma rel_refl b l : rel b l l.
Proof. apply rel_of_perm. reflexivity. Qed.

Lemma rel_trans b l1 l2 l3 : rel b l1 l2 -> rel b l2 l3 -> rel b l1 l3.
Proof. destruct b; cbn; [apply collapse_trans|apply Permutation_trans]. Qed.

Lemma rel_le b1 b2 l1 l2 : (b1 = true -> b2 = true) -> rel b1 l1 l2 -> rel b2 l1 l2.
Proof.
  destruct b1, b2; cbn; intros H R; try exact R.
  - discriminate (H eq_refl).
  - apply collapse_of_perm; exact R.
Qed.

Lemma rel_perm_l b l1 l1' l2 : Permutation l1 l1' -> rel b l1 l2 -> rel b l1' l2.
Proof.
  destruct b; cbn; [apply collapse_perm_l|]. intros H R. rewrite <- H. exact R.
Qed.

Lemma rel_perm_r b l1 l2 l2' : Permutation l2 l2' -> rel b l1 l2 -> rel b l1 l2'.
Proof. intros H R. eapply rel_trans; [exact R|apply rel_of_perm; exact H]. Qed.

Lemma rel_frame b X Y R : rel b X Y -> rel b (X ++ R) (Y ++ R).
Proof. destruct b; cbn; [apply collapse_frame|apply Permutation_app_tail]. Qed.

(* ------------------------------------------------------------------------------------ *)
(* visible rows under deletion                                                           *)
(* ------------------------------------------------------------------------------------ *)

Lemma vis_app l1 l2 : vis (l1 ++ l2) = vis l1 ++ vis l2.
Proof. unfold vis. apply flat_map_app. Qed.

Lemma dels_cons {V} D k (v : V) r :
  dels D ((k, v) :: r) = if memb k D then dels D r else (k, v) :: dels D r.
Proof. unfold dels. cbn [filter fst]. destruct (memb k D); reflexivity. Qed.

Lemma memb_single k p : memb k [p] = N.eqb k p.
Proof. unfold memb. cbn. apply orb_false_r. Qed.

Lemma del_perm p f l :
  NoDup (keys l) -> lookup p l = Some f -> Permutation (vis l) (f_rows f ++ vis (dels [p] l)).
Proof.
  induction l as [|[k v] r IH]; cbn [lookup]; [discriminate|]. intros Hnd Hl.
  inversion Hnd as [|? ? Hn Hd]; subst. rewrite dels_cons, memb_single.
  destruct (N.eqb_spec p k) as [->|Hne].
  - inversion Hl; subst. rewrite N.eqb_refl.
    rewrite dels_id; [reflexivity|]. intros k' [<-|[]]. exact Hn.
  - destruct (N.eqb_spec k p) as [E|_]; [congruence|].
    change (vis ((k, v) :: r)) with (f_rows v ++ vis r).
    change (vis ((k, v) :: dels [p] r)) with (f_rows v ++ vis (dels [p] r)).
    rewrite (IH Hd Hl). apply Permutation_app_swap_app.
Qed.

Lemma flat_map_ext_in {A B} (f g : A -> list B) l :
  (forall a, In a l -> f a = g a) -> flat_map f l = flat_map g l.
Proof.
  induction l as [|a r IH]; cbn; [reflexivity|]. intros H.
  rewrite (H a (or_introl eq_refl)), IH; [reflexivity|]. intros; apply H; right; assumption.
Qed.

Lemma vis_split D : forall l,
  NoDup D -> NoDup (keys l) -> (forall p, In p D -> In p (keys l)) ->
  Permutation (vis l) (flat_map (rows_in l) D ++ vis (dels D l)).
Proof.
  induction D as [|p D' IH]; intros l HD Hl Hin.
  - cbn. rewrite dels_nil. reflexivity.
  - inversion HD as [|? ? Hp HD']; subst.
    destruct (In_keys_lookup p l (Hin p (or_introl eq_refl))) as [f Hf].
    rewrite (del_perm p f l Hl Hf).
    assert (Hl' : NoDup (keys (dels [p] l))) by (apply NoDup_keys_dels; exact Hl).
    assert (Hin' : forall q, In q D' -> In q (keys (dels [p] l))).
    { intros q Hq. apply keys_dels. split; [apply Hin; right; exact Hq|].
      intros [E|[]]. subst. contradiction. }
    rewrite (IH (dels [p] l) HD' Hl' Hin'). rewrite dels_dels. cbn [app flat_map].
    assert (Er : rows_in l p = f_rows f) by (unfold rows_in; rewrite Hf; reflexivity).
    rewrite Er. rewrite <- app_assoc. apply Permutation_app_head.
    apply Permutation_app_tail. apply Permutation_refl'.
    apply flat_map_ext_in. intros q Hq. unfold rows_in. rewrite lookup_dels_notin; [reflexivity|].
    intros [E|[]]. subst. contradiction.
Qed.

(* ------------------------------------------------------------------------------------ *)
(* fresh names                                                                           *)
(* ------------------------------------------------------------------------------------ *)

Lemma maxN_ge x l : In x l -> (x <= maxN l)%N.
Proof.
  induction l as [|y r IH]; cbn; [tauto|]. intros [->|H]; [apply N.le_max_l|].
  etransitivity; [apply IH; exact H|apply N.le_max_r].
Qed.

Lemma fresh_path_gt s p : In p (keys (files s)) \/ In p (tracked_of (mans s)) -> (p < fresh_path s)%N.
Proof.
  intros H. unfold fresh_path.
  assert (Hin : In p (keys (files s) ++ tracked_of (mans s))) by (apply in_or_app; exact H).
  apply maxN_ge in Hin. lia.
Qed.

Lemma fresh_path_files s : ~ In (fresh_path s) (keys (files s)).
Proof. intros H. assert (L := fresh_path_gt s _ (or_introl H)). lia. Qed.

Lemma tracked_of_in ms mp m : In (mp, m) ms -> forall p, p = m_out m \/ In p (m_inputs m) -> In p (tracked_of ms).
Proof.
  intros H p Hp. unfold tracked_of. apply in_flat_map. exists (mp, m). split; [exact H|]. cbn.
  destruct Hp as [->|Hp]; [left; reflexivity|right; exact Hp].
Qed.

Lemma tracked_of_inv ms p : In p (tracked_of ms) -> exists mp m, In (mp, m) ms /\ (p = m_out m \/ In p (m_inputs m)).
Proof.
  unfold tracked_of. intros H. apply in_flat_map in H. destruct H as [[mp m] [Hin Hp]]. exists mp, m. split; [exact Hin|].
  cbn in Hp. destruct Hp as [<-|Hp]; [left; reflexivity|right; exact Hp].
Qed.

Lemma fresh_path_mans s mp m : In (mp, m) (mans s) -> m_out m <> fresh_path s.
Proof.
  intros H E. assert (L := fresh_path_gt s (m_out m) (or_intror (tracked_of_in _ _ _ H _ (or_introl eq_refl)))). lia.
Qed.

Lemma fresh_man_mans s : ~ In (fresh_man s) (keys (mans s)).
Proof. intros H. unfold fresh_man in H. apply maxN_ge in H. lia. Qed.

(* ------------------------------------------------------------------------------------ *)
(* running steps                                                                         *)
(* ------------------------------------------------------------------------------------ *)

Lemma run_app a b s : run (a ++ b) s = run b (run a s).
Proof. unfold run. apply fold_left_app. Qed.

Lemma run_dels D : forall s, run (map SDel D) s = mkState (dels D (files s)) (mans s).
Proof.
  induction D as [|p D' IH]; intros s.
  - cbn. rewrite dels_nil. destruct s; reflexivity.
  - cbn [map]. change (run (SDel p :: map SDel D') s) with (run (map SDel D') (apply (SDel p) s)).
    rewrite IH. cbn [apply files mans]. unfold del. rewrite dels_dels. reflexivity.
Qed.

Lemma dels_all {V} D (l : list (N * V)) : (forall k, In k (keys l) -> In k D) -> dels D l = [].
Proof.
  induction l as [|[k v] r IH]; intros H; [reflexivity|].
  rewrite dels_cons. assert (E : memb k D = true) by (apply memb_In; apply H; left; reflexivity).
  rewrite E. apply IH. intros k' Hk'. apply H. right; exact Hk'.
Qed.

Lemma firstn_job {A} k (a b c z : A) (M : list A) :
  firstn k (a :: b :: c :: M ++ [z]) = [] \/
  firstn k (a :: b :: c :: M ++ [z]) = [a] \/
  firstn k (a :: b :: c :: M ++ [z]) = [a; b] \/
  (exists j, firstn k (a :: b :: c :: M ++ [z]) = a :: b :: c :: firstn j M) \/
  firstn k (a :: b :: c :: M ++ [z]) = a :: b :: c :: M ++ [z].
Proof.
  destruct k as [|[|[|k]]]; cbn [firstn]; [tauto|tauto|tauto|].
  destruct (le_lt_dec k (length M)) as [Hle|Hlt].
  - right; right; right; left. exists k. rewrite firstn_app.
    replace (k - length M) with 0 by lia. cbn. rewrite app_nil_r. reflexivity.
  - right; right; right; right. rewrite firstn_all2; [reflexivity|].
    rewrite app_length. cbn. lia.
Qed.

(* ------------------------------------------------------------------------------------ *)
(* the job                                                                               *)
(* ------------------------------------------------------------------------------------ *)

Definition dead (s : state) (m : manifest) : Prop := lookup (m_out m) (files s) = None.
Definition oks (l : list (path * file)) : Prop := forall p f, In (p, f) l -> f_ok f = true.
(* no file carries full-key metadata unless B; no file carries metadata naming only part of the tags *)
Definition nometa (B : bool) (l : list (path * file)) : Prop :=
  (B = false -> forall p f, In (p, f) l -> f_meta f = false) /\
  (forall p f, In (p, f) l -> f_part f = false).

(* a state between jobs: every manifest left behind names an output that does not exist *)
Record quiet (s : state) : Prop := mkQuiet {
  q_files : NoDup (keys (files s));
  q_mans : NoDup (keys (mans s));
  q_dead : forall mp m, In (mp, m) (mans s) -> dead s m;
  q_ok : oks (files s) }.

Lemma present_in s ins p : In p (present s ins) -> In p ins /\ In p (keys (files s)).
Proof.
  unfold present. rewrite filter_In. unfold has_file. intros [H1 H2]. split; [exact H1|].
  destruct (lookup p (files s)) eqn:E; [|discriminate]. eapply lookup_Some_key; exact E.
Qed.

Lemma present_nodup s ins : NoDup ins -> NoDup (present s ins).
Proof. apply NoDup_filter. Qed.

(* names a job may use in state s: an output path and a manifest path nothing mentions yet *)
Definition fresh_for (s : state) (out mp : path) : Prop :=
  ~ In out (keys (files s)) /\
  (forall mp' m', In (mp', m') (mans s) -> m_out m' <> out /\ ~ In out (m_inputs m')) /\
  ~ In mp (keys (mans s)).

Lemma fresh_for_fresh s : fresh_for s (fresh_path s) (fresh_man s).
Proof.
  split; [apply fresh_path_files|]. split; [|apply fresh_man_mans].
  intros mp' m' Hin. split.
  - apply (fresh_path_mans s mp' m' Hin).
  - intros H. assert (L := fresh_path_gt s _ (or_intror (tracked_of_in _ _ _ Hin _ (or_intror H)))). lia.
Qed.

Lemma job_steps_unfold compact ord ins s :
  job_steps compact ord ins s = job_steps_named compact ord (fresh_path s) (fresh_man s) ins s.
Proof. reflexivity. Qed.

Section Job.
  Variable compact : dmode -> list row -> list row.
  Hypothesis compact_spec : forall b l, rel b l (compact (mode_of_bool b) l).
  Variables out mp : path.

  Notation jsteps := (job_steps_named compact code_order out mp).

  Definition jout (s : state) (ins : list path) : file := job_output compact s (present s ins).
  Definition jman (s : state) (ins : list path) : manifest :=
    mkMan out (f_size (jout s ins)) (present s ins).
  (* the files once a job has run to completion *)
  Definition files_done (s : state) (ins : list path) : list (path * file) :=
    match present s ins with
    | [] => files s
    | _ => dels (present s ins) (files s) ++ [(out, jout s ins)]
    end.

  Lemma jsteps_nil s ins : present s ins = [] -> jsteps ins s = [].
  Proof. unfold job_steps_named. intros ->. reflexivity. Qed.

  Lemma jsteps_eq s ins : present s ins <> [] ->
    jsteps ins s = SPutMan mp (jman s ins) :: SPut out torn_file ::
                   SPut out (jout s ins) :: map SDel (present s ins) ++ [SDelMan mp].
  Proof.
    unfold job_steps_named, jman, jout. destruct (present s ins) eqn:E; [congruence|]. intros _.
    cbn [code_order flat_map phase_steps app]. reflexivity.
  Qed.

  Lemma out_notin_pres s ins : ~ In out (keys (files s)) -> ~ In out (present s ins).
  Proof. intros Ho H. apply present_in in H. exact (Ho (proj2 H)). Qed.

  (* the five shapes of a crashed job *)
  Lemma st_man s ins : ~ In mp (keys (mans s)) ->
    run [SPutMan mp (jman s ins)] s = mkState (files s) (mans s ++ [(mp, jman s ins)]).
  Proof. intros Hm. cbn. rewrite put_absent; [reflexivity|exact Hm]. Qed.

  Lemma st_torn s ins : ~ In mp (keys (mans s)) -> ~ In out (keys (files s)) ->
    run [SPutMan mp (jman s ins); SPut out torn_file] s =
    mkState (files s ++ [(out, torn_file)]) (mans s ++ [(mp, jman s ins)]).
  Proof.
    intros Hm Ho. cbn. rewrite (put_absent mp _ (mans s)) by exact Hm.
    rewrite (put_absent out _ (files s)) by exact Ho. reflexivity.
  Qed.

  Lemma st_up s ins D : ~ In mp (keys (mans s)) -> ~ In out (keys (files s)) ->
    (forall p, In p D -> In p (present s ins)) ->
    run (SPutMan mp (jman s ins) :: SPut out torn_file :: SPut out (jout s ins) :: map SDel D) s =
    mkState (dels D (files s) ++ [(out, jout s ins)]) (mans s ++ [(mp, jman s ins)]).
  Proof.
    intros Hm Ho HD.
    change (SPutMan mp (jman s ins) :: SPut out torn_file :: SPut out (jout s ins) :: map SDel D)
      with ([SPutMan mp (jman s ins); SPut out torn_file] ++ [SPut out (jout s ins)] ++ map SDel D).
    rewrite run_app, st_torn, run_app by assumption. cbn [run fold_left apply files mans].
    rewrite put_last by exact Ho.
    change (fold_left (fun s0 st => apply st s0) (map SDel D) ?x) with (run (map SDel D) x).
    rewrite run_dels. cbn [files mans]. rewrite dels_app. f_equal. f_equal.
    apply dels_id. intros k Hk [E|[]]. cbn in E. subst k. exact (out_notin_pres s ins Ho (HD _ Hk)).
  Qed.

  Lemma st_done s ins : ~ In mp (keys (mans s)) -> ~ In out (keys (files s)) -> present s ins <> [] ->
    run (jsteps ins s) s = mkState (files_done s ins) (mans s).
  Proof.
    intros Hm Ho Hne. rewrite (jsteps_eq s ins Hne).
    change (SPutMan mp (jman s ins) :: SPut out torn_file :: SPut out (jout s ins) :: map SDel (present s ins) ++ [SDelMan mp])
      with ((SPutMan mp (jman s ins) :: SPut out torn_file :: SPut out (jout s ins) :: map SDel (present s ins)) ++ [SDelMan mp]).
    rewrite run_app, st_up by auto. cbn [run fold_left apply files mans].
    unfold files_done. destruct (present s ins) eqn:E; [congruence|]. f_equal.
    unfold del. rewrite dels_app. rewrite dels_id.
    - rewrite dels_cons, memb_single, N.eqb_refl. cbn. apply app_nil_r.
    - intros k [<-|[]]. exact Hm.
  Qed.

  Lemma run_done_any s ins : ~ In mp (keys (mans s)) -> ~ In out (keys (files s)) ->
    run (jsteps ins s) s = mkState (files_done s ins) (mans s).
  Proof.
    intros Hm Ho. destruct (present s ins) eqn:E.
    - rewrite jsteps_nil by exact E. unfold files_done. rewrite E. destruct s; reflexivity.
    - apply st_done; [exact Hm|exact Ho|congruence].
  Qed.

  Lemma meta_mode B s pres : nometa B (files s) ->
    exists b, job_mode (files s) pres = mode_of_bool b /\ (b = true -> B = true).
  Proof.
    intros [Hn Hp]. unfold job_mode.
    assert (Ep : existsb (part_in (files s)) pres = false).
    { destruct (existsb (part_in (files s)) pres) eqn:E; [|reflexivity]. exfalso.
      apply existsb_exists in E. destruct E as [q [_ Hq]]. unfold part_in in Hq.
      destruct (lookup q (files s)) eqn:El; [|discriminate]. apply lookup_Some_In in El. rewrite (Hp _ _ El) in Hq. discriminate. }
    rewrite Ep. exists (existsb (meta_in (files s)) pres). split; [destruct (existsb (meta_in (files s)) pres); reflexivity|].
    intros He. destruct B; [reflexivity|]. exfalso.
    apply existsb_exists in He. destruct He as [q [_ Hm]]. unfold meta_in in Hm.
    destruct (lookup q (files s)) eqn:E; [|discriminate].
    apply lookup_Some_In in E. rewrite (Hn eq_refl _ _ E) in Hm. discriminate.
  Qed.

  (* a completed job: same rows modulo dedup, and the state is quiet again *)
  Lemma job_done B s ins :
    quiet s -> fresh_for s out mp -> NoDup ins -> nometa B (files s) ->
    quiet (mkState (files_done s ins) (mans s)) /\
    rel B (visible s) (vis (files_done s ins)) /\
    nometa B (files_done s ins).
  Proof.
    intros Q [Ho [Hom _]] Hnd Hnm. unfold files_done. destruct (present s ins) eqn:E.
    - split; [destruct s; exact Q|]. split; [apply rel_refl|exact Hnm].
    - rewrite <- E. set (pres := present s ins).
      assert (Hpn : NoDup pres) by (apply present_nodup; exact Hnd).
      assert (Hpk : forall q, In q pres -> In q (keys (files s))) by (intros q Hq; apply (present_in s ins q Hq)).
      assert (Hout : ~ In out (keys (dels pres (files s)))).
      { intros H. apply keys_dels in H. exact (Ho (proj1 H)). }
      split; [|split].
      + constructor; cbn [files mans].
        * apply NoDup_keys_snoc; [apply NoDup_keys_dels; apply (q_files _ Q)|exact Hout].
        * apply (q_mans _ Q).
        * intros mp0 m Hm. unfold dead. cbn [files].
          assert (Hd := q_dead _ Q mp0 m Hm). unfold dead in Hd. apply lookup_None in Hd.
          rewrite lookup_app_r.
          -- cbn. destruct (N.eqb_spec (m_out m) out) as [Ee|_]; [|reflexivity].
             exfalso. exact (proj1 (Hom mp0 m Hm) Ee).
          -- intros H. apply keys_dels in H. tauto.
        * intros q f Hin. apply in_app_or in Hin. destruct Hin as [Hin|[Hin|[]]].
          -- apply In_dels in Hin. apply (q_ok _ Q q f (proj1 Hin)).
          -- inversion Hin; subst. reflexivity.
      + unfold visible. rewrite vis_app.
        eapply rel_perm_l; [symmetry; apply (vis_split pres (files s) Hpn (q_files _ Q) Hpk)|].
        eapply rel_perm_r; [apply Permutation_app_comm|]. apply rel_frame.
        cbn [vis flat_map snd]. rewrite app_nil_r. unfold jout, job_output. cbn [f_rows]. fold pres.
        destruct (meta_mode B s pres Hnm) as [b [Eb Hb]]. rewrite Eb.
        eapply rel_le; [exact Hb|apply compact_spec].
      + destruct Hnm as [Hn1 Hn2]. split.
        * intros HB q f Hin. apply in_app_or in Hin. destruct Hin as [Hin|[Hin|[]]].
          -- apply In_dels in Hin. apply (Hn1 HB q f (proj1 Hin)).
          -- inversion Hin; subst. reflexivity.
        * intros q f Hin. apply in_app_or in Hin. destruct Hin as [Hin|[Hin|[]]].
          -- apply In_dels in Hin. apply (Hn2 q f (proj1 Hin)).
          -- inversion Hin; subst. reflexivity.
  Qed.
End Job.

(* ------------------------------------------------------------------------------------ *)
(* manifest recovery                                                                     *)
(* ------------------------------------------------------------------------------------ *)

Lemma recover_list_app a : forall b s, recover_list (a ++ b) s = recover_list b (recover_list a s).
Proof. induction a as [|[mp m] r IH]; intros b s; cbn [app recover_list]; [reflexivity|apply IH]. Qed.

Lemma recover_dead ms : forall s,
  (forall mp m, In (mp, m) ms -> dead s m) ->
  recover_list ms s = mkState (files s) (dels (keys ms) (mans s)).
Proof.
  induction ms as [|[mp m] r IH]; intros s H.
  - cbn. rewrite dels_nil. destruct s; reflexivity.
  - cbn [recover_list]. unfold recover_steps.
    assert (Hd := H mp m (or_introl eq_refl)). unfold dead in Hd. rewrite Hd.
    cbn [run fold_left apply]. rewrite IH.
    + cbn [files mans]. unfold del. rewrite dels_dels. reflexivity.
    + intros mp' m' Hin. unfold dead. cbn [files]. apply (H mp' m'). right; exact Hin.
Qed.

Lemma dels_keys_self {V} (l : list (N * V)) : dels (keys l) l = [].
Proof. apply dels_all. auto. Qed.

Lemma recover_quiet s : quiet s -> recover_all s = mkState (files s) [].
Proof.
  intros Q. unfold recover_all. rewrite recover_dead; [|apply (q_dead _ Q)].
  rewrite dels_keys_self. reflexivity.
Qed.

(* old manifests are dead, one new manifest (mp, m) was appended *)
Lemma recover_with_new F old mp m :
  (forall mp' m', In (mp', m') old -> lookup (m_out m') F = None) ->
  ~ In mp (keys old) ->
  recover_all (mkState F (old ++ [(mp, m)])) =
  run (recover_steps mp m (mkState F [(mp, m)])) (mkState F [(mp, m)]).
Proof.
  intros Hd Hmp. unfold recover_all. cbn [mans]. rewrite recover_list_app.
  rewrite (recover_dead old).
  - cbn [files mans]. rewrite dels_app, dels_keys_self. cbn [app].
    rewrite dels_id; [|intros k Hk [E|[]]; cbn in E; subst k; contradiction].
    cbn [recover_list]. reflexivity.
  - intros mp' m' Hin. unfold dead. cbn [files]. apply (Hd mp' m' Hin).
Qed.

Lemma del_single {V} k (v : V) : del k [(k, v)] = [].
Proof. unfold del. rewrite dels_cons, memb_single, N.eqb_refl. reflexivity. Qed.

Lemma size_of_neq0 l : N.eqb 0 (size_of l) = false.
Proof. apply N.eqb_neq. unfold size_of. lia. Qed.

Section Recover.
  Variable compact : dmode -> list row -> list row.
  Hypothesis compact_spec : forall b l, rel b l (compact (mode_of_bool b) l).
  Variables out mp : path.
  Notation jsteps := (job_steps_named compact code_order out mp).

  Lemma old_dead_snoc s (G : list (path * file)) (f : file) : quiet s ->
    (forall mp' m', In (mp', m') (mans s) -> m_out m' <> out) ->
    (forall k, In k (keys G) -> In k (keys (files s))) ->
    forall mp' m', In (mp', m') (mans s) -> lookup (m_out m') (G ++ [(out, f)]) = None.
  Proof.
    intros Q Hom HG mp' m' Hin. assert (Hd := q_dead _ Q mp' m' Hin). unfold dead in Hd.
    apply lookup_None in Hd. rewrite lookup_app_r; [|intros H; apply Hd, HG, H].
    cbn. destruct (N.eqb_spec (m_out m') out) as [E|_]; [|reflexivity].
    exfalso. exact (Hom mp' m' Hin E).
  Qed.

  (* whatever the crash point of a job, manifest recovery yields either the files as they
     were before the job or the files of the completed job, and no manifest *)
  Lemma recover_prefix s ins k : quiet s -> fresh_for s out mp -> NoDup ins ->
    exists F, recover_all (run (firstn k (jsteps ins s)) s) = mkState F [] /\
              (F = files s \/ F = files_done compact out s ins).
  Proof.
    intros Q Hfr Hnd. destruct Hfr as [Hout [Hom0 Hmp]].
    assert (Hom : forall mp' m', In (mp', m') (mans s) -> m_out m' <> out) by (intros a b H; apply (Hom0 a b H)).
    assert (Hs : recover_all s = mkState (files s) []) by (apply recover_quiet; exact Q).
    destruct (present s ins) eqn:E.
    { rewrite jsteps_nil by exact E. rewrite firstn_nil. exists (files s). split; [exact Hs|left; reflexivity]. }
    assert (Hne : present s ins <> []) by congruence. clear E.
    set (m := jman compact out s ins).
    rewrite (jsteps_eq compact out mp s ins Hne). fold m.
    destruct (firstn_job k (SPutMan mp m) (SPut out torn_file) (SPut out (jout compact s ins))
                (SDelMan mp) (map SDel (present s ins))) as [H|[H|[H|[[j H]|H]]]]; rewrite H; clear H.
    - exists (files s). split; [exact Hs|left; reflexivity].
    - (* manifest written, no upload *)
      exists (files s). split; [|left; reflexivity].
      unfold m. rewrite st_man by exact Hmp. fold m. rewrite recover_with_new; [|apply (q_dead _ Q)|exact Hmp].
      unfold recover_steps. cbn [files m_out m jman].
      assert (Hl : lookup out (files s) = None) by (apply lookup_None; exact Hout).
      rewrite Hl. cbn [run fold_left apply files mans]. rewrite del_single. reflexivity.
    - (* torn upload *)
      exists (files s). split; [|left; reflexivity].
      unfold m. rewrite st_torn by assumption. fold m.
      rewrite recover_with_new; [|apply (old_dead_snoc s (files s) torn_file Q Hom); auto|exact Hmp].
      unfold recover_steps. cbn [files m_out m jman].
      rewrite lookup_app_r by exact Hout. cbn [lookup]. rewrite N.eqb_refl.
      unfold m. cbn [f_size torn_file m_size jman jout job_output]. rewrite size_of_neq0. fold m.
      cbn [run fold_left apply files mans]. rewrite del_single. unfold del. rewrite dels_app.
      rewrite dels_id; [|intros k' [<-|[]]; exact Hout].
      fold (del out [(out, torn_file)]). rewrite del_single. rewrite app_nil_r. reflexivity.
    - (* complete upload, j inputs deleted *)
      exists (files_done compact out s ins). split; [|right; reflexivity].
      rewrite firstn_map.
      assert (HD : forall q, In q (firstn j (present s ins)) -> In q (present s ins)).
      { intros q Hq. rewrite <- (firstn_skipn j (present s ins)). apply in_or_app; left; exact Hq. }
      unfold m. rewrite st_up by assumption. fold m.
      rewrite recover_with_new; [|apply (old_dead_snoc s _ _ Q Hom); intros k' Hk'; apply keys_dels in Hk'; tauto|exact Hmp].
      unfold recover_steps. cbn [files m_out m jman].
      assert (Ho : ~ In out (keys (dels (firstn j (present s ins)) (files s)))).
      { intros H. apply keys_dels in H. tauto. }
      rewrite lookup_app_r by exact Ho. cbn [lookup]. rewrite N.eqb_refl. cbn [m_size]. rewrite N.eqb_refl.
      cbn [m_inputs]. rewrite run_app, run_dels. cbn [run fold_left apply files mans].
      unfold files_done. destruct (present s ins) eqn:E; [congruence|]. rewrite <- E in *.
      f_equal.
      + rewrite dels_app, dels_dels. f_equal.
        * apply dels_ext. intros k' _. rewrite in_app_iff. split; [intros [H1|H1]; auto|auto].
        * apply dels_id. intros k' Hk' [E'|[]]. cbn in E'. subst k'. exact (out_notin_pres out s ins Hout Hk').
      + apply del_single.
    - (* every step done *)
      exists (files_done compact out s ins). split; [|right; reflexivity].
      unfold m. rewrite <- (jsteps_eq compact out mp s ins Hne). rewrite run_done_any by assumption.
      apply recover_quiet.
      assert (Q' : quiet (mkState (files_done compact out s ins) (mans s))).
      { unfold files_done. destruct (present s ins) eqn:E; [congruence|]. rewrite <- E.
        constructor; cbn [files mans].
        - apply NoDup_keys_snoc; [apply NoDup_keys_dels; apply (q_files _ Q)|]. intros H. apply keys_dels in H. tauto.
        - apply (q_mans _ Q).
        - intros mp0 m0 Hm0. unfold dead. cbn [files]. refine (old_dead_snoc s _ _ Q Hom _ mp0 m0 Hm0).
          intros k' Hk'. apply keys_dels in Hk'. tauto.
        - intros q f Hin. apply in_app_or in Hin. destruct Hin as [Hin|[Hin|[]]].
          + apply In_dels in Hin. apply (q_ok _ Q q f (proj1 Hin)).
          + inversion Hin; subst. reflexivity. }
      exact Q'.
  Qed.
End Recover.

(* ------------------------------------------------------------------------------------ *)
(* batches                                                                               *)
(* ------------------------------------------------------------------------------------ *)

Lemma NoDup_app_both {A} (l1 l2 : list A) : NoDup (l1 ++ l2) -> NoDup l1 /\ NoDup l2.
Proof.
  induction l1 as [|a r IH]; cbn; intros H; [split; [constructor|exact H]|].
  inversion H as [|? ? Hn Hd]; subst. destruct (IH Hd) as [H1 H2]. split; [|exact H2].
  constructor; [|exact H1]. intros Hin. apply Hn. apply in_or_app; left; exact Hin.
Qed.

Lemma NoDup_firstn {A} n (l : list A) : NoDup l -> NoDup (firstn n l).
Proof. intros H. rewrite <- (firstn_skipn n l) in H. apply NoDup_app_both in H. tauto. Qed.

Lemma NoDup_skipn {A} n (l : list A) : NoDup l -> NoDup (skipn n l).
Proof. intros H. rewrite <- (firstn_skipn n l) in H. apply NoDup_app_both in H. tauto. Qed.

Lemma split_go_S nb mx l :
  split_go (S nb) mx l = match nb with 0 => [l] | _ => firstn mx l :: split_go nb mx (skipn mx l) end.
Proof. reflexivity. Qed.

Lemma split_go_nodup nb mx : forall l, NoDup l -> Forall (@NoDup path) (split_go nb mx l).
Proof.
  induction nb as [|nb IH]; intros l H; [constructor|].
  rewrite split_go_S. destruct nb as [|nb'].
  - constructor; [exact H|constructor].
  - constructor; [apply NoDup_firstn; exact H|]. apply IH. apply NoDup_skipn; exact H.
Qed.

Lemma split_go_concat nb mx : forall l, concat (split_go (S nb) mx l) = l.
Proof.
  induction nb as [|nb IH]; intros l.
  - cbn. apply app_nil_r.
  - rewrite split_go_S. cbn [concat]. rewrite IH. apply firstn_skipn.
Qed.

Lemma split_batches_nodup pr mx0 l : NoDup l -> Forall (@NoDup path) (split_batches pr mx0 l).
Proof.
  intros H. unfold split_batches. destruct (length l <=? clamp pr mx0).
  - constructor; [exact H|constructor].
  - apply split_go_nodup. exact H.
Qed.

Definition params_ok (pr : params) : Prop :=
  1 <= p_min_batch pr /\ 1 <= p_default_batch pr /\ 1 <= p_max_allowed pr.

Lemma clamp_pos pr n : params_ok pr -> 1 <= clamp pr n.
Proof.
  intros [H1 [H2 H3]]. unfold clamp.
  destruct (n <? p_min_batch pr) eqn:E1; [exact H2|].
  destruct (p_max_allowed pr <? n) eqn:E2; [exact H3|].
  apply Nat.ltb_ge in E1. lia.
Qed.

(* SplitCandidateIntoBatches neither loses nor duplicates a file *)
Lemma split_batches_concat pr mx0 l : params_ok pr -> concat (split_batches pr mx0 l) = l.
Proof.
  intros Hok. unfold split_batches. assert (Hc := clamp_pos pr mx0 Hok). set (mx := clamp pr mx0) in *.
  destruct (length l <=? mx) eqn:E; [cbn; apply app_nil_r|].
  apply Nat.leb_gt in E.
  assert (Hnb : 2 <= (length l + mx - 1) / mx).
  { apply Nat.div_le_lower_bound; lia. }
  set (nb := (length l + mx - 1) / mx) in *.
  destruct (negb (length l mod mx =? 0) && (length l mod mx <? p_min_batch pr) && (1 <? nb)).
  - destruct nb as [|[|nb']]; try lia. replace (S (S nb') - 1) with (S nb') by lia. apply split_go_concat.
  - destruct nb as [|nb']; try lia. apply split_go_concat.
Qed.

(* ------------------------------------------------------------------------------------ *)
(* more association-list facts                                                           *)
(* ------------------------------------------------------------------------------------ *)
Section AL2.
  Context {V : Type}.
  Implicit Types (l : list (N * V)).

  Lemma lookup_put_same k v l : lookup k (put k v l) = Some v.
  Proof.
    induction l as [|[k' v'] r IH]; cbn; [rewrite N.eqb_refl; reflexivity|].
    destruct (N.eqb_spec k k') as [->|Hne]; cbn.
    - rewrite N.eqb_refl. reflexivity.
    - destruct (N.eqb_spec k k'); [congruence|exact IH].
  Qed.

  Lemma lookup_put_other k k' v l : k' <> k -> lookup k' (put k v l) = lookup k' l.
  Proof.
    intros Hne. induction l as [|[k2 v2] r IH]; cbn.
    - destruct (N.eqb_spec k' k); [congruence|reflexivity].
    - destruct (N.eqb_spec k k2) as [->|Hne2]; cbn.
      + destruct (N.eqb_spec k' k2); [congruence|reflexivity].
      + destruct (N.eqb k' k2); [reflexivity|exact IH].
  Qed.

  Lemma keys_put k v l k' : In k' (keys (put k v l)) <-> k' = k \/ In k' (keys l).
  Proof.
    induction l as [|[k2 v2] r IH]; cbn.
    - intuition.
    - destruct (N.eqb_spec k k2) as [->|Hne]; cbn; [intuition|]. rewrite IH. intuition.
  Qed.

  Lemma in_put k v l e : In e (put k v l) -> e = (k, v) \/ In e l.
  Proof.
    induction l as [|[k2 v2] r IH]; cbn.
    - intros [<-|[]]. left; reflexivity.
    - destruct (N.eqb_spec k k2) as [->|Hne]; cbn.
      + intros [<-|H]; [left; reflexivity|right; right; exact H].
      + intros [<-|H]; [right; left; reflexivity|]. destruct (IH H) as [->|H']; [left; reflexivity|right; right; exact H'].
  Qed.

  Lemma del_put_comm a k v l : a <> k -> del a (put k v l) = put k v (del a l).
  Proof.
    intros Hne. unfold del. induction l as [|[k2 v2] r IH].
    - cbn [put]. rewrite dels_cons, memb_single. destruct (N.eqb_spec k a); [congruence|]. reflexivity.
    - cbn [put]. destruct (N.eqb_spec k k2) as [->|Hk].
      + rewrite !dels_cons, memb_single. destruct (N.eqb_spec k2 a); [congruence|]. cbn [put]. rewrite N.eqb_refl. reflexivity.
      + rewrite !dels_cons, memb_single. destruct (N.eqb_spec k2 a) as [->|Hk2].
        * exact IH.
        * cbn [put]. destruct (N.eqb_spec k k2); [congruence|]. rewrite IH. reflexivity.
  Qed.

  Lemma del_del_comm a b l : del a (del b l) = del b (del a l).
  Proof.
    unfold del. rewrite !dels_dels. apply dels_ext. intros k _. cbn. tauto.
  Qed.

  Lemma put_app_r k v l e : ~ In k (keys l) -> put k v (l ++ e) = l ++ put k v e.
  Proof.
    induction l as [|[k2 v2] r IH]; cbn; intros H; [reflexivity|].
    destruct (N.eqb_spec k k2) as [->|Hne]; [exfalso; apply H; left; reflexivity|].
    rewrite IH; [reflexivity|tauto].
  Qed.

  Lemma del_app_r k l e : ~ In k (keys l) -> del k (l ++ e) = l ++ del k e.
  Proof.
    intros H. unfold del. rewrite dels_app. rewrite dels_id; [reflexivity|]. intros k' [<-|[]]. exact H.
  Qed.
End AL2.

Lemma Forall_firstn {A} (P : A -> Prop) k l : Forall P l -> Forall P (firstn k l).
Proof.
  intros H. rewrite <- (firstn_skipn k l) in H. apply Forall_app in H. tauto.
Qed.

(* ------------------------------------------------------------------------------------ *)
(* several interrupted jobs at once: recovery of the older manifests commutes with a     *)
(* newer job's steps                                                                     *)
(* ------------------------------------------------------------------------------------ *)

(* a step that does not interfere with the recovery of manifest (mp0, m0) *)
Definition indep (mp0 : path) (m0 : manifest) (st : step) : Prop :=
  match st with
  | SPutMan mp _ => mp <> mp0
  | SDelMan mp => mp <> mp0
  | SPut p _ => p <> m_out m0 /\ ~ In p (m_inputs m0)
  | SDel p => p <> m_out m0
  end.

Lemma recover_steps_indep mp0 m0 st X : indep mp0 m0 st ->
  recover_steps mp0 m0 (apply st X) = recover_steps mp0 m0 X.
Proof.
  intros Hi. unfold recover_steps.
  assert (E : lookup (m_out m0) (files (apply st X)) = lookup (m_out m0) (files X)).
  { destruct st as [mp m|p f|p|mp]; cbn [apply files]; try reflexivity.
    - apply lookup_put_other. destruct Hi as [Hi _]. congruence.
    - unfold del. apply lookup_dels_notin. intros [E|[]]. cbn in Hi. congruence. }
  rewrite E. reflexivity.
Qed.

Definition recovery_step (mp0 : path) (m0 : manifest) (r : step) : Prop :=
  r = SDelMan mp0 \/ r = SDel (m_out m0) \/ exists a, In a (m_inputs m0) /\ r = SDel a.

Lemma recover_steps_shape mp0 m0 X r : In r (recover_steps mp0 m0 X) -> recovery_step mp0 m0 r.
Proof.
  unfold recover_steps, recovery_step. destruct (lookup (m_out m0) (files X)) as [f|].
  - destruct (N.eqb (f_size f) (m_size m0)).
    + intros H. apply in_app_or in H. destruct H as [H|[<-|[]]]; [|left; reflexivity].
      apply in_map_iff in H. destruct H as [a [<- Ha]]. right; right. exists a. split; [exact Ha|reflexivity].
    + intros [<-|[<-|[]]]; [right; left; reflexivity|left; reflexivity].
  - intros [<-|[]]. left; reflexivity.
Qed.

Lemma step_comm mp0 m0 r st Y : recovery_step mp0 m0 r -> indep mp0 m0 st ->
  apply r (apply st Y) = apply st (apply r Y).
Proof.
  intros Hr Hi. destruct Hr as [->|[->|[a [Ha ->]]]]; destruct st as [mp m|p f|p|mp]; cbn [apply files mans] in *; try reflexivity.
  - f_equal. apply del_put_comm. congruence.
  - f_equal. apply del_del_comm.
  - f_equal. apply del_put_comm. destruct Hi as [Hi _]. congruence.
  - f_equal. apply del_del_comm.
  - f_equal. apply del_put_comm. destruct Hi as [_ Hi]. intros ->. contradiction.
  - f_equal. apply del_del_comm.
Qed.

Lemma run_comm_step mp0 m0 st L : (forall r, In r L -> recovery_step mp0 m0 r) -> indep mp0 m0 st ->
  forall Y, run L (apply st Y) = apply st (run L Y).
Proof.
  intros HL Hi. induction L as [|r L' IH]; intros Y; [reflexivity|].
  change (run (r :: L') (apply st Y)) with (run L' (apply r (apply st Y))).
  change (run (r :: L') Y) with (run L' (apply r Y)).
  rewrite (step_comm mp0 m0 r st Y (HL r (or_introl eq_refl)) Hi).
  apply IH. intros r' Hr'. apply HL. right; exact Hr'.
Qed.

Lemma rec1_comm mp0 m0 pre : Forall (indep mp0 m0) pre -> forall X,
  run (recover_steps mp0 m0 (run pre X)) (run pre X) = run pre (run (recover_steps mp0 m0 X) X).
Proof.
  induction pre as [|st pre' IH]; intros Hall X; [reflexivity|].
  inversion Hall as [|? ? Hst Hrest]; subst.
  change (run (st :: pre') X) with (run pre' (apply st X)).
  rewrite (IH Hrest (apply st X)). rewrite (recover_steps_indep mp0 m0 st X Hst).
  change (run (st :: pre') (run (recover_steps mp0 m0 X) X)) with (run pre' (apply st (run (recover_steps mp0 m0 X) X))).
  f_equal. apply (run_comm_step mp0 m0); [intros r Hr; eapply recover_steps_shape; exact Hr|exact Hst].
Qed.

Lemma recover_list_comm ms pre : (forall mp0 m0, In (mp0, m0) ms -> Forall (indep mp0 m0) pre) ->
  forall X, recover_list ms (run pre X) = run pre (recover_list ms X).
Proof.
  induction ms as [|[mp0 m0] r IH]; intros H X; [reflexivity|]. cbn [recover_list].
  rewrite (rec1_comm mp0 m0 pre (H mp0 m0 (or_introl eq_refl)) X).
  apply IH. intros a b Hin. apply H. right; exact Hin.
Qed.

(* the manifests after some steps depend on the earlier manifests only by prepending them *)
Definition manstep (l : list (path * manifest)) (st : step) : list (path * manifest) :=
  match st with SPutMan mp m => put mp m l | SDelMan mp => del mp l | _ => l end.

Lemma mans_run pre : forall X, mans (run pre X) = fold_left manstep pre (mans X).
Proof.
  induction pre as [|st r IH]; intros X; [reflexivity|].
  change (run (st :: r) X) with (run r (apply st X)). rewrite IH. cbn [fold_left]. f_equal.
  destruct st; reflexivity.
Qed.

Definition man_key_only (mp : path) (st : step) : Prop :=
  match st with SPutMan k _ => k = mp | SDelMan k => k = mp | _ => True end.

Lemma manstep_prepend mp pre : Forall (man_key_only mp) pre -> forall l e, ~ In mp (keys l) ->
  fold_left manstep pre (l ++ e) = l ++ fold_left manstep pre e.
Proof.
  induction pre as [|st r IH]; intros Hall l e Hm; [reflexivity|].
  inversion Hall as [|? ? Hst Hr]; subst. cbn [fold_left].
  destruct st as [k m|p f|p|k]; cbn [manstep man_key_only] in *; subst; try (apply IH; assumption).
  - rewrite put_app_r by exact Hm. apply IH; assumption.
  - rewrite del_app_r by exact Hm. apply IH; assumption.
Qed.

Lemma manstep_origin pre : forall l a b, In (a, b) (fold_left manstep pre l) -> In (a, b) l \/ In (SPutMan a b) pre.
Proof.
  induction pre as [|st r IH]; intros l a b H; [left; exact H|]. cbn [fold_left] in H.
  destruct (IH _ _ _ H) as [H1|H1]; [|right; right; exact H1].
  destruct st as [k m|p f|p|k]; cbn [manstep] in H1; try (left; exact H1).
  - apply in_put in H1. destruct H1 as [E|H1]; [inversion E; subst; right; left; reflexivity|left; exact H1].
  - unfold del in H1. apply In_dels in H1. left; tauto.
Qed.

(* files after some steps: a key survives unless a step deletes it *)
Lemma files_run_keep pre : forall X p, In p (keys (files X)) -> ~ In (SDel p) pre -> In p (keys (files (run pre X))).
Proof.
  induction pre as [|st r IH]; intros X p Hp Hn; [exact Hp|].
  change (run (st :: r) X) with (run r (apply st X)). apply IH; [|intros H; apply Hn; right; exact H].
  destruct st as [k m|q f|q|k]; cbn [apply files]; try exact Hp.
  - apply keys_put. right; exact Hp.
  - unfold del. apply keys_dels. split; [exact Hp|]. intros [E|[]]. subst. apply Hn. left; reflexivity.
Qed.

Lemma files_run_lookup pre : forall X p, (forall st, In st pre -> st <> SDel p /\ forall f, st <> SPut p f) ->
  lookup p (files (run pre X)) = lookup p (files X).
Proof.
  induction pre as [|st r IH]; intros X p H; [reflexivity|].
  change (run (st :: r) X) with (run r (apply st X)). rewrite IH by (intros st' Hs; apply H; right; exact Hs).
  destruct (H st (or_introl eq_refl)) as [H1 H2].
  destruct st as [k m|q f|q|k]; cbn [apply files]; try reflexivity.
  - apply lookup_put_other. intros ->. exact (H2 f eq_refl).
  - unfold del. apply lookup_dels_notin. intros [E|[]]. subst. apply H1. reflexivity.
Qed.

(* recovery only ever deletes paths its manifests mention *)
Lemma recover_list_files ms : forall X, exists D,
  files (recover_list ms X) = dels D (files X) /\ forall d, In d D -> In d (tracked_of ms).
Proof.
  induction ms as [|[mp0 m0] r IH]; intros X.
  - exists []. split; [cbn; rewrite dels_nil; reflexivity|intros d []].
  - cbn [recover_list].
    assert (H1 : exists D1, files (run (recover_steps mp0 m0 X) X) = dels D1 (files X) /\
                            forall d, In d D1 -> d = m_out m0 \/ In d (m_inputs m0)).
    { unfold recover_steps. destruct (lookup (m_out m0) (files X)) as [f|].
      - destruct (N.eqb (f_size f) (m_size m0)).
        + exists (m_inputs m0). rewrite run_app, run_dels. split; [reflexivity|auto].
        + exists [m_out m0]. split; [reflexivity|]. intros d [<-|[]]. left; reflexivity.
      - exists []. split; [cbn; rewrite dels_nil; reflexivity|intros d []]. }
    destruct H1 as [D1 [E1 HD1]]. destruct (IH (run (recover_steps mp0 m0 X) X)) as [D2 [E2 HD2]].
    exists (D1 ++ D2). split.
    + rewrite E2, E1, dels_dels. reflexivity.
    + intros d Hd. apply in_app_or in Hd. unfold tracked_of. cbn [flat_map snd]. destruct Hd as [Hd|Hd].
      * apply in_or_app; left. destruct (HD1 d Hd) as [->|Hi]; [left; reflexivity|right; exact Hi].
      * apply in_or_app; right. apply HD2. exact Hd.
Qed.

(* ------------------------------------------------------------------------------------ *)
(* adaptive retry, cycles, histories                                                     *)
(* ------------------------------------------------------------------------------------ *)

Lemma quiet_nomans F M : quiet (mkState F M) -> quiet (mkState F []).
Proof.
  intros Q. constructor; cbn [files mans].
  - apply (q_files _ Q).
  - constructor.
  - intros mp m [].
  - apply (q_ok _ Q).
Qed.

Lemma existsb_ext_in {A} (f g : A -> bool) l : (forall a, In a l -> f a = g a) -> existsb f l = existsb g l.
Proof.
  induction l as [|a r IH]; cbn; intros H; [reflexivity|].
  rewrite (H a (or_introl eq_refl)), IH; [reflexivity|]. intros; apply H; right; assumption.
Qed.

Lemma filter_ext_in' {A} (f g : A -> bool) l : (forall a, In a l -> f a = g a) -> filter f l = filter g l.
Proof.
  induction l as [|a r IH]; cbn; intros H; [reflexivity|].
  rewrite (H a (or_introl eq_refl)), IH; [reflexivity|]. intros; apply H; right; assumption.
Qed.

(* the steps of a job depend on the state only through its input files *)
Lemma job_steps_named_ext compact ord out mp ins s s' :
  (forall p, In p ins -> lookup p (files s) = lookup p (files s')) ->
  job_steps_named compact ord out mp ins s = job_steps_named compact ord out mp ins s'.
Proof.
  intros H. unfold job_steps_named.
  assert (Ep : present s ins = present s' ins).
  { unfold present. apply filter_ext_in'. intros p Hp. unfold has_file. rewrite (H p Hp). reflexivity. }
  rewrite <- Ep.
  assert (Eo : job_output compact s (present s ins) = job_output compact s' (present s ins)).
  { unfold job_output.
    assert (E1 : job_mode (files s) (present s ins) = job_mode (files s') (present s ins)).
    { unfold job_mode.
      rewrite (existsb_ext_in (meta_in (files s)) (meta_in (files s')) (present s ins)).
      - rewrite (existsb_ext_in (part_in (files s)) (part_in (files s')) (present s ins)); [reflexivity|].
        intros p Hp. unfold part_in. rewrite (H p (proj1 (present_in s ins p Hp))). reflexivity.
      - intros p Hp. unfold meta_in. rewrite (H p (proj1 (present_in s ins p Hp))). reflexivity. }
    assert (E2 : flat_map (rows_in (files s)) (present s ins) = flat_map (rows_in (files s')) (present s ins)).
    { apply flat_map_ext_in. intros p Hp. unfold rows_in. rewrite (H p (proj1 (present_in s ins p Hp))). reflexivity. }
    rewrite E1, E2. reflexivity. }
  rewrite Eo. reflexivity.
Qed.

Section Cycle.
  Variable compact : dmode -> list row -> list row.
  Hypothesis compact_spec : forall b l, rel b l (compact (mode_of_bool b) l).
  Variable pr : params.
  Notation jsteps := (job_steps compact code_order).

  (* every step of a job is one of its own *)
  Definition job_step_of (out mp : path) (pres : list path) (st : step) : Prop :=
    match st with
    | SPutMan k m => k = mp /\ m_out m = out /\ m_inputs m = pres
    | SPut p _ => p = out
    | SDel p => In p pres
    | SDelMan k => k = mp
    end.

  Lemma job_steps_shape out mp ins s :
    Forall (job_step_of out mp (present s ins)) (job_steps_named compact code_order out mp ins s).
  Proof.
    destruct (present s ins) as [|p0 l0] eqn:E.
    - rewrite jsteps_nil by exact E. constructor.
    - rewrite <- E. rewrite jsteps_eq by congruence.
      repeat constructor. apply Forall_app. split; [|repeat constructor].
      apply Forall_forall. intros st Hst. apply in_map_iff in Hst. destruct Hst as [q [<- Hq]]. exact Hq.
  Qed.

  (* reachable within and across cycles: from a quiet state whose rows are the reference rows
     modulo dedup, any number of job prefixes, each on inputs no manifest tracks *)
  Inductive pendV (B : bool) (V : list row) : state -> Prop :=
  | pv_quiet q : quiet q -> nometa B (files q) -> rel B V (visible q) -> pendV B V q
  | pv_job s ins k : pendV B V s -> NoDup ins -> (forall p, In p ins -> ~ In p (tracked s)) ->
      pendV B V (run (firstn k (jsteps ins s)) s).

  Lemma prefix_indep s ins k mp0 m0 : In (mp0, m0) (mans s) -> (forall p, In p ins -> ~ In p (tracked s)) ->
    Forall (indep mp0 m0) (firstn k (jsteps ins s)).
  Proof.
    intros Hin Hun. apply Forall_firstn. rewrite job_steps_unfold.
    destruct (fresh_for_fresh s) as [Ho [Hom Hmp]].
    eapply Forall_impl; [|apply job_steps_shape]. intros st Hst.
    destruct st as [k' m|p f|p|k']; cbn [job_step_of indep] in *.
    - destruct Hst as [-> _]. intros E. apply Hmp. rewrite E. apply (in_map fst) in Hin. exact Hin.
    - subst p. destruct (Hom mp0 m0 Hin) as [A Bq]. split; [congruence|exact Bq].
    - intros ->. apply (Hun (m_out m0)); [apply (present_in s ins _ Hst)|].
      unfold tracked. eapply tracked_of_in; [exact Hin|left; reflexivity].
    - subst k'. intros E. apply Hmp. rewrite E. apply (in_map fst) in Hin. exact Hin.
  Qed.

  Lemma prefix_man_key s ins k : Forall (man_key_only (fresh_man s)) (firstn k (jsteps ins s)).
  Proof.
    apply Forall_firstn. rewrite job_steps_unfold. eapply Forall_impl; [|apply job_steps_shape].
    intros st Hst. destruct st; cbn [job_step_of man_key_only] in *; tauto.
  Qed.

  (* what recovery makes of any pending state *)
  Lemma pend_recover B V s : pendV B V s ->
    exists F, recover_all s = mkState F [] /\ quiet (mkState F []) /\ nometa B F /\ rel B V (vis F).
  Proof.
    induction 1 as [q Q Hnm Hr|s ins k Hp IH Hnd Hun].
    - exists (files q). split; [apply recover_quiet; exact Q|]. split; [|split; assumption].
      apply (quiet_nomans _ (mans q)). destruct q; exact Q.
    - destruct IH as [F [HF [Q [Hnm Hr]]]].
      set (out := fresh_path s). set (mp := fresh_man s). set (q' := mkState F []).
      set (pre := firstn k (jsteps ins s)).
      (* recovery of the older manifests does not touch the job's inputs *)
      destruct (recover_list_files (mans s) s) as [D [ED HD]]. fold (recover_all s) in ED. rewrite HF in ED. cbn [files] in ED.
      assert (Hlook : forall p, In p ins -> lookup p (files s) = lookup p (files q')).
      { intros p Hp'. cbn [q' files]. rewrite ED. symmetry. apply lookup_dels_notin.
        intros Hd. exact (Hun p Hp' (HD p Hd)). }
      assert (Hsub : forall p, In p (keys F) -> In p (keys (files s))).
      { intros p Hp'. rewrite ED in Hp'. apply keys_dels in Hp'. tauto. }
      assert (Epre : pre = firstn k (job_steps_named compact code_order out mp ins q')).
      { unfold pre. rewrite job_steps_unfold. fold out mp. f_equal. apply job_steps_named_ext. exact Hlook. }
      (* commute the old manifests' recovery with the job's steps *)
      assert (Ecomm : recover_list (mans s) (run pre s) = run pre q').
      { rewrite recover_list_comm; [fold (recover_all s); rewrite HF; reflexivity|].
        intros mp0 m0 Hin. apply prefix_indep; assumption. }
      assert (Emans : mans (run pre s) = mans s ++ mans (run pre q')).
      { rewrite !mans_run. cbn [q' mans]. rewrite <- (app_nil_r (mans s)) at 1.
        apply (manstep_prepend mp); [apply prefix_man_key|apply fresh_man_mans]. }
      assert (Erec : recover_all (run pre s) = recover_all (run pre q')).
      { unfold recover_all at 1. rewrite Emans, recover_list_app, Ecomm. reflexivity. }
      rewrite Erec, Epre.
      assert (Hfr : fresh_for q' out mp).
      { split; [intros H; exact (fresh_path_files s (Hsub _ H))|]. split; [intros a b []|intros []]. }
      destruct (recover_prefix compact out mp q' ins k Q Hfr Hnd) as [F' [HF' [-> | ->]]].
      + exists F. split; [exact HF'|]. split; [exact Q|split; assumption].
      + destruct (job_done compact compact_spec out mp B q' ins Q Hfr Hnd Hnm) as [Q' [R' N']].
        exists (files_done compact out q' ins). split; [exact HF'|]. split; [exact (quiet_nomans _ _ Q')|].
        split; [exact N'|]. eapply rel_trans; [exact Hr|exact R'].
  Qed.

  (* paths the cycle may still hand to a job: no manifest tracks them and they are older
     than every name a new job can pick *)
  Definition ok_rest (s : state) (R : list path) : Prop :=
    (forall p, In p R -> ~ In p (tracked s)) /\ (forall p, In p R -> (p < fresh_path s)%N).

  Lemma prefix_tracked s ins k p : In p (tracked (run (firstn k (jsteps ins s)) s)) ->
    In p (tracked s) \/ p = fresh_path s \/ In p ins.
  Proof.
    unfold tracked. intros H. apply tracked_of_inv in H. destruct H as [a [b [Hin Hp]]].
    rewrite mans_run in Hin. apply manstep_origin in Hin. destruct Hin as [Hin|Hin].
    - left. eapply tracked_of_in; eassumption.
    - right. assert (Hsh : job_step_of (fresh_path s) (fresh_man s) (present s ins) (SPutMan a b)).
      { assert (HF := job_steps_shape (fresh_path s) (fresh_man s) ins s). rewrite <- job_steps_unfold in HF.
        apply (Forall_firstn _ k) in HF. rewrite Forall_forall in HF. apply HF. exact Hin. }
      cbn in Hsh. destruct Hsh as [_ [Eo Ei]]. destruct Hp as [->|Hp]; [left; exact Eo|].
      right. rewrite Ei in Hp. apply (present_in s ins p Hp).
  Qed.

  Lemma prefix_horizon s ins k : (fresh_path s <= fresh_path (run (firstn k (jsteps ins s)) s))%N.
  Proof.
    destruct (fresh_for_fresh s) as [Ho [_ Hmp]].
    destruct (present s ins) eqn:E.
    { rewrite job_steps_unfold, jsteps_nil by exact E. rewrite firstn_nil. cbn. lia. }
    assert (Hne : present s ins <> []) by congruence. clear E.
    assert (Hgt : forall X, (In (fresh_path s) (keys (files X)) \/ In (fresh_path s) (tracked_of (mans X))) ->
                            (fresh_path s <= fresh_path X)%N).
    { intros X HX. apply fresh_path_gt in HX. lia. }
    rewrite job_steps_unfold, (jsteps_eq compact (fresh_path s) (fresh_man s) s ins Hne).
    destruct (firstn_job k (SPutMan (fresh_man s) (jman compact (fresh_path s) s ins)) (SPut (fresh_path s) torn_file)
                (SPut (fresh_path s) (jout compact s ins)) (SDelMan (fresh_man s)) (map SDel (present s ins)))
      as [H|[H|[H|[[j H]|H]]]]; rewrite H; clear H.
    - cbn. lia.
    - rewrite st_man by exact Hmp. apply Hgt. right. cbn [mans]. unfold tracked_of. rewrite flat_map_app. apply in_or_app; right.
      cbn. left; reflexivity.
    - rewrite st_torn by assumption. apply Hgt. left. cbn [files]. rewrite keys_app. apply in_or_app; right. left; reflexivity.
    - rewrite firstn_map, st_up; [|exact Hmp|exact Ho|].
      + apply Hgt. left. cbn [files]. rewrite keys_app. apply in_or_app; right. left; reflexivity.
      + intros q Hq. rewrite <- (firstn_skipn j (present s ins)). apply in_or_app; left; exact Hq.
    - rewrite <- (jsteps_eq compact (fresh_path s) (fresh_man s) s ins Hne), st_done by assumption.
      apply Hgt. left. cbn [files]. unfold files_done. destruct (present s ins); [congruence|].
      rewrite keys_app. apply in_or_app; right. left; reflexivity.
  Qed.

  Lemma prefix_rest s ins k R : ok_rest s R -> (forall p, In p R -> ~ In p ins) ->
    ok_rest (run (firstn k (jsteps ins s)) s) R.
  Proof.
    intros [Hu Hh] Hd. split.
    - intros p Hp Ht. apply prefix_tracked in Ht. destruct Ht as [Ht|[Ht|Ht]].
      + exact (Hu p Hp Ht).
      + specialize (Hh p Hp). lia.
      + exact (Hd p Hp Ht).
    - intros p Hp. assert (L := prefix_horizon s ins k). specialize (Hh p Hp). lia.
  Qed.

  Lemma ok_rest_app s R1 R2 : ok_rest s (R1 ++ R2) <-> ok_rest s R1 /\ ok_rest s R2.
  Proof.
    unfold ok_rest. split.
    - intros [A Bh]. repeat split; intros p Hp; try (apply A); try (apply Bh); apply in_or_app; auto.
    - intros [[A1 B1] [A2 B2]]. split; intros p Hp; apply in_app_or in Hp; destruct Hp; auto.
  Qed.

  Lemma firstn_all_steps {A} (l : list A) : firstn (length l) l = l.
  Proof. apply firstn_all. Qed.

  Lemma adaptive_inv B V fuel : forall depth ins ocs s R s' ocs' r,
    pendV B V s -> NoDup ins -> ok_rest s ins -> ok_rest s R -> (forall p, In p R -> ~ In p ins) ->
    adaptive compact code_order pr fuel depth ins ocs s = (s', ocs', r) ->
    pendV B V s' /\ ok_rest s' R.
  Proof.
    induction fuel as [|fuel IH]; intros depth ins ocs s R s' ocs' r Hp Hnd Hins HR Hdis; cbn [adaptive].
    - intros H; inversion H; subst. auto.
    - destruct (p_max_depth pr <? depth); [intros H; inversion H; subst; auto|].
      destruct (length ins <? p_min_batch pr); [intros H; inversion H; subst; auto|].
      destruct (pop ocs) as [oc ocs1].
      assert (Hpre : forall k, pendV B V (run (firstn k (jsteps ins s)) s) /\ ok_rest (run (firstn k (jsteps ins s)) s) R).
      { intros k. split; [apply pv_job; [exact Hp|exact Hnd|apply Hins]|apply prefix_rest; assumption]. }
      destruct oc as [|k|k|]; cbn [run_job].
      + intros H; inversion H; subst. rewrite <- (firstn_all_steps (jsteps ins s)). apply Hpre.
      + destruct (Hpre k) as [Hp1 HR1]. set (s1 := run (firstn k (jsteps ins s)) s) in *.
        destruct (existsb (fun p => memb p (tracked s1)) ins) eqn:Etr; [intros H; inversion H; subst; auto|].
        destruct (length ins <=? p_min_batch pr); [intros H; inversion H; subst; auto|].
        (* nothing of this batch is tracked: retry on halves *)
        assert (Hun1 : forall p, In p ins -> ~ In p (tracked s1)).
        { intros p Hp' Ht. assert (existsb (fun p => memb p (tracked s1)) ins = true); [|congruence].
          apply existsb_exists. exists p. split; [exact Hp'|apply memb_In; exact Ht]. }
        assert (Hins1 : ok_rest s1 ins).
        { split; [exact Hun1|]. intros p Hp'. assert (L := prefix_horizon s ins k). fold s1 in L. destruct Hins as [_ Hh]. specialize (Hh p Hp'). lia. }
        set (mid := length ins / 2).
        assert (Esplit : ins = firstn mid ins ++ skipn mid ins) by (symmetry; apply firstn_skipn).
        assert (Hnd12 : NoDup (firstn mid ins ++ skipn mid ins)) by (rewrite <- Esplit; exact Hnd).
        rewrite Esplit in Hins1. apply ok_rest_app in Hins1. destruct Hins1 as [H1 H2].
        destruct (adaptive compact code_order pr fuel (S depth) (firstn mid ins) ocs1 s1) as [[s2 ocs2] r2] eqn:E2.
        assert (Hdis1 : forall p, In p (skipn mid ins ++ R) -> ~ In p (firstn mid ins)).
        { intros p Hp' Hf. apply in_app_or in Hp'. destruct Hp' as [Hs|Hr'].
          - clear -Hnd12 Hs Hf. induction (firstn mid ins) as [|a l IHl]; [destruct Hf|].
            cbn in Hnd12. inversion Hnd12 as [|? ? Hn Hd]; subst. destruct Hf as [->|Hf].
            + apply Hn. apply in_or_app; right; exact Hs.
            + exact (IHl Hd Hf).
          - apply (Hdis p Hr'). rewrite Esplit. apply in_or_app; left; exact Hf. }
        destruct (IH _ _ _ _ (skipn mid ins ++ R) _ _ _ Hp1 (NoDup_firstn _ _ Hnd) H1
                     (proj2 (ok_rest_app s1 _ _) (conj H2 HR1)) Hdis1 E2) as [Hp2 HR2].
        apply ok_rest_app in HR2. destruct HR2 as [H2' HR2'].
        destruct r2; [|intros H; inversion H; subst; auto|intros H; inversion H; subst; auto].
        intros E3. refine (IH _ _ _ _ R _ _ _ Hp2 (NoDup_skipn _ _ Hnd) H2' HR2' _ E3).
        intros p Hp' Hs. apply (Hdis p Hp'). rewrite Esplit. apply in_or_app; right; exact Hs.
      + intros H; inversion H; subst. apply Hpre.
      + intros H; inversion H; subst. auto.
  Qed.

  Lemma run_batches_inv B V fuel bs : forall ocs s,
    pendV B V s -> NoDup (concat bs) -> ok_rest s (concat bs) ->
    pendV B V (fst (fst (run_batches compact code_order pr fuel bs ocs s))).
  Proof.
    induction bs as [|b r IH]; intros ocs s Hp Hnd HR; cbn [run_batches]; [exact Hp|].
    cbn [concat] in Hnd, HR. apply ok_rest_app in HR. destruct HR as [Hb Hr].
    destruct (NoDup_app_both _ _ Hnd) as [Hnb Hnr].
    destruct (adaptive compact code_order pr fuel 0 b ocs s) as [[s1 ocs1] r1] eqn:E.
    assert (Hdis : forall p, In p (concat r) -> ~ In p b).
    { intros p Hp' Hb'. clear -Hnd Hp' Hb'. induction b as [|a l IHl]; [destruct Hb'|].
      cbn in Hnd. inversion Hnd as [|? ? Hn Hd]; subst. destruct Hb' as [->|Hb'].
      - apply Hn. apply in_or_app; right; exact Hp'.
      - exact (IHl Hd Hb'). }
    destruct (adaptive_inv B V fuel _ _ _ _ _ _ _ _ Hp Hnb Hb Hr Hdis E) as [Hp1 HR1].
    destruct r1; try (apply IH; assumption). cbn. exact Hp1.
  Qed.

  Lemma split_go_concat_nodup nb mx l : NoDup l -> NoDup (concat (split_go nb mx l)) /\ forall p, In p (concat (split_go nb mx l)) -> In p l.
  Proof.
    destruct nb as [|nb]; [cbn; split; [constructor|intros p []]|]. rewrite split_go_concat. auto.
  Qed.

  Lemma split_batches_concat_nodup mx0 l : NoDup l ->
    NoDup (concat (split_batches pr mx0 l)) /\ forall p, In p (concat (split_batches pr mx0 l)) -> In p l.
  Proof.
    intros H. unfold split_batches. destruct (length l <=? clamp pr mx0).
    - cbn. rewrite app_nil_r. auto.
    - apply split_go_concat_nodup. exact H.
  Qed.

  Lemma cycle_inv B V cfg elig ocs s : pendV B V s -> pendV B V (cycle compact code_order pr cfg elig ocs s).
  Proof.
    intros Hp. destruct (pend_recover B V s Hp) as [F [HF [Q [Hnm Hr]]]].
    unfold cycle. rewrite HF.
    assert (Hq : pendV B V (mkState F [])) by (apply pv_quiet; assumption).
    destruct (elig && should_compact cfg (mkState F [])); [|exact Hq].
    destruct (filter_candidates (mkState F []) (keys (files (mkState F [])))) as [|c0 cl] eqn:E; [exact Hq|]. rewrite <- E.
    set (cand := filter_candidates (mkState F []) (keys (files (mkState F [])))).
    assert (Hnc : NoDup cand) by (apply NoDup_filter; apply (q_files _ Q)).
    destruct (split_batches_concat_nodup (c_max_batch cfg) cand Hnc) as [Hnd Hsub].
    apply run_batches_inv; [exact Hq|exact Hnd|]. split.
    - intros q _ Ht. cbn in Ht. exact Ht.
    - intros q Hp'. apply fresh_path_gt. left. apply Hsub in Hp'. unfold cand, filter_candidates in Hp'.
      apply filter_In in Hp'. tauto.
  Qed.

  (* an undisturbed cycle: every job runs to completion *)
  Lemma adaptive_clean fuel depth ins s :
    adaptive compact code_order pr fuel depth ins [] s = (s, [], RErr) \/
    adaptive compact code_order pr fuel depth ins [] s =
      (mkState (files_done compact (fresh_path s) s ins) (mans s), [], ROk).
  Proof.
    destruct fuel as [|fuel]; cbn [adaptive]; [left; reflexivity|].
    destruct (p_max_depth pr <? depth); [left; reflexivity|].
    destruct (length ins <? p_min_batch pr); [left; reflexivity|].
    cbn [pop run_job]. rewrite job_steps_unfold, run_done_any; [right; reflexivity|apply fresh_man_mans|apply fresh_path_files].
  Qed.

  Lemma run_batches_clean B V fuel bs : forall s,
    quiet s -> mans s = [] -> Forall (@NoDup path) bs -> nometa B (files s) -> rel B V (visible s) ->
    let s' := fst (fst (run_batches compact code_order pr fuel bs [] s)) in
    quiet s' /\ mans s' = [] /\ rel B V (visible s').
  Proof.
    induction bs as [|b r IH]; intros s Q Hm Hbs Hnm Hr; cbn [run_batches].
    - cbn. auto.
    - inversion Hbs as [|? ? Hb1 Hbr]; subst.
      destruct (adaptive_clean fuel 0 b s) as [E|E]; rewrite E.
      + apply IH; assumption.
      + destruct (job_done compact compact_spec (fresh_path s) (fresh_man s) B s b Q (fresh_for_fresh s) Hb1 Hnm) as [Q' [R' N']].
        apply IH; try assumption. eapply rel_trans; [exact Hr|exact R'].
  Qed.

  Lemma cycle_clean B V cfg elig s : pendV B V s ->
    let s' := cycle compact code_order pr cfg elig [] s in
    quiet s' /\ mans s' = [] /\ rel B V (visible s').
  Proof.
    intros Hc. destruct (pend_recover B V s Hc) as [F [HF [Q [Hnm Hr]]]].
    unfold cycle. rewrite HF.
    destruct (elig && should_compact cfg (mkState F [])); [|cbn; auto].
    destruct (filter_candidates (mkState F []) (keys (files (mkState F [])))) eqn:E; [cbn; auto|]. rewrite <- E.
    apply run_batches_clean; try assumption; [reflexivity|].
    apply split_batches_nodup. apply NoDup_filter. apply (q_files _ Q).
  Qed.

  (* a history of process lifetimes: each runs one cycle (eligible or not) whose jobs meet
     the given outcomes; an OCrash outcome ends the lifetime at that point *)
  Definition lives (cfg : config) (h : list (bool * list outcome)) (s : state) : state :=
    fold_left (fun s eo => cycle compact code_order pr cfg (fst eo) (snd eo) s) h s.

  Lemma lives_inv B V cfg h : forall s, pendV B V s -> pendV B V (lives cfg h s).
  Proof.
    induction h as [|[e ocs] r IH]; intros s Hc; cbn; [exact Hc|]. apply IH. apply cycle_inv. exact Hc.
  Qed.

  Lemma nometa_any F : (forall p f, In (p, f) F -> f_part f = false) -> nometa (any_meta F) F.
  Proof.
    intros Hp. split; [|exact Hp]. intros HB p f Hin. unfold any_meta in HB.
    destruct (f_meta f) eqn:E; [|reflexivity].
    assert (existsb (fun kv => f_meta (snd kv)) F = true) by (apply existsb_exists; exists (p, f); split; [exact Hin|exact E]).
    congruence.
  Qed.

  Theorem crash_recover cfg h elig s0 :
    NoDup (keys (files s0)) -> mans s0 = [] -> oks (files s0) ->
    (forall p f, In (p, f) (files s0) -> f_part f = false) ->
    let s := cycle compact code_order pr cfg elig [] (lives cfg h s0) in
    rel (any_meta (files s0)) (visible s0) (visible s) /\
    mans s = [] /\ oks (files s) /\ NoDup (keys (files s)).
  Proof.
    intros Hnd Hm Hok Hpart.
    assert (Q0 : quiet s0).
    { constructor; [exact Hnd|rewrite Hm; constructor|rewrite Hm; intros ? ? []|exact Hok]. }
    assert (C0 : pendV (any_meta (files s0)) (visible s0) s0).
    { apply pv_quiet; [exact Q0|apply nometa_any; exact Hpart|apply rel_refl]. }
    destruct (cycle_clean _ _ cfg elig _ (lives_inv _ _ cfg h s0 C0)) as [Q [M R]].
    split; [exact R|]. split; [exact M|]. split; [apply (q_ok _ Q)|apply (q_files _ Q)].
  Qed.
End Cycle.

(* ------------------------------------------------------------------------------------ *)
(* no input disappears before a complete output exists                                   *)
(* ------------------------------------------------------------------------------------ *)

Lemma no_early_delete compact s ins k p :
  In p (present s ins) ->
  lookup p (files (run (firstn k (job_steps compact code_order ins s)) s)) = None ->
  lookup (fresh_path s) (files (run (firstn k (job_steps compact code_order ins s)) s)) =
    Some (jout compact s ins).
Proof.
  intros Hp. assert (Hne : present s ins <> []) by (intros E; rewrite E in Hp; exact Hp).
  assert (Hk : In p (keys (files s))) by (apply (present_in s ins p Hp)).
  destruct (In_keys_lookup p (files s) Hk) as [f Hf].
  destruct (fresh_for_fresh s) as [Ho [_ Hmp]].
  rewrite job_steps_unfold. set (out := fresh_path s) in *. set (mp := fresh_man s) in *.
  rewrite (jsteps_eq compact out mp s ins Hne).
  destruct (firstn_job k (SPutMan mp (jman compact out s ins)) (SPut out torn_file)
              (SPut out (jout compact s ins)) (SDelMan mp) (map SDel (present s ins)))
    as [H|[H|[H|[[j H]|H]]]]; rewrite H; clear H.
  - cbn. congruence.
  - rewrite st_man by exact Hmp. cbn [files]. congruence.
  - rewrite st_torn by assumption. cbn [files]. rewrite lookup_app_l by exact Hk. congruence.
  - intros _. rewrite firstn_map. rewrite st_up; [|exact Hmp|exact Ho|].
    + cbn [files]. rewrite lookup_app_r; [cbn; rewrite N.eqb_refl; reflexivity|].
      intros Hin. apply keys_dels in Hin. exact (Ho (proj1 Hin)).
    + intros q Hq. rewrite <- (firstn_skipn j (present s ins)). apply in_or_app; left; exact Hq.
  - intros _. rewrite <- (jsteps_eq compact out mp s ins Hne). rewrite run_done_any by assumption. cbn [files].
    unfold files_done. destruct (present s ins) eqn:E; [congruence|]. rewrite <- E.
    rewrite lookup_app_r; [cbn; rewrite N.eqb_refl; reflexivity|].
    intros Hin. apply keys_dels in Hin. exact (Ho (proj1 Hin)).
Qed.

(* recovery removes an input only next to an output of exactly the recorded size *)
Lemma recover_no_early_delete mp m s p :
  In (SDel p) (recover_steps mp m s) ->
  p = m_out m \/ (exists f, lookup (m_out m) (files s) = Some f /\ f_size f = m_size m /\ In p (m_inputs m)).
Proof.
  unfold recover_steps. destruct (lookup (m_out m) (files s)) as [f|] eqn:E.
  - destruct (N.eqb_spec (f_size f) (m_size m)) as [Es|_].
    + intros H. apply in_app_or in H. destruct H as [H|[H|[]]]; [|discriminate].
      apply in_map_iff in H. destruct H as [q [Eq Hq]]. inversion Eq; subst.
      right. exists f. auto.
    + intros [H|[H|[]]]; [inversion H; left; reflexivity|discriminate].
  - intros [H|[]]. discriminate.
Qed.

Lemma filter_candidates_spec s l p :
  In p (filter_candidates s l) <-> In p l /\ ~ In p (tracked s).
Proof. unfold filter_candidates. rewrite filter_In, negb_true_iff, memb_false. tauto. Qed.

(* ------------------------------------------------------------------------------------ *)
(* the executable relation is sound; the reference dedup meets the oracle hypothesis     *)
(* ------------------------------------------------------------------------------------ *)

Lemma row_eqb_eq a b : row_eqb a b = true -> a = b.
Proof.
  destruct a, b. unfold row_eqb. cbn. rewrite !andb_true_iff, !N.eqb_eq. intros [[-> ->] ->]. reflexivity.
Qed.

Lemma remove_one_perm r : forall l l', remove_one r l = Some l' -> Permutation l (r :: l').
Proof.
  induction l as [|x t IH]; cbn; intros l' H; [discriminate|].
  destruct (row_eqb r x) eqn:E.
  - inversion H; subst. apply row_eqb_eq in E. subst. reflexivity.
  - destruct (remove_one r t) as [t'|] eqn:Et; [|discriminate]. inversion H; subst.
    rewrite (IH t' eq_refl). apply perm_swap.
Qed.

Lemma submset_perm small : forall big, submset small big = true -> exists d, Permutation big (small ++ d).
Proof.
  induction small as [|r t IH]; cbn; intros big H.
  - exists big. reflexivity.
  - destruct (remove_one r big) as [big'|] eqn:E; [|discriminate].
    destruct (IH big' H) as [d Hd]. exists d. rewrite (remove_one_perm r big big' E). cbn.
    apply perm_skip. exact Hd.
Qed.

Lemma keys_coveredb_sound l1 l2 : keys_coveredb l1 l2 = true -> keys_covered l1 l2.
Proof.
  unfold keys_coveredb, keys_covered. rewrite forallb_forall. intros H r Hr.
  specialize (H r Hr). apply existsb_exists in H. destruct H as [r' [Hr' E]].
  apply N.eqb_eq in E. exists r'. split; assumption.
Qed.

Theorem relb_sound b l1 l2 : relb b l1 l2 = true -> rel b l1 l2.
Proof.
  destruct b; cbn; rewrite andb_true_iff; intros [H1 H2].
  - split; [apply submset_perm; exact H1|apply keys_coveredb_sound; exact H2].
  - destruct (submset_perm l2 l1 H1) as [d Hd]. apply Nat.eqb_eq in H2.
    assert (Hl := Permutation_length Hd). rewrite app_length in Hl.
    destruct d as [|x d']; [rewrite app_nil_r in Hd; exact Hd|cbn in Hl; lia].
Qed.

Lemma dedup_first_sub key : forall l seen, exists d, Permutation l (dedup_first key seen l ++ d).
Proof.
  induction l as [|r t IH]; intros seen; cbn.
  - exists []. reflexivity.
  - destruct (memb (key r) seen).
    + destruct (IH seen) as [d Hd]. exists (r :: d). rewrite <- Permutation_middle. apply perm_skip. exact Hd.
    + destruct (IH (key r :: seen)) as [d Hd]. exists d. cbn. apply perm_skip. exact Hd.
Qed.

Lemma dedup_first_cover key : forall l seen r, In r l ->
  memb (key r) seen = true \/ exists r', In r' (dedup_first key seen l) /\ key r' = key r.
Proof.
  induction l as [|x t IH]; intros seen r Hin; [destruct Hin|]. cbn.
  destruct (memb (key x) seen) eqn:E.
  - destruct Hin as [->|Hin]; [left; exact E|apply IH; exact Hin].
  - destruct Hin as [->|Hin].
    + right. exists r. split; [left; reflexivity|reflexivity].
    + destruct (IH (key x :: seen) r Hin) as [Hm|[r' [Hr' Er']]].
      * apply memb_In in Hm. destruct Hm as [Ek|Hm].
        -- right. exists x. split; [left; reflexivity|exact Ek].
        -- left. apply memb_In. exact Hm.
      * right. exists r'. split; [right; exact Hr'|exact Er'].
Qed.

Theorem dedup_ref_spec b l : rel b l (dedup_ref (mode_of_bool b) l).
Proof.
  destruct b; cbn; [|reflexivity]. split.
  - apply dedup_first_sub.
  - intros r Hr. destruct (dedup_first_cover r_key l [] r Hr) as [H|H]; [discriminate|exact H].
Qed.

(* ------------------------------------------------------------------------------------ *)
(* refutation witnesses                                                                  *)
(* ------------------------------------------------------------------------------------ *)

Definition wit_params : params := mkParams 2 30 500 4.
Definition wit_cfg : config := mkConfig 2 10.
Definition wit_file (k : N) : file := mkFile [mkRow k k k] false false false 2%N true.
Definition wit_s0 : state :=
  mkState [(1%N, wit_file 1); (2%N, wit_file 2); (3%N, wit_file 3); (4%N, wit_file 4)] [].

(* the former refutation witness: a job killed right after its upload while the parent lives on.
   The retry is now skipped (a manifest tracks the batch); the next cycle recovers the manifest. *)
Definition wit_final : state :=
  cycle dedup_ref code_order wit_params wit_cfg true []
    (cycle dedup_ref code_order wit_params wit_cfg true [OKill 3] wit_s0).

Lemma wit_final_rows :
  length (files (cycle dedup_ref code_order wit_params wit_cfg true [OKill 3] wit_s0)) = 5 /\
  length (mans (cycle dedup_ref code_order wit_params wit_cfg true [OKill 3] wit_s0)) = 1 /\
  length (visible wit_final) = 4 /\ mans wit_final = [] /\ length (files wit_final) = 1 /\
  relb false (visible wit_s0) (visible wit_final) = true.
Proof. vm_compute. repeat split. Qed.

(* were the manifest written AFTER the upload, a crash between the two would duplicate rows *)
Definition bad_order : list phase := [PhUpload; PhManifest; PhDeleteInputs; PhDeleteManifest].
Definition wit_bad_final : state :=
  cycle dedup_ref bad_order wit_params wit_cfg true []
    (cycle dedup_ref bad_order wit_params wit_cfg true [OCrash 2] wit_s0).

Lemma order_necessary : ~ rel false (visible wit_s0) (visible wit_bad_final).
Proof.
  intros H. cbn [rel] in H. apply Permutation_length in H. vm_compute in H. discriminate.
Qed.

(* Re-compaction with PARTIAL tag metadata loses rows.  f1 and f2 carry the full tag set and
   hold two rows that agree on the partial key (same host and time) and differ in the other tag;
   f3 and f4 carry arc:tags naming only part of the tag columns.  The first batch [f1,f2] is
   compacted (the output carries NO metadata), the cycle ends before the second batch; the next
   cycle compacts [f3, f4, output] with the union of the inputs' tag metadata = the partial
   set, so the two rows collapse: a row with non-identical tag values is lost. *)
Definition part_s0 : state :=
  mkState [(1%N, mkFile [mkRow 1 1 10] true false false 2%N true);
           (2%N, mkFile [mkRow 2 1 11] true false false 2%N true);
           (3%N, mkFile [mkRow 3 3 12] false true false 2%N true);
           (4%N, mkFile [mkRow 4 4 13] false true false 2%N true)] [].
Definition part_final : state :=
  cycle dedup_ref code_order wit_params (mkConfig 2 2) true []
    (cycle dedup_ref code_order wit_params (mkConfig 2 2) true [ODone; OCrash 0] part_s0).

Lemma partial_tags_lose_rows :
  visible part_final = [mkRow 3 3 12; mkRow 4 4 13; mkRow 1 1 10] /\
  ~ rel (any_meta (files part_s0)) (visible part_s0) (visible part_final).
Proof.
  split; [vm_compute; reflexivity|]. change (any_meta (files part_s0)) with true. cbn [rel].
  intros [_ K]. destruct (K (mkRow 2 1 11)) as [r' [Hr' Ek]]; [vm_compute; auto|].
  vm_compute in Hr'. destruct Hr' as [<-|[<-|[<-|[]]]]; discriminate.
Qed.
