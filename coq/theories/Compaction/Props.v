(* C09 - Compaction never loses or duplicates rows, even across crashes.
   Only property statements live here; proofs are in Proofs.v.
   [compact] is the DuckDB COPY of buildCompactionQuery, an oracle with the single
   hypothesis [forall b l, rel b l (compact (mode_of_bool b) l)]:  without dedup metadata
   (DNone) the output is a permutation of the input rows; with metadata naming every tag
   column (DFull) some rows are dropped but every (tags,time) key keeps one of its input rows.
   NOTHING is assumed about DPart (the only tag metadata among the inputs names just part of
   the tag columns): the positive theorem excludes such files (guard [f_part = false]); with
   them the property is refuted (C09_partial_tags_refuted). *)
From Coq Require Import List NArith Bool Arith Lia Permutation.
From Arc Require Import Compaction.Model Compaction.Proofs.
Import ListNotations.

(* Crash/kill theorem, full strength in its crash and kill points (the code since 5306c6c:
   compactFilesAdaptively skips the retry of a batch that a manifest tracks); its only guard is
   that no file carries tag metadata naming just PART of the tag columns.  For EVERY partition content s0 (any number of readable
   files, no manifest), every tier/batch configuration and every history h of process
   lifetimes - each runs one compaction cycle (manifest recovery, candidate filtering, batch
   splitting, adaptive halve-and-retry) in which ANY job may run to completion, fail
   permanently, be killed after ANY number k of its durable micro-steps while the parent lives
   on (OKill k: before or after the manifest write, a torn upload, the complete upload, each
   input delete, the manifest delete - followed by the adaptive retry logic), or take the whole
   process down after any number of micro-steps (OCrash k) - one later undisturbed cycle leaves
   exactly the rows of s0 modulo dedup, no manifest, and only readable files. *)
Theorem C09_crash_recover :
  forall (compact : dmode -> list row -> list row),
  (forall b l, rel b l (compact (mode_of_bool b) l)) ->
  forall pr cfg (h : list (bool * list outcome)) elig s0,
  NoDup (keys (files s0)) -> mans s0 = [] -> oks (files s0) ->
  (forall p f, In (p, f) (files s0) -> f_part f = false) ->
  let s := cycle compact code_order pr cfg elig [] (lives compact pr cfg h s0) in
  rel (any_meta (files s0)) (visible s0) (visible s) /\
  mans s = [] /\ oks (files s) /\ NoDup (keys (files s)).
Proof. exact crash_recover. Qed.
Print Assumptions C09_crash_recover.

(* The invariant behind it: in every state reachable by ANY number of interrupted jobs (each
   started on inputs no manifest tracked) - several orphaned manifests, torn and complete
   outputs, partially deleted inputs at once - manifest recovery alone yields a manifest-free
   state of readable files showing the reference rows modulo dedup. *)
Theorem C09_recover_any_pending :
  forall (compact : dmode -> list row -> list row),
  (forall b l, rel b l (compact (mode_of_bool b) l)) ->
  forall B V s, pendV compact B V s ->
  exists F, recover_all s = mkState F [] /\ quiet (mkState F []) /\ nometa B F /\ rel B V (vis F).
Proof. exact pend_recover. Qed.
Print Assumptions C09_recover_any_pending.

(* Whatever the crash point of a job started between jobs, manifest recovery alone restores
   either the files as they were or the files of the completed job, and removes every manifest. *)
Theorem C09_recover_any_prefix :
  forall (compact : dmode -> list row -> list row),
  (forall b l, rel b l (compact (mode_of_bool b) l)) ->
  forall s ins k, quiet s -> NoDup ins ->
  exists F, recover_all (run (firstn k (job_steps compact code_order ins s)) s) = mkState F [] /\
            (F = files s \/ F = files_done compact (fresh_path s) s ins).
Proof.
  intros compact Hc s ins k Q Hnd. rewrite job_steps_unfold.
  exact (recover_prefix compact (fresh_path s) (fresh_man s) s ins k Q (fresh_for_fresh s) Hnd).
Qed.
Print Assumptions C09_recover_any_prefix.

(* No input file disappears before the COMPLETE output is in place: at every crash point of
   a job, if one of its inputs is gone then the output path holds the full compacted file. *)
Theorem C09_no_early_delete :
  forall compact s ins k p,
  In p (present s ins) ->
  lookup p (files (run (firstn k (job_steps compact code_order ins s)) s)) = None ->
  lookup (fresh_path s) (files (run (firstn k (job_steps compact code_order ins s)) s)) =
    Some (job_output compact s (present s ins)).
Proof. exact no_early_delete. Qed.
Print Assumptions C09_no_early_delete.

(* ... and recovery deletes an input only next to an output of exactly the recorded size. *)
Theorem C09_recover_no_early_delete :
  forall mp m s p, In (SDel p) (recover_steps mp m s) ->
  p = m_out m \/
  (exists f, lookup (m_out m) (files s) = Some f /\ f_size f = m_size m /\ In p (m_inputs m)).
Proof. exact recover_no_early_delete. Qed.
Print Assumptions C09_recover_no_early_delete.

(* SplitCandidateIntoBatches neither loses nor duplicates a file (any length, any setting). *)
Theorem C09_split_partition :
  forall pr mx l, params_ok pr -> concat (split_batches pr mx l) = l.
Proof. exact split_batches_concat. Qed.
Print Assumptions C09_split_partition.

(* filterCandidateFiles keeps exactly the files no manifest mentions. *)
Theorem C09_filter_excludes_tracked :
  forall s l p, In p (filter_candidates s l) <-> In p l /\ ~ In p (tracked s).
Proof. exact filter_candidates_spec. Qed.
Print Assumptions C09_filter_excludes_tracked.

(* The former refutation witness (fixed by 5306c6c): four one-row files without dedup metadata,
   the job is killed after manifest write + upload (OKill 3) while the parent lives on.  The
   retry is skipped because the orphaned manifest tracks the batch (4 inputs + 1 output and
   1 manifest remain); the next cycle's recovery completes the job: one file, 4 rows, once. *)
Theorem C09_kill_after_upload_recovers :
  let s1 := cycle dedup_ref code_order wit_params wit_cfg true [OKill 3] wit_s0 in
  let s := cycle dedup_ref code_order wit_params wit_cfg true [] s1 in
  length (files s1) = 5 /\ length (mans s1) = 1 /\
  length (visible s) = 4 /\ mans s = [] /\ length (files s) = 1 /\
  relb false (visible wit_s0) (visible s) = true.
Proof. exact wit_final_rows. Qed.
Print Assumptions C09_kill_after_upload_recovers.

(* REFUTATION of the unguarded property - no crash point is needed, only a cycle that ends
   between two batches.  f1, f2 carry the full tag set and hold two rows that agree on host and
   time and differ in the other tag; f3, f4 carry arc:tags naming only part of the tag columns.
   Batch [f1,f2] is compacted - the output carries NO tag metadata - and the process stops.
   The next cycle compacts [f3,f4,output] with the UNION of the inputs' tag metadata, which is
   the partial set: the two rows collapse and a row with non-identical tag values is lost. *)
Theorem C09_partial_tags_refuted :
  let s1 := cycle dedup_ref code_order wit_params (mkConfig 2 2) true [ODone; OCrash 0] part_s0 in
  let s := cycle dedup_ref code_order wit_params (mkConfig 2 2) true [] s1 in
  visible s = [mkRow 3 3 12; mkRow 4 4 13; mkRow 1 1 10] /\
  ~ rel (any_meta (files part_s0)) (visible part_s0) (visible s).
Proof. exact partial_tags_lose_rows. Qed.
Print Assumptions C09_partial_tags_refuted.

(* The executable relation used by the correspondence oracle implies the specification. *)
Theorem C09_relb_sound : forall b l1 l2, relb b l1 l2 = true -> rel b l1 l2.
Proof. exact relb_sound. Qed.
Print Assumptions C09_relb_sound.

(* Non-vacuity.  The oracle hypothesis is satisfiable (the reference dedup meets it) ... *)
Theorem C09_oracle_hypothesis_satisfiable : forall b l, rel b l (dedup_ref (mode_of_bool b) l).
Proof. exact dedup_ref_spec. Qed.
Print Assumptions C09_oracle_hypothesis_satisfiable.

(* ... the witness state meets the hypotheses of C09_crash_recover, a history with a crash
   after the upload really recovers, and dedup really collapses rows. *)
Example C09_crash_recover_nonvacuous :
  NoDup (keys (files wit_s0)) /\ mans wit_s0 = [] /\
  let s := cycle dedup_ref code_order wit_params wit_cfg true []
             (lives dedup_ref wit_params wit_cfg [(true, [OCrash 4])] wit_s0) in
  length (files (lives dedup_ref wit_params wit_cfg [(true, [OCrash 4])] wit_s0)) = 4 /\
  length (files s) = 1 /\ relb false (visible wit_s0) (visible s) = true.
Proof.
  split; [repeat constructor; cbn; intuition discriminate|].
  split; [reflexivity|]. vm_compute. auto.
Qed.

Example C09_dedup_collapses :
  let f := mkFile [mkRow 1 1 10; mkRow 1 1 11; mkRow 2 2 12] true false false 4%N true in
  let s0 := mkState [(1%N, f); (2%N, f)] [] in
  visible (cycle dedup_ref code_order wit_params wit_cfg true [] s0) = [mkRow 1 1 10; mkRow 2 2 12].
Proof. vm_compute. reflexivity. Qed.
