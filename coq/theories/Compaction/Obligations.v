(* C09 obligations on the facts regenerated from /repo on every run
   (coq/gen/Params_Compaction.v, written by tools/props/C09.py with go/ast):
   the order of the durable mutations on the success path of Job.Run, the branch the
   manifest deletions sit in, the order inside recoverManifest, and the batch constants. *)
From Coq Require Import List NArith Bool Arith Lia Permutation.
From Arc Require Import Compaction.Model Compaction.Proofs.
From ArcGen Require Import Params_Compaction.
Import ListNotations.

Definition phase_eqb (a b : phase) : bool :=
  match a, b with
  | PhManifest, PhManifest | PhUpload, PhUpload
  | PhDeleteInputs, PhDeleteInputs | PhDeleteManifest, PhDeleteManifest => true
  | _, _ => false
  end.

Fixpoint index_of (p : phase) (l : list phase) : nat :=
  match l with
  | [] => 0
  | x :: r => if phase_eqb p x then 0 else S (index_of p r)
  end.

Definition order_okb (o : list phase) : bool :=
  (length o =? 4) &&
  (index_of PhManifest o <? index_of PhUpload o) &&            (* manifest written before the upload *)
  (index_of PhUpload o <? index_of PhDeleteInputs o) &&        (* inputs deleted only after the upload *)
  (index_of PhDeleteInputs o <? index_of PhDeleteManifest o) && (* manifest deleted last *)
  (index_of PhDeleteManifest o <? 4).                          (* ... and all four phases occur *)

Lemma order_ok_unique o : order_okb o = true -> o = code_order.
Proof.
  destruct o as [|a [|b [|c [|d [|e r]]]]]; try (cbn; discriminate).
  destruct a, b, c, d; vm_compute; intros H; first [reflexivity | discriminate H].
Qed.

(* The order the CURRENT source has: manifest before upload, inputs deleted after the upload,
   manifest deleted last and only on the branch where every input delete succeeded; a failed
   upload removes its manifest; recovery deletes inputs before the manifest. *)
Theorem C09_job_order_obligations :
  order_okb job_run_order = true /\
  manifest_delete_requires_all_inputs_deleted = true /\
  upload_failure_deletes_manifest = true /\
  recover_checks_output_before_deleting = true /\
  recover_deletes_inputs_before_manifest = true /\
  (* compactFilesAdaptively looks the batch up in the manifests (after dropping the cache)
     between the failed attempt and the retry on halves *)
  adaptive_retry_consults_manifests = true /\
  adaptive_retry_check_precedes_retry = true /\
  adaptive_retry_invalidates_cache_first = true /\
  params_ok code_params /\ p_min_batch code_params <= p_default_batch code_params <= p_max_allowed code_params.
Proof. vm_compute. repeat split; try reflexivity; try lia; repeat constructor. Qed.
Print Assumptions C09_job_order_obligations.

Lemma deployed_order : job_run_order = code_order.
Proof. apply order_ok_unique. apply C09_job_order_obligations. Qed.

(* The full-strength theorem for the mutation order and constants found in the source. *)
Theorem C09_deployed_crash_recover :
  forall (compact : dmode -> list row -> list row),
  (forall b l, rel b l (compact (mode_of_bool b) l)) ->
  forall cfg (h : list (bool * list outcome)) elig s0,
  NoDup (keys (files s0)) -> mans s0 = [] -> oks (files s0) ->
  (forall p f, In (p, f) (files s0) -> f_part f = false) ->
  let life := fold_left (fun s eo => cycle compact job_run_order code_params cfg (fst eo) (snd eo) s) h s0 in
  let s := cycle compact job_run_order code_params cfg elig [] life in
  rel (any_meta (files s0)) (visible s0) (visible s) /\ mans s = [] /\ oks (files s).
Proof.
  intros compact Hc cfg h elig s0 H1 H2 H3 H4. rewrite deployed_order.
  destruct (crash_recover compact Hc code_params cfg h elig s0 H1 H2 H3 H4) as [A [B [C _]]].
  split; [exact A|split; [exact B|exact C]].
Qed.
Print Assumptions C09_deployed_crash_recover.

(* The first obligation is necessary: with the upload BEFORE the manifest write, a crash
   between the two leaves a complete output next to all inputs and the next cycle compacts
   them together - every row twice. *)
Theorem C09_order_necessary :
  order_okb bad_order = false /\
  ~ rel false (visible wit_s0)
      (visible (cycle dedup_ref bad_order wit_params wit_cfg true []
                 (cycle dedup_ref bad_order wit_params wit_cfg true [OCrash 2] wit_s0))).
Proof. split; [reflexivity|exact order_necessary]. Qed.
Print Assumptions C09_order_necessary.
