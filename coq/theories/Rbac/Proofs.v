(* Proofs about the RBAC cache model (C20). *)
From Coq Require Import List ZArith NArith Bool Lia Arith.
From Arc Require Import Lib.AList Rbac.Model.
Import ListNotations.
Open Scope Z_scope.

(* ---- equality tests --------------------------------------------------------------------- *)
Lemma str_eqb_eq a : forall b, str_eqb a b = true -> a = b.
Proof.
  induction a as [|x a IH]; intros [|y b]; cbn; try discriminate; auto.
  intros H. apply andb_prop in H. destruct H as [H1 H2].
  apply N.eqb_eq in H1. subst. f_equal. auto.
Qed.

Lemma nlist_eqb_eq a : forall b, nlist_eqb a b = true -> a = b.
Proof.
  induction a as [|x a IH]; intros [|y b]; cbn; try discriminate; auto.
  intros H. apply andb_prop in H. destruct H as [H1 H2].
  apply N.eqb_eq in H1. subst. f_equal. auto.
Qed.

Lemma pkey_eqb_eq a b : pkey_eqb a b = true -> a = b.
Proof.
  destruct a as [t1 d1 m1 p1 i1], b as [t2 d2 m2 p2 i2]. unfold pkey_eqb; cbn.
  intros H. repeat (apply andb_prop in H; destruct H as [H ?]).
  apply N.eqb_eq in H. apply str_eqb_eq in H3. apply str_eqb_eq in H2. apply N.eqb_eq in H1. subst.
  destruct i1 as [[pa ea]|], i2 as [[pb eb]|]; try discriminate; [|reflexivity].
  apply andb_prop in H0. destruct H0 as [Ha Hb]. apply nlist_eqb_eq in Ha. apply Bool.eqb_prop in Hb. subst. reflexivity.
Qed.

Lemma lookup_In_gen {K V} (eqb : K -> K -> bool) (Heq : forall a b, eqb a b = true -> a = b) k (l : list (K * V)) v :
  lookup eqb k l = Some v -> In (k, v) l.
Proof.
  induction l as [|[k' v'] r IH]; cbn; [discriminate|].
  destruct (eqb k k') eqn:E.
  - intros H; inversion H; subst. apply Heq in E. subst. auto.
  - intros H; right; auto.
Qed.

Lemma In_remove_gen {K V} (eqb : K -> K -> bool) k (l : list (K * V)) x : In x (remove eqb k l) -> In x l.
Proof.
  induction l as [|[k' v] r IH]; cbn; [tauto|].
  destruct (eqb k k'); cbn; intuition.
Qed.

Lemma In_insert_gen {K V} (eqb : K -> K -> bool) k v (l : list (K * V)) x :
  In x (insert eqb k v l) -> x = (k, v) \/ In x l.
Proof. unfold insert. cbn. intros [H|H]; [left; auto|right; eapply In_remove_gen; eauto]. Qed.

Lemma N_eqb_true a b : N.eqb a b = true -> a = b.
Proof. apply N.eqb_eq. Qed.

Lemma mem_In x l : mem x l = true <-> In x l.
Proof.
  unfold mem. rewrite existsb_exists. split.
  - intros (y & Hy & He). apply N.eqb_eq in He. subst. exact Hy.
  - intros H. exists x. split; [exact H|apply N.eqb_refl].
Qed.

(* ---- what [load] depends on --------------------------------------------------------------- *)
(* the teams / roles / measurement permissions and the memberships of THIS token *)
Definition my_members (d : dbs) (tid : N) : list member := filter (fun m => N.eqb (mb_token m) tid) (d_members d).

Lemma existsb_member_filter tid t l :
  existsb (fun m => N.eqb (mb_token m) tid && N.eqb (mb_team m) t) l =
  existsb (fun m => N.eqb (mb_token m) tid && N.eqb (mb_team m) t) (filter (fun m => N.eqb (mb_token m) tid) l).
Proof.
  induction l as [|m r IH]; cbn; [reflexivity|].
  destruct (N.eqb (mb_token m) tid) eqn:E; cbn; rewrite ?E; cbn; rewrite IH; reflexivity.
Qed.

Lemma load_ext d d' tid :
  d_teams d' = d_teams d -> d_roles d' = d_roles d -> d_mperms d' = d_mperms d ->
  my_members d' tid = my_members d tid -> load d' tid = load d tid.
Proof.
  intros Ht Hr Hm Hmb. unfold load. rewrite Ht, Hr, Hm.
  assert (E : filter (fun t => existsb (fun m => N.eqb (mb_token m) tid && N.eqb (mb_team m) (tm_id t)) (d_members d')) (d_teams d) =
              filter (fun t => existsb (fun m => N.eqb (mb_token m) tid && N.eqb (mb_team m) (tm_id t)) (d_members d)) (d_teams d)).
  { apply filter_ext. intros t. rewrite existsb_member_filter. rewrite (existsb_member_filter tid (tm_id t) (d_members d)).
    unfold my_members in Hmb. rewrite Hmb. reflexivity. }
  rewrite E. reflexivity.
Qed.

(* a new team nobody is a member of does not change anybody's data *)
Lemma filter_app_nil {A} (f : A -> bool) l x : f x = false -> filter f (l ++ [x]) = filter f l.
Proof. intros H. rewrite filter_app. cbn. rewrite H. apply app_nil_r. Qed.

Lemma load_new_team d tid t :
  (forall m, In m (d_members d) -> mb_team m <> tm_id t) ->
  load {| d_tokens := d_tokens d; d_orgs := d_orgs d; d_teams := d_teams d ++ [t]; d_roles := d_roles d;
          d_mperms := d_mperms d; d_members := d_members d;
          n_token := n_token d; n_org := n_org d; n_team := N.succ (tm_id t); n_role := n_role d; n_mperm := n_mperm d |} tid
  = load d tid.
Proof.
  intros H. unfold load; cbn.
  rewrite filter_app_nil; [reflexivity|].
  apply not_true_is_false. intros Hx. apply existsb_exists in Hx. destruct Hx as (m & Hm & Hb).
  apply andb_prop in Hb. destruct Hb as [_ Hb]. apply N.eqb_eq in Hb. exact (H m Hm Hb).
Qed.

(* ---- database well-formedness needed for CreateTeam ---------------------------------------- *)
Definition wf (d : dbs) : Prop :=
  (forall t, In t (d_teams d) -> (tm_id t < n_team d)%N) /\
  (forall m, In m (d_members d) -> (mb_team m < n_team d)%N).

Lemma wf_empty : wf empty_db.
Proof. split; cbn; tauto. Qed.

Ltac dcond := match goal with
              | H : context [if ?b then _ else _] |- _ => let E := fresh "E" in destruct b eqn:E
              end.

Lemma apply_fail m d d' id : apply_mut m d = (d', false, id) -> d' = d.
Proof.
  destruct m; cbn; intros H; repeat dcond; try (inversion H; subst; reflexivity); try discriminate.
  all: destruct pat; destruct perms; repeat dcond; inversion H; subst; reflexivity.
Qed.

Lemma in_cascade_teams d teams roles members t : In t (d_teams (cascade d teams roles members)) -> In t teams.
Proof. cbn. auto. Qed.

Lemma wf_apply m d d' ok id : wf d -> apply_mut m d = (d', ok, id) -> wf d'.
Proof.
  intros [W1 W2] H.
  destruct ok; [|apply apply_fail in H; subst; split; assumption].
  destruct m; cbn in H; repeat dcond; try discriminate.
  all: try (destruct pat; destruct perms; repeat dcond; try discriminate).
  all: inversion H; subst; clear H; split; cbn [d_teams d_members n_team cascade upd_db]; try assumption.
  all: try (intros x Hx; repeat (apply filter_In in Hx; destruct Hx as [Hx ?]); auto; fail).
  - (* CreateTeam: teams *)
    intros t Ht. apply in_app_or in Ht. destruct Ht as [Ht|[<-|[]]]; [specialize (W1 _ Ht)|cbn]; lia.
  - (* CreateTeam: members *) intros m Hm. specialize (W2 _ Hm). lia.
  - (* UpdateTeam *)
    intros t Ht. apply in_map_iff in Ht. destruct Ht as (t0 & <- & Ht0).
    destruct (N.eqb (tm_id t0) id0) eqn:Eid; [apply N.eqb_eq in Eid; subst; cbn|]; apply W1; exact Ht0.
  - (* AddMember *)
    intros m Hm. apply in_app_or in Hm. destruct Hm as [Hm|[<-|[]]]; [auto|]. cbn.
    apply andb_prop in E. destruct E as [E _]. apply andb_prop in E. destruct E as [E _].
    apply mem_In in E. apply in_map_iff in E. destruct E as (t0 & <- & Ht0). auto.
Qed.

(* ---- coherence invariant --------------------------------------------------------------------- *)
Section Coherence.
  Variable c : cfg.
  Variable tiof : N -> tinfo.     (* used only when the cache key ignores TokenInfo: the TokenInfo of each token id *)

  Definition ti_ok (ti : tinfo) : Prop := c_key_ti c = true \/ ti = tiof (ti_id ti).

  Definition key_ti (k : pkey) : tinfo :=
    match k_ti k with
    | Some (p, e) => {| ti_id := k_tid k; ti_perms := p; ti_enabled := e |}
    | None => tiof (k_tid k)
    end.
  Definition key_q (k : pkey) : query := {| q_db := k_db k; q_meas := k_meas k; q_perm := k_perm k |}.

  Lemma key_ti_mk ti q : ti_ok ti -> key_ti (mk_key c ti q) = ti.
  Proof.
    unfold key_ti, mk_key; cbn. intros [H|H].
    - rewrite H. destruct ti; reflexivity.
    - destruct (c_key_ti c); [destruct ti; reflexivity|symmetry; exact H].
  Qed.

  Lemma key_q_mk ti q : key_q (mk_key c ti q) = q.
  Proof. destruct q; reflexivity. Qed.

  Definition Inv (dead : list N) (s : st) : Prop :=
    wf (s_db s) /\
    (forall tid data at_, In (tid, (data, at_)) (s_tok s) -> ~ In tid dead -> data = load (s_db s) tid) /\
    (forall k dec exp, In (k, (dec, exp)) (s_perm s) -> ~ In (k_tid k) dead ->
                       dec = decide_with (load (s_db s) (k_tid k)) (key_ti k) (key_q k)).

  Lemma get_tokdata_ok dead s tid :
    Inv dead s -> ~ In tid dead ->
    fst (get_tokdata c s tid) = load (s_db s) tid /\
    s_db (snd (get_tokdata c s tid)) = s_db s /\ s_now (snd (get_tokdata c s tid)) = s_now s /\
    Inv dead (snd (get_tokdata c s tid)).
  Proof.
    intros (W & Ht & Hp) Hd. unfold get_tokdata.
    assert (Hins : Inv dead {| s_db := s_db s; s_now := s_now s; s_perm := s_perm s;
                               s_tok := insert N.eqb tid (load (s_db s) tid, s_now s) (s_tok s) |}).
    { split; [exact W|]. split; cbn; [|exact Hp].
      intros t data a Hin Hnd. apply In_insert_gen in Hin. destruct Hin as [Hin|Hin].
      - inversion Hin; subst. reflexivity.
      - eapply Ht; eauto. }
    destruct (lookup N.eqb tid (s_tok s)) as [[data a]|] eqn:El.
    - destruct (s_now s - a <? c_ttl c).
      + cbn. apply (lookup_In_gen N.eqb N_eqb_true) in El.
        split; [eapply Ht; eauto|]. split; [reflexivity|]. split; [reflexivity|]. split; [exact W|split; assumption].
      + cbn. split; [reflexivity|]. split; [reflexivity|]. split; [reflexivity|exact Hins].
    - cbn. split; [reflexivity|]. split; [reflexivity|]. split; [reflexivity|exact Hins].
  Qed.

  Lemma check_with_ok dead s data ti q :
    Inv dead s -> data = load (s_db s) (ti_id ti) -> ti_ok ti -> ~ In (ti_id ti) dead ->
    fst (check_with c s data ti q) = decide_with (load (s_db s) (ti_id ti)) ti q /\
    s_db (snd (check_with c s data ti q)) = s_db s /\ s_now (snd (check_with c s data ti q)) = s_now s /\
    Inv dead (snd (check_with c s data ti q)).
  Proof.
    intros (W & Ht & Hp) Hdata Hok Hd. unfold check_with. subst data.
    set (k := mk_key c ti q).
    assert (Hins : forall x, Inv dead {| s_db := s_db s; s_now := s_now s;
                               s_perm := insert pkey_eqb k (decide_with (load (s_db s) (ti_id ti)) ti q, x) (s_perm s);
                               s_tok := s_tok s |}).
    { intros x. split; [exact W|]. split; cbn; [exact Ht|].
      intros k0 dec e Hin Hnd. apply In_insert_gen in Hin. destruct Hin as [Hin|Hin].
      - inversion Hin; subst. unfold k. rewrite key_ti_mk by exact Hok. rewrite key_q_mk. reflexivity.
      - eapply Hp; eauto. }
    destruct (lookup pkey_eqb k (s_perm s)) as [[dec e]|] eqn:El.
    - destruct (s_now s <? e).
      + cbn. apply (lookup_In_gen pkey_eqb pkey_eqb_eq) in El.
        split; [|split; [reflexivity|split; [reflexivity|split; [exact W|split; assumption]]]].
        rewrite (Hp _ _ _ El Hd). unfold k. rewrite key_ti_mk by exact Hok. rewrite key_q_mk. reflexivity.
      + cbn. split; [reflexivity|]. split; [reflexivity|]. split; [reflexivity|apply Hins].
    - cbn. split; [reflexivity|]. split; [reflexivity|]. split; [reflexivity|apply Hins].
  Qed.

  Definition req_ok (dead : list N) (ti : option tinfo) : Prop :=
    match ti with Some t => ti_ok t /\ ~ In (ti_id t) dead | None => True end.

  Lemma check_ok dead s ti q :
    Inv dead s -> req_ok dead ti ->
    fst (check c s ti q) = uncached (c_enabled c) (s_db s) ti q /\
    s_db (snd (check c s ti q)) = s_db s /\ Inv dead (snd (check c s ti q)).
  Proof.
    intros HI Hr. unfold check, uncached. destruct ti as [ti|]; [|cbn; split; [reflexivity|split; [reflexivity|exact HI]]].
    destruct Hr as [Hok Hd]. destruct (c_enabled c); cbn [negb]; [|cbn; split; [reflexivity|split; [reflexivity|exact HI]]].
    destruct (perm_hit c s ti q) as [dec|] eqn:Eh.
    - cbn. split; [|split; [reflexivity|exact HI]]. unfold perm_hit in Eh.
      destruct (lookup pkey_eqb (mk_key c ti q) (s_perm s)) as [[dec0 e]|] eqn:El; [|discriminate].
      destruct (s_now s <? e); [|discriminate]. inversion Eh; subst.
      apply (lookup_In_gen pkey_eqb pkey_eqb_eq) in El. destruct HI as (_ & _ & Hp).
      rewrite (Hp _ _ _ El Hd). rewrite key_ti_mk by exact Hok. rewrite key_q_mk. reflexivity.
    - destruct (get_tokdata_ok dead s (ti_id ti) HI Hd) as (H1 & H2 & H3 & H4).
      destruct (get_tokdata c s (ti_id ti)) as [data s1]. cbn in *.
      assert (Hdata : data = load (s_db s1) (ti_id ti)) by (rewrite H2; exact H1).
      destruct (check_with_ok dead s1 data ti q H4 Hdata Hok Hd) as (G1 & G2 & G3 & G4).
      rewrite G1, G2, H2. split; [reflexivity|split; [reflexivity|exact G4]].
  Qed.

  (* ---- batch ---------------------------------------------------------------------------- *)
  Definition nreq := (nat * option tinfo * query)%type.
  Definition nreq_ok (dead : list N) (r : nreq) : Prop := req_ok dead (snd (fst r)).
  Definition out_ok (d : dbs) (reqs : list nreq) (o : nat * decision) : Prop :=
    exists ti q, In (fst o, Some ti, q) reqs /\ snd o = decide_with (load d (ti_id ti)) ti q.

  Lemma batch_group_ok dead data tid : forall reqs s all,
    Inv dead s -> data = load (s_db s) tid -> Forall (nreq_ok dead) reqs -> incl reqs all ->
    let r := batch_group c s data tid reqs in
    s_db (snd r) = s_db s /\ Inv dead (snd r) /\
    Forall (out_ok (s_db s) all) (fst r) /\
    (forall i ti q, In (i, Some ti, q) reqs -> ti_id ti = tid -> exists dec, In (i, dec) (fst r)).
  Proof.
    induction reqs as [|[[i oti] q] r IH]; intros s all HI Hdata Hf Hincl; cbn.
    - split; [reflexivity|]. split; [exact HI|]. split; [constructor|]. intros i ti q [].
    - apply Forall_cons_iff in Hf. destruct Hf as [Hr Hf'].
      assert (Hincl' : incl r all) by (intros x Hx; apply Hincl; right; exact Hx).
      destruct oti as [ti|].
      + destruct (N.eqb (ti_id ti) tid) eqn:Et.
        * apply N.eqb_eq in Et. destruct Hr as [Hok Hd]. cbn in Hok, Hd.
          assert (Hdata' : data = load (s_db s) (ti_id ti)) by (rewrite Et; exact Hdata).
          destruct (check_with_ok dead s data ti q HI Hdata' Hok Hd) as (G1 & G2 & G3 & G4).
          destruct (check_with c s data ti q) as [dec s1]. cbn in *.
          assert (Hd1 : data = load (s_db s1) tid) by (rewrite G2; exact Hdata).
          specialize (IH s1 all G4 Hd1 Hf' Hincl').
          destruct (batch_group c s1 data tid r) as [out s2]. cbn in *.
          destruct IH as (I1 & I2 & I3 & I4). rewrite G2 in *.
          split; [exact I1|]. split; [exact I2|]. split.
          -- constructor; [|exact I3]. exists ti, q. split; [apply Hincl; left; reflexivity|cbn; exact G1].
          -- intros j tj qj [Hin|Hin] Hj.
             ++ injection Hin as E1 E2 E3. rewrite <- E1. exists dec. left; reflexivity.
             ++ destruct (I4 _ _ _ Hin Hj) as [dj Hdj]. exists dj. right; exact Hdj.
        * specialize (IH s all HI Hdata Hf' Hincl'). cbn in IH. destruct IH as (I1 & I2 & I3 & I4).
          split; [exact I1|]. split; [exact I2|]. split; [exact I3|]. intros j tj qj [Hin|Hin] Hj.
          -- injection Hin as E1 E2 E3. rewrite <- E2 in Hj. rewrite Hj in Et. rewrite N.eqb_refl in Et. discriminate.
          -- eauto.
      + specialize (IH s all HI Hdata Hf' Hincl'). cbn in IH. destruct IH as (I1 & I2 & I3 & I4).
        split; [exact I1|]. split; [exact I2|]. split; [exact I3|]. intros j tj qj [Hin|Hin] Hj; [discriminate|eauto].
  Qed.

  Lemma batch_run_ok dead reqs : forall tids s,
    Inv dead s -> Forall (nreq_ok dead) reqs -> (forall t, In t tids -> ~ In t dead) ->
    let r := batch_run c s tids reqs in
    s_db (snd r) = s_db s /\ Inv dead (snd r) /\
    Forall (out_ok (s_db s) reqs) (fst r) /\
    (forall i ti q, In (i, Some ti, q) reqs -> In (ti_id ti) tids -> exists dec, In (i, dec) (fst r)).
  Proof.
    induction tids as [|tid r IH]; intros s HI Hf Hnd; cbn.
    - split; [reflexivity|]. split; [exact HI|]. split; [constructor|]. intros i ti q _ [].
    - assert (Hd : ~ In tid dead) by (apply Hnd; left; reflexivity).
      destruct (get_tokdata_ok dead s tid HI Hd) as (H1 & H2 & H3 & H4).
      destruct (get_tokdata c s tid) as [data s1]. cbn in *.
      assert (Hdata : data = load (s_db s1) tid) by (rewrite H2; exact H1).
      pose proof (batch_group_ok dead data tid reqs s1 reqs H4 Hdata Hf (incl_refl _)) as G. cbn in G.
      destruct (batch_group c s1 data tid reqs) as [o1 s2]. cbn in *.
      destruct G as (G1 & G2 & G3 & G4).
      assert (Hnd' : forall t, In t r -> ~ In t dead) by (intros t Ht; apply Hnd; right; exact Ht).
      specialize (IH s2 G2 Hf Hnd'). destruct (batch_run c s2 r reqs) as [o2 s3]. cbn in *.
      destruct IH as (I1 & I2 & I3 & I4).
      rewrite G1, H2 in *. split; [exact I1|]. split; [exact I2|]. split.
      + apply Forall_app. split; assumption.
      + intros i ti q Hin [Ht|Ht].
        * destruct (G4 _ _ _ Hin (eq_sym Ht)) as [dec Hdec]. exists dec. apply in_or_app. left; exact Hdec.
        * destruct (I4 _ _ _ Hin Ht) as [dec Hdec]. exists dec. apply in_or_app. right; exact Hdec.
  Qed.

  Lemma batch_tokens_cover : forall (reqs : list nreq) seen i ti q,
    In (i, Some ti, q) reqs -> In (ti_id ti) (batch_tokens reqs seen) \/ In (ti_id ti) seen.
  Proof.
    induction reqs as [|[[j otj] qj] r IH]; intros seen i ti q Hin; [destruct Hin|].
    destruct Hin as [Hin|Hin].
    - inversion Hin; subst. cbn. destruct (mem (ti_id ti) seen) eqn:Em.
      + right. apply mem_In. exact Em.
      + left. left. reflexivity.
    - cbn. destruct otj as [tj|].
      + destruct (mem (ti_id tj) seen) eqn:Em.
        * eapply IH; eauto.
        * destruct (IH (ti_id tj :: seen) _ _ _ Hin) as [H|[H|H]].
          -- left. right. exact H.
          -- left. left. exact H.
          -- right. exact H.
      + eapply IH; eauto.
  Qed.

  Lemma batch_tokens_from : forall (reqs : list nreq) seen t,
    In t (batch_tokens reqs seen) -> exists i ti q, In (i, Some ti, q) reqs /\ ti_id ti = t.
  Proof.
    induction reqs as [|[[j otj] qj] r IH]; intros seen t Hin; [destruct Hin|]. cbn in Hin.
    destruct otj as [tj|].
    - destruct (mem (ti_id tj) seen).
      + destruct (IH _ _ Hin) as (i & ti & q & H1 & H2). exists i, ti, q. split; [right; exact H1|exact H2].
      + destruct Hin as [Hin|Hin].
        * exists j, tj, qj. split; [left; reflexivity|exact Hin].
        * destruct (IH _ _ Hin) as (i & ti & q & H1 & H2). exists i, ti, q. split; [right; exact H1|exact H2].
    - destruct (IH _ _ Hin) as (i & ti & q & H1 & H2). exists i, ti, q. split; [right; exact H1|exact H2].
  Qed.

  Lemma number_In {A} : forall (l : list A) n i x, In (i, x) (number n l) -> (n <= i)%nat /\ nth_error l (i - n) = Some x.
  Proof.
    induction l as [|a r IH]; intros n i x Hin; [destruct Hin|]. cbn in Hin. destruct Hin as [Hin|Hin].
    - inversion Hin; subst. split; [lia|]. rewrite Nat.sub_diag. reflexivity.
    - destruct (IH _ _ _ Hin) as [H1 H2]. split; [lia|].
      replace (i - n)%nat with (S (i - S n)) by lia. exact H2.
  Qed.

  Lemma number_fun {A} (l : list A) n i x y : In (i, x) (number n l) -> In (i, y) (number n l) -> x = y.
  Proof.
    intros H1 H2. apply number_In in H1. apply number_In in H2. destruct H1 as [_ H1], H2 as [_ H2]. congruence.
  Qed.

  Lemma nat_lookup_In {A} : forall (l : list (nat * A)) i x, nat_lookup i l = Some x -> In (i, x) l.
  Proof.
    induction l as [|[j y] r IH]; intros i x H; cbn in H; [discriminate|].
    destruct (Nat.eqb i j) eqn:E.
    - apply Nat.eqb_eq in E. inversion H; subst. left; reflexivity.
    - right. auto.
  Qed.

  Lemma nat_lookup_some {A} : forall (l : list (nat * A)) i x, In (i, x) l -> exists y, nat_lookup i l = Some y.
  Proof.
    induction l as [|[j y] r IH]; intros i x H; [destruct H|]. cbn.
    destruct (Nat.eqb i j) eqn:E; [eexists; reflexivity|].
    destruct H as [H|H]; [inversion H; subst; rewrite Nat.eqb_refl in E; discriminate|eauto].
  Qed.

  Lemma map_ext_in_number {A B} (f g : nat * A -> B) (l : list A) n :
    (forall i x, In (i, x) (number n l) -> f (i, x) = g (i, x)) -> map f (number n l) = map g (number n l).
  Proof. intros H. apply map_ext_in. intros [i x] Hin. apply H. exact Hin. Qed.

  Lemma map_number_snd {A B} (g : A -> B) : forall (l : list A) n, map (fun x => g (snd x)) (number n l) = map g l.
  Proof. induction l as [|a r IH]; intros n; cbn; [reflexivity|]. rewrite IH. reflexivity. Qed.

  Lemma check_batch_ok dead s reqs :
    Inv dead s -> Forall (fun r => req_ok dead (fst r)) reqs ->
    fst (check_batch c s reqs) = map (fun r => uncached (c_enabled c) (s_db s) (fst r) (snd r)) reqs /\
    s_db (snd (check_batch c s reqs)) = s_db s /\ Inv dead (snd (check_batch c s reqs)).
  Proof.
    intros HI Hf. unfold check_batch. destruct (c_enabled c) eqn:Een; cbn [negb].
    2:{ cbn. split; [|split; [reflexivity|exact HI]]. apply map_ext. intros [[ti|] q]; reflexivity. }
    set (nreqs := map (fun x : nat * (option tinfo * query) => (fst x, fst (snd x), snd (snd x))) (number 0 reqs)).
    assert (Hnf : Forall (nreq_ok dead) nreqs).
    { apply Forall_forall. intros [[i oti] q] Hin. unfold nreqs in Hin. apply in_map_iff in Hin.
      destruct Hin as ([j [oti' q']] & Heq & Hin). cbn in Heq. inversion Heq; subst.
      apply number_In in Hin. destruct Hin as [_ Hin]. apply nth_error_In in Hin.
      rewrite Forall_forall in Hf. exact (Hf _ Hin). }
    assert (Hnd : forall t, In t (batch_tokens nreqs []) -> ~ In t dead).
    { intros t Ht. apply batch_tokens_from in Ht. destruct Ht as (i & ti & q & Hin & <-).
      rewrite Forall_forall in Hnf. specialize (Hnf _ Hin). cbn in Hnf. tauto. }
    pose proof (batch_run_ok dead nreqs (batch_tokens nreqs []) s HI Hnf Hnd) as G. cbn in G.
    destruct (batch_run c s (batch_tokens nreqs []) nreqs) as [outs s1]. cbn in *.
    destruct G as (G1 & G2 & G3 & G4). split; [|split; assumption].
    rewrite <- (map_number_snd (fun r => uncached true (s_db s) (fst r) (snd r)) reqs 0).
    apply map_ext_in_number. intros i [oti q] Hin. cbn [fst snd].
    assert (Hnin : In (i, oti, q) nreqs).
    { unfold nreqs. apply in_map_iff. exists (i, (oti, q)). split; [reflexivity|exact Hin]. }
    assert (Huniq : forall oti' q', In (i, oti', q') nreqs -> oti' = oti /\ q' = q).
    { intros oti' q' H'. unfold nreqs in H'. apply in_map_iff in H'. destruct H' as ([j [o2 q2]] & Heq & H').
      cbn in Heq. inversion Heq; subst. pose proof (number_fun _ _ _ _ _ H' Hin) as E. inversion E. auto. }
    destruct oti as [ti|].
    - destruct (batch_tokens_cover nreqs [] i ti q Hnin) as [Hc|[]].
      destruct (G4 _ _ _ Hnin Hc) as [dec Hdec].
      destruct (nat_lookup_some _ _ _ Hdec) as [y Hy]. rewrite Hy.
      apply nat_lookup_In in Hy. rewrite Forall_forall in G3. destruct (G3 _ Hy) as (ti' & q' & Hin' & Hval).
      cbn in Hin', Hval. destruct (Huniq _ _ Hin') as [E1 E2]. injection E1 as E1.
      rewrite E1, E2 in Hval. unfold uncached. exact Hval.
    - destruct (nat_lookup i outs) as [y|] eqn:Ey; [|reflexivity].
      apply nat_lookup_In in Ey. rewrite Forall_forall in G3. destruct (G3 _ Ey) as (ti' & q' & Hin' & _).
      cbn in Hin'. destruct (Huniq _ _ Hin') as [E1 _]. discriminate.
  Qed.

  (* ---- mutations --------------------------------------------------------------------------- *)
  Definition dead_after (m : mutation) (dead : list N) : list N :=
    match m with DeleteToken id => id :: dead | _ => dead end.

  Lemma do_inval_db i tok s : s_db (do_inval i tok s) = s_db s.
  Proof. destruct i; reflexivity. Qed.

  (* removing entries keeps the invariant *)
  Lemma Inv_do_inval dead i tok s : Inv dead s -> Inv dead (do_inval i tok s).
  Proof.
    intros (W & Ht & Hp). destruct i; cbn; [split; auto| |].
    - split; [exact W|]. split; cbn; intros; contradiction.
    - split; [exact W|]. split; cbn.
      + intros t data a Hin. apply In_remove_gen in Hin. eauto.
      + intros k dec e Hin. apply filter_In in Hin. destruct Hin as [Hin _]. eauto.
  Qed.

  (* the database changed but nobody's (live) token data did *)
  Lemma Inv_same_load dead dead' s d' :
    Inv dead s -> wf d' -> (forall t, ~ In t dead' -> ~ In t dead /\ load d' t = load (s_db s) t) ->
    Inv dead' {| s_db := d'; s_now := s_now s; s_perm := s_perm s; s_tok := s_tok s |}.
  Proof.
    intros (W & Ht & Hp) W' Hl. split; [exact W'|]. split; cbn.
    - intros t data a Hin Hnd. destruct (Hl t Hnd) as [H1 H2]. rewrite H2. eauto.
    - intros k dec e Hin Hnd. destruct (Hl _ Hnd) as [H1 H2]. rewrite H2. eauto.
  Qed.

  (* ... except, possibly, the data of token [tok], whose entries are dropped *)
  Lemma Inv_token_inval dead s d' tok :
    Inv dead s -> wf d' -> (forall t, t <> tok -> load d' t = load (s_db s) t) ->
    Inv dead (do_inval IToken tok {| s_db := d'; s_now := s_now s; s_perm := s_perm s; s_tok := s_tok s |}).
  Proof.
    intros (W & Ht & Hp) W' Hl. split; [exact W'|]. split; cbn.
    - intros t data a Hin Hnd.
      destruct (N.eq_dec t tok) as [->|Hne].
      + exfalso. revert Hin. clear. induction (s_tok s) as [|[k v] r IH]; cbn; [tauto|].
        destruct (N.eqb tok k) eqn:E; [exact IH|]. cbn. intros [H|H]; [|auto].
        inversion H; subst. rewrite N.eqb_refl in E. discriminate.
      + apply In_remove_gen in Hin. rewrite (Hl _ Hne). eauto.
    - intros k dec e Hin Hnd. apply filter_In in Hin. destruct Hin as [Hin Hf]. cbn in Hf.
      apply negb_true_iff in Hf. apply N.eqb_neq in Hf. rewrite (Hl _ Hf). eauto.
  Qed.

  Lemma Inv_all_inval dead s d' :
    wf d' -> Inv dead (do_inval IAll 0%N {| s_db := d'; s_now := s_now s; s_perm := s_perm s; s_tok := s_tok s |}).
  Proof. intros W. split; [exact W|]. split; cbn; intros; contradiction. Qed.

  Lemma my_members_add_other d tok t tid :
    tid <> tok -> filter (fun m => N.eqb (mb_token m) tid) (d_members d ++ [{| mb_token := tok; mb_team := t |}]) = my_members d tid.
  Proof.
    intros Hne. rewrite filter_app. cbn. destruct (N.eqb tok tid) eqn:E; [apply N.eqb_eq in E; congruence|]. apply app_nil_r.
  Qed.

  Lemma my_members_filter_other (f : member -> bool) d tid :
    (forall m, mb_token m = tid -> f m = true) ->
    filter (fun m => N.eqb (mb_token m) tid) (filter f (d_members d)) = my_members d tid.
  Proof.
    intros H. unfold my_members. induction (d_members d) as [|m r IH]; cbn; [reflexivity|].
    destruct (f m) eqn:Ef; cbn.
    - destruct (N.eqb (mb_token m) tid); rewrite IH; reflexivity.
    - destruct (N.eqb (mb_token m) tid) eqn:E; [apply N.eqb_eq in E; rewrite (H m E) in Ef; discriminate|exact IH].
  Qed.

  Lemma mutate_ok dead s m :
    Inv dead s -> covers (c_inval c (kind_of m)) (need_of (kind_of m)) = true ->
    let '(d', ok, id) := apply_mut m (s_db s) in
    fst (mutate c s m) = (ok, id) /\ s_db (snd (mutate c s m)) = d' /\ Inv (dead_after m dead) (snd (mutate c s m)).
  Proof.
    intros HI Hcov. pose proof HI as (W & Ht & Hp).
    destruct (apply_mut m (s_db s)) as [[d' ok] id] eqn:Ea.
    pose proof (wf_apply _ _ _ _ _ W Ea) as W'.
    assert (Hdead : forall t, ~ In t (dead_after m dead) -> ~ In t dead).
    { intros t H Hin. apply H. destruct m; cbn; auto. }
    assert (Hweak : forall s0, Inv dead s0 -> Inv (dead_after m dead) s0).
    { intros s0 (A & B & C). split; [exact A|]. split; intros; [eapply B|eapply C]; eauto. }
    unfold mutate. rewrite Ea.
    destruct ok.
    2:{ (* failed: nothing written *)
      pose proof (apply_fail _ _ _ _ Ea) as ->.
      assert (Hs : Inv (dead_after m dead) {| s_db := s_db s; s_now := s_now s; s_perm := s_perm s; s_tok := s_tok s |}).
      { apply Hweak. destruct s; exact HI. }
      destruct m; cbn; try (split; [reflexivity|split; [reflexivity|exact Hs]]; fail).
      destruct pat; destruct perms; cbn; (split; [reflexivity|split; [reflexivity|exact Hs]]). }
    destruct m; cbn [kind_of need_of mut_token] in *.
    - (* CreateOrg *) cbn in Ea. inversion Ea; subst; clear Ea. cbn. split; [reflexivity|]. split; [apply do_inval_db|].
      apply Inv_do_inval. apply (Inv_same_load dead); auto; intros t Hn; (split; [auto|]); apply load_ext; reflexivity.
    - (* UpdateOrg *) cbn in Ea. dcond; [|discriminate]. inversion Ea; subst; clear Ea. cbn. split; [reflexivity|]. split; [apply do_inval_db|].
      apply Inv_do_inval. apply (Inv_same_load dead); auto; intros t Hn; (split; [auto|]); apply load_ext; reflexivity.
    - (* DeleteOrg *) destruct (c_inval c KDeleteOrg); try discriminate. cbn. (split; [reflexivity|]). (split; [reflexivity|]). (first [apply Inv_all_inval; exact W' | split; [exact W'|split; cbn; intros; contradiction]]).
    - (* RealignOrg *) destruct (c_inval c KRealignOrg); try discriminate. cbn. (split; [reflexivity|]). (split; [reflexivity|]). (first [apply Inv_all_inval; exact W' | split; [exact W'|split; cbn; intros; contradiction]]).
    - (* CreateTeam *) cbn in Ea. dcond; [|discriminate]. inversion Ea; subst; clear Ea. cbn. split; [reflexivity|]. split; [apply do_inval_db|].
      apply Inv_do_inval. apply (Inv_same_load dead); [exact HI|exact W'|]. intros t Hn. split; [auto|].
      apply (load_new_team (s_db s) t {| tm_id := n_team (s_db s); tm_org := o; tm_enabled := true |}).
      intros mb Hmb. cbn. destruct W as [_ W2]. specialize (W2 _ Hmb). lia.
    - (* UpdateTeam *) destruct (c_inval c KUpdateTeam); try discriminate. cbn. (split; [reflexivity|]). (split; [reflexivity|]). (first [apply Inv_all_inval; exact W' | split; [exact W'|split; cbn; intros; contradiction]]).
    - (* DeleteTeam *) destruct (c_inval c KDeleteTeam); try discriminate. cbn. (split; [reflexivity|]). (split; [reflexivity|]). (first [apply Inv_all_inval; exact W' | split; [exact W'|split; cbn; intros; contradiction]]).
    - (* CreateRole *) destruct (c_inval c KCreateRole); try discriminate. cbn. (split; [reflexivity|]). (split; [reflexivity|]). (first [apply Inv_all_inval; exact W' | split; [exact W'|split; cbn; intros; contradiction]]).
    - (* UpdateRole *)
      destruct pat as [p|]; destruct perms as [|x xs].
      1,2,4: destruct (c_inval c KUpdateRole); try discriminate; cbn; (split; [reflexivity|]); (split; [reflexivity|]); (split; [exact W'|split; cbn; intros; contradiction]).
      cbn in Ea. inversion Ea; subst; clear Ea. cbn. split; [reflexivity|]. split; [reflexivity|]. apply Hweak. destruct s; exact HI.
    - (* DeleteRole *) destruct (c_inval c KDeleteRole); try discriminate. cbn. (split; [reflexivity|]). (split; [reflexivity|]). (first [apply Inv_all_inval; exact W' | split; [exact W'|split; cbn; intros; contradiction]]).
    - (* CreateMP *) destruct (c_inval c KCreateMP); try discriminate. cbn. (split; [reflexivity|]). (split; [reflexivity|]). (first [apply Inv_all_inval; exact W' | split; [exact W'|split; cbn; intros; contradiction]]).
    - (* DeleteMP *) destruct (c_inval c KDeleteMP); try discriminate. cbn. (split; [reflexivity|]). (split; [reflexivity|]). (first [apply Inv_all_inval; exact W' | split; [exact W'|split; cbn; intros; contradiction]]).
    - (* AddMember *)
      cbn in Ea. dcond; [|discriminate]. inversion Ea; subst; clear Ea.
      destruct (c_inval c KAddMember); try discriminate; cbn [dead_after]; (split; [reflexivity|]); (split; [reflexivity|]).
      + (first [apply Inv_all_inval; exact W' | split; [exact W'|split; cbn; intros; contradiction]]).
      + apply Inv_token_inval; auto. intros t0 Hne. apply load_ext; try reflexivity.
        unfold my_members at 1. cbn. apply my_members_add_other. exact Hne.
    - (* RemoveMember *)
      cbn in Ea. dcond; [|discriminate]. inversion Ea; subst; clear Ea.
      destruct (c_inval c KRemoveMember); try discriminate; cbn [dead_after]; (split; [reflexivity|]); (split; [reflexivity|]).
      + (first [apply Inv_all_inval; exact W' | split; [exact W'|split; cbn; intros; contradiction]]).
      + apply Inv_token_inval; auto. intros t0 Hne. apply load_ext; try reflexivity.
        unfold my_members at 1. cbn. apply my_members_filter_other.
        intros mb Hmb. destruct (N.eqb (mb_token mb) tok) eqn:Eq1; [apply N.eqb_eq in Eq1; congruence|reflexivity].
    - (* CreateToken *) cbn in Ea. inversion Ea; subst; clear Ea. cbn. split; [reflexivity|]. split; [apply do_inval_db|].
      apply Inv_do_inval. apply (Inv_same_load dead); auto; intros t Hn; (split; [auto|]); apply load_ext; reflexivity.
    - (* DeleteToken *) cbn in Ea. dcond; [|discriminate]. inversion Ea; subst; clear Ea. cbn [dead_after].
      split; [reflexivity|]. split; [apply do_inval_db|].
      apply Inv_do_inval. apply (Inv_same_load dead); [exact HI|exact W'|]. intros t Hn. split; [intros Hin; apply Hn; right; exact Hin|].
      apply load_ext; try reflexivity. unfold my_members at 1. cbn. apply my_members_filter_other.
      intros mb Hmb. destruct (N.eqb (mb_token mb) id0) eqn:Eq1; [|reflexivity].
      apply N.eqb_eq in Eq1. exfalso. apply Hn. left. congruence.
  Qed.

  (* ---- sequences ------------------------------------------------------------------------------ *)
  Fixpoint guard (dead : list N) (ops : list op) : Prop :=
    match ops with
    | [] => True
    | OMut m :: r => covers (c_inval c (kind_of m)) (need_of (kind_of m)) = true /\ guard (dead_after m dead) r
    | OCheck ti _ :: r => req_ok dead ti /\ guard dead r
    | OBatch reqs :: r => Forall (fun x => req_ok dead (fst x)) reqs /\ guard dead r
    | _ :: r => guard dead r
    end.

  Lemma run_coherent : forall ops dead s,
    Inv dead s -> guard dead ops -> run c s ops = spec_run (c_enabled c) (s_db s) ops.
  Proof.
    induction ops as [|o r IH]; intros dead s HI Hg; [reflexivity|].
    cbn [run spec_run]. destruct o as [m|ti q|reqs|dt|k|t|]; cbn [step spec_step guard] in *.
    - destruct Hg as [Hc Hg]. pose proof (mutate_ok dead s m HI Hc) as H.
      destruct (apply_mut m (s_db s)) as [[d' ok] id]. destruct (mutate c s m) as [[ok' id'] s1]. cbn in H.
      destruct H as (H1 & H2 & H3). inversion H1; subst. f_equal. apply (IH _ _ H3 Hg).
    - destruct Hg as [Hr Hg]. destruct (check_ok dead s ti q HI Hr) as (H1 & H2 & H3).
      destruct (check c s ti q) as [dec s1]. cbn in *. subst. f_equal. rewrite <- H2. apply (IH _ _ H3 Hg).
    - destruct Hg as [Hr Hg]. destruct (check_batch_ok dead s reqs HI Hr) as (H1 & H2 & H3).
      destruct (check_batch c s reqs) as [ds s1]. cbn in *. subst. f_equal. rewrite <- H2. apply (IH _ _ H3 Hg).
    - match goal with |- _ :: run c ?s1 r = _ => change (s_db s) with (s_db s1); f_equal; apply (IH dead s1); [|exact Hg] end.
      destruct HI as (W & Ht & Hp). split; [exact W|]. split; [exact Ht|exact Hp].
    - match goal with |- _ :: run c ?s1 r = _ => change (s_db s) with (s_db s1); f_equal; apply (IH dead s1); [|exact Hg] end.
      destruct HI as (W & Ht & Hp). split; [exact W|]. split; cbn; [exact Ht|].
      intros k0 dec e Hin. apply In_remove_gen in Hin. eauto.
    - match goal with |- _ :: run c ?s1 r = _ => change (s_db s) with (s_db s1); f_equal; apply (IH dead s1); [|exact Hg] end.
      destruct HI as (W & Ht & Hp). split; [exact W|]. split; cbn; [|exact Hp].
      intros t0 data a Hin. apply In_remove_gen in Hin. eauto.
    - match goal with |- _ :: run c ?s1 r = _ => change (s_db s) with (s_db s1); f_equal; apply (IH dead s1); [|exact Hg] end.
      destruct HI as (W & Ht & Hp). split; [exact W|]. split; cbn.
      + intros t0 data a Hin. apply filter_In in Hin. destruct Hin as [Hin _]. eauto.
      + intros k0 dec e Hin. apply filter_In in Hin. destruct Hin as [Hin _]. eauto.
  Qed.

  Lemma Inv_init t0 : Inv [] (init_st empty_db t0).
  Proof. split; [apply wf_empty|]. split; cbn; intros; contradiction. Qed.
End Coherence.

(* ---- statements of Props.v -------------------------------------------------------------------- *)
Definition guarded (c : cfg) (tiof : N -> tinfo) (ops : list op) : Prop := guard c tiof [] ops.

Lemma thm_coherent_guarded c tiof t0 ops :
  guarded c tiof ops -> run c (init_st empty_db t0) ops = spec_run (c_enabled c) empty_db ops.
Proof.
  intros H. change empty_db with (s_db (init_st empty_db t0)) at 2.
  eapply run_coherent; [apply Inv_init|exact H].
Qed.

(* the only remaining side condition once every mutation invalidates and the key is complete *)
Fixpoint no_check_after_delete (dead : list N) (ops : list op) : Prop :=
  match ops with
  | [] => True
  | OMut m :: r => no_check_after_delete (dead_after m dead) r
  | OCheck ti _ :: r => (match ti with Some t => ~ In (ti_id t) dead | None => True end) /\ no_check_after_delete dead r
  | OBatch reqs :: r => Forall (fun x => match fst x with Some t => ~ In (ti_id t) dead | None => True end) reqs /\ no_check_after_delete dead r
  | _ :: r => no_check_after_delete dead r
  end.

Lemma guard_of_fixed c tiof :
  c_key_ti c = true -> (forall k, covers (c_inval c k) (need_of k) = true) ->
  forall ops dead, no_check_after_delete dead ops -> guard c tiof dead ops.
Proof.
  intros Hk Hc. induction ops as [|o r IH]; intros dead H; [exact I|].
  destruct o as [m|ti q|reqs|dt|k|t|]; cbn in *; auto.
  - destruct H as [H1 H2]. split; [|auto]. destruct ti; [|exact I]. split; [left; exact Hk|exact H1].
  - destruct H as [H1 H2]. split; [|auto]. eapply Forall_impl; [|exact H1].
    intros [[t|] q] Hx; cbn in *; [|exact I]. split; [left; exact Hk|exact Hx].
Qed.

Lemma thm_coherent_fixed c t0 ops :
  c_key_ti c = true -> (forall k, covers (c_inval c k) (need_of k) = true) ->
  no_check_after_delete [] ops ->
  run c (init_st empty_db t0) ops = spec_run (c_enabled c) empty_db ops.
Proof.
  intros Hk Hc H. apply (thm_coherent_guarded c (fun t => {| ti_id := t; ti_perms := []; ti_enabled := true |})).
  apply guard_of_fixed; assumption.
Qed.

(* ---- witnesses ---------------------------------------------------------------------------------- *)
(* invalidation tables: every mutation that needs it invalidates ... *)
(* ... and the direct-mode table of the code as it is: DeleteOrganization invalidates nothing *)
Definition direct_asis (k : mkind) : inval := match k with KDeleteOrg => INone | _ => full_inval k end.

Definition cfg_of (key_ti : bool) (tbl : mkind -> inval) : cfg :=
  {| c_enabled := true; c_ttl := 30; c_key_ti := key_ti; c_inval := tbl |}.

Definition s_prod : str := [112; 114; 111; 100]%N.    (* "prod" *)
Definition q_read : query := {| q_db := s_prod; q_meas := []; q_perm := 2 |}.
Definition ti_plain (perms : list N) : tinfo := {| ti_id := 1; ti_perms := perms; ti_enabled := true |}.

(* org 1 > team 1 > role 1 ("*": read); token 1 (no permissions of its own) joins team 1; allowed via rbac;
   the organization is deleted (cascade); the very next check still says allowed *)
Definition delete_org_ops : list op :=
  [OMut CreateOrg; OMut (CreateTeam 1); OMut (CreateRole 1 [star] [2%N]); OMut CreateToken; OMut (AddMember 1 1);
   OCheck (Some (ti_plain [])) q_read; OMut (DeleteOrg 1); OCheck (Some (ti_plain [])) q_read].

Lemma delete_org_stale :
  run (cfg_of true direct_asis) (init_st empty_db 0) delete_org_ops <> spec_run true empty_db delete_org_ops /\
  nth 7 (run (cfg_of true direct_asis) (init_st empty_db 0) delete_org_ops) OutNone = OutDec [(true, SRbac)] /\
  nth 7 (spec_run true empty_db delete_org_ops) OutNone = OutDec [(false, SDenied)].
Proof. vm_compute. split; [intros H; discriminate|split; reflexivity]. Qed.

(* the same token id checked with read permission (allowed, cached) and then - after its permissions were
   narrowed - without: the cached allow is returned although every mutation invalidates *)
Definition narrow_ops : list op := [OCheck (Some (ti_plain [2%N])) q_read; OCheck (Some (ti_plain [])) q_read].

Lemma narrow_stale :
  run (cfg_of false full_inval) (init_st empty_db 0) narrow_ops <> spec_run true empty_db narrow_ops /\
  nth 1 (run (cfg_of false full_inval) (init_st empty_db 0) narrow_ops) OutNone = OutDec [(true, SToken)] /\
  nth 1 (spec_run true empty_db narrow_ops) OutNone = OutDec [(false, SDenied)].
Proof. vm_compute. split; [intros H; discriminate|split; reflexivity]. Qed.

Lemma thm_delete_org_refuted :
  ~ (forall ops t0, no_check_after_delete [] ops ->
       run (cfg_of true direct_asis) (init_st empty_db t0) ops = spec_run true empty_db ops).
Proof.
  intros H. apply (proj1 delete_org_stale). apply H. cbn. repeat split; auto; intros [].
Qed.

Lemma thm_key_refuted :
  ~ (forall ops t0, no_check_after_delete [] ops ->
       run (cfg_of false full_inval) (init_st empty_db t0) ops = spec_run true empty_db ops).
Proof.
  intros H. apply (proj1 narrow_stale). apply H. cbn. repeat split; auto; intros [].
Qed.

(* non-vacuity: a guarded sequence with mutations between checks of one key, on the table as it is *)
Definition nonvac_ops : list op :=
  [OMut CreateOrg; OMut (CreateTeam 1); OMut (CreateRole 1 [star] [2%N]); OMut CreateToken; OMut (AddMember 1 1);
   OCheck (Some (ti_plain [])) q_read; OMut (UpdateTeam 1 false); OCheck (Some (ti_plain [])) q_read;
   OMut (UpdateTeam 1 true); OBatch [(Some (ti_plain []), q_read); (None, q_read)]; OMut (RemoveMember 1 1);
   OCheck (Some (ti_plain [])) q_read].

Lemma nonvac_guarded :
  guarded (cfg_of false direct_asis) (fun _ => ti_plain []) nonvac_ops /\
  run (cfg_of false direct_asis) (init_st empty_db 0) nonvac_ops =
    [OutMut true 1; OutMut true 1; OutMut true 1; OutMut true 1; OutMut true 0;
     OutDec [(true, SRbac)]; OutMut true 0; OutDec [(false, SDenied)]; OutMut true 0;
     OutDec [(true, SRbac); (false, SDenied)]; OutMut true 0; OutDec [(false, SDenied)]].
Proof.
  split; [|vm_compute; reflexivity].
  unfold guarded. cbn. repeat split; auto; try (right; reflexivity); try (intros []).
  repeat constructor; cbn; auto; try (right; reflexivity); intros [].
Qed.

Lemma full_inval_covers k : covers (full_inval k) (need_of k) = true.
Proof. destruct k; reflexivity. Qed.
