(* C20 - Permission decisions always reflect the current RBAC state.
   Only property statements live here; proofs are in Proofs.v.

   [run c s ops] is the real system: SQLite state plus the permission-result cache and the
   per-token RBAC-data cache, every mutation followed by the invalidation the table
   [c_inval c] prescribes (the table is re-extracted from the Go source on every run).
   [spec_run enabled d ops] is the cache-free evaluator: the same mutations, every check
   (single or batch) answered by the policy on the current stored state.  Operations: every
   mutation of organizations, teams, roles, measurement permissions, memberships and tokens
   (successful or failing), single and batched checks with an arbitrary TokenInfo, clock
   ticks, and arbitrary disappearance of cache entries (eviction, cleanup loop). *)
From Coq Require Import List ZArith NArith Bool.
From Arc Require Import Lib.AList Rbac.Model Rbac.Proofs.
Import ListNotations.
Open Scope Z_scope.

(* The full claim - for every operation sequence the cached system answers like the
   cache-free one - is FALSE for the code as it is, for two independent reasons:
   (1) direct-mode DeleteOrganization invalidates nothing although the cascade removes the
       teams, roles and memberships that granted access; *)
Theorem C20_delete_org_refuted :
  ~ (forall ops t0, no_check_after_delete [] ops ->
       run (cfg_of true direct_asis) (init_st empty_db t0) ops = spec_run true empty_db ops).
Proof. exact thm_delete_org_refuted. Qed.
Print Assumptions C20_delete_org_refuted.

(* (2) the permission cache key ignores the token's own permissions (and enabled flag): after
       they are narrowed the cached allow is still returned - even if every mutation
       invalidated. *)
Theorem C20_key_refuted :
  ~ (forall ops t0, no_check_after_delete [] ops ->
       run (cfg_of false full_inval) (init_st empty_db t0) ops = spec_run true empty_db ops).
Proof. exact thm_key_refuted. Qed.
Print Assumptions C20_key_refuted.

(* Guarded statement, for ANY invalidation table and key shape: an operation sequence in
   which (a) every mutation is of a kind whose table entry invalidates enough, (b) the cache
   key carries the TokenInfo or every check of a token id passes one and the same TokenInfo
   ([tiof]), and (c) no token is checked after it was deleted, gets the cache-free answers -
   single and batched checks, cache hit or miss, whatever expires or is evicted. *)
Theorem C20_coherent_guarded :
  forall c tiof t0 ops,
  guarded c tiof ops ->
  run c (init_st empty_db t0) ops = spec_run (c_enabled c) empty_db ops.
Proof. exact thm_coherent_guarded. Qed.
Print Assumptions C20_coherent_guarded.

(* With the two repairs (every decision-affecting mutation invalidates; the key carries the
   token's permissions and enabled flag - fixes/C20_*.patch) only (c) remains, which the
   server guarantees: a deleted token no longer authenticates. *)
Theorem C20_coherent_fixed :
  forall c t0 ops,
  c_key_ti c = true -> (forall k, covers (c_inval c k) (need_of k) = true) ->
  no_check_after_delete [] ops ->
  run c (init_st empty_db t0) ops = spec_run (c_enabled c) empty_db ops.
Proof. exact thm_coherent_fixed. Qed.
Print Assumptions C20_coherent_fixed.

(* Non-vacuity: a sequence satisfying the guard on the table and key AS THEY ARE, with
   mutations between checks of one key (team disabled / re-enabled / membership removed):
   the answers change with the state. *)
Example C20_guarded_nonvacuous :
  guarded (cfg_of false direct_asis) (fun _ => ti_plain []) nonvac_ops /\
  run (cfg_of false direct_asis) (init_st empty_db 0) nonvac_ops =
    [OutMut true 1; OutMut true 1; OutMut true 1; OutMut true 1; OutMut true 0;
     OutDec [(true, SRbac)]; OutMut true 0; OutDec [(false, SDenied)]; OutMut true 0;
     OutDec [(true, SRbac); (false, SDenied)]; OutMut true 0; OutDec [(false, SDenied)]].
Proof. exact nonvac_guarded. Qed.

(* the excluded classes are non-empty: the two refutation witnesses violate (a) resp. (b) *)
Example C20_witnesses :
  nth 7 (run (cfg_of true direct_asis) (init_st empty_db 0) delete_org_ops) OutNone = OutDec [(true, SRbac)] /\
  nth 7 (spec_run true empty_db delete_org_ops) OutNone = OutDec [(false, SDenied)] /\
  nth 1 (run (cfg_of false full_inval) (init_st empty_db 0) narrow_ops) OutNone = OutDec [(true, SToken)] /\
  nth 1 (spec_run true empty_db narrow_ops) OutNone = OutDec [(false, SDenied)].
Proof.
  exact (conj (proj1 (proj2 delete_org_stale)) (conj (proj2 (proj2 delete_org_stale))
        (conj (proj1 (proj2 narrow_stale)) (proj2 (proj2 narrow_stale))))).
Qed.
