(* Model of the RBAC permission decision and its two caches
   (internal/auth/rbac_manager.go: CheckPermission, CheckPermissionsBatch,
   checkPermissionUncached, getTokenRBACData / loadTokenRBACData, checkRBACPermissionCached,
   checkOSSPermission, matchPattern, containsPermission, validatePattern, InvalidateAllCache,
   InvalidateTokenCache and every Create/Update/Delete method; cluster_rbac_apply.go: the
   Apply* materialisers; auth.go: the rbac_* schema with ON DELETE CASCADE and api_tokens
   create/delete).  Executable definitions only.

   Strings (database / measurement names and patterns) are byte lists; permission names are
   interned (string equality is the only operation on them): 1 = "admin", 2 = "read",
   3 = "write", 4 = "delete", anything else is some other string.

   The invalidation performed by each mutation is NOT written here: it is the table
   [c_inval] of the configuration, regenerated from the current Go source on every run
   (ArcGen.Params_Rbac). *)
From Coq Require Import List ZArith NArith Bool.
From Arc Require Import Lib.AList.
Import ListNotations.
Open Scope Z_scope.

Definition str := list N.

Fixpoint str_eqb (a b : str) : bool :=
  match a, b with
  | [], [] => true
  | x :: a', y :: b' => N.eqb x y && str_eqb a' b'
  | _, _ => false
  end.

(* strings.HasPrefix(s, p) / strings.HasSuffix(s, p) *)
Fixpoint has_prefix (s p : str) : bool :=
  match p, s with
  | [], _ => true
  | x :: p', y :: s' => N.eqb x y && has_prefix s' p'
  | _ :: _, [] => false
  end.
Definition has_suffix (s p : str) : bool := has_prefix (rev s) (rev p).

Definition star : N := 42.      (* '*' *)
Definition under : N := 95.     (* '_' *)

(* matchPattern(pattern, value) *)
Definition match_pattern (pat v : str) : bool :=
  if str_eqb pat [star] then true
  else if has_suffix pat [under; star]
       then has_prefix v (firstn (length pat - 2) pat ++ [under])         (* TrimSuffix(pattern,"_*") + "_" *)
  else if has_prefix pat [star; under]
       then has_suffix v (under :: skipn 2 pat)                           (* "_" + TrimPrefix(pattern,"*_") *)
  else if has_suffix pat [star]
       then has_prefix v (firstn (length pat - 1) pat)
  else str_eqb pat v.

(* validatePattern: ^[a-zA-Z0-9_-]+\*?$|^\*[a-zA-Z0-9_-]*$|^\*$ , non-empty *)
Definition name_char (c : N) : bool :=
  ((48 <=? c) && (c <=? 57) || (65 <=? c) && (c <=? 90) || (97 <=? c) && (c <=? 122)
   || N.eqb c 95 || N.eqb c 45)%N.
Definition valid_pattern (p : str) : bool :=
  match p with
  | [] => false
  | c :: r =>
      if N.eqb c star then forallb name_char r
      else name_char c &&
           match rev r with
           | [] => true
           | l :: m => (N.eqb l star || name_char l) && forallb name_char m
           end
  end.

Definition p_admin : N := 1.
(* IsValidPermission *)
Definition valid_perm (p : N) : bool := ((1 <=? p) && (p <=? 4))%N.
(* containsPermission / the loop of checkOSSPermission *)
Definition contains_perm (perms : list N) (target : N) : bool :=
  existsb (fun p => N.eqb p p_admin || N.eqb p target) perms.

(* ---- stored state (SQLite, foreign_keys = ON) ---------------------------------------- *)
Record org := { og_id : N; og_enabled : bool }.
Record team := { tm_id : N; tm_org : N; tm_enabled : bool }.
Record role := { rl_id : N; rl_team : N; rl_pat : str; rl_perms : list N }.
Record mperm := { mp_id : N; mp_role : N; mp_pat : str; mp_perms : list N }.
Record member := { mb_token : N; mb_team : N }.

Record dbs := {
  d_tokens : list N;                 (* api_tokens ids *)
  d_orgs : list org; d_teams : list team; d_roles : list role; d_mperms : list mperm;
  d_members : list member;
  (* AUTOINCREMENT counters (ids are never reused) *)
  n_token : N; n_org : N; n_team : N; n_role : N; n_mperm : N }.

Definition empty_db : dbs :=
  {| d_tokens := []; d_orgs := []; d_teams := []; d_roles := []; d_mperms := []; d_members := [];
     n_token := 1; n_org := 1; n_team := 1; n_role := 1; n_mperm := 1 |}.

Definition mem (x : N) (l : list N) : bool := existsb (N.eqb x) l.

(* ---- the uncached decision ------------------------------------------------------------ *)
Record tinfo := { ti_id : N; ti_perms : list N; ti_enabled : bool }.     (* auth.TokenInfo *)
Record query := { q_db : str; q_meas : str; q_perm : N }.
Inductive source := SToken | SRbac | SDenied.
Definition decision := (bool * source)%type.

(* tokenRBACData: what loadTokenRBACData reads for one token *)
Record tokdata := { td_teams : list team; td_roles : list role; td_mperms : list mperm }.

Definition load (d : dbs) (tid : N) : tokdata :=
  let tms := filter (fun t => existsb (fun m => N.eqb (mb_token m) tid && N.eqb (mb_team m) (tm_id t)) (d_members d)) (d_teams d) in
  let rls := filter (fun r => mem (rl_team r) (map tm_id tms)) (d_roles d) in
  let mps := filter (fun m => mem (mp_role m) (map rl_id rls)) (d_mperms d) in
  {| td_teams := tms; td_roles := rls; td_mperms := mps |}.

Definition oss (ti : tinfo) (q : query) : decision :=
  if contains_perm (ti_perms ti) (q_perm q) then (true, SToken) else (false, SDenied).

Definition role_grants (data : tokdata) (q : query) (r : role) : bool :=
  match_pattern (rl_pat r) (q_db q) &&
  (let mps := filter (fun m => N.eqb (mp_role m) (rl_id r)) (td_mperms data) in
   match q_meas q, mps with
   | _ :: _, _ :: _ => existsb (fun m => match_pattern (mp_pat m) (q_meas q) && contains_perm (mp_perms m) (q_perm q)) mps
   | _, _ => contains_perm (rl_perms r) (q_perm q)
   end).

(* checkRBACPermissionCached *)
Definition rbac_grants (data : tokdata) (ti : tinfo) (q : query) : bool :=
  ti_enabled ti &&
  existsb (fun t => tm_enabled t &&
                    existsb (role_grants data q) (filter (fun r => N.eqb (rl_team r) (tm_id t)) (td_roles data)))
          (td_teams data).

(* checkPermissionUncached, given the token's RBAC data *)
Definition decide_with (data : tokdata) (ti : tinfo) (q : query) : decision :=
  match td_teams data with
  | [] => oss ti q
  | _ => if rbac_grants data ti q then (true, SRbac)
         else if fst (oss ti q) then oss ti q else (false, SDenied)
  end.

Definition denied : decision := (false, SDenied).

(* the policy on the stored state: what a manager with empty caches answers *)
Definition uncached (enabled : bool) (d : dbs) (ti : option tinfo) (q : query) : decision :=
  match ti with
  | None => denied
  | Some ti => if enabled then decide_with (load d (ti_id ti)) ti q else oss ti q
  end.

(* ---- mutations ------------------------------------------------------------------------- *)
Inductive mutation :=
| CreateOrg | UpdateOrg (id : N) (en : bool) | DeleteOrg (id : N)
| RealignOrg (old : N)     (* cluster apply of a CreateOrganization whose NAME is held locally by organization [old]
                              under another id (upgrade seed): the local row is deleted - cascading - and re-inserted *)
| CreateTeam (o : N) | UpdateTeam (id : N) (en : bool) | DeleteTeam (id : N)
| CreateRole (t : N) (pat : str) (perms : list N)
| UpdateRole (id : N) (pat : option str) (perms : list N)      (* perms = [] : unchanged *)
| DeleteRole (id : N)
| CreateMP (r : N) (pat : str) (perms : list N) | DeleteMP (id : N)
| AddMember (tok t : N) | RemoveMember (tok t : N)
| CreateToken | DeleteToken (id : N).

Inductive mkind := KCreateOrg | KUpdateOrg | KDeleteOrg | KRealignOrg | KCreateTeam | KUpdateTeam | KDeleteTeam
                 | KCreateRole | KUpdateRole | KDeleteRole | KCreateMP | KDeleteMP
                 | KAddMember | KRemoveMember | KCreateToken | KDeleteToken.

Definition kind_of (m : mutation) : mkind :=
  match m with
  | CreateOrg => KCreateOrg | UpdateOrg _ _ => KUpdateOrg | DeleteOrg _ => KDeleteOrg | RealignOrg _ => KRealignOrg
  | CreateTeam _ => KCreateTeam | UpdateTeam _ _ => KUpdateTeam | DeleteTeam _ => KDeleteTeam
  | CreateRole _ _ _ => KCreateRole | UpdateRole _ _ _ => KUpdateRole | DeleteRole _ => KDeleteRole
  | CreateMP _ _ _ => KCreateMP | DeleteMP _ => KDeleteMP
  | AddMember _ _ => KAddMember | RemoveMember _ _ => KRemoveMember
  | CreateToken => KCreateToken | DeleteToken _ => KDeleteToken
  end.

Definition upd_db (d : dbs) tokens orgs teams roles mperms members : dbs :=
  {| d_tokens := tokens; d_orgs := orgs; d_teams := teams; d_roles := roles; d_mperms := mperms; d_members := members;
     n_token := n_token d; n_org := n_org d; n_team := n_team d; n_role := n_role d; n_mperm := n_mperm d |}.

(* ON DELETE CASCADE: drop everything hanging off the teams that are no longer there *)
Definition cascade (d : dbs) (teams : list team) (roles0 : list role) (members0 : list member) : dbs :=
  let roles := filter (fun r => mem (rl_team r) (map tm_id teams)) roles0 in
  let mperms := filter (fun m => mem (mp_role m) (map rl_id roles)) (d_mperms d) in
  let members := filter (fun m => mem (mb_team m) (map tm_id teams)) members0 in
  upd_db d (d_tokens d) (d_orgs d) teams roles mperms members.

Definition valid_perms (ps : list N) : bool := negb (match ps with [] => true | _ => false end) && forallb valid_perm ps.

(* (new state, success, id of the created row or 0) *)
Definition apply_mut (m : mutation) (d : dbs) : dbs * bool * N :=
  let fail := (d, false, 0%N) in
  match m with
  | CreateOrg =>
      let id := n_org d in
      ({| d_tokens := d_tokens d; d_orgs := d_orgs d ++ [{| og_id := id; og_enabled := true |}]; d_teams := d_teams d;
          d_roles := d_roles d; d_mperms := d_mperms d; d_members := d_members d;
          n_token := n_token d; n_org := N.succ id; n_team := n_team d; n_role := n_role d; n_mperm := n_mperm d |}, true, id)
  | UpdateOrg id en =>
      if mem id (map og_id (d_orgs d))
      then (upd_db d (d_tokens d) (map (fun o => if N.eqb (og_id o) id then {| og_id := id; og_enabled := en |} else o) (d_orgs d))
                   (d_teams d) (d_roles d) (d_mperms d) (d_members d), true, 0%N)
      else fail
  | DeleteOrg id =>
      if mem id (map og_id (d_orgs d))
      then let d1 := upd_db d (d_tokens d) (filter (fun o => negb (N.eqb (og_id o) id)) (d_orgs d))
                            (d_teams d) (d_roles d) (d_mperms d) (d_members d) in
           (cascade d1 (filter (fun t => negb (N.eqb (tm_org t) id)) (d_teams d)) (d_roles d) (d_members d), true, 0%N)
      else fail
  | RealignOrg old =>
      if mem old (map og_id (d_orgs d))
      then let id := n_org d in
           let d1 := {| d_tokens := d_tokens d;
                        d_orgs := filter (fun o => negb (N.eqb (og_id o) old)) (d_orgs d) ++ [{| og_id := id; og_enabled := true |}];
                        d_teams := d_teams d; d_roles := d_roles d; d_mperms := d_mperms d; d_members := d_members d;
                        n_token := n_token d; n_org := N.succ id; n_team := n_team d; n_role := n_role d; n_mperm := n_mperm d |} in
           (cascade d1 (filter (fun t => negb (N.eqb (tm_org t) old)) (d_teams d)) (d_roles d) (d_members d), true, id)
      else fail
  | CreateTeam o =>
      if mem o (map og_id (d_orgs d))
      then let id := n_team d in
           ({| d_tokens := d_tokens d; d_orgs := d_orgs d; d_teams := d_teams d ++ [{| tm_id := id; tm_org := o; tm_enabled := true |}];
               d_roles := d_roles d; d_mperms := d_mperms d; d_members := d_members d;
               n_token := n_token d; n_org := n_org d; n_team := N.succ id; n_role := n_role d; n_mperm := n_mperm d |}, true, id)
      else fail
  | UpdateTeam id en =>
      if mem id (map tm_id (d_teams d))
      then (upd_db d (d_tokens d) (d_orgs d)
                   (map (fun t => if N.eqb (tm_id t) id then {| tm_id := id; tm_org := tm_org t; tm_enabled := en |} else t) (d_teams d))
                   (d_roles d) (d_mperms d) (d_members d), true, 0%N)
      else fail
  | DeleteTeam id =>
      if mem id (map tm_id (d_teams d))
      then (cascade d (filter (fun t => negb (N.eqb (tm_id t) id)) (d_teams d)) (d_roles d) (d_members d), true, 0%N)
      else fail
  | CreateRole t pat perms =>
      if valid_pattern pat && valid_perms perms && mem t (map tm_id (d_teams d))
      then let id := n_role d in
           ({| d_tokens := d_tokens d; d_orgs := d_orgs d; d_teams := d_teams d;
               d_roles := d_roles d ++ [{| rl_id := id; rl_team := t; rl_pat := pat; rl_perms := perms |}];
               d_mperms := d_mperms d; d_members := d_members d;
               n_token := n_token d; n_org := n_org d; n_team := n_team d; n_role := N.succ id; n_mperm := n_mperm d |}, true, id)
      else fail
  | UpdateRole id pat perms =>
      if forallb valid_perm perms && match pat with Some p => valid_pattern p | None => true end
      then match pat, perms with
           | None, [] => (d, true, 0%N)                       (* nothing to update: returns nil *)
           | _, _ =>
               if mem id (map rl_id (d_roles d))
               then (upd_db d (d_tokens d) (d_orgs d) (d_teams d)
                            (map (fun r => if N.eqb (rl_id r) id
                                           then {| rl_id := id; rl_team := rl_team r;
                                                   rl_pat := match pat with Some p => p | None => rl_pat r end;
                                                   rl_perms := match perms with [] => rl_perms r | _ => perms end |}
                                           else r) (d_roles d))
                            (d_mperms d) (d_members d), true, 0%N)
               else fail
           end
      else fail
  | DeleteRole id =>
      if mem id (map rl_id (d_roles d))
      then (cascade d (d_teams d) (filter (fun r => negb (N.eqb (rl_id r) id)) (d_roles d)) (d_members d), true, 0%N)
      else fail
  | CreateMP r pat perms =>
      if valid_pattern pat && valid_perms perms && mem r (map rl_id (d_roles d))
      then let id := n_mperm d in
           ({| d_tokens := d_tokens d; d_orgs := d_orgs d; d_teams := d_teams d; d_roles := d_roles d;
               d_mperms := d_mperms d ++ [{| mp_id := id; mp_role := r; mp_pat := pat; mp_perms := perms |}];
               d_members := d_members d;
               n_token := n_token d; n_org := n_org d; n_team := n_team d; n_role := n_role d; n_mperm := N.succ id |}, true, id)
      else fail
  | DeleteMP id =>
      if mem id (map mp_id (d_mperms d))
      then (upd_db d (d_tokens d) (d_orgs d) (d_teams d) (d_roles d)
                   (filter (fun m => negb (N.eqb (mp_id m) id)) (d_mperms d)) (d_members d), true, 0%N)
      else fail
  | AddMember tok t =>
      if mem t (map tm_id (d_teams d)) && mem tok (d_tokens d)
         && negb (existsb (fun m => N.eqb (mb_token m) tok && N.eqb (mb_team m) t) (d_members d))
      then (upd_db d (d_tokens d) (d_orgs d) (d_teams d) (d_roles d) (d_mperms d)
                   (d_members d ++ [{| mb_token := tok; mb_team := t |}]), true, 0%N)
      else fail
  | RemoveMember tok t =>
      if existsb (fun m => N.eqb (mb_token m) tok && N.eqb (mb_team m) t) (d_members d)
      then (upd_db d (d_tokens d) (d_orgs d) (d_teams d) (d_roles d) (d_mperms d)
                   (filter (fun m => negb (N.eqb (mb_token m) tok && N.eqb (mb_team m) t)) (d_members d)), true, 0%N)
      else fail
  | CreateToken =>
      let id := n_token d in
      ({| d_tokens := d_tokens d ++ [id]; d_orgs := d_orgs d; d_teams := d_teams d; d_roles := d_roles d;
          d_mperms := d_mperms d; d_members := d_members d;
          n_token := N.succ id; n_org := n_org d; n_team := n_team d; n_role := n_role d; n_mperm := n_mperm d |}, true, id)
  | DeleteToken id =>
      if mem id (d_tokens d)
      then (upd_db d (filter (fun x => negb (N.eqb x id)) (d_tokens d)) (d_orgs d) (d_teams d) (d_roles d) (d_mperms d)
                   (filter (fun m => negb (N.eqb (mb_token m) id)) (d_members d)), true, 0%N)
      else fail
  end.

(* ---- caches ----------------------------------------------------------------------------- *)
Inductive inval := INone | IAll | IToken.       (* nothing / InvalidateAllCache / InvalidateTokenCache(token of the op) *)

Record cfg := {
  c_enabled : bool;                (* licence has the RBAC feature *)
  c_ttl : Z;
  c_key_ti : bool;                 (* permission cache key includes the token's own permissions and enabled flag *)
  c_inval : mkind -> inval }.      (* invalidation each mutation performs on its success path (from the source) *)

(* permissionCacheKey *)
Record pkey := { k_tid : N; k_db : str; k_meas : str; k_perm : N; k_ti : option (list N * bool) }.

Fixpoint nlist_eqb (a b : list N) : bool :=
  match a, b with
  | [], [] => true
  | x :: a', y :: b' => N.eqb x y && nlist_eqb a' b'
  | _, _ => false
  end.

Definition pkey_eqb (a b : pkey) : bool :=
  N.eqb (k_tid a) (k_tid b) && str_eqb (k_db a) (k_db b) && str_eqb (k_meas a) (k_meas b) && N.eqb (k_perm a) (k_perm b) &&
  match k_ti a, k_ti b with
  | None, None => true
  | Some (p, e), Some (p', e') => nlist_eqb p p' && Bool.eqb e e'
  | _, _ => false
  end.

Definition mk_key (c : cfg) (ti : tinfo) (q : query) : pkey :=
  {| k_tid := ti_id ti; k_db := q_db q; k_meas := q_meas q; k_perm := q_perm q;
     k_ti := if c_key_ti c then Some (ti_perms ti, ti_enabled ti) else None |}.

Record st := {
  s_db : dbs;
  s_now : Z;
  s_perm : list (pkey * (decision * Z));        (* result, expiresAt *)
  s_tok : list (N * (tokdata * Z)) }.           (* data, loadedAt *)

Definition init_st (d : dbs) (t0 : Z) : st := {| s_db := d; s_now := t0; s_perm := []; s_tok := [] |}.

(* getTokenRBACData *)
Definition get_tokdata (c : cfg) (s : st) (tid : N) : tokdata * st :=
  match lookup N.eqb tid (s_tok s) with
  | Some (data, at_) =>
      if s_now s - at_ <? c_ttl c then (data, s)
      else let data := load (s_db s) tid in
           (data, {| s_db := s_db s; s_now := s_now s; s_perm := s_perm s; s_tok := insert N.eqb tid (data, s_now s) (s_tok s) |})
  | None =>
      let data := load (s_db s) tid in
      (data, {| s_db := s_db s; s_now := s_now s; s_perm := s_perm s; s_tok := insert N.eqb tid (data, s_now s) (s_tok s) |})
  end.

(* the part of CheckPermission / of the batch loop after the token data is at hand *)
Definition check_with (c : cfg) (s : st) (data : tokdata) (ti : tinfo) (q : query) : decision * st :=
  let k := mk_key c ti q in
  match lookup pkey_eqb k (s_perm s) with
  | Some (dec, exp) =>
      if s_now s <? exp then (dec, s)
      else let dec := decide_with data ti q in
           (dec, {| s_db := s_db s; s_now := s_now s; s_perm := insert pkey_eqb k (dec, s_now s + c_ttl c) (s_perm s); s_tok := s_tok s |})
  | None =>
      let dec := decide_with data ti q in
      (dec, {| s_db := s_db s; s_now := s_now s; s_perm := insert pkey_eqb k (dec, s_now s + c_ttl c) (s_perm s); s_tok := s_tok s |})
  end.

Definition perm_hit (c : cfg) (s : st) (ti : tinfo) (q : query) : option decision :=
  match lookup pkey_eqb (mk_key c ti q) (s_perm s) with
  | Some (dec, exp) => if s_now s <? exp then Some dec else None
  | None => None
  end.

(* CheckPermission *)
Definition check (c : cfg) (s : st) (ti : option tinfo) (q : query) : decision * st :=
  match ti with
  | None => (denied, s)
  | Some ti =>
      if negb (c_enabled c) then (oss ti q, s)
      else match perm_hit c s ti q with
           | Some dec => (dec, s)
           | None => let '(data, s1) := get_tokdata c s (ti_id ti) in check_with c s1 data ti q
           end
  end.

(* CheckPermissionsBatch: requests are grouped by token; each group loads the token data
   once (even when every request of the group then hits the permission cache) and is
   processed in request order.  Groups only touch entries of their own token, so the order
   in which Go's map iteration visits them does not matter; here: order of first appearance. *)
Fixpoint batch_group (c : cfg) (s : st) (data : tokdata) (tid : N) (reqs : list (nat * option tinfo * query))
  : list (nat * decision) * st :=
  match reqs with
  | [] => ([], s)
  | (i, Some ti, q) :: r =>
      if N.eqb (ti_id ti) tid
      then let '(dec, s1) := check_with c s data ti q in
           let '(out, s2) := batch_group c s1 data tid r in ((i, dec) :: out, s2)
      else batch_group c s data tid r
  | _ :: r => batch_group c s data tid r
  end.

Fixpoint batch_tokens (reqs : list (nat * option tinfo * query)) (seen : list N) : list N :=
  match reqs with
  | [] => []
  | (_, Some ti, _) :: r => if mem (ti_id ti) seen then batch_tokens r seen else ti_id ti :: batch_tokens r (ti_id ti :: seen)
  | _ :: r => batch_tokens r seen
  end.

Fixpoint batch_run (c : cfg) (s : st) (tids : list N) (reqs : list (nat * option tinfo * query)) : list (nat * decision) * st :=
  match tids with
  | [] => ([], s)
  | tid :: r =>
      let '(data, s1) := get_tokdata c s tid in
      let '(o1, s2) := batch_group c s1 data tid reqs in
      let '(o2, s3) := batch_run c s2 r reqs in (o1 ++ o2, s3)
  end.

Fixpoint number {A} (n : nat) (l : list A) : list (nat * A) :=
  match l with [] => [] | x :: r => (n, x) :: number (S n) r end.

Fixpoint nat_lookup {A} (i : nat) (l : list (nat * A)) : option A :=
  match l with [] => None | (j, x) :: r => if Nat.eqb i j then Some x else nat_lookup i r end.

Definition check_batch (c : cfg) (s : st) (reqs : list (option tinfo * query)) : list decision * st :=
  if negb (c_enabled c)
  then (map (fun r => match fst r with None => denied | Some ti => oss ti (snd r) end) reqs, s)
  else
    let nreqs := map (fun x => (fst x, fst (snd x), snd (snd x))) (number 0 reqs) in
    let '(outs, s1) := batch_run c s (batch_tokens nreqs []) nreqs in
    (map (fun x => match nat_lookup (fst x) outs with Some dec => dec | None => denied end) (number 0 reqs), s1).

(* InvalidateAllCache / InvalidateTokenCache *)
Definition do_inval (i : inval) (tok : N) (s : st) : st :=
  match i with
  | INone => s
  | IAll => {| s_db := s_db s; s_now := s_now s; s_perm := []; s_tok := [] |}
  | IToken => {| s_db := s_db s; s_now := s_now s;
                 s_perm := filter (fun e => negb (N.eqb (k_tid (fst e)) tok)) (s_perm s);
                 s_tok := remove N.eqb tok (s_tok s) |}
  end.

Definition mut_token (m : mutation) : N :=
  match m with AddMember tok _ | RemoveMember tok _ => tok | DeleteToken id => id | _ => 0%N end.

(* a mutation: SQLite write, then (on success only) the invalidation the table prescribes *)
Definition mutate (c : cfg) (s : st) (m : mutation) : (bool * N) * st :=
  let '(d, ok, id) := apply_mut m (s_db s) in
  let s1 := {| s_db := d; s_now := s_now s; s_perm := s_perm s; s_tok := s_tok s |} in
  match m, ok with
  | UpdateRole _ None [], _ => ((ok, id), s1)                 (* early return: nothing written, nothing invalidated *)
  | _, true => ((ok, id), do_inval (c_inval c (kind_of m)) (mut_token m) s1)
  | _, false => ((ok, id), s1)
  end.

(* ---- operation sequences ---------------------------------------------------------------- *)
Inductive op :=
| OMut (m : mutation)
| OCheck (ti : option tinfo) (q : query)
| OBatch (reqs : list (option tinfo * query))
| OTick (dt : Z)
| ODropPerm (k : pkey) | ODropTok (tid : N)     (* eviction at capacity: any entry may vanish *)
| OJanitor.                                     (* cleanupExpiredCache, as run by the once-a-minute loop *)

Inductive output := OutMut (ok : bool) (id : N) | OutDec (ds : list decision) | OutNone.

Definition step (c : cfg) (s : st) (o : op) : output * st :=
  match o with
  | OMut m => let '((ok, id), s1) := mutate c s m in (OutMut ok id, s1)
  | OCheck ti q => let '(dec, s1) := check c s ti q in (OutDec [dec], s1)
  | OBatch reqs => let '(ds, s1) := check_batch c s reqs in (OutDec ds, s1)
  | OTick dt => (OutNone, {| s_db := s_db s; s_now := s_now s + Z.max 0 dt; s_perm := s_perm s; s_tok := s_tok s |})
  | ODropPerm k => (OutNone, {| s_db := s_db s; s_now := s_now s; s_perm := remove pkey_eqb k (s_perm s); s_tok := s_tok s |})
  | ODropTok t => (OutNone, {| s_db := s_db s; s_now := s_now s; s_perm := s_perm s; s_tok := remove N.eqb t (s_tok s) |})
  | OJanitor =>
      (* token data older than the TTL (now.Sub(loadedAt) > ttl) and decisions past their expiry
         (now.After(expiresAt)) are dropped - independently of each other *)
      (OutNone, {| s_db := s_db s; s_now := s_now s;
                   s_perm := filter (fun e => negb (snd (snd e) <? s_now s)) (s_perm s);
                   s_tok := filter (fun e => negb (c_ttl c <? s_now s - snd (snd e))) (s_tok s) |})
  end.

Fixpoint run (c : cfg) (s : st) (ops : list op) : list output :=
  match ops with
  | [] => []
  | o :: r => let '(out, s1) := step c s o in out :: run c s1 r
  end.

(* the cache-free evaluator: same mutations, every check answered by the policy on the
   stored state (what a fresh manager with empty caches on the same database returns) *)
Definition spec_step (enabled : bool) (d : dbs) (o : op) : output * dbs :=
  match o with
  | OMut m => let '(d1, ok, id) := apply_mut m d in (OutMut ok id, d1)
  | OCheck ti q => (OutDec [uncached enabled d ti q], d)
  | OBatch reqs => (OutDec (map (fun r => uncached enabled d (fst r) (snd r)) reqs), d)
  | _ => (OutNone, d)
  end.

Fixpoint spec_run (enabled : bool) (d : dbs) (ops : list op) : list output :=
  match ops with
  | [] => []
  | o :: r => let '(out, d1) := spec_step enabled d o in out :: spec_run enabled d1 r
  end.

(* ---- which invalidation each kind of mutation needs -------------------------------------- *)
Inductive need := NNone | NToken | NAll.
Definition need_of (k : mkind) : need :=
  match k with
  | KCreateOrg | KUpdateOrg | KCreateTeam | KCreateToken => NNone
  | KAddMember | KRemoveMember => NToken
  | KDeleteToken => NNone                      (* its token can never be checked again, see [no_check_after_delete] *)
  | _ => NAll
  end.
Definition covers (i : inval) (n : need) : bool :=
  match n, i with
  | NNone, _ => true
  | NToken, (IToken | IAll) => true
  | NAll, IAll => true
  | _, _ => false
  end.
Definition all_kinds : list mkind :=
  [KCreateOrg; KUpdateOrg; KDeleteOrg; KRealignOrg; KCreateTeam; KUpdateTeam; KDeleteTeam; KCreateRole; KUpdateRole; KDeleteRole;
   KCreateMP; KDeleteMP; KAddMember; KRemoveMember; KCreateToken; KDeleteToken].
Definition missing (tbl : mkind -> inval) : list mkind := filter (fun k => negb (covers (tbl k) (need_of k))) all_kinds.

(* ---- executable comparison helpers for the correspondence --------------------------------- *)
Definition source_eqb (a b : source) : bool :=
  match a, b with SToken, SToken | SRbac, SRbac | SDenied, SDenied => true | _, _ => false end.
Definition decision_eqb (a b : decision) : bool := Bool.eqb (fst a) (fst b) && source_eqb (snd a) (snd b).
Fixpoint list_eqb {A} (eqb : A -> A -> bool) (a b : list A) : bool :=
  match a, b with
  | [], [] => true
  | x :: a', y :: b' => eqb x y && list_eqb eqb a' b'
  | _, _ => false
  end.
Definition output_eqb (a b : output) : bool :=
  match a, b with
  | OutMut x i, OutMut y j => Bool.eqb x y && (negb x || N.eqb i j)
  | OutDec x, OutDec y => list_eqb decision_eqb x y
  | OutNone, OutNone => true
  | _, _ => false
  end.

(* a correspondence case: configuration, operations, what the long-lived real RBACManager
   answered (k_obs) and what a fresh RBACManager with empty caches on the same database
   answered at the same moments (k_fresh) *)
Record ccase := { k_cfg : cfg; k_t0 : Z; k_ops : list op; k_obs : list output; k_fresh : list output }.

Definition case_agrees (k : ccase) : bool :=
  list_eqb output_eqb (run (k_cfg k) (init_st empty_db (k_t0 k)) (k_ops k)) (k_obs k) &&
  list_eqb output_eqb (spec_run (c_enabled (k_cfg k)) empty_db (k_ops k)) (k_fresh k).

(* the property on the implementation's own answers: cached = cache-free, at every check *)
Definition case_oracle (k : ccase) : bool := list_eqb output_eqb (k_obs k) (k_fresh k).

(* ---- attribution of an incoherent case (used only to name the known finding it falls under) ---- *)
Definition full_inval (k : mkind) : inval :=
  match need_of k with NNone => INone | NToken => IToken | NAll => IAll end.

Definition coherent_under (c : cfg) (k : ccase) : bool :=
  list_eqb output_eqb (run c (init_st empty_db (k_t0 k)) (k_ops k)) (spec_run (c_enabled c) empty_db (k_ops k)).

(* would the case be coherent with the DeleteOrganization entry of its table repaired (key
   unchanged) / with the key carrying the token's own permissions (table unchanged) / with both *)
Definition patch_delorg (tbl : mkind -> inval) (k : mkind) : inval :=
  match k with KDeleteOrg => IAll | _ => tbl k end.
Definition fixed_by_table (k : ccase) : bool :=
  coherent_under {| c_enabled := c_enabled (k_cfg k); c_ttl := c_ttl (k_cfg k); c_key_ti := c_key_ti (k_cfg k);
                    c_inval := patch_delorg (c_inval (k_cfg k)) |} k.
Definition fixed_by_key (k : ccase) : bool :=
  coherent_under {| c_enabled := c_enabled (k_cfg k); c_ttl := c_ttl (k_cfg k); c_key_ti := true; c_inval := c_inval (k_cfg k) |} k.
Definition fixed_by_both (k : ccase) : bool :=
  coherent_under {| c_enabled := c_enabled (k_cfg k); c_ttl := c_ttl (k_cfg k); c_key_ti := true;
                    c_inval := patch_delorg (c_inval (k_cfg k)) |} k.
