(* C20 obligations over the invalidation tables re-extracted from the current Go source
   (ArcGen.Params_Rbac, regenerated on every run by tools/props/C20.py). *)
From Coq Require Import List ZArith NArith Bool.
From Arc Require Import Lib.AList Rbac.Model Rbac.Proofs.
From ArcGen Require Import Params_Rbac.
Import ListNotations.
Open Scope Z_scope.

(* Every decision-affecting mutation invalidates enough on its success path, in both modes
   (since eac348f this includes direct-mode DeleteOrganization).  A mutation that loses its
   invalidation breaks these obligations. *)
Theorem C20_direct_missing_none : missing direct_inval = [].
Proof. reflexivity. Qed.

Theorem C20_cluster_missing_none : missing cluster_inval = [].
Proof. reflexivity. Qed.

(* the permission cache key carries the token's own permissions and enabled flag (since ed2e486) *)
Theorem C20_deployed_key_has_tokeninfo : perm_key_has_tokeninfo = true.
Proof. reflexivity. Qed.

Definition deployed_cfg (direct enabled : bool) (ttl : Z) : cfg :=
  {| c_enabled := enabled; c_ttl := ttl; c_key_ti := perm_key_has_tokeninfo;
     c_inval := if direct then direct_inval else cluster_inval |}.

Lemma deployed_covers direct enabled ttl k : covers (c_inval (deployed_cfg direct enabled ttl) k) (need_of k) = true.
Proof. destruct direct, k; reflexivity. Qed.

(* PRIMARY: with the tables and the key shape the code has NOW, every operation sequence
   (any mutations, single and batched checks with any TokenInfo, ticks, evictions, janitor
   runs) in which no token is checked after its deletion gets the cache-free answers. *)
Theorem C20_deployed_coherent :
  forall direct enabled ttl t0 ops,
  no_check_after_delete [] ops ->
  run (deployed_cfg direct enabled ttl) (init_st empty_db t0) ops = spec_run enabled empty_db ops.
Proof.
  intros direct enabled ttl t0 ops H.
  apply (thm_coherent_fixed (deployed_cfg direct enabled ttl) t0 ops); [reflexivity|apply deployed_covers|exact H].
Qed.
