(* C20 obligations over the invalidation tables re-extracted from the current Go source
   (ArcGen.Params_Rbac, regenerated on every run by tools/props/C20.py). *)
From Coq Require Import List ZArith NArith Bool.
From Arc Require Import Lib.AList Rbac.Model Rbac.Proofs.
From ArcGen Require Import Params_Rbac.
Import ListNotations.
Open Scope Z_scope.

Definition is_delete_org (k : mkind) : bool := match k with KDeleteOrg => true | _ => false end.

(* Every decision-affecting mutation invalidates on its success path - except, at most, the
   one already recorded as an open finding (direct-mode DeleteOrganization).  A mutation
   that newly loses its invalidation breaks this obligation. *)
Theorem C20_direct_missing_known : forallb is_delete_org (missing direct_inval) = true.
Proof. reflexivity. Qed.

Theorem C20_cluster_missing_none : missing cluster_inval = [].
Proof. reflexivity. Qed.

Definition deployed_cfg (direct enabled : bool) (ttl : Z) : cfg :=
  {| c_enabled := enabled; c_ttl := ttl; c_key_ti := perm_key_has_tokeninfo;
     c_inval := if direct then direct_inval else cluster_inval |}.

(* the guarded coherence theorem, instantiated with the tables and the key shape the code has NOW *)
Theorem C20_deployed_coherent :
  forall direct enabled ttl tiof t0 ops,
  guarded (deployed_cfg direct enabled ttl) tiof ops ->
  run (deployed_cfg direct enabled ttl) (init_st empty_db t0) ops = spec_run enabled empty_db ops.
Proof. intros. apply (thm_coherent_guarded (deployed_cfg direct enabled ttl) tiof t0 ops). assumption. Qed.

(* in cluster-apply mode no mutation kind has to be excluded *)
Theorem C20_deployed_cluster_covers : forall k, covers (cluster_inval k) (need_of k) = true.
Proof. intros k. destruct k; reflexivity. Qed.
