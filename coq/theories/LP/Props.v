(* C01 - Line-protocol points are stored exactly as written.
   Only property statements live here; proofs are in Proofs.v.

   parse_batch pf fx prec body   = the model of LineProtocolParser.ParseBatchWithPrecision
        pf  : the strconv.ParseFloat oracle (accepts / rejects), universally quantified
        fx  : false = key/value split of the code in /repo today (bytes.IndexByte),
              true  = split at the first '=' not consumed by a backslash (the proposed fix)
   encode_batch em tnl ps        = the canonical line-protocol text of the points ps
        em  : whether '=' is escaped in measurement names too (both conventions are covered)
        tnl : whether the body ends with a newline
   conv prec p                   = the record that must be stored for point p *)
From Coq Require Import List ZArith NArith Bool.
From Arc Require Import LP.Model LP.Proofs.
Import ListNotations.
Open Scope N_scope.

(* Full statement, for the parser with the proposed fix: EVERY batch of well-formed points,
   whatever escapable bytes its names and values contain, is parsed into exactly one record
   per point, in order, with byte-identical measurement, tag keys/values, field keys, typed
   field values, and the timestamp converted to microseconds for the requested precision. *)
Theorem C01_roundtrip_fixed : forall pf em tnl prec ps,
  forallb (wf_point pf) ps = true ->
  parse_batch pf true prec (encode_batch em tnl ps) = map (conv (prec_of prec)) ps.
Proof. intros. apply roundtrip; [assumption|discriminate]. Qed.
Print Assumptions C01_roundtrip_fixed.

(* The code in /repo today: the same, provided no tag key and no field key contains '='. *)
Theorem C01_roundtrip_guarded : forall pf em tnl prec ps,
  forallb (wf_point pf) ps = true -> forallb no_eq_keys ps = true ->
  parse_batch pf false prec (encode_batch em tnl ps) = map (conv (prec_of prec)) ps.
Proof. intros. apply roundtrip; auto. Qed.
Print Assumptions C01_roundtrip_guarded.

(* ... and the guard is necessary: with the code in /repo today a well-formed point whose tag
   key is `a=b` is stored under tag key `a\` with value `b=c`, and a well-formed point whose
   field key is `v=w` is dropped altogether.  (cpu,a\=b=c v=1i   and   cpu,host=a v\=w=1i 1000) *)
Theorem C01_roundtrip_refuted : forall pf em tnl prec,
  (wf_point pf w_tag = true
   /\ parse_batch pf false prec (encode_batch em tnl [w_tag])
      = [{| r_meas := [99;112;117]; r_tags := [([97;92], [98;61;99])]; r_fields := [([118], VInt 1)]; r_ts := None |}]
   /\ parse_batch pf false prec (encode_batch em tnl [w_tag]) <> map (conv (prec_of prec)) [w_tag])
  /\ (wf_point pf w_field = true
      /\ parse_batch pf false prec (encode_batch em tnl [w_field]) = []).
Proof. exact roundtrip_refuted. Qed.
Print Assumptions C01_roundtrip_refuted.

(* The precision switch: over the FULL int64 range the guards of the ms and s branches hold
   exactly when the microsecond value is an int64 (so the multiplication never wraps and no
   representable instant falls back to server time); us is stored as written; ns is divided
   by 1000 truncating toward zero (at most 999 ns lost, never across zero). *)
Theorem C01_ts_conv : forall p raw, in_i64 raw = true ->
  ts_convert p raw = spec_ts p raw
  /\ (forall us, ts_convert p raw = Some us -> in_i64 us = true)
  /\ (Z.abs (raw - Z.quot raw 1000 * 1000) < 1000 /\ Z.abs (Z.quot raw 1000 * 1000) <= Z.abs raw)%Z.
Proof.
  intros p raw H. split; [apply ts_conv; exact H|]. split; [|apply ts_ns_trunc].
  intros us E. exact (ts_in_range p raw us H E).
Qed.
Print Assumptions C01_ts_conv.

(* BatchToColumnar: one columnar record per measurement (in order of first appearance, none
   invented); every column holds exactly one cell per point of that measurement, in request
   order, equal to what the point denotes for that column and nil where the point has no such
   key; a column exists for time and for every key that occurs.  Domain: the reserved names
   the property excludes (no tag/field called time, no field named like a tag of its point). *)
Theorem C01_columnar : forall rs, forallb wf_record rs = true ->
  map c_meas (batch_to_columnar rs) = dedup (map r_meas rs)
  /\ forall cr, In cr (batch_to_columnar rs) ->
       let g := by_meas rs (c_meas cr) in
       g <> []
       /\ NoDup (map fst (c_cols cr))
       /\ (forall c cells, In (c, cells) (c_cols cr) -> cells = map (fun r => flat_lookup r c) g)
       /\ (forall r c, In r g -> flat_lookup r c <> None -> In c (map fst (c_cols cr))).
Proof. exact columnar_rows. Qed.
Print Assumptions C01_columnar.

(* The proposed fix is conservative: on every component in which no '=' directly follows a
   backslash, the fixed split and bytes.IndexByte give the same key and value. *)
Theorem C01_fix_conservative : forall comp, no_bs_eq comp = true -> split_kv true comp = split_kv false comp.
Proof. exact split_kv_fix_same. Qed.
Print Assumptions C01_fix_conservative.

(* Storage (WriteColumnarRecord -> Parquet): whatever column the buffer ACCEPTS is stored with
   exactly the written values and their types (a null where the point has no such key); an
   unsigned value is never stored as a different number ... *)
Theorem C01_store_exact : forall name cells out,
  store_column name cells = COk out -> Forall2 cell_exact cells out.
Proof. exact store_column_exact. Qed.
Print Assumptions C01_store_exact.

(* ... because a column of unsigned values one of which exceeds MaxInt64 is refused *)
Theorem C01_store_unsigned_overflow_refused : forall name cells z,
  bytes_eqb name s_time = false ->
  (forall c, In c cells -> exists u, c = Some (VUint u)) ->
  In (Some (VUint z)) cells -> (max_i64 < z)%Z ->
  store_column name cells = CReject.
Proof. exact store_column_uint_overflow. Qed.
Print Assumptions C01_store_unsigned_overflow_refused.

(* ---- non-vacuity ---- *)

(* a point with every escapable byte in measurement, tag key, tag value, field key and string
   value, all five field types, a negative nanosecond timestamp: well-formed, and (no '=' in
   its keys) inside the guarded domain too *)
Definition ex_point : point :=
  {| p_meas := [99; 44; 32; 34; 92; 61; 228; 184; 150];
     p_tags := [([107; 44; 32; 34; 92], [118; 61; 44; 32; 34; 92]); ([122], [])];
     p_fields := [([102; 32; 44], FFloat [45; 49; 46; 53; 101; 51]); ([105], FInt (-9223372036854775808));
                  ([117], FUint 18446744073709551615); ([115; 34], FStr [34; 92; 44; 32; 61; 195; 169]);
                  ([98], FBool true 3)];
     p_ts := Some (-1500)%Z |}.

Example C01_wf_satisfiable :
  wf_point (fun _ => true) ex_point = true /\ no_eq_keys ex_point = true
  /\ parse_batch (fun _ => true) false [] (encode_batch false true [ex_point; ex_point])
     = [conv PNs ex_point; conv PNs ex_point]
  /\ r_ts (conv PNs ex_point) = Some (-1)%Z.
Proof. vm_compute. repeat split. Qed.

(* the excluded class is not empty: the refutation witnesses are well-formed but have '=' in a key *)
Example C01_guard_excludes_witnesses : no_eq_keys w_tag = false /\ no_eq_keys w_field = false.
Proof. vm_compute. split; reflexivity. Qed.

(* ... and the fixed parser stores both witnesses as written *)
Example C01_fixed_on_witnesses :
  parse_batch (fun _ => true) true [] (encode_batch false false [w_tag; w_field]) = map (conv PNs) [w_tag; w_field].
Proof. vm_compute. reflexivity. Qed.

Example C01_columnar_satisfiable :
  let rs := parse_batch (fun _ => true) true [] (encode_batch false false [w_tag; w_field; ex_point]) in
  forallb wf_record rs = true /\ length (batch_to_columnar rs) = 2%nat.
Proof. vm_compute. split; reflexivity. Qed.

Example C01_store_satisfiable :
  store_column [118] [Some (VUint 42); None; Some (VUint 9223372036854775807)] = COk [SInt 42; SNull; SInt 9223372036854775807]
  /\ store_column [118] [Some (VUint 42); Some (VUint 18446744073709551615)] = CReject.
Proof. vm_compute. split; reflexivity. Qed.
