(* C01 - executable model of internal/ingest/lineprotocol.go (byte level) and the
   line-protocol grammar it is checked against.  Definitions only; proofs are in Proofs.v.

   Bytes are [N] (< 256) in lists; Go strings/[]byte are byte lists.  int64/uint64 values
   are [Z] with the range checks (and the one multiplication that could wrap) written out.
   External behaviour: strconv.ParseFloat is the parameter [pf : bytes -> bool] ("ParseFloat
   returns no error"); a float value is kept as the raw bytes handed to ParseFloat.
   time.Now() is the timestamp [None] ("assigned by the server").
   The parameter [fx : bool] selects how a `key=value` component is split:
     fx = false : bytes.IndexByte(component, '=')        (the code in /repo today)
     fx = true  : first '=' not consumed by a backslash  (fixes/C01_unescaped_equals.patch) *)
From Coq Require Import List ZArith NArith Bool.
Import ListNotations.
Open Scope N_scope.

Definition bytes := list N.

Definition c_bs : N := 92.      (* \ *)
Definition c_quote : N := 34.   (* double quote *)
Definition c_comma : N := 44.
Definition c_space : N := 32.
Definition c_eq : N := 61.
Definition c_nl : N := 10.
Definition c_hash : N := 35.

Fixpoint bytes_eqb (a b : bytes) : bool :=
  match a, b with
  | [], [] => true
  | x :: a', y :: b' => (x =? y) && bytes_eqb a' b'
  | _, _ => false
  end.

(* ------------------------------------------------------------------ bytes.TrimSpace *)

Definition ascii_space (c : N) : bool :=
  (c =? 9) || (c =? 10) || (c =? 11) || (c =? 12) || (c =? 13) || (c =? 32).

(* unicode.IsSpace on the rune whose UTF-8 encoding is c d e (2-byte forms ignore e) *)
Definition space2 (c d : N) : bool := (c =? 194) && ((d =? 133) || (d =? 160)).
Definition space3 (c d e : N) : bool :=
  ((c =? 225) && (d =? 154) && (e =? 128))
  || ((c =? 226) && (d =? 128) && (((128 <=? e) && (e <=? 138)) || (e =? 168) || (e =? 169) || (e =? 175)))
  || ((c =? 226) && (d =? 129) && (e =? 159))
  || ((c =? 227) && (d =? 128) && (e =? 128)).

(* width of the white-space rune at the head (utf8.DecodeRune + unicode.IsSpace), 0 if none;
   missing bytes read as 0, which matches no continuation byte *)
Definition sl3 (c d e : N) : nat :=
  if c <? 128 then (if ascii_space c then 1 else 0)%nat
  else if space2 c d then 2%nat else if space3 c d e then 3%nat else 0%nat.
Definition space_len (l : bytes) : nat := sl3 (nth 0 l 0) (nth 1 l 0) (nth 2 l 0).

(* same for the LAST rune; the argument is the reversed slice (utf8.DecodeLastRune walks
   back to the nearest start byte and requires the decoding to end exactly at the end) *)
Definition space_len_rev (l : bytes) : nat :=
  let c := nth 0 l 0 in let d := nth 1 l 0 in let e := nth 2 l 0 in
  if c <? 128 then (if ascii_space c then 1 else 0)%nat
  else if space2 d c then 2%nat else if space3 e d c then 3%nat else 0%nat.

Fixpoint trim_with (len : bytes -> nat) (fuel : nat) (l : bytes) : bytes :=
  match fuel with
  | O => l
  | S f => match len l with O => l | n => trim_with len f (skipn n l) end
  end.

Definition trim_left (l : bytes) : bytes := trim_with space_len (length l) l.
Definition trim_right (l : bytes) : bytes := rev (trim_with space_len_rev (length l) (rev l)).
Definition trim_space (l : bytes) : bytes := trim_right (trim_left l).

(* ------------------------------------------------------------------ splitOnDelimiter *)

Definition push (cur : bytes) (acc : list bytes) : list bytes :=
  match cur with [] => acc | _ => rev cur :: acc end.

(* [cur] = bytes of the current part, reversed; [inq] = inQuotes; [acc] = parts, reversed *)
Fixpoint split_go (delim : N) (l : bytes) (cur : bytes) (inq : bool) (acc : list bytes) : list bytes :=
  match l with
  | [] => rev (push cur acc)
  | c :: r =>
    match (c =? c_bs), r with
    | true, d :: r' => split_go delim r' (d :: c :: cur) inq acc
    | _, _ =>
      if c =? c_quote then split_go delim r (c :: cur) (negb inq) acc
      else if (c =? delim) && negb inq then split_go delim r [] inq (push cur acc)
      else split_go delim r (c :: cur) inq acc
    end
  end.

Definition split_on (delim : N) (data : bytes) : list bytes := split_go delim data [] false [].

(* ------------------------------------------------------------------ unescape *)

Definition unesc_special (c : N) : bool :=
  (c =? c_comma) || (c =? c_space) || (c =? c_eq) || (c =? c_quote) || (c =? c_bs).

Fixpoint unescape_slow (l : bytes) : bytes :=
  match l with
  | [] => []
  | c :: r =>
    if c =? c_bs then
      match r with
      | n :: r' => if unesc_special n then n :: unescape_slow r' else c :: unescape_slow r
      | [] => [c]
      end
    else c :: unescape_slow r
  end.

Definition unescape (l : bytes) : bytes :=
  if existsb (fun c => c =? c_bs) l then unescape_slow l else l.

(* ------------------------------------------------------------------ key=value split *)

Fixpoint index_byte (c : N) (l : bytes) : option nat :=
  match l with
  | [] => None
  | x :: r => if x =? c then Some O else option_map S (index_byte c r)
  end.

Fixpoint index_unescaped (c : N) (l : bytes) : option nat :=
  match l with
  | [] => None
  | x :: r =>
    match (x =? c_bs), r with
    | true, _ :: r' => option_map (fun i => S (S i)) (index_unescaped c r')
    | _, _ => if x =? c then Some O else option_map S (index_unescaped c r)
    end
  end.

Definition find_eq (fx : bool) (l : bytes) : option nat :=
  if fx then index_unescaped c_eq l else index_byte c_eq l.

(* idx > 0: key = comp[:idx], value = comp[idx+1:] *)
Definition split_kv (fx : bool) (comp : bytes) : option (bytes * bytes) :=
  match find_eq fx comp with
  | Some (S i) => Some (firstn (S i) comp, skipn (S (S i)) comp)
  | _ => None
  end.

(* ------------------------------------------------------------------ strconv.ParseInt/ParseUint, base 10 *)

Definition is_digit (c : N) : bool := (48 <=? c) && (c <=? 57).

Fixpoint digits_val (acc : Z) (l : bytes) : option Z :=
  match l with
  | [] => Some acc
  | c :: r => if is_digit c then digits_val (acc * 10 + Z.of_N (c - 48)) r else None
  end.

Definition parse_dec (l : bytes) : option Z :=
  match l with [] => None | _ => digits_val 0 l end.

Definition max_i64 : Z := 9223372036854775807.
Definition min_i64 : Z := -9223372036854775808.
Definition max_u64 : Z := 18446744073709551615.
Definition in_i64 (z : Z) : bool := ((min_i64 <=? z) && (z <=? max_i64))%Z.

Definition parse_uint64 (l : bytes) : option Z :=
  match parse_dec l with
  | Some v => if (v <=? max_u64)%Z then Some v else None
  | None => None
  end.

Definition parse_int64 (l : bytes) : option Z :=
  match l with
  | [] => None
  | c :: r =>
    let neg := c =? 45 in
    let ds := if (c =? 43) || (c =? 45) then r else l in
    match parse_dec ds with
    | None => None
    | Some v =>
      if neg then (if (v <=? max_i64 + 1)%Z then Some (- v)%Z else None)
      else (if (v <=? max_i64)%Z then Some v else None)
    end
  end.

(* ------------------------------------------------------------------ utf8.Valid / SanitizeUTF8 *)

Definition cont (c : N) : bool := (128 <=? c) && (c <=? 191).

(* width of the valid encoding at the head of l, 0 if the first byte is invalid there *)
Definition utf8_size (l : bytes) : nat :=
  let c := nth 0 l 0 in let d := nth 1 l 0 in let e := nth 2 l 0 in let f := nth 3 l 0 in
  if c <? 128 then 1%nat
  else if (194 <=? c) && (c <=? 223) then (if cont d then 2%nat else 0%nat)
  else if (224 <=? c) && (c <=? 239) then
    (if ((if c =? 224 then 160 else 128) <=? d) && (d <=? (if c =? 237 then 159 else 191)) && cont e
     then 3%nat else 0%nat)
  else if (240 <=? c) && (c <=? 244) then
    (if ((if c =? 240 then 144 else 128) <=? d) && (d <=? (if c =? 244 then 143 else 191)) && cont e && cont f
     then 4%nat else 0%nat)
  else 0%nat.

Fixpoint valid_utf8_fuel (fuel : nat) (l : bytes) : bool :=
  match l with
  | [] => true
  | _ => match fuel with
         | O => true
         | S f => match utf8_size l with O => false | n => valid_utf8_fuel f (skipn n l) end
         end
  end.
Definition valid_utf8 (l : bytes) : bool := valid_utf8_fuel (length l) l.

Fixpoint sanitize_fuel (fuel : nat) (l : bytes) : bytes :=
  match l with
  | [] => []
  | c :: r => match fuel with
              | O => []
              | S f => match utf8_size l with
                       | O => 239 :: 191 :: 189 :: sanitize_fuel f r
                       | n => firstn n l ++ sanitize_fuel f (skipn n l)
                       end
              end
  end.
Definition sanitize (l : bytes) : bytes := if valid_utf8 l then l else sanitize_fuel (length l) l.
Definition sanit (valid : bool) (s : bytes) : bytes := if valid then s else sanitize s.

(* ------------------------------------------------------------------ values, records *)

Inductive value :=
| VBool (b : bool) | VInt (z : Z) | VUint (z : Z)
| VFloat (raw : bytes)        (* the bytes ParseFloat accepted *)
| VFloatBits (bits : Z)       (* an observed float64 (correspondence only) *)
| VStr (s : bytes)
| VNow.                       (* server-assigned time (columnar cells only) *)

Record record := { r_meas : bytes; r_tags : list (bytes * bytes);
                   r_fields : list (bytes * value); r_ts : option Z }.

(* Go map assignment m[k] = v on an association list kept in first-insertion order *)
Fixpoint upsert {V} (k : bytes) (v : V) (l : list (bytes * V)) : list (bytes * V) :=
  match l with
  | [] => [(k, v)]
  | (k', v') :: r => if bytes_eqb k k' then (k, v) :: r else (k', v') :: upsert k v r
  end.

Fixpoint lookup {V} (k : bytes) (l : list (bytes * V)) : option V :=
  match l with
  | [] => None
  | (k', v) :: r => if bytes_eqb k k' then Some v else lookup k r
  end.

(* ------------------------------------------------------------------ parseFieldValue *)

Definition lower (c : N) : N := if (65 <=? c) && (c <=? 90) then c + 32 else c.
Definition eq_fold (a lowercase : bytes) : bool := bytes_eqb (map lower a) lowercase.
Definition s_true : bytes := [116; 114; 117; 101].
Definition s_false : bytes := [102; 97; 108; 115; 101].

Definition bool_of_spelling (v : bytes) : option bool :=
  match v with
  | [c] => if (c =? 116) || (c =? 84) then Some true
           else if (c =? 102) || (c =? 70) then Some false else None
  | _ => if eq_fold v s_true then Some true else if eq_fold v s_false then Some false else None
  end.

Fixpoint drop_quotes (l : bytes) : bytes :=
  match l with c :: r => if c =? c_quote then drop_quotes r else l | [] => [] end.
(* bytes.Trim(value, QUOTE) *)
Definition trim_quotes (l : bytes) : bytes := rev (drop_quotes (rev (drop_quotes l))).

Definition parse_field_value (valid : bool) (pf : bytes -> bool) (v0 : bytes) : option value :=
  let v := trim_space v0 in
  match v with
  | [] => None
  | c0 :: rest =>
    match bool_of_spelling v with
    | Some b => Some (VBool b)
    | None =>
      if c0 =? c_quote then
        match rev rest with
        | l :: mid_rev =>
          if l =? c_quote then Some (VStr (sanit valid (unescape (rev mid_rev))))
          else Some (VStr (sanit valid (trim_quotes v)))
        | [] => Some (VStr (sanit valid (trim_quotes v)))
        end
      else
        let lastc := last v 0 in
        if lastc =? 105 then option_map VInt (parse_int64 (removelast v))
        else if lastc =? 117 then option_map VUint (parse_uint64 (removelast v))
        else if pf v then Some (VFloat v) else Some (VStr (sanit valid v))
    end
  end.

(* ------------------------------------------------------------------ parseMeasurementTags / parseFields *)

Definition tag_step (fx : bool) (acc : list (bytes * bytes)) (comp : bytes) :=
  match split_kv fx comp with
  | Some (k, v) => upsert (unescape k) (unescape v) acc
  | None => acc
  end.

Definition parse_measurement_tags (fx : bool) (part : bytes) : bytes * list (bytes * bytes) :=
  match split_on c_comma part with
  | [] => ([], [])
  | c0 :: comps => (unescape c0, fold_left (tag_step fx) comps [])
  end.

Definition field_step (valid : bool) (pf : bytes -> bool) (fx : bool)
           (acc : list (bytes * value)) (comp : bytes) :=
  match split_kv fx comp with
  | Some (k, v) =>
    match parse_field_value valid pf v with
    | Some x => upsert (unescape k) x acc
    | None => acc
    end
  | None => acc
  end.

Definition parse_fields (valid : bool) (pf : bytes -> bool) (fx : bool) (part : bytes) :=
  fold_left (field_step valid pf fx) (split_on c_comma part) [].

(* ------------------------------------------------------------------ timestamps *)

Inductive precision := PNs | PUs | PMs | PS.

Definition s_us : bytes := [117; 115].
Definition s_ms : bytes := [109; 115].
Definition s_s : bytes := [115].
(* the `switch precision` of parseLineWithPrecision (the empty string and anything unknown = ns) *)
Definition prec_of (s : bytes) : precision :=
  if bytes_eqb s s_us then PUs else if bytes_eqb s s_ms then PMs
  else if bytes_eqb s s_s then PS else PNs.

Definition wrap64 (z : Z) : Z := ((z + 9223372036854775808) mod 18446744073709551616 - 9223372036854775808)%Z.

(* None = time.Now().UnixMicro() *)
Definition ts_convert (p : precision) (raw : Z) : option Z :=
  match p with
  | PUs => Some raw
  | PMs => if ((raw <=? Z.quot max_i64 1000) && (raw >=? Z.quot min_i64 1000))%Z
           then Some (wrap64 (raw * 1000)) else None
  | PS => if ((raw <=? Z.quot max_i64 1000000) && (raw >=? Z.quot min_i64 1000000))%Z
          then Some (wrap64 (raw * 1000000)) else None
  | PNs => Some (Z.quot raw 1000)
  end.

(* ------------------------------------------------------------------ parseLineWithPrecision / batch *)

Definition parse_line (valid : bool) (pf : bytes -> bool) (fx : bool) (p : precision)
           (line : bytes) : option record :=
  let l := trim_space line in
  match l with
  | [] => None
  | c :: _ =>
    if c =? c_hash then None
    else
      match split_on c_space l with
      | p0 :: p1 :: rest =>
        let (m, tags) := parse_measurement_tags fx p0 in
        match m with
        | [] => None
        | _ =>
          match parse_fields valid pf fx p1 with
          | [] => None
          | fields =>
            let ts := match rest with
                      | p2 :: _ => match parse_int64 (trim_space p2) with
                                   | Some raw => ts_convert p raw
                                   | None => None
                                   end
                      | [] => None
                      end in
            Some {| r_meas := m; r_tags := tags; r_fields := fields; r_ts := ts |}
          end
        end
      | _ => None
      end
  end.

(* bytes.Split(data, NL) *)
Fixpoint split_nl_go (l cur : bytes) : list bytes :=
  match l with
  | [] => [rev cur]
  | c :: r => if c =? c_nl then rev cur :: split_nl_go r [] else split_nl_go r (c :: cur)
  end.
Definition split_nl (l : bytes) : list bytes := split_nl_go l [].

Fixpoint filter_map {A B} (f : A -> option B) (l : list A) : list B :=
  match l with
  | [] => []
  | x :: r => match f x with Some y => y :: filter_map f r | None => filter_map f r end
  end.

(* ParseBatchWithPrecision *)
Definition parse_batch (pf : bytes -> bool) (fx : bool) (prec : bytes) (data : bytes) : list record :=
  let valid := valid_utf8 data in
  filter_map (parse_line valid pf fx (prec_of prec)) (split_nl data).

(* ------------------------------------------------------------------ BatchToColumnar *)

Definition s_time : bytes := [116; 105; 109; 101].
Definition s_value_suffix : bytes := [95; 118; 97; 108; 117; 101].   (* _value *)

Definition mem (k : bytes) (l : list bytes) : bool := existsb (bytes_eqb k) l.
Definition dedup (l : list bytes) : list bytes :=
  fold_left (fun acc x => if mem x acc then acc else acc ++ [x]) l [].

Definition has_tag (r : record) (k : bytes) : bool := mem k (map fst (r_tags r)).
Definition col_name (r : record) (k : bytes) : bytes :=
  if has_tag r k then k ++ s_value_suffix else k.
Definition ts_value (r : record) : value := match r_ts r with Some z => VInt z | None => VNow end.

(* the cells one record writes, in the order of the fill loop (time, tags, fields) *)
Definition row_writes (r : record) : list (bytes * value) :=
  (s_time, ts_value r)
    :: map (fun kv => (fst kv, VStr (snd kv))) (r_tags r)
    ++ map (fun kv => (col_name r (fst kv), snd kv)) (r_fields r).

(* columnarData[c][i] after the fill loop: the last write wins, nil when never written *)
Definition row_cell (r : record) (c : bytes) : option value := lookup c (rev (row_writes r)).

Fixpoint group_ins (m : bytes) (r : record) (acc : list (bytes * list record)) :=
  match acc with
  | [] => [(m, [r])]
  | (m', g) :: t => if bytes_eqb m m' then (m', g ++ [r]) :: t else (m', g) :: group_ins m r t
  end.
Definition group (rs : list record) : list (bytes * list record) :=
  fold_left (fun acc r => group_ins (r_meas r) r acc) rs [].

Record columnar := { c_meas : bytes; c_cols : list (bytes * list (option value)); c_tagcols : list bytes }.

Definition columns_of (g : list record) : list bytes :=
  dedup (flat_map (fun r => map fst (row_writes r)) g).

Definition columnar_of (mg : bytes * list record) : columnar :=
  let g := snd mg in
  {| c_meas := fst mg;
     c_cols := map (fun c => (c, map (fun r => row_cell r c) g)) (columns_of g);
     c_tagcols := dedup (flat_map (fun r => map fst (r_tags r)) g) |}.

Definition batch_to_columnar (rs : list record) : list columnar := map columnar_of (group rs).

Fixpoint nodupb (l : list bytes) : bool :=
  match l with [] => true | x :: r => negb (mem x r) && nodupb r end.

(* two fields of one record writing the same column: Go's map order decides (not modelled) *)
Definition row_deterministic (r : record) : bool :=
  nodupb (map (fun kv => col_name r (fst kv)) (r_fields r)).

(* ================================================================== WriteColumnarRecord -> Parquet *)

(* ArrowBuffer.convertColumnsToTyped on the columns BatchToColumnar produced, followed by the
   flush: what a Parquet reader finds.  A column takes the type of its first non-nil cell;
   integers and unsigned integers share the int64 column, and toInt64 refuses an unsigned
   value above MaxInt64 (the whole measurement of the request is then answered with an
   error and nothing of it is stored).  Columns whose name starts with '_' are treated as
   internal by the Arrow schema builder and never reach the file.  Float<->integer
   coercions of mixed columns are not modelled ([CUnmodelled]). *)
Inductive scell :=
| SNull | SInt (z : Z) | SFloat (bits : Z) | SStr (s : bytes) | SBool (b : bool)
| STime (z : Z) | STimeNow.

Inductive cres (A : Type) := COk (x : A) | CReject | CUnmodelled.
Arguments COk {A} _. Arguments CReject {A}. Arguments CUnmodelled {A}.

Inductive ckind := KInt | KFloat | KStr | KBool.

Definition kind_of (v : value) : ckind :=
  match v with
  | VInt _ | VUint _ | VNow => KInt
  | VFloat _ | VFloatBits _ => KFloat
  | VStr _ => KStr
  | VBool _ => KBool
  end.

Fixpoint first_non_nil (cells : list (option value)) : option value :=
  match cells with [] => None | Some v :: _ => Some v | None :: r => first_non_nil r end.

(* toInt64 on what the parser can produce *)
Definition to_int64 (v : value) : cres Z :=
  match v with
  | VInt z => COk z
  | VUint z => if (z <=? max_i64)%Z then COk z else CReject
  | VFloat _ | VFloatBits _ => CUnmodelled
  | _ => CReject
  end.

Definition conv_cell (k : ckind) (c : option value) : cres scell :=
  match c with
  | None => COk SNull
  | Some v =>
    match k with
    | KInt => match v with
              | VNow => COk STimeNow
              | _ => match to_int64 v with COk z => COk (SInt z) | CReject => CReject | CUnmodelled => CUnmodelled end
              end
    | KFloat => match v with
                | VFloatBits b => COk (SFloat b)
                | VInt _ | VUint _ | VFloat _ | VNow => CUnmodelled
                | _ => CReject
                end
    | KStr => match v with VStr s => COk (SStr s) | _ => CReject end
    | KBool => match v with VBool b => COk (SBool b) | _ => CReject end
    end
  end.

(* the time column: always int64 -> Timestamp(us); nil and strings are refused *)
Definition conv_time_cell (c : option value) : cres scell :=
  match c with
  | None => CReject
  | Some VNow => COk STimeNow
  | Some v => match to_int64 v with COk z => COk (STime z) | CReject => CReject | CUnmodelled => CUnmodelled end
  end.

Fixpoint cres_all {A} (l : list (cres A)) : cres (list A) :=
  match l with
  | [] => COk []
  | x :: r =>
    match x, cres_all r with
    | CReject, _ => CReject
    | _, CReject => CReject
    | CUnmodelled, _ => CUnmodelled
    | _, CUnmodelled => CUnmodelled
    | COk a, COk b => COk (a :: b)
    end
  end.

Definition store_column (name : bytes) (cells : list (option value)) : cres (list scell) :=
  if bytes_eqb name s_time then
    match first_non_nil cells with
    | None => CReject
    | Some (VStr _) => CReject
    | Some _ => cres_all (map conv_time_cell cells)
    end
  else
    match first_non_nil cells with
    | None => COk (map (fun _ => SNull) cells)       (* all-null string column *)
    | Some v => cres_all (map (conv_cell (kind_of v)) cells)
    end.

Definition internal_name (name : bytes) : bool := match name with c :: _ => c =? 95 | [] => true end.

Definition nth_row (i : nat) (cols : list (bytes * list scell)) : list (bytes * scell) :=
  map (fun nc => (fst nc, nth i (snd nc) SNull)) cols.

(* rows a reader finds for one measurement of one request, or the refusal.
   [keep_internal = false] is the code; [true] is what the points denote (every key stored) *)
Definition store_measurement (keep_internal : bool) (cr : columnar) : cres (list (list (bytes * scell))) :=
  match cres_all (map (fun nc => match store_column (fst nc) (snd nc) with
                                 | COk cells => COk (fst nc, cells)
                                 | CReject => CReject
                                 | CUnmodelled => CUnmodelled
                                 end) (c_cols cr)) with
  | COk cols =>
    let kept := filter (fun nc => keep_internal || negb (internal_name (fst nc))) cols in
    let n := match c_cols cr with (_, cells) :: _ => length cells | [] => O end in
    COk (map (fun i => nth_row i kept) (seq 0 n))
  | CReject => CReject
  | CUnmodelled => CUnmodelled
  end.

(* a stored cell holds exactly the written value, with its type *)
Definition cell_exact (c : option value) (s : scell) : Prop :=
  match c, s with
  | None, SNull => True
  | Some (VInt z), SInt z' | Some (VInt z), STime z' => z = z'
  | Some (VUint z), SInt z' | Some (VUint z), STime z' => z = z' /\ (z <= max_i64)%Z
  | Some VNow, STimeNow => True
  | Some (VFloatBits b), SFloat b' => b = b'
  | Some (VStr x), SStr y => x = y
  | Some (VBool x), SBool y => x = y
  | _, _ => False
  end.

(* ================================================================== the grammar (spec side) *)

(* A point as the client means it. *)
Inductive fvalue :=
| FFloat (raw : bytes)            (* a decimal float literal *)
| FInt (z : Z) | FUint (z : Z)
| FStr (s : bytes)
| FBool (b : bool) (spelling : N).  (* t T true True TRUE / f F false False FALSE *)

Record point := { p_meas : bytes; p_tags : list (bytes * bytes);
                  p_fields : list (bytes * fvalue); p_ts : option Z }.

(* backslash-escape every byte of the set S *)
Definition escape (S : N -> bool) (s : bytes) : bytes :=
  flat_map (fun c => if S c then [c_bs; c] else [c]) s.

(* tag keys, tag values, field keys: comma space = quote backslash (every byte the parser
   unescapes); measurement: comma space quote backslash and, when [em], also = (InfluxDB
   itself does not escape it there); string field values: quote backslash *)
Definition name_special (c : N) : bool := unesc_special c.
Definition meas_special (em : bool) (c : N) : bool :=
  (c =? c_comma) || (c =? c_space) || (c =? c_quote) || (c =? c_bs) || (em && (c =? c_eq)).
Definition str_special (c : N) : bool := (c =? c_quote) || (c =? c_bs).

Fixpoint dec_rev (fuel : nat) (n : N) : bytes :=
  match fuel with
  | O => []
  | S f => if n <? 10 then [48 + n] else (48 + n mod 10) :: dec_rev f (n / 10)
  end.
Definition dec_N (n : N) : bytes := rev (dec_rev (S (N.to_nat (N.size n))) n).
Definition dec_Z (z : Z) : bytes :=
  if (z <? 0)%Z then 45 :: dec_N (Z.to_N (- z)) else dec_N (Z.to_N z).

Definition bool_lit (b : bool) (sp : N) : bytes :=
  if b then
    (if sp =? 0 then [116] else if sp =? 1 then [84] else if sp =? 2 then [116; 114; 117; 101]
     else if sp =? 3 then [84; 114; 117; 101] else [84; 82; 85; 69])
  else
    (if sp =? 0 then [102] else if sp =? 1 then [70] else if sp =? 2 then [102; 97; 108; 115; 101]
     else if sp =? 3 then [70; 97; 108; 115; 101] else [70; 65; 76; 83; 69]).

Definition enc_fvalue (v : fvalue) : bytes :=
  match v with
  | FFloat raw => raw
  | FInt z => dec_Z z ++ [105]
  | FUint z => dec_Z z ++ [117]
  | FStr s => c_quote :: escape str_special s ++ [c_quote]
  | FBool b sp => bool_lit b sp
  end.

Fixpoint join (d : N) (segs : list bytes) : bytes :=
  match segs with
  | [] => []
  | s :: r => match r with [] => s | _ => s ++ d :: join d r end
  end.

Definition enc_tag (kv : bytes * bytes) : bytes :=
  escape name_special (fst kv) ++ c_eq :: escape name_special (snd kv).
Definition enc_field (kv : bytes * fvalue) : bytes :=
  escape name_special (fst kv) ++ c_eq :: enc_fvalue (snd kv).

Definition encode_point (em : bool) (p : point) : bytes :=
  join c_space
       ([join c_comma (escape (meas_special em) (p_meas p) :: map enc_tag (p_tags p));
         join c_comma (map enc_field (p_fields p))]
          ++ match p_ts p with Some z => [dec_Z z] | None => [] end).

(* one point per line; [tnl] = the body ends with a newline *)
Definition encode_batch (em tnl : bool) (ps : list point) : bytes :=
  join c_nl (map (encode_point em) ps) ++ (if tnl then [c_nl] else []).

(* what must be stored *)
Definition conv_fvalue (v : fvalue) : value :=
  match v with
  | FFloat raw => VFloat raw | FInt z => VInt z | FUint z => VUint z
  | FStr s => VStr s | FBool b _ => VBool b
  end.

(* the timestamp in microseconds, mathematically; None = server time, used when the client
   gave none or the microsecond value is not an int64 *)
Definition spec_ts (p : precision) (raw : Z) : option Z :=
  match p with
  | PUs => Some raw
  | PMs => if in_i64 (raw * 1000) then Some (raw * 1000)%Z else None
  | PS => if in_i64 (raw * 1000000) then Some (raw * 1000000)%Z else None
  | PNs => Some (Z.quot raw 1000)
  end.

Definition conv (p : precision) (pt : point) : record :=
  {| r_meas := p_meas pt; r_tags := p_tags pt;
     r_fields := map (fun kv => (fst kv, conv_fvalue (snd kv))) (p_fields pt);
     r_ts := match p_ts pt with Some raw => spec_ts p raw | None => None end |}.

(* ---- well-formed points: the domain of the round-trip theorem *)

Definition no_nl (s : bytes) : bool := forallb (fun c => negb (c =? c_nl)) s.
Definition float_char (c : N) : bool :=
  is_digit c || (c =? 43) || (c =? 45) || (c =? 46) || (c =? 101) || (c =? 69).

(* the first byte is not '#', and the line does not begin with white space that
   bytes.TrimSpace would strip (a leading ' ' is escaped, so it is fine) *)
Definition meas_lead_ok (m : bytes) : bool :=
  match m with
  | [] => false
  | c :: _ => negb (c =? c_hash)
              && (if c <? 128 then negb (ascii_space c) || (c =? c_space) else Nat.eqb (space_len m) 0)
  end.

Definition wf_name (s : bytes) : bool := negb (bytes_eqb s []) && no_nl s.

Definition wf_fvalue (pf : bytes -> bool) (v : fvalue) : bool :=
  match v with
  | FFloat raw => negb (bytes_eqb raw []) && forallb float_char raw && pf raw
  | FInt z => in_i64 z
  | FUint z => ((0 <=? z) && (z <=? max_u64))%Z
  | FStr s => no_nl s && valid_utf8 s
  | FBool _ _ => true
  end.

Definition wf_point (pf : bytes -> bool) (p : point) : bool :=
  wf_name (p_meas p) && meas_lead_ok (p_meas p)
  && forallb (fun kv => wf_name (fst kv) && no_nl (snd kv)) (p_tags p)
  && nodupb (map fst (p_tags p))
  && negb (Nat.eqb (length (p_fields p)) 0)
  && forallb (fun kv => wf_name (fst kv) && wf_fvalue pf (snd kv)) (p_fields p)
  && nodupb (map fst (p_fields p))
  && match p_ts p with Some z => in_i64 z | None => true end.

(* the class the code in /repo today gets wrong: a tag or field key containing '=' *)
Definition has_eq (s : bytes) : bool := existsb (fun c => c =? c_eq) s.
Definition no_eq_keys (p : point) : bool :=
  forallb (fun kv => negb (has_eq (fst kv))) (p_tags p)
  && forallb (fun kv => negb (has_eq (fst kv))) (p_fields p).

(* no '=' directly after a backslash: where the fixed split and bytes.IndexByte coincide *)
Fixpoint no_bs_eq (l : bytes) : bool :=
  match l with
  | c :: r => negb ((c =? c_bs) && (match r with d :: _ => d =? c_eq | [] => false end)) && no_bs_eq r
  | [] => true
  end.

(* refutation witnesses:  cpu,a\=b=c v=1i   and   cpu,host=a v\=w=1i 1000 *)
Definition w_tag : point :=
  {| p_meas := [99;112;117]; p_tags := [([97;61;98], [99])]; p_fields := [([118], FInt 1)]; p_ts := None |}.
Definition w_field : point :=
  {| p_meas := [99;112;117]; p_tags := [([104;111;115;116], [97])]; p_fields := [([118;61;119], FInt 1)];
     p_ts := Some 1000%Z |}.

(* domain of the columnar theorem: the reserved names the property excludes *)
Definition wf_record (r : record) : bool :=
  nodupb (map fst (r_tags r)) && nodupb (map fst (r_fields r))
  && negb (mem s_time (map fst (r_tags r))) && negb (mem s_time (map fst (r_fields r)))
  && forallb (fun kv => negb (has_tag r (fst kv))) (r_fields r).

(* the row a record denotes: column -> cell *)
Definition flat_lookup (r : record) (c : bytes) : option value :=
  if bytes_eqb c s_time then Some (ts_value r)
  else match lookup c (r_tags r) with
       | Some v => Some (VStr v)
       | None => lookup c (r_fields r)
       end.

(* ================================================================== correspondence *)

Definition value_eqb (a b : value) : bool :=
  match a, b with
  | VBool x, VBool y => Bool.eqb x y
  | VInt x, VInt y => (x =? y)%Z
  | VUint x, VUint y => (x =? y)%Z
  | VFloat x, VFloat y => bytes_eqb x y
  | VFloatBits x, VFloatBits y => (x =? y)%Z
  | VStr x, VStr y => bytes_eqb x y
  | VNow, VNow => true
  | _, _ => false
  end.

Definition opt_eqb {A} (e : A -> A -> bool) (a b : option A) : bool :=
  match a, b with Some x, Some y => e x y | None, None => true | _, _ => false end.

Fixpoint list_eqb {A} (e : A -> A -> bool) (a b : list A) : bool :=
  match a, b with
  | [], [] => true
  | x :: a', y :: b' => e x y && list_eqb e a' b'
  | _, _ => false
  end.

(* equality of two Go maps given as duplicate-free association lists *)
Definition map_eqb {V} (e : V -> V -> bool) (a b : list (bytes * V)) : bool :=
  Nat.eqb (length a) (length b)
  && forallb (fun kv => opt_eqb e (lookup (fst kv) b) (Some (snd kv))) a.

Definition set_eqb (a b : list bytes) : bool :=
  Nat.eqb (length a) (length b) && forallb (fun k => mem k b) a.

(* the strconv.ParseFloat oracle of one case: raw bytes -> float64 bits, for every
   candidate substring ParseFloat accepts (everything else is rejected) *)
Definition ftable := list (bytes * Z).
Definition pf_of (t : ftable) (raw : bytes) : bool :=
  match lookup raw t with Some _ => true | None => false end.
Definition resolve (t : ftable) (v : value) : value :=
  match v with
  | VFloat raw => match lookup raw t with Some b => VFloatBits b | None => v end
  | _ => v
  end.

Definition record_eqb (t : ftable) (model impl : record) : bool :=
  bytes_eqb (r_meas model) (r_meas impl)
  && map_eqb bytes_eqb (r_tags model) (r_tags impl)
  && map_eqb value_eqb (map (fun kv => (fst kv, resolve t (snd kv))) (r_fields model)) (r_fields impl)
  && opt_eqb Z.eqb (r_ts model) (r_ts impl).

Definition columnar_eqb (model impl : columnar) : bool :=
  bytes_eqb (c_meas model) (c_meas impl)
  && map_eqb (list_eqb (opt_eqb value_eqb)) (c_cols model) (c_cols impl)
  && set_eqb (c_tagcols model) (c_tagcols impl).

Definition columnars_eqb (model impl : list columnar) : bool :=
  Nat.eqb (length model) (length impl)
  && forallb (fun m => existsb (columnar_eqb m) impl) model.

Definition scell_eqb (a b : scell) : bool :=
  match a, b with
  | SNull, SNull | STimeNow, STimeNow => true
  | SInt x, SInt y | SFloat x, SFloat y | STime x, STime y => (x =? y)%Z
  | SStr x, SStr y => bytes_eqb x y
  | SBool x, SBool y => Bool.eqb x y
  | _, _ => false
  end.

(* multiset equality of rows *)
Fixpoint remove_first {A} (e : A -> A -> bool) (x : A) (l : list A) : option (list A) :=
  match l with
  | [] => None
  | y :: r => if e x y then Some r else option_map (cons y) (remove_first e x r)
  end.
Fixpoint multiset_eqb {A} (e : A -> A -> bool) (a b : list A) : bool :=
  match a with
  | [] => match b with [] => true | _ => false end
  | x :: r => match remove_first e x b with Some b' => multiset_eqb e r b' | None => false end
  end.

(* what was found in storage for one measurement *)
Record sobs := { so_meas : bytes; so_accepted : bool; so_rows : list (list (bytes * scell)) }.

(* [strict]: the verdict of the model must be matched exactly; otherwise (the property oracle)
   only an ACCEPTED measurement is judged: it must be storable and stored exactly *)
Definition stored_ok (strict : bool) (cr : columnar) (o : sobs) : bool :=
  match store_measurement (negb strict) cr with
  | CUnmodelled => true
  | CReject => negb (so_accepted o) && match so_rows o with [] => true | _ => false end
  | COk rows =>
    if so_accepted o then multiset_eqb (map_eqb scell_eqb) rows (so_rows o)
    else negb strict && match so_rows o with [] => true | _ => false end
  end.

Definition store_agrees (strict : bool) (cols : list columnar) (obs : list sobs) : bool :=
  Nat.eqb (length cols) (length obs)
  && forallb (fun cr => existsb (fun o => bytes_eqb (c_meas cr) (so_meas o) && stored_ok strict cr o) obs) cols.

Definition resolve_record (t : ftable) (r : record) : record :=
  {| r_meas := r_meas r; r_tags := r_tags r;
     r_fields := map (fun kv => (fst kv, resolve t (snd kv))) (r_fields r); r_ts := r_ts r |}.

Record ccase := {
  k_em : bool; k_tnl : bool;
  k_points : option (list point);   (* Some ps: the body was generated from these points *)
  k_prec : bytes;
  k_data : bytes;                   (* the request body the implementation parsed *)
  k_floats : ftable;
  k_obs : list record;              (* records returned by ParseBatchWithPrecision *)
  k_cols : option (list columnar);  (* BatchToColumnar of those records, when recorded *)
  k_store : option (list sobs)      (* Parquet read-back after WriteColumnarRecord + FlushAll, when run *)
}.

(* model = implementation ([fx]: which key=value split the implementation is taken to
   have): the parser on the body, and BatchToColumnar on the observed
   records (skipped for records where Go's map order decides a collision) *)
Definition case_agrees (fx : bool) (c : ccase) : bool :=
  list_eqb (record_eqb (k_floats c))
           (parse_batch (pf_of (k_floats c)) fx (k_prec c) (k_data c)) (k_obs c)
  && match k_cols c with
     | Some cols => negb (forallb row_deterministic (k_obs c))
                    || columnars_eqb (batch_to_columnar (k_obs c)) cols
     | None => true
     end
  && match k_cols c, k_store c with
     | Some cols, Some obs => store_agrees true cols obs
     | _, _ => true
     end.

(* the body really is the canonical encoding of the points (ties the Python encoder to [encode_batch]) *)
Definition case_encoded (c : ccase) : bool :=
  match k_points c with
  | Some ps => bytes_eqb (encode_batch (k_em c) (k_tnl c) ps) (k_data c)
  | None => true
  end.

(* the property on the implementation's output, independent of the model's opinion:
   the stored records are exactly the points, and every column cell is what the row denotes *)
Definition cols_ok (rs : list record) (cols : list columnar) : bool :=
  Nat.eqb (length cols) (length (dedup (map r_meas rs)))
  && forallb (fun cr =>
       let g := filter (fun r => bytes_eqb (r_meas r) (c_meas cr)) rs in
       negb (Nat.eqb (length g) 0)
       && forallb (fun cc => list_eqb (opt_eqb value_eqb) (snd cc) (map (fun r => flat_lookup r (fst cc)) g)) (c_cols cr)
       && forallb (fun r => forallb (fun c => mem c (map fst (c_cols cr))) (map fst (row_writes r))) g) cols.

Definition case_oracle (c : ccase) : bool :=
  match k_points c with
  | Some ps =>
    list_eqb (record_eqb (k_floats c)) (map (conv (prec_of (k_prec c))) ps) (k_obs c)
    && match k_cols c with
       | Some cols => negb (forallb wf_record (k_obs c)) || cols_ok (k_obs c) cols
       | None => true
       end
    (* second observable: every measurement the buffer ACCEPTED is in the Parquet files with
       exactly the rows the points denote (typed values, nulls where absent) *)
    && match k_store c with
       | Some obs =>
         let rs := map (fun p => resolve_record (k_floats c) (conv (prec_of (k_prec c)) p)) ps in
         negb (forallb wf_record rs) || store_agrees false (batch_to_columnar rs) obs
       | None => true
       end
  | None => true
  end.

(* inside the domain of the theorems *)
Definition case_wf (c : ccase) : bool :=
  match k_points c with
  | Some ps => forallb (wf_point (pf_of (k_floats c))) ps
  | None => false
  end.
Definition case_guard (c : ccase) : bool :=
  match k_points c with Some ps => forallb no_eq_keys ps | None => true end.
