(* C01 - proofs about the line-protocol model. *)
From Coq Require Import List ZArith NArith Bool Lia ZifyBool ZifyN ZifyNat.
From Arc Require Import LP.Model.
Import ListNotations.
Open Scope N_scope.
Ltac Zify.zify_post_hook ::= Z.div_mod_to_equations.

(* ================================================================== byte strings *)

Lemma bytes_eqb_spec : forall a b, reflect (a = b) (bytes_eqb a b).
Proof.
  induction a as [|x a IH]; destruct b as [|y b]; cbn; try (constructor; congruence).
  destruct (N.eqb_spec x y); cbn.
  - destruct (IH b); constructor; congruence.
  - constructor; congruence.
Qed.

Lemma bytes_eqb_refl a : bytes_eqb a a = true.
Proof. destruct (bytes_eqb_spec a a); congruence. Qed.

Lemma bytes_eqb_neq a b : a <> b -> bytes_eqb a b = false.
Proof. destruct (bytes_eqb_spec a b); congruence. Qed.

Lemma mem_In k l : mem k l = true <-> In k l.
Proof.
  unfold mem. rewrite existsb_exists. split.
  - intros [x [Hx E]]. destruct (bytes_eqb_spec k x); congruence.
  - intros H. exists k. split; [exact H|apply bytes_eqb_refl].
Qed.

Lemma mem_false k l : mem k l = false <-> ~ In k l.
Proof. rewrite <- mem_In. destruct (mem k l); split; congruence. Qed.

Lemma nodupb_NoDup l : nodupb l = true -> NoDup l.
Proof.
  induction l as [|x r IH]; cbn; [constructor|].
  rewrite andb_true_iff, negb_true_iff, mem_false. intros [H1 H2]. constructor; auto.
Qed.

(* ================================================================== splitOnDelimiter *)

Lemma split_go_pair d x r cur inq acc :
  split_go d (c_bs :: x :: r) cur inq acc = split_go d r (x :: c_bs :: cur) inq acc.
Proof. reflexivity. Qed.

Lemma split_go_quote d r cur inq acc :
  split_go d (c_quote :: r) cur inq acc = split_go d r (c_quote :: cur) (negb inq) acc.
Proof. cbn. destruct r; reflexivity. Qed.

Lemma split_go_inert d c r cur inq acc :
  c <> c_bs -> c <> c_quote -> (c =? d) && negb inq = false ->
  split_go d (c :: r) cur inq acc = split_go d r (c :: cur) inq acc.
Proof.
  intros H1 H2 H3. cbn [split_go].
  apply N.eqb_neq in H1. apply N.eqb_neq in H2. rewrite H1, H2, H3. reflexivity.
Qed.

Lemma split_go_delim d r cur acc :
  d <> c_bs -> d <> c_quote ->
  split_go d (d :: r) cur false acc = split_go d r [] false (push cur acc).
Proof.
  intros H1 H2. cbn [split_go].
  apply N.eqb_neq in H1. apply N.eqb_neq in H2. rewrite H1, H2, N.eqb_refl. reflexivity.
Qed.

(* a segment the scanner walks through without splitting, entering and leaving unquoted *)
Definition passes (d : N) (seg : bytes) : Prop :=
  forall rest cur acc,
    split_go d (seg ++ rest) cur false acc = split_go d rest (rev seg ++ cur) false acc.

Lemma passes_nil d : passes d [].
Proof. intros rest cur acc. reflexivity. Qed.

Lemma passes_app d a b : passes d a -> passes d b -> passes d (a ++ b).
Proof.
  intros Ha Hb rest cur acc. rewrite <- app_assoc, Ha, Hb, rev_app_distr, <- app_assoc. reflexivity.
Qed.

Lemma passes_inert1 d c : c <> c_bs -> c <> c_quote -> c <> d -> passes d [c].
Proof.
  intros H1 H2 H3 rest cur acc. cbn [app rev].
  apply split_go_inert; auto. apply N.eqb_neq in H3. rewrite H3. reflexivity.
Qed.

Definition inert (d c : N) : Prop := c <> c_bs /\ c <> c_quote /\ c <> d.

Lemma passes_plain d s : Forall (inert d) s -> passes d s.
Proof.
  induction 1 as [|c s [H1 [H2 H3]] _ IH]; [apply passes_nil|].
  change (c :: s) with ([c] ++ s). apply passes_app; [apply passes_inert1; auto|exact IH].
Qed.

(* scanning an escaped string: every byte that could matter is behind a backslash *)
Lemma scan_escape d S inq s :
  (forall c, In c s -> S c = false -> c <> c_bs /\ c <> c_quote /\ (inq = false -> c <> d)) ->
  forall rest cur acc,
    split_go d (escape S s ++ rest) cur inq acc
    = split_go d rest (rev (escape S s) ++ cur) inq acc.
Proof.
  induction s as [|c s IH]; intros HS rest cur acc; [reflexivity|].
  unfold escape in *. cbn [flat_map].
  assert (HS' : forall c0, In c0 s -> S c0 = false -> c0 <> c_bs /\ c0 <> c_quote /\ (inq = false -> c0 <> d))
    by (intros; apply HS; [right; assumption|assumption]).
  destruct (S c) eqn:E.
  - cbn [app]. rewrite split_go_pair, (IH HS'). cbn [rev]. rewrite <- !app_assoc. reflexivity.
  - destruct (HS c (or_introl eq_refl) E) as [H1 [H2 H3]]. cbn [app].
    rewrite split_go_inert; auto.
    + rewrite (IH HS'). cbn [rev]. rewrite <- !app_assoc. reflexivity.
    + destruct inq; [apply andb_false_r|]. specialize (H3 eq_refl). apply N.eqb_neq in H3.
      rewrite H3. reflexivity.
Qed.

Lemma passes_escape d S s :
  S c_bs = true -> S c_quote = true -> S d = true -> passes d (escape S s).
Proof.
  intros Hb Hq Hd rest cur acc. apply scan_escape.
  intros c _ E. repeat split; intro; subst; congruence.
Qed.

Lemma passes_quoted d S s :
  S c_bs = true -> S c_quote = true -> passes d (c_quote :: escape S s ++ [c_quote]).
Proof.
  intros Hb Hq rest cur acc. cbn [app]. rewrite split_go_quote. cbn [negb].
  rewrite <- app_assoc. rewrite scan_escape.
  - cbn [app]. rewrite split_go_quote. cbn [negb rev]. rewrite rev_app_distr. cbn [rev app].
    rewrite <- !app_assoc. reflexivity.
  - intros c _ E. repeat split; intro; subst; congruence.
Qed.

Lemma push_rev s acc : s <> [] -> push (rev s ++ []) acc = s :: acc.
Proof.
  intros H. rewrite app_nil_r. unfold push. destruct (rev s) eqn:E.
  - apply (f_equal (@rev N)) in E. rewrite rev_involutive in E. cbn in E. congruence.
  - rewrite <- E, rev_involutive. reflexivity.
Qed.

Lemma split_sep d s rest acc :
  passes d s -> s <> [] -> d <> c_bs -> d <> c_quote ->
  split_go d (s ++ d :: rest) [] false acc = split_go d rest [] false (s :: acc).
Proof. intros Hp Hs H1 H2. rewrite Hp, split_go_delim, push_rev; auto. Qed.

Lemma split_end d s acc :
  passes d s -> s <> [] -> split_go d s [] false acc = rev acc ++ [s].
Proof.
  intros Hp Hs. rewrite <- (app_nil_r s) at 1. rewrite Hp. cbn [split_go].
  rewrite push_rev; auto.
Qed.

Lemma split_join d segs : d <> c_bs -> d <> c_quote ->
  Forall (fun s => passes d s /\ s <> []) segs ->
  forall acc, split_go d (join d segs) [] false acc = rev acc ++ segs.
Proof.
  intros H1 H2. induction 1 as [|s r [Hp Hs] Hr IH]; intros acc.
  - cbn. rewrite app_nil_r. reflexivity.
  - cbn [join]. destruct r as [|s2 r'].
    + apply split_end; auto.
    + rewrite split_sep; auto. rewrite IH. cbn [rev]. rewrite <- app_assoc. reflexivity.
Qed.

Lemma split_on_join d segs : d <> c_bs -> d <> c_quote ->
  Forall (fun s => passes d s /\ s <> []) segs -> split_on d (join d segs) = segs.
Proof. intros. unfold split_on. rewrite split_join; auto. Qed.

Lemma passes_join d d' segs : inert d d' -> Forall (passes d) segs -> passes d (join d' segs).
Proof.
  intros [H1 [H2 H3]]. induction 1 as [|s r Hs Hr IH]; [apply passes_nil|].
  cbn [join]. destruct r as [|s2 r']; [exact Hs|].
  apply passes_app; [exact Hs|]. change (d' :: join d' (s2 :: r')) with ([d'] ++ join d' (s2 :: r')).
  apply passes_app; [apply passes_inert1; auto|exact IH].
Qed.

(* ================================================================== unescape *)

Lemma unescape_slow_plain l : existsb (fun c => c =? c_bs) l = false -> unescape_slow l = l.
Proof.
  induction l as [|c r IH]; cbn [existsb unescape_slow]; [reflexivity|].
  rewrite orb_false_iff. intros [H1 H2]. rewrite H1, (IH H2). reflexivity.
Qed.

Lemma unescape_eq l : unescape l = unescape_slow l.
Proof.
  unfold unescape. destruct (existsb _ l) eqn:E; [reflexivity|].
  symmetry. apply unescape_slow_plain. exact E.
Qed.

Lemma unescape_escape S s :
  (forall c, S c = true -> unesc_special c = true) -> S c_bs = true -> unescape (escape S s) = s.
Proof.
  intros HS Hb. rewrite unescape_eq. unfold escape.
  induction s as [|c s IH]; [reflexivity|]. cbn [flat_map]. destruct (S c) eqn:E.
  - cbn [app unescape_slow]. rewrite N.eqb_refl, (HS c E), IH. reflexivity.
  - cbn [app unescape_slow]. assert (c <> c_bs) by (intro; subst; congruence).
    apply N.eqb_neq in H. rewrite H, IH. reflexivity.
Qed.

Lemma escape_nonempty S s : s <> [] -> escape S s <> [].
Proof. destruct s as [|c s]; [congruence|]. intros _. unfold escape. cbn. destruct (S c); discriminate. Qed.

Lemma escape_In S s x : In x (escape S s) -> x = c_bs \/ In x s.
Proof.
  unfold escape. induction s as [|c s IH]; cbn [flat_map]; [intros []|].
  rewrite in_app_iff. intros [H|H].
  - destruct (S c); cbn in H; cbn [In]; intuition (subst; auto).
  - destruct (IH H); [left|right; right]; assumption.
Qed.

(* ================================================================== key=value split *)

Lemma index_byte_first c a rest :
  ~ In c a -> index_byte c (a ++ c :: rest) = Some (length a).
Proof.
  induction a as [|x a IH]; cbn [app index_byte length]; intros H.
  - rewrite N.eqb_refl. reflexivity.
  - assert (x <> c) by (intro; apply H; left; assumption). apply N.eqb_neq in H0. rewrite H0.
    rewrite IH; [reflexivity|]. intro; apply H; right; assumption.
Qed.

Lemma index_unescaped_escape S k rest :
  S c_bs = true -> S c_eq = true ->
  index_unescaped c_eq (escape S k ++ c_eq :: rest) = Some (length (escape S k)).
Proof.
  intros Hb He. unfold escape. induction k as [|c k IH]; cbn [flat_map app length].
  - cbn. reflexivity.
  - destruct (S c) eqn:E.
    + cbn [app length]. change (index_unescaped c_eq (c_bs :: c :: ?r))
        with (option_map (fun i => Datatypes.S (Datatypes.S i)) (index_unescaped c_eq r)).
      rewrite IH. reflexivity.
    + assert (c <> c_bs) by (intro; subst; congruence).
      assert (c <> c_eq) by (intro; subst; congruence).
      apply N.eqb_neq in H. apply N.eqb_neq in H0.
      cbn [app length index_unescaped]. rewrite H, H0, IH. reflexivity.
Qed.

(* which keys each variant of the split finds *)
Definition okkey (fx : bool) (k : bytes) : Prop := if fx then True else ~ In c_eq k.

Lemma find_eq_key fx k rest : okkey fx k ->
  find_eq fx (escape name_special k ++ c_eq :: rest) = Some (length (escape name_special k)).
Proof.
  unfold find_eq, okkey. destruct fx; intros H.
  - apply index_unescaped_escape; reflexivity.
  - apply index_byte_first. intros Hin. destruct (escape_In _ _ _ Hin) as [E|E]; [discriminate E|auto].
Qed.

Lemma firstn_mid (a b : bytes) x : firstn (length a) (a ++ x :: b) = a.
Proof. rewrite firstn_app, Nat.sub_diag, firstn_all. cbn. apply app_nil_r. Qed.

Lemma skipn_mid (a b : bytes) x : skipn (S (length a)) (a ++ x :: b) = b.
Proof.
  rewrite skipn_app, skipn_all2 by lia.
  replace (S (length a) - length a)%nat with 1%nat by lia. reflexivity.
Qed.

Lemma split_kv_enc fx k rest : okkey fx k -> k <> [] ->
  split_kv fx (escape name_special k ++ c_eq :: rest) = Some (escape name_special k, rest).
Proof.
  intros Hk Hne. unfold split_kv. rewrite (find_eq_key fx k rest Hk).
  pose proof (escape_nonempty name_special k Hne) as Hn.
  destruct (length (escape name_special k)) as [|i] eqn:L.
  - destruct (escape name_special k); [congruence|discriminate L].
  - rewrite <- L, firstn_mid, skipn_mid. reflexivity.
Qed.

(* ================================================================== Go maps as association lists *)

Lemma upsert_fresh {V} k (v : V) l : ~ In k (map fst l) -> upsert k v l = l ++ [(k, v)].
Proof.
  induction l as [|[k' v'] r IH]; cbn [upsert map fst app In]; intros H; [reflexivity|].
  rewrite bytes_eqb_neq by (intro; subst; apply H; left; reflexivity).
  rewrite IH; [reflexivity|]. intro; apply H; right; assumption.
Qed.

Lemma fold_upsert {A X V} (step : list (bytes * V) -> A -> list (bytes * V))
      (enc : X -> A) (key : X -> bytes) (val : X -> V) items :
  forall acc,
    (forall a x, In x items -> step a (enc x) = upsert (key x) (val x) a) ->
    NoDup (map fst acc ++ map key items) ->
    fold_left step (map enc items) acc = acc ++ map (fun x => (key x, val x)) items.
Proof.
  induction items as [|x r IH]; intros acc Hs Hn; cbn [map fold_left]; [symmetry; apply app_nil_r|].
  rewrite (Hs acc x) by (left; reflexivity).
  cbn [map] in Hn. rewrite upsert_fresh.
  - rewrite IH.
    + rewrite <- app_assoc. reflexivity.
    + intros a y Hin. apply Hs. right. exact Hin.
    + rewrite map_app. cbn [map fst]. rewrite <- app_assoc. exact Hn.
  - apply NoDup_remove_2 in Hn. intro Hin. apply Hn. apply in_or_app. left. exact Hin.
Qed.

(* ================================================================== bytes.TrimSpace *)

Lemma trim_with_id len fuel l : len l = 0%nat -> trim_with len fuel l = l.
Proof. intros H. destruct fuel; cbn [trim_with]; [reflexivity|]. rewrite H. reflexivity. Qed.

(* the last byte is a non-blank ASCII byte *)
Definition last_ok (l : bytes) : Prop :=
  exists l' c, l = l' ++ [c] /\ c < 128 /\ ascii_space c = false.

Lemma last_ok_app a b : last_ok b -> last_ok (a ++ b).
Proof. intros [l' [c [E H]]]. exists (a ++ l'), c. subst. rewrite app_assoc. auto. Qed.

Lemma last_ok_cons x b : last_ok b -> last_ok (x :: b).
Proof. apply (last_ok_app [x]). Qed.

Lemma sl3_ascii c d e : c < 128 -> ascii_space c = false -> sl3 c d e = 0%nat.
Proof.
  intros H1 H2. unfold sl3. apply N.ltb_lt in H1. rewrite H1, H2. reflexivity.
Qed.

Lemma trim_space_id l : space_len l = 0%nat -> last_ok l -> trim_space l = l.
Proof.
  intros Hs [l' [c [E [H1 H2]]]]. unfold trim_space, trim_left. rewrite trim_with_id by exact Hs.
  unfold trim_right. rewrite trim_with_id; [apply rev_involutive|].
  subst l. rewrite rev_app_distr. cbn [rev app]. unfold space_len_rev. cbn [nth].
  apply N.ltb_lt in H1. rewrite H1, H2. reflexivity.
Qed.

Lemma space_len_ascii c r : c < 128 -> ascii_space c = false -> space_len (c :: r) = 0%nat.
Proof. intros. unfold space_len. cbn [nth]. apply sl3_ascii; assumption. Qed.

Lemma sl3_second_ascii c x y : 128 <= c -> x < 128 -> sl3 c x y = 0%nat.
Proof.
  intros Hc Hx. unfold sl3.
  destruct (c <? 128) eqn:E; [lia|].
  destruct (space2 c x) eqn:E2; [unfold space2 in E2; lia|].
  destruct (space3 c x y) eqn:E3; [unfold space3 in E3; lia|]. reflexivity.
Qed.

Lemma sl3_third_ascii c x y y' : 128 <= c -> y < 128 -> sl3 c x y' = 0%nat -> sl3 c x y = 0%nat.
Proof.
  intros Hc Hy. unfold sl3.
  destruct (c <? 128) eqn:E; [lia|].
  destruct (space2 c x) eqn:E2; [discriminate|].
  destruct (space3 c x y) eqn:E3; [unfold space3 in E3; lia|]. reflexivity.
Qed.

Definition ascii_head (rest : bytes) : Prop := nth 0 rest 0 < 128.

Lemma meas_special_high em c : 128 <= c -> meas_special em c = false.
Proof.
  intros H. unfold meas_special, c_comma, c_space, c_quote, c_bs, c_eq.
  destruct em; cbn [andb]; lia.
Qed.

(* the first bytes of an escaped name: either an ASCII byte shows up, or they are the name's *)
Lemma escape_prefix S m rest : (forall c, S c = true -> c < 128) -> ascii_head rest ->
  let X := escape S m ++ rest in
  nth 0 X 0 < 128 \/ (nth 0 X 0 = nth 0 m 0 /\ (nth 1 X 0 < 128 \/ nth 1 X 0 = nth 1 m 0)).
Proof.
  intros HS Hr. unfold escape. destruct m as [|d m2]; cbn [flat_map app].
  - left. exact Hr.
  - destruct (S d) eqn:Ed; cbn [app nth].
    + left. unfold c_bs. lia.
    + right. split; [reflexivity|]. destruct m2 as [|e m3]; cbn [flat_map app].
      * left. exact Hr.
      * destruct (S e) eqn:Ee; cbn [app nth]; [left; unfold c_bs; lia|right; reflexivity].
Qed.

Lemma space_len_meas em m rest : meas_lead_ok m = true -> ascii_head rest ->
  space_len (escape (meas_special em) m ++ rest) = 0%nat.
Proof.
  destruct m as [|c m1]; [discriminate|]. unfold meas_lead_ok. rewrite andb_true_iff.
  intros [Hh Hl] Hr. unfold escape. cbn [flat_map].
  destruct (c <? 128) eqn:E.
  - destruct (meas_special em c) eqn:Es; cbn [app].
    + apply space_len_ascii; [unfold c_bs; lia|reflexivity].
    + apply space_len_ascii; [lia|].
      assert (c =? c_space = false).
      { unfold meas_special in Es. rewrite !orb_false_iff in Es. tauto. }
      rewrite H, orb_false_r, negb_true_iff in Hl. exact Hl.
  - assert (Hc : 128 <= c) by lia. rewrite (meas_special_high em c Hc). cbn [app].
    unfold space_len in *. cbn [nth] in *. apply Nat.eqb_eq in Hl.
    destruct (escape_prefix (meas_special em) m1 rest) as [H|[H1 [H2|H2]]]; auto.
    + intros x Hx. destruct (N.ltb_spec x 128); [assumption|].
      rewrite meas_special_high in Hx by assumption. discriminate.
    + apply sl3_second_ascii; assumption.
    + unfold escape in H1. rewrite H1. eapply sl3_third_ascii; eauto.
    + unfold escape in H1, H2. rewrite H1, H2. exact Hl.
Qed.

(* ================================================================== decimal numbers *)

Lemma digits_val_app a b : forall acc,
  digits_val acc (a ++ b) = match digits_val acc a with Some x => digits_val x b | None => None end.
Proof.
  induction a as [|c a IH]; intros acc; cbn [app digits_val]; [reflexivity|].
  destruct (is_digit c); [apply IH|reflexivity].
Qed.

Lemma dec_rev_S f n :
  dec_rev (S f) n = if n <? 10 then [48 + n] else (48 + n mod 10) :: dec_rev f (n / 10).
Proof. reflexivity. Qed.

Lemma dec_rev_spec f : forall n, n < 2 ^ N.of_nat (S f) ->
  digits_val 0 (rev (dec_rev (S f) n)) = Some (Z.of_N n)
  /\ Forall (fun c => is_digit c = true) (dec_rev (S f) n) /\ dec_rev (S f) n <> [].
Proof.
  induction f as [|f IH]; intros n Hn.
  - change (2 ^ N.of_nat 1) with 2 in Hn. rewrite dec_rev_S.
    assert (E : n <? 10 = true) by lia. rewrite E. cbn [rev app digits_val].
    assert (D : is_digit (48 + n) = true) by (unfold is_digit; lia). rewrite D.
    repeat split; [f_equal; lia|repeat constructor; exact D|discriminate].
  - rewrite dec_rev_S. destruct (n <? 10) eqn:E.
    + cbn [rev app digits_val].
      assert (D : is_digit (48 + n) = true) by (unfold is_digit; lia). rewrite D.
      repeat split; [f_equal; lia|repeat constructor; exact D|discriminate].
    + assert (Hq : n / 10 < 2 ^ N.of_nat (S f)).
      { rewrite Nat2N.inj_succ, N.pow_succ_r' in Hn. remember (2 ^ N.of_nat (S f)) as p. lia. }
      destruct (IH (n / 10) Hq) as [H1 [H2 H3]].
      cbn [rev]. rewrite digits_val_app, H1. cbn [digits_val].
      assert (D : is_digit (48 + n mod 10) = true) by (unfold is_digit; lia). rewrite D.
      repeat split; [f_equal; lia|constructor; assumption|discriminate].
Qed.

Lemma dec_N_spec n :
  digits_val 0 (dec_N n) = Some (Z.of_N n)
  /\ Forall (fun c => is_digit c = true) (dec_N n) /\ dec_N n <> [].
Proof.
  unfold dec_N.
  assert (Hn : n < 2 ^ N.of_nat (S (N.to_nat (N.size n)))).
  { rewrite Nat2N.inj_succ, N2Nat.id, N.pow_succ_r'. pose proof (N.size_gt n). lia. }
  destruct (dec_rev_spec _ n Hn) as [H1 [H2 H3]]. repeat split; [exact H1| |].
  - apply Forall_rev. exact H2.
  - intro E. apply H3. apply (f_equal (@rev N)) in E. rewrite rev_involutive in E. exact E.
Qed.

Lemma parse_dec_dec_N n : parse_dec (dec_N n) = Some (Z.of_N n).
Proof.
  destruct (dec_N_spec n) as [H1 [_ H3]]. unfold parse_dec.
  destruct (dec_N n); [congruence|exact H1].
Qed.

Lemma dec_N_head n : exists c r, dec_N n = c :: r /\ is_digit c = true.
Proof.
  destruct (dec_N_spec n) as [_ [H2 H3]]. destruct (dec_N n) as [|c r]; [congruence|].
  exists c, r. split; [reflexivity|]. inversion H2; assumption.
Qed.

Lemma parse_int64_dec_Z z : in_i64 z = true -> parse_int64 (dec_Z z) = Some z.
Proof.
  unfold in_i64, min_i64, max_i64. intros H. unfold dec_Z. destruct (z <? 0)%Z eqn:E.
  - unfold parse_int64. change (45 =? 45) with true. change ((45 =? 43) || true) with true. cbv iota.
    rewrite parse_dec_dec_N. rewrite Z2N.id by lia. unfold max_i64.
    assert (L : (- z <=? 9223372036854775807 + 1)%Z = true) by lia. rewrite L. f_equal. lia.
  - destruct (dec_N_head (Z.to_N z)) as [c [r [Hc Hd]]].
    pose proof (parse_dec_dec_N (Z.to_N z)) as P. rewrite Hc in *. unfold parse_int64.
    assert (E1 : c =? 45 = false) by (unfold is_digit in Hd; lia).
    assert (E2 : c =? 43 = false) by (unfold is_digit in Hd; lia).
    rewrite E1, E2. cbn [orb]. rewrite P. rewrite Z2N.id by lia. unfold max_i64.
    assert (L : (z <=? 9223372036854775807)%Z = true) by lia. rewrite L. reflexivity.
Qed.

Lemma parse_uint64_dec_Z z : (0 <=? z)%Z && (z <=? max_u64)%Z = true -> parse_uint64 (dec_Z z) = Some z.
Proof.
  intros H. unfold dec_Z. assert (E : (z <? 0)%Z = false) by lia. rewrite E.
  unfold parse_uint64. rewrite parse_dec_dec_N. rewrite Z2N.id by lia.
  assert (L : (z <=? max_u64)%Z = true) by lia. rewrite L. reflexivity.
Qed.

(* the bytes of a printed integer: an optional minus sign and digits *)
Definition num_char (c : N) : bool := is_digit c || (c =? 45).

Lemma dec_Z_chars z : Forall (fun c => num_char c = true) (dec_Z z) /\ dec_Z z <> [].
Proof.
  unfold dec_Z. destruct (dec_N_spec (Z.to_N z)) as [_ [H2 H3]].
  destruct (dec_N_spec (Z.to_N (- z))) as [_ [H2' H3']].
  assert (W : forall l, Forall (fun c => is_digit c = true) l -> Forall (fun c => num_char c = true) l).
  { intros l. apply Forall_impl. intros a Ha. unfold num_char. rewrite Ha. reflexivity. }
  destruct (z <? 0)%Z; split; try discriminate; auto.
Qed.

(* ================================================================== field values *)

Lemma bool_of_spelling_none c r : lower c <> 116 -> lower c <> 102 -> bool_of_spelling (c :: r) = None.
Proof.
  intros H1 H2. unfold bool_of_spelling. destruct r as [|d r].
  - unfold lower in *. destruct ((65 <=? c) && (c <=? 90)) eqn:E.
    + assert (E1 : (c =? 116) || (c =? 84) = false) by lia.
      assert (E2 : (c =? 102) || (c =? 70) = false) by lia. rewrite E1, E2. reflexivity.
    + assert (E1 : (c =? 116) || (c =? 84) = false) by lia.
      assert (E2 : (c =? 102) || (c =? 70) = false) by lia. rewrite E1, E2. reflexivity.
  - unfold eq_fold, s_true, s_false. cbn [map bytes_eqb].
    apply N.eqb_neq in H1. apply N.eqb_neq in H2. rewrite H1, H2. reflexivity.
Qed.

Lemma sanit_valid valid s : valid_utf8 s = true -> sanit valid s = s.
Proof. intros H. unfold sanit, sanitize. rewrite H. destruct valid; reflexivity. Qed.

Lemma str_special_unesc c : str_special c = true -> unesc_special c = true.
Proof. unfold str_special, unesc_special. intros H. lia. Qed.

(* bytes of numbers: nothing the scanners, TrimSpace or the boolean test react to *)
Definition quiet (c : N) : Prop :=
  c < 128 /\ ascii_space c = false /\ c <> c_quote /\ c <> c_bs /\ c <> c_comma /\ c <> c_nl
  /\ lower c <> 116 /\ lower c <> 102 /\ c <> 105 /\ c <> 117.

Lemma float_char_quiet c : float_char c = true -> quiet c.
Proof.
  unfold float_char, is_digit, quiet, ascii_space, lower, c_quote, c_bs, c_comma, c_nl. intros H.
  destruct ((65 <=? c) && (c <=? 90)) eqn:E; repeat split; lia.
Qed.

Lemma num_char_quiet c : num_char c = true -> quiet c.
Proof.
  unfold num_char, is_digit, quiet, ascii_space, lower, c_quote, c_bs, c_comma, c_nl. intros H.
  destruct ((65 <=? c) && (c <=? 90)) eqn:E; repeat split; lia.
Qed.

Lemma quiet_last_ok l : l <> [] -> Forall quiet l -> last_ok l.
Proof.
  intros Hn Hq. destruct (exists_last Hn) as [l' [c E]]. subst l.
  apply Forall_app in Hq. destruct Hq as [_ Hc]. inversion Hc as [|? ? Q _]; subst.
  exists l', c. unfold quiet in Q. tauto.
Qed.

Lemma quiet_trim l : l <> [] -> Forall quiet l -> trim_space l = l.
Proof.
  intros Hn Hq. apply trim_space_id; [|apply quiet_last_ok; assumption].
  destruct l as [|c r]; [congruence|]. inversion Hq as [|? ? Q _]; subst.
  apply space_len_ascii; unfold quiet in Q; tauto.
Qed.

Lemma pfv_str valid pf s : valid_utf8 s = true ->
  parse_field_value valid pf (c_quote :: escape str_special s ++ [c_quote]) = Some (VStr s).
Proof.
  intros Hv. unfold parse_field_value. rewrite trim_space_id.
  - rewrite bool_of_spelling_none by (vm_compute; discriminate).
    rewrite N.eqb_refl, rev_app_distr. cbn [rev app]. rewrite N.eqb_refl, rev_involutive.
    rewrite unescape_escape; [|apply str_special_unesc|reflexivity].
    rewrite sanit_valid by exact Hv. reflexivity.
  - apply space_len_ascii; [unfold c_quote; lia|reflexivity].
  - exists (c_quote :: escape str_special s), c_quote. split; [reflexivity|].
    split; [unfold c_quote; lia|reflexivity].
Qed.

(* a number followed by its type suffix *)
Lemma pfv_suffixed valid pf ds sfx : ds <> [] -> Forall quiet ds -> sfx = 105 \/ sfx = 117 ->
  parse_field_value valid pf (ds ++ [sfx])
  = if sfx =? 105 then option_map VInt (parse_int64 ds) else option_map VUint (parse_uint64 ds).
Proof.
  intros Hn Hq Hs. unfold parse_field_value. rewrite trim_space_id.
  - destruct ds as [|c0 r]; [congruence|]. inversion Hq as [|? ? Q _]; subst. cbn [app].
    unfold quiet in Q. rewrite bool_of_spelling_none by tauto.
    assert (E : c0 =? c_quote = false) by (apply N.eqb_neq; tauto). rewrite E.
    change (c0 :: r ++ [sfx]) with ((c0 :: r) ++ [sfx]). rewrite last_last, removelast_last.
    destruct Hs; subst; reflexivity.
  - destruct ds as [|c0 r]; [congruence|]. inversion Hq as [|? ? Q _]; subst.
    apply space_len_ascii; unfold quiet in Q; tauto.
  - exists ds, sfx. split; [reflexivity|]. destruct Hs; subst; split; try lia; reflexivity.
Qed.

Lemma pfv_float valid pf raw : raw <> [] -> Forall quiet raw -> pf raw = true ->
  parse_field_value valid pf raw = Some (VFloat raw).
Proof.
  intros Hn Hq Hp. unfold parse_field_value. rewrite quiet_trim by assumption.
  destruct raw as [|c0 r] eqn:Er; [congruence|]. rewrite <- Er in *.
  assert (Q0 : quiet c0) by (rewrite Er in Hq; inversion Hq; assumption).
  rewrite Er at 1. rewrite bool_of_spelling_none by (unfold quiet in Q0; tauto).
  assert (E : c0 =? c_quote = false) by (apply N.eqb_neq; unfold quiet in Q0; tauto). rewrite E.
  destruct (exists_last Hn) as [l' [c El]].
  assert (Qc : quiet c).
  { rewrite El in Hq. apply Forall_app in Hq. destruct Hq as [_ Hc]. inversion Hc; assumption. }
  assert (Ll : last raw 0 = c) by (rewrite El; apply last_last). rewrite Ll. unfold quiet in Qc.
  assert (E1 : c =? 105 = false) by (apply N.eqb_neq; tauto).
  assert (E2 : c =? 117 = false) by (apply N.eqb_neq; tauto).
  rewrite E1, E2, Hp. reflexivity.
Qed.

Lemma pfv_bool valid pf b sp : parse_field_value valid pf (bool_lit b sp) = Some (VBool b).
Proof.
  unfold bool_lit.
  destruct b; destruct (sp =? 0); try reflexivity; destruct (sp =? 1); try reflexivity;
    destruct (sp =? 2); try reflexivity; destruct (sp =? 3); reflexivity.
Qed.

Lemma Forall_forallb {A} (f : A -> bool) l : forallb f l = true -> Forall (fun x => f x = true) l.
Proof. rewrite forallb_forall, Forall_forall. auto. Qed.

Lemma bytes_nonempty s : negb (bytes_eqb s []) = true -> s <> [].
Proof. destruct s; [discriminate|discriminate]. Qed.

Lemma pfv_enc valid pf v : wf_fvalue pf v = true ->
  parse_field_value valid pf (enc_fvalue v) = Some (conv_fvalue v).
Proof.
  destruct v as [raw|z|z|s|b sp]; cbn [wf_fvalue enc_fvalue conv_fvalue]; intros H.
  - rewrite !andb_true_iff in H. destruct H as [[H1 H2] H3].
    apply pfv_float; [apply bytes_nonempty; assumption| |assumption].
    eapply Forall_impl; [|apply Forall_forallb; exact H2]. apply float_char_quiet.
  - destruct (dec_Z_chars z) as [Hc Hn]. rewrite pfv_suffixed; auto.
    + cbn. rewrite parse_int64_dec_Z by assumption. reflexivity.
    + eapply Forall_impl; [|exact Hc]. apply num_char_quiet.
  - destruct (dec_Z_chars z) as [Hc Hn]. rewrite pfv_suffixed; auto.
    + cbn. rewrite parse_uint64_dec_Z by assumption. reflexivity.
    + eapply Forall_impl; [|exact Hc]. apply num_char_quiet.
  - rewrite andb_true_iff in H. apply pfv_str. tauto.
  - apply pfv_bool.
Qed.

(* ================================================================== timestamps *)

Lemma ts_conv p raw : in_i64 raw = true -> ts_convert p raw = spec_ts p raw.
Proof.
  unfold in_i64, ts_convert, spec_ts, in_i64, wrap64. intros H.
  change (Z.quot max_i64 1000) with 9223372036854775%Z.
  change (Z.quot min_i64 1000) with (-9223372036854775)%Z.
  change (Z.quot max_i64 1000000) with 9223372036854%Z.
  change (Z.quot min_i64 1000000) with (-9223372036854)%Z.
  unfold min_i64, max_i64 in *.
  destruct p; try reflexivity.
  - destruct ((raw <=? 9223372036854775) && (raw >=? -9223372036854775))%Z eqn:G.
    + assert (R : ((-9223372036854775808 <=? raw * 1000) && (raw * 1000 <=? 9223372036854775807))%Z = true) by lia.
      rewrite R. f_equal. lia.
    + assert (R : ((-9223372036854775808 <=? raw * 1000) && (raw * 1000 <=? 9223372036854775807))%Z = false) by lia.
      rewrite R. reflexivity.
  - destruct ((raw <=? 9223372036854) && (raw >=? -9223372036854))%Z eqn:G.
    + assert (R : ((-9223372036854775808 <=? raw * 1000000) && (raw * 1000000 <=? 9223372036854775807))%Z = true) by lia.
      rewrite R. f_equal. lia.
    + assert (R : ((-9223372036854775808 <=? raw * 1000000) && (raw * 1000000 <=? 9223372036854775807))%Z = false) by lia.
      rewrite R. reflexivity.
Qed.

(* nanoseconds are truncated toward zero: the stored value is within one microsecond of the
   written instant and never moves it across zero *)
Lemma ts_ns_trunc raw : let us := Z.quot raw 1000 in
  (Z.abs (raw - us * 1000) < 1000 /\ Z.abs (us * 1000) <= Z.abs raw)%Z.
Proof. cbv zeta. pose proof (Z.quot_rem raw 1000). pose proof (Z.rem_bound_abs raw 1000).
  pose proof (Z.rem_sign_mul raw 1000). nia. Qed.

(* ================================================================== one line *)

Definition dlm (d : N) : Prop := d = c_comma \/ d = c_space.

Lemma dlm_facts d : dlm d -> d <> c_bs /\ d <> c_quote /\ d < 128 /\ name_special d = true
                              /\ (forall em, meas_special em d = true) /\ d <> c_eq.
Proof. intros [H|H]; subst; repeat split; try discriminate; try reflexivity; destruct em; reflexivity. Qed.

Lemma quiet_inert d c : dlm d -> quiet c -> inert d c.
Proof.
  unfold quiet, inert. intros Hd Q. repeat split; try tauto.
  destruct Hd; subst; [tauto|]. intro; subst. destruct Q as [_ [Q _]]. discriminate Q.
Qed.

Lemma passes_quiet d s : dlm d -> Forall quiet s -> passes d s.
Proof. intros Hd H. apply passes_plain. eapply Forall_impl; [|exact H]. intros a. apply quiet_inert. exact Hd. Qed.

Lemma passes_eq_byte d : dlm d -> passes d [c_eq].
Proof. intros Hd. destruct (dlm_facts d Hd) as [_ [_ [_ [_ [_ H]]]]]. apply passes_inert1; try discriminate. auto. Qed.

Lemma bool_lit_quietish b sp : Forall (fun c => c < 128 /\ ascii_space c = false /\ c <> c_quote /\ c <> c_bs /\ c <> c_comma /\ c <> c_nl) (bool_lit b sp) /\ bool_lit b sp <> [].
Proof.
  unfold bool_lit.
  destruct b; destruct (sp =? 0); [| destruct (sp =? 1); [| destruct (sp =? 2); [| destruct (sp =? 3)]] | | destruct (sp =? 1); [| destruct (sp =? 2); [| destruct (sp =? 3)]]];
    (split; [repeat constructor; try discriminate; try (vm_compute; reflexivity) | discriminate]).
Qed.

Lemma passes_fvalue d pf v : dlm d -> wf_fvalue pf v = true -> passes d (enc_fvalue v).
Proof.
  intros Hd. destruct v as [raw|z|z|s|b sp]; cbn [wf_fvalue enc_fvalue]; intros H.
  - rewrite !andb_true_iff in H. apply passes_quiet; [assumption|].
    eapply Forall_impl; [|apply Forall_forallb; apply H]. apply float_char_quiet.
  - apply passes_app; [|apply passes_inert1; try discriminate; destruct Hd; subst; discriminate].
    apply passes_quiet; [assumption|]. eapply Forall_impl; [|apply dec_Z_chars]. apply num_char_quiet.
  - apply passes_app; [|apply passes_inert1; try discriminate; destruct Hd; subst; discriminate].
    apply passes_quiet; [assumption|]. eapply Forall_impl; [|apply dec_Z_chars]. apply num_char_quiet.
  - apply passes_quoted; reflexivity.
  - apply passes_plain. eapply Forall_impl; [|apply bool_lit_quietish].
    intros a Ha. cbv beta in Ha. unfold inert. repeat split; try tauto.
    destruct Hd; subst; [tauto|]. intro; subst. destruct Ha as [_ [Ha _]]. discriminate Ha.
Qed.

Lemma last_ok_fvalue pf v : wf_fvalue pf v = true -> last_ok (enc_fvalue v).
Proof.
  destruct v as [raw|z|z|s|b sp]; cbn [wf_fvalue enc_fvalue]; intros H.
  - rewrite !andb_true_iff in H. apply quiet_last_ok; [apply bytes_nonempty; tauto|].
    eapply Forall_impl; [|apply Forall_forallb; apply H]. apply float_char_quiet.
  - exists (dec_Z z), 105. repeat split; try lia; reflexivity.
  - exists (dec_Z z), 117. repeat split; try lia; reflexivity.
  - exists (c_quote :: escape str_special s), c_quote. repeat split; try (unfold c_quote; lia); reflexivity.
  - destruct (bool_lit_quietish b sp) as [Hq Hn].
    destruct (exists_last Hn) as [l' [c E]]. rewrite E in *.
    apply Forall_app in Hq. destruct Hq as [_ Hc]. inversion Hc; subst. exists l', c. tauto.
Qed.

Lemma last_ok_join d segs : segs <> [] -> Forall last_ok segs -> last_ok (join d segs).
Proof.
  intros Hn H. induction H as [|s r Hs Hr IH]; [congruence|].
  cbn [join]. destruct r as [|s2 r']; [exact Hs|].
  apply last_ok_app. apply last_ok_cons. apply IH. discriminate.
Qed.

Lemma join_nonempty d s r : s <> [] -> join d (s :: r) <> [].
Proof. intros H. cbn [join]. destruct r; [exact H|]. destruct s; [congruence|discriminate]. Qed.

Lemma join_cons_cons d s s2 r : join d (s :: s2 :: r) = s ++ d :: join d (s2 :: r).
Proof. reflexivity. Qed.

(* the encoded line starts with the escaped measurement, followed by a delimiter *)
Lemma join_head d s r : d < 128 -> exists rest, join d (s :: r) = s ++ rest /\ ascii_head rest.
Proof.
  intros Hd. destruct r as [|s2 r'].
  - exists []. split; [cbn; symmetry; apply app_nil_r|unfold ascii_head; cbn; lia].
  - exists (d :: join d (s2 :: r')). split; [reflexivity|exact Hd].
Qed.

Section Line.
  Variables (valid : bool) (pf : bytes -> bool) (fx em : bool) (prec : precision).

  Definition keys_ok (p : point) : Prop :=
    (forall kv, In kv (p_tags p) -> okkey fx (fst kv)) /\ (forall kv, In kv (p_fields p) -> okkey fx (fst kv)).

  Lemma wf_name_facts s : wf_name s = true -> s <> [].
  Proof. unfold wf_name. rewrite andb_true_iff. intros [H _]. apply bytes_nonempty. exact H. Qed.

  Lemma passes_tag d kv : dlm d -> passes d (enc_tag kv).
  Proof.
    intros Hd. destruct (dlm_facts d Hd) as [_ [_ [_ [Hn _]]]]. unfold enc_tag.
    apply passes_app; [apply passes_escape; auto|].
    change (c_eq :: ?x) with ([c_eq] ++ x). apply passes_app; [apply passes_eq_byte; assumption|].
    apply passes_escape; auto.
  Qed.

  Lemma passes_field d kv : dlm d -> wf_fvalue pf (snd kv) = true -> passes d (enc_field kv).
  Proof.
    intros Hd Hw. destruct (dlm_facts d Hd) as [_ [_ [_ [Hn _]]]]. unfold enc_field.
    apply passes_app; [apply passes_escape; auto|].
    change (c_eq :: ?x) with ([c_eq] ++ x). apply passes_app; [apply passes_eq_byte; assumption|].
    eapply passes_fvalue; eauto.
  Qed.

  Lemma passes_meas d m : dlm d -> passes d (escape (meas_special em) m).
  Proof.
    intros Hd. destruct (dlm_facts d Hd) as [_ [_ [_ [_ [Hm _]]]]].
    apply passes_escape; [destruct em; reflexivity|destruct em; reflexivity|apply Hm].
  Qed.

  Lemma tag_step_enc acc kv : okkey fx (fst kv) -> fst kv <> [] ->
    tag_step fx acc (enc_tag kv) = upsert (fst kv) (snd kv) acc.
  Proof.
    intros Hk Hn. unfold tag_step, enc_tag. rewrite split_kv_enc by assumption.
    rewrite !unescape_escape by (auto; reflexivity). reflexivity.
  Qed.

  Lemma field_step_enc acc kv : okkey fx (fst kv) -> fst kv <> [] -> wf_fvalue pf (snd kv) = true ->
    field_step valid pf fx acc (enc_field kv) = upsert (fst kv) (conv_fvalue (snd kv)) acc.
  Proof.
    intros Hk Hn Hw. unfold field_step, enc_field. rewrite split_kv_enc by assumption.
    rewrite pfv_enc by assumption. rewrite unescape_escape by (auto; reflexivity). reflexivity.
  Qed.

  Lemma inert_comma_space : inert c_space c_comma.
  Proof. repeat split; discriminate. Qed.

  Lemma parse_line_enc p : wf_point pf p = true -> keys_ok p ->
    parse_line valid pf fx prec (encode_point em p) = Some (conv prec p).
  Proof.
    unfold wf_point. rewrite !andb_true_iff.
    intros [[[[[[[Wm Wl] Wt] Wtn] Wfl] Wf] Wfn] Wts] [Kt Kf].
    pose proof (Forall_forallb _ _ Wt) as Ft. pose proof (Forall_forallb _ _ Wf) as Ff.
    rewrite Forall_forall in Ft, Ff.
    assert (Dc : dlm c_comma) by (left; reflexivity). assert (Ds : dlm c_space) by (right; reflexivity).
    set (M := escape (meas_special em) (p_meas p)).
    set (P0 := join c_comma (M :: map enc_tag (p_tags p))).
    set (P1 := join c_comma (map enc_field (p_fields p))).
    set (T := match p_ts p with Some z => [dec_Z z] | None => [] end).
    assert (Hm : p_meas p <> []) by (apply wf_name_facts; exact Wm).
    assert (HM : M <> []) by (apply escape_nonempty; exact Hm).
    assert (Hfne : p_fields p <> []) by (destruct (p_fields p); [discriminate Wfl|discriminate]).
    assert (Ftag : forall kv, In kv (p_tags p) -> fst kv <> []).
    { intros kv Hin. specialize (Ft kv Hin). cbv beta in Ft. rewrite andb_true_iff in Ft. apply wf_name_facts. tauto. }
    assert (Ffld : forall kv, In kv (p_fields p) -> fst kv <> [] /\ wf_fvalue pf (snd kv) = true).
    { intros kv Hin. specialize (Ff kv Hin). cbv beta in Ff. rewrite andb_true_iff in Ff. split; [apply wf_name_facts|]; tauto. }
    (* shapes *)
    assert (HP0c : Forall (fun s => passes c_comma s /\ s <> []) (M :: map enc_tag (p_tags p))).
    { constructor; [split; [apply passes_meas; exact Dc|exact HM]|].
      rewrite Forall_forall. intros s Hs. rewrite in_map_iff in Hs. destruct Hs as [kv [E Hin]]. subst s.
      split; [apply passes_tag; exact Dc|]. unfold enc_tag. intro X. apply app_eq_nil in X. destruct X; discriminate. }
    assert (HP1c : Forall (fun s => passes c_comma s /\ s <> []) (map enc_field (p_fields p))).
    { rewrite Forall_forall. intros s Hs. rewrite in_map_iff in Hs. destruct Hs as [kv [E Hin]]. subst s.
      split; [apply passes_field; [exact Dc|apply Ffld; exact Hin]|].
      unfold enc_field. intro X. apply app_eq_nil in X. destruct X; discriminate. }
    assert (HP0s : passes c_space P0).
    { apply passes_join; [apply inert_comma_space|]. constructor; [apply passes_meas; exact Ds|].
      rewrite Forall_forall. intros s Hs. rewrite in_map_iff in Hs. destruct Hs as [kv [E Hin]]. subst s.
      apply passes_tag; exact Ds. }
    assert (HP1s : passes c_space P1).
    { apply passes_join; [apply inert_comma_space|].
      rewrite Forall_forall. intros s Hs. rewrite in_map_iff in Hs. destruct Hs as [kv [E Hin]]. subst s.
      apply passes_field; [exact Ds|apply Ffld; exact Hin]. }
    assert (HP0n : P0 <> []) by (apply join_nonempty; exact HM).
    assert (HP1n : P1 <> []).
    { unfold P1. destruct (p_fields p) as [|kv r]; [congruence|]. cbn [map]. apply join_nonempty.
      unfold enc_field. intro X. apply app_eq_nil in X. destruct X; discriminate. }
    assert (HT : Forall (fun s => passes c_space s /\ s <> []) T).
    { unfold T. destruct (p_ts p) as [z|]; [|constructor]. constructor; [|constructor].
      destruct (dec_Z_chars z) as [Hc Hn]. split; [|exact Hn].
      apply passes_quiet; [exact Ds|]. eapply Forall_impl; [|exact Hc]. apply num_char_quiet. }
    assert (HL : encode_point em p = join c_space (P0 :: P1 :: T)) by reflexivity.
    (* TrimSpace leaves the line alone *)
    assert (Htrim : trim_space (encode_point em p) = encode_point em p).
    { apply trim_space_id.
      - rewrite HL, join_cons_cons. unfold P0.
        destruct (join_head c_comma M (map enc_tag (p_tags p))) as [rest [E Hr]]; [unfold c_comma; lia|].
        rewrite E, <- app_assoc. apply space_len_meas; [exact Wl|].
        destruct rest; [unfold ascii_head; cbn; unfold c_space; lia|exact Hr].
      - rewrite HL, join_cons_cons. apply last_ok_app. apply last_ok_cons.
        apply last_ok_join; [discriminate|].
        assert (L1 : last_ok P1).
        { apply last_ok_join; [destruct (p_fields p); [congruence|discriminate]|].
          rewrite Forall_forall. intros s Hs. rewrite in_map_iff in Hs. destruct Hs as [kv [E Hin]]. subst s.
          unfold enc_field. apply last_ok_app. apply last_ok_cons. eapply last_ok_fvalue. apply Ffld. exact Hin. }
        constructor; [exact L1|]. unfold T. destruct (p_ts p) as [z|]; [|constructor].
        constructor; [|constructor].
        destruct (dec_Z_chars z) as [Hc Hn]. apply quiet_last_ok; [exact Hn|].
        eapply Forall_impl; [|exact Hc]. apply num_char_quiet. }
    unfold parse_line. rewrite Htrim.
    (* not empty, not a comment *)
    assert (Hhead : exists c r, encode_point em p = c :: r /\ c =? c_hash = false).
    { rewrite HL, join_cons_cons. unfold P0.
      destruct (join_head c_comma M (map enc_tag (p_tags p))) as [rest [E _]]; [unfold c_comma; lia|].
      rewrite E. unfold M, escape. unfold meas_lead_ok in Wl.
      destruct (p_meas p) as [|c m1]; [congruence|]. rewrite andb_true_iff, negb_true_iff in Wl.
      cbn [flat_map]. destruct (meas_special em c); cbn [app].
      - eexists _, _. split; [reflexivity|reflexivity].
      - eexists _, _. split; [reflexivity|tauto]. }
    destruct Hhead as [c [r [Ec Hc]]]. rewrite Ec, Hc, <- Ec.
    (* split on spaces *)
    assert (Hsplit : split_on c_space (encode_point em p) = P0 :: P1 :: T).
    { rewrite HL. apply split_on_join; try discriminate.
      constructor; [split; assumption|]. constructor; [split; assumption|exact HT]. }
    rewrite Hsplit.
    (* measurement and tags *)
    assert (Hmt : parse_measurement_tags fx P0 = (p_meas p, p_tags p)).
    { unfold parse_measurement_tags, P0. rewrite split_on_join; try discriminate; [|exact HP0c].
      f_equal.
      - unfold M. apply unescape_escape; [|destruct em; reflexivity].
        intros x. unfold meas_special, unesc_special. destruct em; cbn [andb]; lia.
      - rewrite (fold_upsert (tag_step fx) enc_tag fst snd).
        + cbn [app]. clear. induction (p_tags p) as [|[k v] t IH]; cbn [map]; [reflexivity|]. rewrite IH. reflexivity.
        + intros a kv Hin. apply tag_step_enc; [apply Kt; exact Hin|apply Ftag; exact Hin].
        + cbn [map app]. apply nodupb_NoDup. exact Wtn. }
    rewrite Hmt.
    destruct (p_meas p) as [|m0 mr] eqn:Em; [congruence|]. rewrite <- Em.
    (* fields *)
    assert (Hfs : parse_fields valid pf fx P1 = map (fun kv => (fst kv, conv_fvalue (snd kv))) (p_fields p)).
    { unfold parse_fields, P1. rewrite split_on_join; try discriminate; [|exact HP1c].
      rewrite (fold_upsert (field_step valid pf fx) enc_field fst (fun kv => conv_fvalue (snd kv))).
      - reflexivity.
      - intros a kv Hin. destruct (Ffld kv Hin). apply field_step_enc; [apply Kf; exact Hin|assumption|assumption].
      - cbn [map app]. apply nodupb_NoDup. exact Wfn. }
    rewrite Hfs.
    remember (map (fun kv => (fst kv, conv_fvalue (snd kv))) (p_fields p)) as FS eqn:EFS.
    destruct FS as [|f0 fr]; [symmetry in EFS; apply map_eq_nil in EFS; congruence|].
    rewrite EFS. unfold conv. rewrite Em. f_equal. f_equal.
    unfold T. destruct (p_ts p) as [z|]; [|reflexivity].
    destruct (dec_Z_chars z) as [Hcz Hnz].
    rewrite quiet_trim; [|exact Hnz|eapply Forall_impl; [|exact Hcz]; apply num_char_quiet].
    rewrite parse_int64_dec_Z by exact Wts. apply ts_conv. exact Wts.
  Qed.
End Line.

(* ================================================================== the batch *)

Lemma no_nl_app a b : no_nl (a ++ b) = no_nl a && no_nl b.
Proof. apply forallb_app. Qed.

Lemma no_nl_escape S s : no_nl s = true -> no_nl (escape S s) = true.
Proof.
  unfold escape. induction s as [|c s IH]; [reflexivity|]. cbn [flat_map]. intros H.
  change (no_nl (c :: s)) with (negb (c =? c_nl) && no_nl s) in H. rewrite andb_true_iff in H.
  rewrite no_nl_app, IH by tauto. destruct (S c); cbn; destruct H as [H _]; rewrite H; reflexivity.
Qed.

Lemma no_nl_join d segs : d <> c_nl -> Forall (fun s => no_nl s = true) segs -> no_nl (join d segs) = true.
Proof.
  intros Hd. induction 1 as [|s r Hs Hr IH]; [reflexivity|]. cbn [join]. destruct r; [exact Hs|].
  rewrite no_nl_app, Hs. change (no_nl (d :: ?x)) with (negb (d =? c_nl) && no_nl x).
  apply N.eqb_neq in Hd. rewrite Hd, IH. reflexivity.
Qed.

Lemma no_nl_quiet s : Forall quiet s -> no_nl s = true.
Proof.
  induction 1 as [|c s Q _ IH]; [reflexivity|]. change (no_nl (c :: s)) with (negb (c =? c_nl) && no_nl s).
  rewrite IH. unfold quiet in Q. assert (c =? c_nl = false) by (apply N.eqb_neq; tauto). rewrite H. reflexivity.
Qed.

Lemma no_nl_dec_Z z : no_nl (dec_Z z) = true.
Proof. apply no_nl_quiet. eapply Forall_impl; [|apply dec_Z_chars]. apply num_char_quiet. Qed.

Lemma no_nl_fvalue pf v : wf_fvalue pf v = true -> no_nl (enc_fvalue v) = true.
Proof.
  destruct v as [raw|z|z|s|b sp]; cbn [wf_fvalue enc_fvalue]; intros H.
  - rewrite !andb_true_iff in H. apply no_nl_quiet.
    eapply Forall_impl; [|apply Forall_forallb; apply H]. apply float_char_quiet.
  - rewrite no_nl_app, no_nl_dec_Z. reflexivity.
  - rewrite no_nl_app, no_nl_dec_Z. reflexivity.
  - rewrite andb_true_iff in H. change (no_nl (c_quote :: ?x)) with (negb (c_quote =? c_nl) && no_nl x).
    rewrite no_nl_app, no_nl_escape by tauto. reflexivity.
  - destruct (bool_lit_quietish b sp) as [Hq _]. induction Hq as [|c s Q _ IH]; [reflexivity|].
    change (no_nl (c :: s)) with (negb (c =? c_nl) && no_nl s). rewrite IH.
    assert (c =? c_nl = false) by (apply N.eqb_neq; tauto). rewrite H0. reflexivity.
Qed.

Lemma no_nl_point pf em p : wf_point pf p = true -> no_nl (encode_point em p) = true.
Proof.
  unfold wf_point. rewrite !andb_true_iff.
  intros [[[[[[[Wm Wl] Wt] Wtn] Wfl] Wf] Wfn] Wts].
  pose proof (Forall_forallb _ _ Wt) as Ft. pose proof (Forall_forallb _ _ Wf) as Ff.
  rewrite Forall_forall in Ft, Ff.
  unfold encode_point. apply no_nl_join; [discriminate|].
  constructor; [|constructor].
  - apply no_nl_join; [discriminate|]. constructor.
    + apply no_nl_escape. unfold wf_name in Wm. rewrite andb_true_iff in Wm. tauto.
    + rewrite Forall_forall. intros s Hs. rewrite in_map_iff in Hs. destruct Hs as [kv [E Hin]]. subst s.
      specialize (Ft kv Hin). cbv beta in Ft. unfold wf_name in Ft. rewrite !andb_true_iff in Ft.
      unfold enc_tag. rewrite no_nl_app. change (no_nl (c_eq :: ?x)) with (negb (c_eq =? c_nl) && no_nl x).
      rewrite !no_nl_escape by tauto. reflexivity.
  - apply no_nl_join; [discriminate|].
    rewrite Forall_forall. intros s Hs. rewrite in_map_iff in Hs. destruct Hs as [kv [E Hin]]. subst s.
    specialize (Ff kv Hin). cbv beta in Ff. unfold wf_name in Ff. rewrite !andb_true_iff in Ff.
    unfold enc_field. rewrite no_nl_app. change (no_nl (c_eq :: ?x)) with (negb (c_eq =? c_nl) && no_nl x).
    rewrite no_nl_escape by tauto. rewrite (no_nl_fvalue pf) by tauto. reflexivity.
  - destruct (p_ts p); [|constructor]. constructor; [apply no_nl_dec_Z|constructor].
Qed.

Lemma split_nl_go_line line : no_nl line = true -> forall rest cur,
  split_nl_go (line ++ rest) cur = split_nl_go rest (rev line ++ cur).
Proof.
  induction line as [|c l IH]; intros H rest cur; [reflexivity|].
  change (no_nl (c :: l)) with (negb (c =? c_nl) && no_nl l) in H.
  rewrite andb_true_iff, negb_true_iff in H. destruct H as [H1 H2].
  cbn [app split_nl_go]. rewrite H1, IH by exact H2. cbn [rev]. rewrite <- app_assoc. reflexivity.
Qed.

Lemma split_nl_sep line rest : no_nl line = true ->
  split_nl_go (line ++ c_nl :: rest) [] = line :: split_nl_go rest [].
Proof.
  intros H. rewrite split_nl_go_line by exact H. cbn [split_nl_go]. rewrite N.eqb_refl, app_nil_r, rev_involutive.
  reflexivity.
Qed.

Lemma split_nl_end line : no_nl line = true -> split_nl_go line [] = [line].
Proof.
  intros H. rewrite <- (app_nil_r line) at 1. rewrite split_nl_go_line by exact H.
  cbn [split_nl_go]. rewrite app_nil_r, rev_involutive. reflexivity.
Qed.

Lemma split_nl_lines (tnl : bool) lines : lines <> [] -> Forall (fun s => no_nl s = true) lines ->
  split_nl (join c_nl lines ++ (if tnl then [c_nl] else [])) = lines ++ (if tnl then [[]] else []).
Proof.
  unfold split_nl. intros Hn H. induction H as [|l r Hl Hr IH]; [congruence|].
  cbn [join]. destruct r as [|l2 r'].
  - destruct tnl.
    + rewrite split_nl_sep by exact Hl. reflexivity.
    + rewrite app_nil_r, split_nl_end by exact Hl. reflexivity.
  - rewrite <- app_assoc. cbn [app]. rewrite split_nl_sep by exact Hl.
    rewrite IH by discriminate. reflexivity.
Qed.

Lemma filter_map_app {A B} (f : A -> option B) a b : filter_map f (a ++ b) = filter_map f a ++ filter_map f b.
Proof. induction a as [|x a IH]; [reflexivity|]. cbn [app filter_map]. destruct (f x); rewrite IH; reflexivity. Qed.

Lemma filter_map_all {A B C} (f : A -> option B) (enc : C -> A) (g : C -> B) l :
  (forall x, In x l -> f (enc x) = Some (g x)) -> filter_map f (map enc l) = map g l.
Proof.
  induction l as [|x l IH]; intros H; [reflexivity|]. cbn [map filter_map].
  rewrite (H x) by (left; reflexivity). rewrite IH; [reflexivity|]. intros y Hy. apply H. right. exact Hy.
Qed.

Lemma parse_line_empty valid pf fx prec : parse_line valid pf fx prec [] = None.
Proof. reflexivity. Qed.

Lemma has_eq_false k : has_eq k = false -> ~ In c_eq k.
Proof.
  unfold has_eq. intros H Hin. assert (existsb (fun c => c =? c_eq) k = true).
  { apply existsb_exists. exists c_eq. split; [exact Hin|reflexivity]. } congruence.
Qed.

Lemma keys_ok_of fx p : (fx = false -> no_eq_keys p = true) -> keys_ok fx p.
Proof.
  unfold keys_ok, okkey. destruct fx; [intros _; split; intros; exact I|].
  intros H. specialize (H eq_refl). unfold no_eq_keys in H. rewrite andb_true_iff in H. destruct H as [H1 H2].
  rewrite forallb_forall in H1, H2. split; intros kv Hin; apply has_eq_false.
  - specialize (H1 kv Hin). rewrite negb_true_iff in H1. exact H1.
  - specialize (H2 kv Hin). rewrite negb_true_iff in H2. exact H2.
Qed.

Theorem roundtrip pf fx em tnl prec ps :
  forallb (wf_point pf) ps = true -> (fx = false -> forallb no_eq_keys ps = true) ->
  parse_batch pf fx prec (encode_batch em tnl ps) = map (conv (prec_of prec)) ps.
Proof.
  intros Hw Hk. unfold parse_batch, encode_batch.
  set (valid := valid_utf8 _). clearbody valid.
  rewrite forallb_forall in Hw.
  assert (Hline : forall p, In p ps ->
            parse_line valid pf fx (prec_of prec) (encode_point em p) = Some (conv (prec_of prec) p)).
  { intros p Hin. apply parse_line_enc; [apply Hw; exact Hin|]. apply keys_ok_of. intros E.
    specialize (Hk E). rewrite forallb_forall in Hk. apply Hk. exact Hin. }
  destruct ps as [|p0 pr] eqn:Eps.
  - destruct tnl; reflexivity.
  - rewrite <- Eps in *. rewrite split_nl_lines.
    + rewrite filter_map_app, (filter_map_all _ _ _ _ Hline).
      destruct tnl; cbn [filter_map]; [rewrite parse_line_empty|]; apply app_nil_r.
    + rewrite Eps. discriminate.
    + rewrite Forall_forall. intros s Hs. rewrite in_map_iff in Hs. destruct Hs as [p [E Hin]]. subst s.
      apply (no_nl_point pf). apply Hw. exact Hin.
Qed.

(* ================================================================== the proposed fix changes nothing else *)

Lemma index_fix_same n : forall l, (length l <= n)%nat -> no_bs_eq l = true ->
  index_unescaped c_eq l = index_byte c_eq l.
Proof.
  induction n as [|n IH]; intros l Hl Hn.
  - destruct l; [reflexivity|cbn in Hl; lia].
  - destruct l as [|x r]; [reflexivity|].
    cbn [no_bs_eq] in Hn. rewrite andb_true_iff, negb_true_iff in Hn. destruct Hn as [H1 H2].
    cbn [length] in Hl. cbn [index_unescaped index_byte].
    destruct (x =? c_bs) eqn:Ex.
    + destruct r as [|d r'].
      * apply N.eqb_eq in Ex. subst x. reflexivity.
      * cbn [andb] in H1. cbn [no_bs_eq] in H2. rewrite andb_true_iff in H2. destruct H2 as [_ H2].
        apply N.eqb_eq in Ex. subst x. change (c_bs =? c_eq) with false. cbv iota.
        cbn [index_byte]. rewrite H1. cbn [length] in Hl. rewrite IH by (try lia; exact H2).
        destruct (index_byte c_eq r'); reflexivity.
    + rewrite IH by (try lia; exact H2). reflexivity.
Qed.

Lemma split_kv_fix_same comp : no_bs_eq comp = true -> split_kv true comp = split_kv false comp.
Proof.
  intros H. unfold split_kv, find_eq. rewrite (index_fix_same (length comp)); auto.
Qed.

(* ================================================================== BatchToColumnar *)

Lemma dedup_snoc l x : dedup (l ++ [x]) = if mem x (dedup l) then dedup l else dedup l ++ [x].
Proof. unfold dedup. rewrite fold_left_app. reflexivity. Qed.

Lemma dedup_spec l : (forall x, In x (dedup l) <-> In x l) /\ NoDup (dedup l).
Proof.
  induction l as [|a l [IH1 IH2]] using rev_ind; [split; [intros; reflexivity|constructor]|].
  rewrite dedup_snoc. destruct (mem a (dedup l)) eqn:E.
  - split; [|exact IH2]. intros x. rewrite in_app_iff, IH1. cbn [In]. split; [tauto|].
    intros [H|[H|[]]]; [exact H|]. subst. apply IH1. apply mem_In. exact E.
  - split.
    + intros x. rewrite !in_app_iff, IH1. reflexivity.
    + apply mem_false in E. clear IH1. induction IH2 as [|y t Hy Ht IHt]; cbn [app].
      * constructor; [intros []|constructor].
      * constructor.
        -- rewrite in_app_iff. cbn [In]. intros [H|[H|[]]]; [contradiction|]. subst. apply E. left. reflexivity.
        -- apply IHt. intro H. apply E. right. exact H.
Qed.

Lemma lookup_none {V} c (l : list (bytes * V)) : ~ In c (map fst l) -> lookup c l = None.
Proof.
  induction l as [|[k v] r IH]; cbn [lookup map fst In]; intros H; [reflexivity|].
  rewrite bytes_eqb_neq by (intro; subst; apply H; left; reflexivity). apply IH. intro; apply H; right; assumption.
Qed.

Lemma lookup_app {V} c (a b : list (bytes * V)) :
  lookup c (a ++ b) = match lookup c a with Some v => Some v | None => lookup c b end.
Proof. induction a as [|[k v] r IH]; cbn [app lookup]; [reflexivity|]. destruct (bytes_eqb c k); [reflexivity|exact IH]. Qed.

Lemma lookup_rev_nodup {V} c (l : list (bytes * V)) : NoDup (map fst l) -> lookup c (rev l) = lookup c l.
Proof.
  induction l as [|[k v] r IH]; cbn [map fst rev lookup]; intros H; [reflexivity|].
  inversion H as [|? ? Hk Hr]; subst. rewrite lookup_app, (IH Hr). cbn [lookup].
  destruct (bytes_eqb_spec c k) as [->|Hne].
  - rewrite lookup_none by exact Hk. reflexivity.
  - destruct (lookup c r); reflexivity.
Qed.

Lemma lookup_map_val {V W} (f : V -> W) c (l : list (bytes * V)) :
  lookup c (map (fun kv => (fst kv, f (snd kv))) l) = option_map f (lookup c l).
Proof. induction l as [|[k v] r IH]; cbn [map lookup fst snd]; [reflexivity|]. destruct (bytes_eqb c k); [reflexivity|exact IH]. Qed.

Lemma nodup_app_disjoint (a b : list bytes) :
  NoDup a -> NoDup b -> (forall x, In x b -> ~ In x a) -> NoDup (a ++ b).
Proof.
  intros Ha Hb Hd. induction Ha as [|x t Hx Ht IH]; [exact Hb|]. cbn [app]. constructor.
  - rewrite in_app_iff. intros [H|H]; [contradiction|]. apply (Hd x H). left. reflexivity.
  - apply IH. intros y Hy Hin. apply (Hd y Hy). right. exact Hin.
Qed.

Lemma wf_record_writes r : wf_record r = true ->
  row_writes r = (s_time, ts_value r) :: map (fun kv => (fst kv, VStr (snd kv))) (r_tags r) ++ r_fields r
  /\ NoDup (map fst (row_writes r)).
Proof.
  unfold wf_record. rewrite !andb_true_iff, !negb_true_iff. intros [[[[H1 H2] H3] H4] H5].
  assert (E : map (fun kv => (col_name r (fst kv), snd kv)) (r_fields r) = r_fields r).
  { rewrite forallb_forall in H5. rewrite <- (map_id (r_fields r)) at 2. apply map_ext_in.
    intros [k v] Hin. specialize (H5 _ Hin). cbn [fst snd] in *. unfold col_name.
    rewrite negb_true_iff in H5. rewrite H5. reflexivity. }
  unfold row_writes. rewrite E. split; [reflexivity|].
  cbn [map fst]. rewrite map_app, map_map. cbn [fst].
  apply mem_false in H3. apply mem_false in H4.
  constructor.
  - rewrite in_app_iff. tauto.
  - apply nodup_app_disjoint; [apply nodupb_NoDup; exact H1|apply nodupb_NoDup; exact H2|].
    rewrite forallb_forall in H5. intros x Hx. rewrite in_map_iff in Hx. destruct Hx as [kv [Ek Hin]].
    specialize (H5 _ Hin). rewrite negb_true_iff in H5. unfold has_tag in H5. apply mem_false in H5.
    subst x. exact H5.
Qed.

Lemma row_cell_flat r c : wf_record r = true -> row_cell r c = flat_lookup r c.
Proof.
  intros H. destruct (wf_record_writes r H) as [E Hn]. unfold row_cell, flat_lookup.
  rewrite lookup_rev_nodup by exact Hn. rewrite E. cbn [lookup].
  destruct (bytes_eqb c s_time); [reflexivity|].
  rewrite lookup_app, (lookup_map_val VStr). destruct (lookup c (r_tags r)); reflexivity.
Qed.

Lemma flat_lookup_written r c : wf_record r = true -> flat_lookup r c <> None -> In c (map fst (row_writes r)).
Proof.
  intros H Hc. rewrite <- (row_cell_flat r c H) in Hc. unfold row_cell in Hc.
  destruct (in_dec (list_eq_dec N.eq_dec) c (map fst (rev (row_writes r)))) as [Hin|Hnot].
  - rewrite map_rev, <- in_rev in Hin. exact Hin.
  - rewrite lookup_none in Hc by exact Hnot. congruence.
Qed.

(* grouping: one entry per measurement in order of first appearance, rows in request order *)
Definition by_meas (rs : list record) (m : bytes) : list record :=
  filter (fun r => bytes_eqb (r_meas r) m) rs.
Definition groups_spec (rs : list record) : list (bytes * list record) :=
  map (fun m => (m, by_meas rs m)) (dedup (map r_meas rs)).

Lemma group_ins_map m r (F G : bytes -> list record) ms :
  NoDup ms ->
  (forall m', G m' = if bytes_eqb m m' then F m' ++ [r] else F m') ->
  group_ins m r (map (fun m' => (m', F m')) ms)
  = if mem m ms then map (fun m' => (m', G m')) ms else map (fun m' => (m', G m')) ms ++ [(m, [r])].
Proof.
  intros Hn HG. induction Hn as [|a t Ha Ht IH]; [reflexivity|].
  cbn [map group_ins]. unfold mem. cbn [existsb]. fold (mem m t).
  destruct (bytes_eqb_spec m a) as [->|Hne]; cbn [orb].
  - rewrite HG, bytes_eqb_refl. f_equal. apply map_ext_in. intros x Hx. rewrite HG.
    rewrite bytes_eqb_neq by (intro; subst; contradiction). reflexivity.
  - rewrite IH. rewrite (HG a), bytes_eqb_neq by exact Hne. destruct (mem m t); reflexivity.
Qed.

Lemma group_spec rs : group rs = groups_spec rs.
Proof.
  induction rs as [|r rs IH] using rev_ind; [reflexivity|].
  unfold group. rewrite fold_left_app. cbn [fold_left]. fold (group rs). rewrite IH.
  unfold groups_spec. rewrite map_app. cbn [map]. rewrite dedup_snoc.
  destruct (dedup_spec (map r_meas rs)) as [Hin Hnd].
  rewrite (group_ins_map (r_meas r) r (by_meas rs) (by_meas (rs ++ [r])) _ Hnd).
  - destruct (mem (r_meas r) (dedup (map r_meas rs))) eqn:E; [reflexivity|].
    rewrite map_app. cbn [map]. f_equal. f_equal. f_equal.
    unfold by_meas. rewrite filter_app. cbn [filter]. rewrite bytes_eqb_refl.
    apply mem_false in E. rewrite Hin in E.
    assert (Z : filter (fun r0 => bytes_eqb (r_meas r0) (r_meas r)) rs = []).
    { clear - E. induction rs as [|a t IHt]; [reflexivity|]. cbn [filter].
      rewrite bytes_eqb_neq by (intro X; apply E; cbn [map]; left; exact X).
      apply IHt. intro X. apply E. right. exact X. }
    rewrite Z. reflexivity.
  - intros m'. unfold by_meas. rewrite filter_app. cbn [filter].
    destruct (bytes_eqb_spec (r_meas r) m') as [Heq|Hne]; [reflexivity|apply app_nil_r].
Qed.

Theorem columnar_rows rs : forallb wf_record rs = true ->
  map c_meas (batch_to_columnar rs) = dedup (map r_meas rs)
  /\ forall cr, In cr (batch_to_columnar rs) ->
       let g := by_meas rs (c_meas cr) in
       g <> []
       /\ NoDup (map fst (c_cols cr))
       /\ (forall c cells, In (c, cells) (c_cols cr) -> cells = map (fun r => flat_lookup r c) g)
       /\ (forall r c, In r g -> flat_lookup r c <> None -> In c (map fst (c_cols cr))).
Proof.
  intros Hw. rewrite forallb_forall in Hw. unfold batch_to_columnar. rewrite group_spec. unfold groups_spec.
  split.
  - rewrite !map_map. cbn [columnar_of c_meas fst]. apply map_id.
  - intros cr Hcr. rewrite in_map_iff in Hcr. destruct Hcr as [[m g] [E Hin]]. subst cr.
    rewrite in_map_iff in Hin. destruct Hin as [m' [E Hm]]. inversion E; subst m' g. clear E.
    cbn [columnar_of c_meas c_cols fst snd].
    destruct (dedup_spec (map r_meas rs)) as [Hd _]. apply Hd in Hm.
    assert (Hg : forall r, In r (by_meas rs m) -> wf_record r = true).
    { intros r Hr. unfold by_meas in Hr. apply filter_In in Hr. apply Hw. tauto. }
    repeat split.
    + rewrite in_map_iff in Hm. destruct Hm as [r [Er Hr]]. intro Z.
      assert (X : In r (by_meas rs m)) by (unfold by_meas; apply filter_In; split; [exact Hr|subst; apply bytes_eqb_refl]).
      rewrite Z in X. exact X.
    + rewrite map_map. cbn [fst]. rewrite map_id. apply dedup_spec.
    + intros c cells Hc. rewrite in_map_iff in Hc. destruct Hc as [c' [E _]]. inversion E; subst.
      apply map_ext_in. intros r Hr. apply row_cell_flat. apply Hg. exact Hr.
    + intros r c Hr Hc. rewrite map_map. cbn [fst]. rewrite map_id. unfold columns_of.
      apply dedup_spec. rewrite in_flat_map. exists r. split; [exact Hr|].
      apply flat_lookup_written; [apply Hg; exact Hr|exact Hc].
Qed.

Lemma ts_in_range p raw us : in_i64 raw = true -> ts_convert p raw = Some us -> in_i64 us = true.
Proof.
  intros H E. rewrite (ts_conv p raw H) in E. unfold spec_ts in E. destruct p.
  - inversion E; subst. unfold in_i64, min_i64, max_i64 in *.
    apply andb_true_iff in H. destruct H as [H1 H2]. apply Z.leb_le in H1. apply Z.leb_le in H2.
    apply andb_true_iff. split; apply Z.leb_le; Z.to_euclidean_division_equations; lia.
  - inversion E; subst. exact H.
  - destruct (in_i64 (raw * 1000)) eqn:G; [inversion E; subst; exact G|discriminate].
  - destruct (in_i64 (raw * 1000000)) eqn:G; [inversion E; subst; exact G|discriminate].
Qed.

(* ================================================================== the defect of the current split *)

Lemma roundtrip_refuted : forall pf em tnl prec,
  (wf_point pf w_tag = true
   /\ parse_batch pf false prec (encode_batch em tnl [w_tag])
      = [{| r_meas := [99;112;117]; r_tags := [([97;92], [98;61;99])]; r_fields := [([118], VInt 1)]; r_ts := None |}]
   /\ parse_batch pf false prec (encode_batch em tnl [w_tag]) <> map (conv (prec_of prec)) [w_tag])
  /\ (wf_point pf w_field = true
      /\ parse_batch pf false prec (encode_batch em tnl [w_field]) = []).
Proof.
  intros pf em tnl prec. repeat split.
  - destruct em, tnl; vm_compute; reflexivity.
  - destruct em, tnl; vm_compute; intro H; discriminate H.
  - destruct em, tnl; vm_compute; reflexivity.
Qed.

(* ================================================================== WriteColumnarRecord -> Parquet *)

Lemma cres_all_ok {A B} (f : A -> cres B) l : forall out,
  cres_all (map f l) = COk out -> Forall2 (fun x y => f x = COk y) l out.
Proof.
  induction l as [|x r IH]; cbn [map cres_all]; intros out H.
  - inversion H. constructor.
  - destruct (f x) eqn:Ex; destruct (cres_all (map f r)) eqn:Er; try discriminate.
    inversion H; subst. constructor; [exact Ex|apply IH; reflexivity].
Qed.

Lemma cres_all_reject {A B} (f : A -> cres B) l x : In x l -> f x = CReject -> cres_all (map f l) = CReject.
Proof.
  induction l as [|y r IH]; [intros []|]. cbn [map cres_all In]. intros [->|Hin] Hx.
  - rewrite Hx. reflexivity.
  - rewrite (IH Hin Hx). destruct (f y); reflexivity.
Qed.

Lemma Forall2_weaken {A B} (P Q : A -> B -> Prop) l l' :
  (forall a b, P a b -> Q a b) -> Forall2 P l l' -> Forall2 Q l l'.
Proof. intros H. induction 1; constructor; auto. Qed.

Lemma conv_cell_exact k c y : conv_cell k c = COk y -> cell_exact c y.
Proof.
  unfold conv_cell, to_int64. destruct c as [v|]; [|intros H; inversion H; exact I].
  destruct k, v; try discriminate; intros H;
    try (inversion H; subst; cbn; auto; fail).
  destruct (z <=? max_i64)%Z eqn:E; [|discriminate]. inversion H; subst. cbn. split; [reflexivity|lia].
Qed.

Lemma conv_time_cell_exact c y : conv_time_cell c = COk y -> cell_exact c y.
Proof.
  unfold conv_time_cell, to_int64. destruct c as [v|]; [|discriminate].
  destruct v; try discriminate; intros H; try (inversion H; subst; cbn; auto; fail).
  destruct (z <=? max_i64)%Z eqn:E; [|discriminate]. inversion H; subst. cbn. split; [reflexivity|lia].
Qed.

Lemma first_non_nil_none cells : first_non_nil cells = None -> Forall (fun c => c = None) cells.
Proof.
  induction cells as [|[v|] r IH]; cbn [first_non_nil]; intros H; [constructor|discriminate|].
  constructor; [reflexivity|apply IH; exact H].
Qed.

Lemma store_column_exact name cells out : store_column name cells = COk out -> Forall2 cell_exact cells out.
Proof.
  unfold store_column. destruct (bytes_eqb name s_time).
  - destruct (first_non_nil cells) as [v|]; [|discriminate].
    assert (G : cres_all (map conv_time_cell cells) = COk out -> Forall2 cell_exact cells out).
    { intros H. apply cres_all_ok in H. eapply Forall2_weaken; [|exact H]. apply conv_time_cell_exact. }
    destruct v; try exact G; discriminate.
  - destruct (first_non_nil cells) as [v|] eqn:E.
    + intros H. apply cres_all_ok in H. eapply Forall2_weaken; [|exact H]. intros a b. apply conv_cell_exact.
    + intros H. inversion H; subst. apply first_non_nil_none in E. clear H.
      induction E as [|c r Hc Hr IH]; cbn [map]; constructor; [subst; exact I|exact IH].
Qed.

Lemma store_column_uint_overflow name cells z :
  bytes_eqb name s_time = false ->
  (forall c, In c cells -> exists u, c = Some (VUint u)) ->
  In (Some (VUint z)) cells -> (max_i64 < z)%Z ->
  store_column name cells = CReject.
Proof.
  intros Hn Hall Hin Hz. unfold store_column. rewrite Hn.
  destruct cells as [|c0 r]; [destruct Hin|].
  destruct (Hall c0 (or_introl eq_refl)) as [u0 ->]. cbn [first_non_nil kind_of].
  apply (cres_all_reject _ _ (Some (VUint z))); [exact Hin|].
  cbn. assert (E : (z <=? max_i64)%Z = false) by lia. rewrite E. reflexivity.
Qed.
