(* Compact literals for the generated case files: a byte string is written as a list of
   primitive 63-bit integers, each holding up to 7 bytes below a leading 1 marker
   (0x1 followed by the bytes in hexadecimal).  Only the case files use this; no theorem does. *)
From Coq Require Import List ZArith NArith Uint63.
From Arc Require Import LP.Model.
Import ListNotations.

Fixpoint unpack_word (fuel : nat) (w : int) (acc : bytes) : bytes :=
  match fuel with
  | O => acc
  | S f => if (w <=? 1)%uint63 then acc
           else unpack_word f (w >> 8)%uint63 (Z.to_N (Uint63.to_Z (w land 255)%uint63) :: acc)
  end.

Definition hx (ws : list int) : bytes := flat_map (fun w => unpack_word 8 w []) ws.
