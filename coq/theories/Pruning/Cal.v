(* Proleptic Gregorian civil calendar <-> day number (days since 1970-01-01), the arithmetic
   behind Go's time.Time.Format("2006/01/02/15") on UTC times.  Definitions follow the
   era-based algorithms (400-year eras of 146097 days, years starting on 1 March).
   Both round trips are proved for ALL day numbers / ALL valid dates: a kernel-checked sweep
   over one era (vm_compute, 146097 cases each) lifted to every era by periodicity. *)
From Coq Require Import ZArith Bool Lia List.
Import ListNotations.
Open Scope Z_scope.

Definition days_from_civil (y m d : Z) : Z :=
  let y' := if m <=? 2 then y - 1 else y in
  let era := y' / 400 in
  let yoe := y' - era * 400 in
  let mp := (m + 9) mod 12 in
  let doy := (153 * mp + 2) / 5 + d - 1 in
  let doe := yoe * 365 + yoe / 4 - yoe / 100 + doy in
  era * 146097 + doe - 719468.

Definition civil_from_days (z : Z) : Z * Z * Z :=
  let z' := z + 719468 in
  let era := z' / 146097 in
  let doe := z' - era * 146097 in
  let yoe := (doe - doe / 1460 + doe / 36524 - doe / 146096) / 365 in
  let y' := yoe + era * 400 in
  let doy := doe - (365 * yoe + yoe / 4 - yoe / 100) in
  let mp := (5 * doy + 2) / 153 in
  let d := doy - (153 * mp + 2) / 5 + 1 in
  let m := if mp <? 10 then mp + 3 else mp - 9 in
  (if m <=? 2 then y' + 1 else y', m, d).

Definition is_leap (y : Z) : bool :=
  ((y mod 4 =? 0) && negb (y mod 100 =? 0)) || (y mod 400 =? 0).

Definition days_in_month (y m : Z) : Z :=
  if m =? 2 then (if is_leap y then 29 else 28)
  else if (m =? 4) || (m =? 6) || (m =? 9) || (m =? 11) then 30 else 31.

Definition valid_date (y m d : Z) : bool :=
  (1 <=? m) && (m <=? 12) && (1 <=? d) && (d <=? days_in_month y m).

(* ---- finite sweeps by binary splitting ---- *)

(* f holds on [base, base + p) *)
Fixpoint all_range (f : Z -> bool) (p : positive) (base : Z) : bool :=
  match p with
  | xH => f base
  | xO p' => all_range f p' base && all_range f p' (base + Zpos p')
  | xI p' => all_range f p' base && all_range f p' (base + Zpos p') && f (base + Zpos (xO p'))
  end.

Lemma all_range_spec : forall f p base, all_range f p base = true ->
  forall z, base <= z < base + Zpos p -> f z = true.
Proof.
  intros f p. induction p as [p IH|p IH|]; intros base H z Hz; cbn [all_range] in H.
  - apply andb_true_iff in H. destruct H as [H H3]. apply andb_true_iff in H. destruct H as [H1 H2].
    assert (Hc : z < base + Zpos p \/ base + Zpos p <= z < base + Zpos p + Zpos p \/ z = base + Zpos (xO p)) by lia.
    destruct Hc as [Hc|[Hc|Hc]].
    + apply (IH base H1); lia.
    + apply (IH (base + Zpos p) H2); lia.
    + subst z. exact H3.
  - apply andb_true_iff in H. destruct H as [H1 H2].
    assert (Hc : z < base + Zpos p \/ base + Zpos p <= z) by lia.
    destruct Hc as [Hc|Hc].
    + apply (IH base H1); lia.
    + apply (IH (base + Zpos p) H2); lia.
  - assert (z = base) by lia. subst z. exact H.
Qed.

Definition triple_eqb (a b : Z * Z * Z) : bool :=
  let '(a1, a2, a3) := a in let '(b1, b2, b3) := b in (a1 =? b1) && (a2 =? b2) && (a3 =? b3).

Lemma triple_eqb_eq : forall a b, triple_eqb a b = true -> a = b.
Proof.
  intros [[a1 a2] a3] [[b1 b2] b3] H. cbn in H.
  apply andb_true_iff in H. destruct H as [H H3]. apply andb_true_iff in H. destruct H as [H1 H2].
  apply Z.eqb_eq in H1, H2, H3. subst. reflexivity.
Qed.

(* ---- one era ---- *)

(* day numbers of the era that starts on 0000-03-01: z + 719468 in [0, 146097) *)
Definition era0_lo : Z := -719468.

Definition check_day (z : Z) : bool :=
  let '(y, m, d) := civil_from_days z in
  valid_date y m d && (days_from_civil y m d =? z).

Lemma era0_days : all_range check_day 146097 era0_lo = true.
Proof. vm_compute. reflexivity. Qed.

(* ---- periodicity ---- *)

Lemma civil_from_days_shift : forall z k,
  civil_from_days (z + k * 146097) =
  let '(y, m, d) := civil_from_days z in (y + k * 400, m, d).
Proof.
  intros z k. unfold civil_from_days.
  replace (z + k * 146097 + 719468) with (z + 719468 + k * 146097) by ring.
  rewrite Z.div_add by lia.
  set (era := (z + 719468) / 146097).
  replace (z + 719468 + k * 146097 - (era + k) * 146097) with (z + 719468 - era * 146097) by ring.
  set (doe := z + 719468 - era * 146097).
  set (yoe := (doe - doe / 1460 + doe / 36524 - doe / 146096) / 365).
  set (doy := doe - (365 * yoe + yoe / 4 - yoe / 100)).
  set (mp := (5 * doy + 2) / 153).
  cbv zeta.
  destruct ((if mp <? 10 then mp + 3 else mp - 9) <=? 2); f_equal; f_equal; ring.
Qed.

Lemma days_from_civil_shift : forall y m d k,
  days_from_civil (y + k * 400) m d = days_from_civil y m d + k * 146097.
Proof.
  intros y m d k. unfold days_from_civil.
  assert (H : (if m <=? 2 then y + k * 400 - 1 else y + k * 400) = (if m <=? 2 then y - 1 else y) + k * 400)
    by (destruct (m <=? 2); ring).
  rewrite H. set (y' := if m <=? 2 then y - 1 else y).
  rewrite Z.div_add by lia.
  replace (y' + k * 400 - (y' / 400 + k) * 400) with (y' - y' / 400 * 400) by ring.
  cbv zeta. ring.
Qed.

Lemma is_leap_shift : forall y k, is_leap (y + k * 400) = is_leap y.
Proof.
  intros y k. unfold is_leap.
  replace (y + k * 400) with (y + (k * 100) * 4) at 1 by ring. rewrite Z.mod_add by lia.
  replace (y + k * 400) with (y + (k * 4) * 100) at 1 by ring. rewrite Z.mod_add by lia.
  rewrite Z.mod_add by lia. reflexivity.
Qed.

Lemma valid_date_shift : forall y m d k, valid_date (y + k * 400) m d = valid_date y m d.
Proof. intros. unfold valid_date, days_in_month. rewrite is_leap_shift. reflexivity. Qed.

(* ---- round trip 1: every day number ---- *)

Theorem civil_roundtrip_days : forall z,
  let '(y, m, d) := civil_from_days z in
  valid_date y m d = true /\ days_from_civil y m d = z.
Proof.
  intros z.
  set (k := (z + 719468) / 146097).
  set (z0 := z - k * 146097).
  assert (Hz0 : era0_lo <= z0 < era0_lo + 146097).
  { unfold z0, k, era0_lo. pose proof (Z.mod_pos_bound (z + 719468) 146097 ltac:(lia)) as Hb.
    rewrite Z.mod_eq in Hb by lia. lia. }
  pose proof (all_range_spec check_day 146097 era0_lo era0_days z0 Hz0) as Hc.
  replace z with (z0 + k * 146097) by (unfold z0; ring).
  rewrite civil_from_days_shift.
  unfold check_day in Hc. destruct (civil_from_days z0) as [[y m] d].
  apply andb_true_iff in Hc. destruct Hc as [Hv He]. apply Z.eqb_eq in He.
  split.
  - rewrite valid_date_shift. exact Hv.
  - rewrite days_from_civil_shift. rewrite He. reflexivity.
Qed.

(* ---- round trip 2: every valid date ---- *)

(* injectivity of days_from_civil on valid dates within one 400-year cycle, again by a sweep:
   for every (year-of-cycle, month, day) the inverse returns it *)
Definition check_date_index (i : Z) : bool :=
  (* i enumerates year-of-cycle * 12 * 31 + (m - 1) * 31 + (d - 1) *)
  let y := i / 372 in
  let r := i mod 372 in
  let m := r / 31 + 1 in
  let d := r mod 31 + 1 in
  if valid_date y m d then triple_eqb (civil_from_days (days_from_civil y m d)) (y, m, d) else true.

Lemma cycle_dates : all_range check_date_index 148800 0 = true.
Proof. vm_compute. reflexivity. Qed.

Theorem civil_roundtrip_date : forall y m d,
  valid_date y m d = true -> civil_from_days (days_from_civil y m d) = (y, m, d).
Proof.
  intros y m d Hv.
  set (k := y / 400). set (y0 := y - k * 400).
  assert (Hy0 : 0 <= y0 < 400).
  { unfold y0, k. pose proof (Z.mod_pos_bound y 400 ltac:(lia)) as Hb. rewrite Z.mod_eq in Hb by lia. lia. }
  assert (Hv0 : valid_date y0 m d = true).
  { replace y with (y0 + k * 400) in Hv by (unfold y0; ring). rewrite valid_date_shift in Hv. exact Hv. }
  assert (Hmd : 1 <= m <= 12 /\ 1 <= d <= 31).
  { unfold valid_date in Hv0. repeat (apply andb_true_iff in Hv0; destruct Hv0 as [Hv0 ?]).
    unfold days_in_month in *.
    destruct (m =? 2); [destruct (is_leap y0)|destruct ((m =? 4) || (m =? 6) || (m =? 9) || (m =? 11))]; lia. }
  set (i := y0 * 372 + (m - 1) * 31 + (d - 1)).
  assert (Hi : 0 <= i < 0 + 148800) by (unfold i; lia).
  pose proof (all_range_spec check_date_index 148800 0 cycle_dates i Hi) as Hc.
  unfold check_date_index in Hc.
  assert (E1 : i / 372 = y0) by (unfold i; symmetry; apply (Z.div_unique _ 372 y0 ((m - 1) * 31 + (d - 1))); lia).
  assert (E2 : i mod 372 = (m - 1) * 31 + (d - 1)) by (unfold i; symmetry; apply (Z.mod_unique _ 372 y0); lia).
  rewrite E1, E2 in Hc.
  assert (E3 : ((m - 1) * 31 + (d - 1)) / 31 + 1 = m)
    by (rewrite <- (Z.div_unique ((m - 1) * 31 + (d - 1)) 31 (m - 1) (d - 1)); lia).
  assert (E4 : ((m - 1) * 31 + (d - 1)) mod 31 + 1 = d)
    by (rewrite <- (Z.mod_unique ((m - 1) * 31 + (d - 1)) 31 (m - 1) (d - 1)); lia).
  rewrite E3, E4, Hv0 in Hc. apply triple_eqb_eq in Hc.
  replace y with (y0 + k * 400) by (unfold y0; ring).
  rewrite days_from_civil_shift, civil_from_days_shift, Hc. reflexivity.
Qed.

(* consequences used by the path model *)
Corollary civil_from_days_inj : forall a b, civil_from_days a = civil_from_days b -> a = b.
Proof.
  intros a b H.
  pose proof (civil_roundtrip_days a) as Ha. pose proof (civil_roundtrip_days b) as Hb.
  rewrite H in Ha. destruct (civil_from_days b) as [[y m] d]. destruct Ha as [_ Ha]. destruct Hb as [_ Hb]. congruence.
Qed.
