(* C18 - proofs about the pruning model (Model.v) over the calendar library (Cal.v). *)
From Coq Require Import List ZArith NArith Bool String Lia.
From Arc Require Import Pruning.Cal Pruning.Model.
Import ListNotations.
Open Scope Z_scope.

Lemma HOUR_pos : 0 < HOUR. Proof. reflexivity. Qed.

Lemma to_nat_nonpos : forall n, n <= 0 -> Z.to_nat n = 0%nat.
Proof. intros n H. destruct n; try reflexivity. lia. Qed.

Lemma app_eq_len : forall (A : Type) (a b c d : list A),
  List.length a = List.length b -> a ++ c = b ++ d -> a = b /\ c = d.
Proof.
  intros A a. induction a as [|x a IH]; intros b c d Hl H; destruct b as [|y b]; try discriminate.
  - split; [reflexivity|exact H].
  - cbn in H. injection H as Hx H. cbn in Hl. injection Hl as Hl.
    destruct (IH b c d Hl H) as [H1 H2]. subst. split; reflexivity.
Qed.
Lemma DAY_HOUR : DAY = HOUR * 24. Proof. reflexivity. Qed.

(* ==================================================================================== *)
(* 1. path generation covers [lo, hi)                                                    *)
(* ==================================================================================== *)

Lemma hours_from_In : forall n cur h, In h (hours_from n cur) <-> cur <= h < cur + Z.of_nat n.
Proof.
  induction n as [|n IH]; intros cur h; cbn [hours_from].
  - split; [intros []|lia].
  - cbn [In]. rewrite IH. rewrite Nat2Z.inj_succ. lia.
Qed.

Lemma ceil_aligned : forall e, e mod HOUR = 0 -> (e + HOUR - 1) / HOUR = e / HOUR.
Proof.
  intros e H. pose proof HOUR_pos.
  apply Z.mod_divide in H; [|lia]. destruct H as [k Hk]. subst e.
  rewrite Z.div_mul by lia.
  replace (k * HOUR + HOUR - 1) with ((HOUR - 1) + k * HOUR) by ring.
  rewrite Z.div_add by lia. rewrite Z.div_small by lia. lia.
Qed.

Lemma hours_between_In : forall cur e incl h, cur <= h ->
  (h * HOUR < e \/ (incl = true /\ h * HOUR = e)) -> In h (hours_between cur e incl).
Proof.
  intros cur e incl h Hc He. unfold hours_between. apply hours_from_In.
  pose proof HOUR_pos.
  destruct He as [He|[Hi He]].
  - assert (h + 1 <= (e + HOUR - 1) / HOUR) by (apply Z.div_le_lower_bound; lia).
    assert (0 <= (if incl && (e mod HOUR =? 0) then 1 else 0)) by (destruct (incl && (e mod HOUR =? 0)); lia).
    rewrite Z2Nat.id by lia. lia.
  - subst incl. assert (Hm : e mod HOUR = 0) by (subst e; apply Z.mod_mul; lia).
    rewrite Hm. cbn [andb Z.eqb]. rewrite ceil_aligned by exact Hm.
    subst e. rewrite Z.div_mul by lia. rewrite Z2Nat.id by lia. lia.
Qed.

Lemma hours_between_bounds : forall cur e incl h, In h (hours_between cur e incl) ->
  cur <= h /\ (h * HOUR < e \/ (incl = true /\ h * HOUR = e)).
Proof.
  intros cur e incl h H. unfold hours_between in H. apply hours_from_In in H.
  pose proof HOUR_pos.
  set (x := if incl && (e mod HOUR =? 0) then 1 else 0) in *.
  split; [lia|].
  assert (Hlt : h < (e + HOUR - 1) / HOUR + x).
  { destruct (Z_le_gt_dec ((e + HOUR - 1) / HOUR - cur + x) 0) as [Hle|Hgt].
    - rewrite (to_nat_nonpos _ Hle) in H. cbn in H. lia.
    - rewrite Z2Nat.id in H by lia. lia. }
  assert (Hm : HOUR * ((e + HOUR - 1) / HOUR) <= e + HOUR - 1) by (apply Z.mul_div_le; lia).
  unfold x in Hlt. destruct incl; cbn [andb] in Hlt.
  - destruct (e mod HOUR =? 0) eqn:E.
    + apply Z.eqb_eq in E. rewrite ceil_aligned in Hlt by exact E.
      assert (Hd : e = HOUR * (e / HOUR)) by (rewrite (Z.div_mod e HOUR) at 1 by lia; lia).
      assert (h <= e / HOUR) by lia.
      destruct (Z.eq_dec h (e / HOUR)) as [Heq|Hne]; [right; split; [reflexivity|nia]|left; nia].
    + left. nia.
  - left. nia.
Qed.

Lemma dedup_adj_In : forall l x, In x l -> In x (dedup_adj l).
Proof.
  induction l as [|a l IH]; intros x H; [exact H|].
  cbn [dedup_adj]. destruct l as [|b l'].
  - exact H.
  - destruct (a =? b) eqn:E.
    + apply Z.eqb_eq in E. subst b. destruct H as [H|H]; [subst; apply IH; left; reflexivity|apply IH; exact H].
    + destruct H as [H|H]; [left; exact H|right; apply IH; exact H].
Qed.

Lemma gen_cover_hour : forall s e incl hs t,
  gen s e incl = Some hs -> s <= t -> 0 <= t ->
  ((t / HOUR) * HOUR < e \/ (incl = true /\ (t / HOUR) * HOUR = e)) -> In (hour_of t) hs.
Proof.
  intros s e incl hs t Hg Hs Ht He. unfold gen in Hg.
  destruct (max_paths <? est_paths (start_hour s) e); [discriminate|]. injection Hg as Hg. subst hs.
  apply hours_between_In; [|exact He]. unfold start_hour, hour_of.
  pose proof HOUR_pos.
  assert (s / HOUR <= t / HOUR) by (apply Z.div_le_mono; lia).
  assert (0 <= t / HOUR) by (apply Z.div_pos; lia). lia.
Qed.

Lemma hour_floor_lt : forall t e, t < e -> (t / HOUR) * HOUR < e.
Proof.
  intros t e H. pose proof HOUR_pos. pose proof (Z.mul_div_le t HOUR ltac:(lia)). lia.
Qed.

Lemma hour_floor_le : forall t e (incl : bool), (if incl then t <= e else t < e) ->
  (t / HOUR) * HOUR < e \/ (incl = true /\ (t / HOUR) * HOUR = e).
Proof.
  intros t e incl H. pose proof HOUR_pos. pose proof (Z.mul_div_le t HOUR ltac:(lia)).
  destruct incl; [|left; lia].
  destruct (Z.eq_dec (t / HOUR * HOUR) e); [right; split; [reflexivity|assumption]|left; lia].
Qed.

Lemma paths_cover : forall s e (incl : bool) hs t,
  gen s e incl = Some hs -> s <= t -> 0 <= t -> (if incl then t <= e else t < e) ->
  In (hour_of t) hs /\ In (day_of t) (days_of hs) /\
  In (hour_path (hour_of t)) (map hour_path hs) /\ In (day_path (day_of t)) (map day_path (days_of hs)).
Proof.
  intros s e incl hs t Hg Hs Ht He.
  assert (Hh : In (hour_of t) hs) by (eapply gen_cover_hour; eauto using hour_floor_le).
  assert (Hd : In (day_of t) (days_of hs)).
  { unfold days_of. apply dedup_adj_In. apply in_map_iff. exists (hour_of t). split; [|exact Hh].
    unfold hour_of, day_of. rewrite DAY_HOUR. apply Z.div_div; [pose proof HOUR_pos; lia|lia]. }
  repeat split; try assumption; apply in_map; assumption.
Qed.

(* generated hours start at the (clamped) start hour: nothing below is read *)
Lemma gen_lower : forall s e incl hs h, gen s e incl = Some hs -> In h hs ->
  Z.max 0 (s / HOUR) <= h /\ (h * HOUR < e \/ (incl = true /\ h * HOUR = e)).
Proof.
  intros s e incl hs h Hg Hin. unfold gen in Hg.
  destruct (max_paths <? est_paths (start_hour s) e); [discriminate|]. injection Hg as Hg. subst hs.
  apply hours_between_bounds in Hin. exact Hin.
Qed.

(* ==================================================================================== *)
(* 2. path text is injective (years 0000..9999)                                          *)
(* ==================================================================================== *)

Lemma digit_inj : forall a b, 0 <= a <= 9 -> 0 <= b <= 9 -> digit a = digit b -> a = b.
Proof. intros a b Ha Hb H. unfold digit in H. apply Z2N.inj in H; lia. Qed.

Lemma pad2_inj : forall a b, 0 <= a < 100 -> 0 <= b < 100 -> pad2 a = pad2 b -> a = b.
Proof.
  intros a b Ha Hb H. unfold pad2 in H. injection H as H1 H2.
  apply digit_inj in H1; [|pose proof (Z.mod_pos_bound (a / 10) 10); lia|pose proof (Z.mod_pos_bound (b / 10) 10); lia].
  apply digit_inj in H2; [|pose proof (Z.mod_pos_bound a 10); lia|pose proof (Z.mod_pos_bound b 10); lia].
  rewrite (Z.div_mod a 10), (Z.div_mod b 10) by lia.
  rewrite Z.mod_small in H1 by (split; [apply Z.div_pos; lia|apply Z.div_lt_upper_bound; lia]).
  rewrite Z.mod_small in H1 by (split; [apply Z.div_pos; lia|apply Z.div_lt_upper_bound; lia]).
  lia.
Qed.

Lemma pad4_inj : forall a b, 0 <= a < 10000 -> 0 <= b < 10000 -> pad4 a = pad4 b -> a = b.
Proof.
  intros a b Ha Hb H. unfold pad4 in H. injection H as H1 H2 H3 H4.
  apply digit_inj in H1; [|pose proof (Z.mod_pos_bound (a / 1000) 10); lia|pose proof (Z.mod_pos_bound (b / 1000) 10); lia].
  apply digit_inj in H2; [|pose proof (Z.mod_pos_bound (a / 100) 10); lia|pose proof (Z.mod_pos_bound (b / 100) 10); lia].
  apply digit_inj in H3; [|pose proof (Z.mod_pos_bound (a / 10) 10); lia|pose proof (Z.mod_pos_bound (b / 10) 10); lia].
  apply digit_inj in H4; [|pose proof (Z.mod_pos_bound a 10); lia|pose proof (Z.mod_pos_bound b 10); lia].
  Local Ltac Zify.zify_post_hook ::= Z.div_mod_to_equations.
  lia.
Qed.

Definition year_ok (d : Z) : Prop := let '(y, _, _) := civil_from_days d in 0 <= y < 10000.

Lemma valid_date_bounds : forall y m d, valid_date y m d = true -> 1 <= m <= 12 /\ 1 <= d <= 31.
Proof.
  intros y m d H. unfold valid_date in H.
  repeat (apply andb_true_iff in H; destruct H as [H ?]).
  unfold days_in_month in *.
  destruct (m =? 2); [destruct (is_leap y)|destruct ((m =? 4) || (m =? 6) || (m =? 9) || (m =? 11))]; lia.
Qed.

Lemma day_path_inj : forall d1 d2, year_ok d1 -> year_ok d2 -> day_path d1 = day_path d2 -> d1 = d2.
Proof.
  intros d1 d2 Hy1 Hy2 H. apply civil_from_days_inj.
  unfold day_path, year_ok in *.
  pose proof (civil_roundtrip_days d1) as R1. pose proof (civil_roundtrip_days d2) as R2.
  destruct (civil_from_days d1) as [[y1 m1] dd1]. destruct (civil_from_days d2) as [[y2 m2] dd2].
  destruct R1 as [V1 _]. destruct R2 as [V2 _].
  apply valid_date_bounds in V1. apply valid_date_bounds in V2.
  cbv beta iota in H.
  apply app_eq_len in H; [|reflexivity]. destruct H as [Hy H].
  apply pad4_inj in Hy; [|lia|lia].
  apply app_inv_head in H.
  apply app_eq_len in H; [|reflexivity]. destruct H as [Hm H].
  apply pad2_inj in Hm; [|lia|lia].
  apply app_inv_head in H.
  apply pad2_inj in H; [|lia|lia]. congruence.
Qed.

Lemma hour_path_inj : forall h1 h2, year_ok (h1 / 24) -> year_ok (h2 / 24) -> hour_path h1 = hour_path h2 -> h1 = h2.
Proof.
  intros h1 h2 Hy1 Hy2 H. unfold hour_path in H.
  assert (Hlen : forall d, List.length (day_path d) = 10%nat).
  { intros d. unfold day_path. destruct (civil_from_days d) as [[y m] dd]. reflexivity. }
  assert (Hd : day_path (h1 / 24) = day_path (h2 / 24) /\ slash ++ pad2 (h1 mod 24) = slash ++ pad2 (h2 mod 24)).
  { apply app_eq_len; [|exact H]. rewrite !Hlen. reflexivity. }
  destruct Hd as [Hd Hh]. apply day_path_inj in Hd; try assumption.
  apply app_inv_head in Hh.
  apply pad2_inj in Hh; [|pose proof (Z.mod_pos_bound h1 24); lia|pose proof (Z.mod_pos_bound h2 24); lia].
  rewrite (Z.div_mod h1 24), (Z.div_mod h2 24) by lia. congruence.
Qed.

(* ==================================================================================== *)
(* 3. bounds extracted from a conjunction on the real time column are implied by it      *)
(* ==================================================================================== *)

Fixpoint conj_only (w : wexpr) : bool :=
  match w with
  | WAtom _ => true
  | WAnd a b => conj_only a && conj_only b
  | _ => false
  end.

Lemma no_or_not_conj : forall w, has_or w = false -> has_not w = false -> conj_only w = true.
Proof.
  induction w as [a|w IH|a IHa b IHb|a IHa b IHb]; cbn; intros H1 H2; try discriminate; try reflexivity.
  apply orb_false_iff in H1. apply orb_false_iff in H2. destruct H1, H2.
  rewrite IHa, IHb by assumption. reflexivity.
Qed.

Lemma conj_atoms : forall r now w, conj_only w = true -> eval_w r now w = true ->
  forall a, In a (flatten w) -> eval_atom r now a = true.
Proof.
  intros r now. induction w as [a0|w IH|a IHa b IHb|a IHa b IHb]; cbn; intros Hc He x Hin; try discriminate.
  - destruct Hin as [Hin|[]]. subst. exact He.
  - apply andb_true_iff in Hc. apply andb_true_iff in He. destruct Hc, He.
    apply in_app_or in Hin. destruct Hin; [apply IHa|apply IHb]; assumption.
Qed.

Lemma find_first_In : forall A (f : atom -> option A) l x, find_first f l = Some x -> exists a, In a l /\ f a = Some x.
Proof.
  intros A f. induction l as [|a l IH]; cbn; intros x H; [discriminate|].
  destruct (f a) eqn:E.
  - injection H as H. subst. exists a. split; [left; reflexivity|exact E].
  - destruct (IH x H) as [b [Hb Hf]]. exists b. split; [right; exact Hb|exact Hf].
Qed.

(* no comparison on a column named timestamp, relative intervals on which Go and DuckDB agree,
   and every atom holds on the row *)
Definition atoms_hold (r : row) (now : Z) (l : list atom) : Prop :=
  forall a, In a l -> (atom_ok a = true /\ rel_agree now a = true) /\ eval_atom r now a = true.

Lemma try_cmp_time_sound : forall r now l op v,
  atoms_hold r now l -> try_cmp time_sfx op l = Some v -> cmp op (r_time r) v = true.
Proof.
  intros r now l op v Hh H. unfold try_cmp in H.
  destruct (find_first (m_cmp time_sfx op) l) as [t|] eqn:E; [|discriminate].
  destruct (l_ok t); [|discriminate]. injection H as H. subst v.
  apply find_first_In in E. destruct E as [a [Hin Hm]]. destruct (Hh a Hin) as [[Hon Hra] Hev].
  destruct a as [c o lit| | |]; cbn in Hm; try discriminate.
  destruct (time_sfx c && opb o op) eqn:E2; [|discriminate]. injection Hm as Hm. subst lit.
  apply andb_true_iff in E2. destruct E2 as [Hs Ho].
  destruct c; cbn in Hs; try discriminate. cbn in Hev.
  destruct o, op; cbn in Ho; try discriminate; exact Hev.
Qed.

Lemma try_cmp_ts_none : forall r now l op, atoms_hold r now l -> try_cmp ts_sfx op l = None.
Proof.
  intros r now l op Hh. unfold try_cmp.
  destruct (find_first (m_cmp ts_sfx op) l) as [t|] eqn:E; [|reflexivity].
  apply find_first_In in E. destruct E as [a [Hin Hm]]. destruct (Hh a Hin) as [[Hon Hra] Hev].
  destruct a as [c o lit| | |]; cbn in Hm; try discriminate.
  destruct (ts_sfx c && opb o op) eqn:E2; [|discriminate].
  apply andb_true_iff in E2. destruct E2 as [Hs _].
  destruct c; cbn in Hs, Hon; discriminate.
Qed.

Lemma between_ok_sound : forall r now l a b,
  atoms_hold r now l -> between_ok l = Some (a, b) -> a <= r_time r <= b.
Proof.
  intros r now l a b Hh H. unfold between_ok in H.
  destruct (find_first m_between l) as [[l1 l2]|] eqn:E; [|discriminate].
  destruct (l_ok l1 && l_ok l2); [|discriminate]. injection H as H1 H2. subst.
  apply find_first_In in E. destruct E as [x [Hin Hm]]. destruct (Hh x Hin) as [[Hon Hra] Hev].
  destruct x as [| |c m1 m2|]; cbn in Hm; try discriminate.
  destruct (time_sfx c) eqn:Hs; [|discriminate]. injection Hm as Hm1 Hm2. subst.
  destruct c; cbn in Hs; try discriminate. cbn in Hev. lia.
Qed.

Lemma rel_bound_sound : forall r now l lower v op,
  atoms_hold r now l -> rel_bound lower l now = Some (v, op) ->
  (if lower then is_lower op else is_upper op) = true /\ cmp op (r_time r) v = true.
Proof.
  intros r now l lower v op Hh H. unfold rel_bound in H.
  assert (Hgen : forall add o n u, find_first (m_rel lower add) l = Some (o, n, u) ->
                 (if lower then is_lower o else is_upper o) = true /\ cmp o (r_time r) (rel_time_go now add n u) = true).
  { intros add o n u E. apply find_first_In in E. destruct E as [x [Hin Hm]]. destruct (Hh x Hin) as [[Hon Hra] Hev].
    destruct x as [|c o' ad n' u'| |]; cbn in Hm; try discriminate.
    destruct (time_sfx c && (if lower then is_lower o' else is_upper o') && Bool.eqb ad add) eqn:E2; [|discriminate].
    injection Hm as H1 H2 H3. subst.
    apply andb_true_iff in E2. destruct E2 as [E2 Had]. apply andb_true_iff in E2. destruct E2 as [Hs Hop].
    apply eqb_prop in Had. subst ad.
    destruct c; cbn in Hs; try discriminate. split; [exact Hop|].
    cbn in Hra. apply Z.eqb_eq in Hra. rewrite Hra. exact Hev. }
  destruct (find_first (m_rel lower false) l) as [[[o n] u]|] eqn:E1.
  - injection H as H1 H2. subst. apply (Hgen false). exact E1.
  - destruct (find_first (m_rel lower true) l) as [[[o n] u]|] eqn:E2; [|discriminate].
    injection H as H1 H2. subst. apply (Hgen true). exact E2.
Qed.

Lemma start_of_sound : forall r now l s, atoms_hold r now l -> start_of l now = Some s -> s <= r_time r.
Proof.
  intros r now l s Hh H. unfold start_of in H.
  destruct (between_ok l) as [[a b]|] eqn:Eb.
  - injection H as H. subst. pose proof (between_ok_sound _ _ _ _ _ Hh Eb). lia.
  - destruct (abs_start l) as [x|] eqn:Ea.
    + injection H as H. subst x. unfold abs_start in Ea. cbn [first_some] in Ea.
      rewrite !(try_cmp_ts_none _ _ _ _ Hh) in Ea.
      destruct (try_cmp time_sfx OGe l) eqn:E1.
      { injection Ea as Ea. subst. apply (try_cmp_time_sound _ _ _ _ _ Hh) in E1. cbn in E1. lia. }
      destruct (try_cmp time_sfx OGt l) eqn:E2; [|discriminate].
      injection Ea as Ea. subst. apply (try_cmp_time_sound _ _ _ _ _ Hh) in E2. cbn in E2. lia.
    + destruct (rel_bound true l now) as [[v op]|] eqn:Er; [|discriminate].
      cbn in H. injection H as H. subst v.
      destruct (rel_bound_sound _ _ _ _ _ _ Hh Er) as [Hop Hc].
      destruct op; cbn in Hop, Hc; try discriminate; lia.
Qed.

Lemma abs_end_incl_sound : forall r now l e incl,
  atoms_hold r now l -> abs_end_incl l = Some (e, incl) ->
  if incl then r_time r <= e else r_time r < e.
Proof.
  intros r now l e incl Hh H. unfold abs_end_incl in H.
  rewrite !(try_cmp_ts_none _ _ _ _ Hh) in H.
  destruct (try_cmp time_sfx OLt l) eqn:E1.
  { injection H as H1 H2. subst. apply (try_cmp_time_sound _ _ _ _ _ Hh) in E1. cbn in E1. lia. }
  destruct (try_cmp time_sfx OLe l) eqn:E2; [|discriminate].
  injection H as H1 H2. subst. apply (try_cmp_time_sound _ _ _ _ _ Hh) in E2. cbn in E2. lia.
Qed.

Lemma end_of_sound : forall r now l e incl, atoms_hold r now l -> end_of l now = Some (e, incl) ->
  if incl then r_time r <= e else r_time r < e.
Proof.
  intros r now l e incl Hh H. unfold end_of in H.
  destruct (between_ok l) as [[a b]|] eqn:Eb.
  - injection H as H1 H2. subst. pose proof (between_ok_sound _ _ _ _ _ Hh Eb). lia.
  - destruct (abs_end_incl l) as [[x i]|] eqn:Ea.
    + injection H as H1 H2. subst. eapply abs_end_incl_sound; eauto.
    + destruct (rel_bound false l now) as [[v op]|] eqn:Er; [|discriminate].
      cbn in H. injection H as H1 H2. subst.
      destruct (rel_bound_sound _ _ _ _ _ _ Hh Er) as [Hop Hc].
      destruct op; cbn in Hop, Hc |- *; try discriminate; lia.
Qed.

Lemma bounds_sound_conj : forall w now r s e incl,
  conj_only w = true -> forallb atom_ok (flatten w) = true -> forallb (rel_agree now) (flatten w) = true ->
  eval_w r now w = true ->
  start_of (flatten w) now = Some s -> end_of (flatten w) now = Some (e, incl) ->
  s <= r_time r /\ (if incl then r_time r <= e else r_time r < e).
Proof.
  intros w now r s e incl Hc Hon Hra Hev Hs He.
  assert (Hh : atoms_hold r now (flatten w)).
  { intros a Hin. split; [split|eapply conj_atoms; eauto].
    - rewrite forallb_forall in Hon; apply Hon; exact Hin.
    - rewrite forallb_forall in Hra; apply Hra; exact Hin. }
  split; [eapply start_of_sound; eauto|eapply end_of_sound; eauto].
Qed.

(* ==================================================================================== *)
(* 4. pruning keeps every qualifying row                                                 *)
(* ==================================================================================== *)

(* every row is stored in the partition of its own timestamp *)
Definition file_ok (f : file) : Prop :=
  match f with
  | FHour h rows => forall ir, In ir rows -> hour_of (r_time (snd ir)) = h
  | FDay d rows => forall ir, In ir rows -> day_of (r_time (snd ir)) = d
  end.
Definition layout_ok (fs : list file) : Prop := forall f, In f fs -> file_ok f.
Definition rows_nonneg (fs : list file) : Prop :=
  forall f, In f fs -> forall ir, In ir (file_rows f) -> 0 <= r_time (snd ir).

Lemma select_cons : forall w now f fs,
  select w now (f :: fs) = map fst (filter (fun ir => eval_w (snd ir) now w) (file_rows f)) ++ select w now fs.
Proof. intros. unfold select. cbn [flat_map]. rewrite filter_app, map_app. reflexivity. Qed.

Lemma filter_none : forall A (p : A -> bool) l, (forall x, In x l -> p x = false) -> filter p l = [].
Proof.
  intros A p. induction l as [|a l IH]; intros H; [reflexivity|]. cbn.
  rewrite (H a) by (left; reflexivity). apply IH. intros x Hx. apply H. right; exact Hx.
Qed.

(* if every row that satisfies w sits in a kept file, reading only the kept files changes nothing *)
Lemma select_kept : forall w now (keep : file -> bool) fs,
  (forall f, In f fs -> keep f = false -> forall ir, In ir (file_rows f) -> eval_w (snd ir) now w = false) ->
  select w now (filter keep fs) = select w now fs.
Proof.
  intros w now keep. induction fs as [|f fs IH]; intros H; [reflexivity|].
  cbn [filter]. destruct (keep f) eqn:E.
  - rewrite !select_cons. f_equal. apply IH. intros g Hg. apply H. right; exact Hg.
  - rewrite select_cons. rewrite (filter_none _ _ (file_rows f)); [|apply (H f); [left; reflexivity|exact E]].
    cbn [map app]. apply IH. intros g Hg. apply H. right; exact Hg.
Qed.

Lemma existsb_eqb_In : forall x l, In x l -> existsb (Z.eqb x) l = true.
Proof. intros x l H. apply existsb_exists. exists x. split; [exact H|apply Z.eqb_refl]. Qed.

Lemma pruning_sound_guarded : forall w now fs,
  classify w now = 0%N -> layout_ok fs -> rows_nonneg fs ->
  query_pruned w now fs = query_unpruned w now fs.
Proof.
  intros w now fs Hcl Hlay Hnn. unfold query_pruned, query_unpruned.
  destruct (pruned_hours w now) as [hs|] eqn:Ep; [|reflexivity].
  assert (Hsel : select w now (filter (file_kept hs) fs) = select w now fs).
  { apply select_kept. intros f Hf Hk ir Hir.
    destruct (eval_w (snd ir) now w) eqn:Hev; [|reflexivity]. exfalso.
    unfold classify in Hcl.
    destruct (has_or w) eqn:Hor; [discriminate|]. destruct (has_not w) eqn:Hnot; [discriminate|].
    destruct (forallb atom_ok (flatten w)) eqn:Hon; [|discriminate]. cbn [negb] in Hcl.
    destruct (forallb (rel_agree now) (flatten w)) eqn:Hra; [|discriminate]. cbn [negb] in Hcl.
    destruct (start_of (flatten w) now) as [s|] eqn:Hs; [|discriminate].
    destruct (end_of (flatten w) now) as [[e incl]|] eqn:He; [|discriminate].
    pose proof (no_or_not_conj w Hor Hnot) as Hc.
    destruct (bounds_sound_conj w now (snd ir) s e incl Hc Hon Hra Hev Hs He) as [Hlo Hhi].
    unfold pruned_hours, extract in Ep. rewrite Hs, He in Ep.
    destruct (gen s e incl) as [hs'|] eqn:Hg; [|discriminate].
    assert (hs' = hs) by (destruct hs'; [discriminate|injection Ep as Ep; exact Ep]). subst hs'.
    assert (Ht : 0 <= r_time (snd ir)) by (apply (Hnn f Hf ir Hir)).
    pose proof (gen_cover_hour s e incl hs (r_time (snd ir)) Hg Hlo Ht (hour_floor_le _ _ _ Hhi)) as Hin.
    pose proof (Hlay f Hf) as Hok. destruct f as [h rows|d rows]; cbn in Hok, Hk, Hir.
    - rewrite <- (Hok ir Hir) in Hk. rewrite existsb_eqb_In in Hk by exact Hin. discriminate.
    - assert (Hd : In d (days_of hs)).
      { rewrite <- (Hok ir Hir). unfold days_of. apply dedup_adj_In. apply in_map_iff.
        exists (hour_of (r_time (snd ir))). split; [|exact Hin].
        unfold hour_of, day_of. rewrite DAY_HOUR. apply Z.div_div; [pose proof HOUR_pos; lia|lia]. }
      rewrite existsb_eqb_In in Hk by exact Hd. discriminate. }
  destruct (filter (file_kept hs) fs) as [|k ks] eqn:Ef; [reflexivity|]. exact Hsel.
Qed.

(* ==================================================================================== *)
(* 5. month arithmetic: Go's AddDate and DuckDB's interval arithmetic                    *)
(* ==================================================================================== *)

Lemma days_from_civil_day : forall y m d, days_from_civil y m d = days_from_civil y m 1 + (d - 1).
Proof. intros. unfold days_from_civil. cbv zeta. ring. Qed.

Lemma days_in_month_ge_28 : forall y m, 28 <= days_in_month y m.
Proof.
  intros y m. unfold days_in_month.
  destruct (m =? 2); [destruct (is_leap y)|destruct ((m =? 4) || (m =? 6) || (m =? 9) || (m =? 11))]; lia.
Qed.

(* the two agree from every day of month up to the 28th, for every number of months *)
Lemma month_agree : forall t n,
  (let '(_, _, d) := civil_from_days (t / DAY) in d <= 28) -> go_add_months t n = duck_add_months t n.
Proof.
  intros t n H. unfold go_add_months, duck_add_months.
  destruct (civil_from_days (t / DAY)) as [[y m] d].
  destruct (norm_month y m n) as [y' m'].
  pose proof (days_in_month_ge_28 y' m'). rewrite Z.min_l by lia.
  rewrite (days_from_civil_day y' m' d). reflexivity.
Qed.

(* DuckDB's result is never later than Go's (clamping vs overflow) *)
Lemma duck_le_go : forall t n, duck_add_months t n <= go_add_months t n.
Proof.
  intros t n. unfold go_add_months, duck_add_months.
  destruct (civil_from_days (t / DAY)) as [[y m] d].
  destruct (norm_month y m n) as [y' m'].
  rewrite (days_from_civil_day y' m' (Z.min d (days_in_month y' m'))).
  assert (0 < DAY) by reflexivity. nia.
Qed.

(* ==================================================================================== *)
(* 6. the remote existence filter                                                        *)
(* ==================================================================================== *)

(* what is really stored, and listings that - when they succeed - are complete *)
Record truth := { t_hours : list Z; t_days : list Z }.

Definition faithful (rw : remote) (tr : truth) : Prop :=
  (forall d hs, ld_day rw d = Some hs -> forall h, h / 24 = d -> In h (t_hours tr) -> In h hs) /\
  (forall mk ds, ld_month rw mk = Some ds -> forall d, month_key d = mk -> In d (t_days tr) -> In d ds) /\
  (forall d b, lf_day rw d = Some b -> In d (t_days tr) -> b = true).

Lemma memZ_In : forall x l, In x l -> memZ x l = true.
Proof. intros x l H. unfold memZ. apply existsb_exists. exists x. split; [exact H|apply Z.eqb_refl]. Qed.

(* an hour partition that holds files is never dropped - whether its parent listing succeeded or failed *)
Lemma remote_keeps_hour : forall rw tr ps h,
  faithful rw tr -> In h (t_hours tr) -> In (PHour h) ps -> In (PHour h) (filter_remote rw ps).
Proof.
  intros rw tr ps h [Hd _] Hin Hp. unfold filter_remote. apply filter_In. split; [exact Hp|].
  unfold keep_remote, dir_exists. rewrite andb_true_r.
  destruct (ld_day rw (h / 24)) as [hs|] eqn:E; [|reflexivity].
  apply memZ_In. eapply Hd; eauto.
Qed.

(* a day partition that holds daily files is kept, whatever call fails *)
Lemma remote_keeps_day : forall rw tr ps d,
  faithful rw tr -> In d (t_days tr) -> In (PDay d) ps -> In (PDay d) (filter_remote rw ps).
Proof.
  intros rw tr ps d [_ [Hm Hl]] Hin Hp. unfold filter_remote. apply filter_In. split; [exact Hp|].
  unfold keep_remote, dir_exists. apply andb_true_iff. split.
  - destruct (ld_month rw (month_key d)) as [ds|] eqn:E; [|reflexivity].
    apply memZ_In. eapply Hm; eauto.
  - destruct (lf_day rw d) as [b|] eqn:E; [|reflexivity]. eapply Hl; eauto.
Qed.

(* the world built from stored partitions and fault sets is faithful *)
Lemma remote_of_faithful : forall x, faithful (remote_of x) {| t_hours := rw_hours x; t_days := rw_days x |}.
Proof.
  intros x. unfold faithful, remote_of. cbn [ld_day ld_month lf_day t_hours t_days]. repeat split.
  - intros d hs H h Hh Hin. destruct (memZ d (rw_fail_day x)); [discriminate|]. injection H as H. subst hs.
    apply in_map_iff. exists (h / 24, h). split; [reflexivity|].
    apply filter_In. split; [|apply Z.eqb_eq; exact Hh].
    apply in_map_iff. exists h. split; [reflexivity|exact Hin].
  - intros mk ds H d Hk Hin. destruct (memZ mk (rw_fail_month x)); [discriminate|]. injection H as H. subst ds.
    apply in_map_iff. exists (month_key d, d). split; [reflexivity|].
    apply filter_In. split; [|apply Z.eqb_eq; exact Hk].
    apply in_map_iff. exists d. split; [reflexivity|apply in_or_app; left; exact Hin].
  - intros d b H Hin. destruct (memZ d (rw_fail_list x)); [discriminate|]. injection H as H. subst b.
    apply memZ_In. exact Hin.
Qed.
