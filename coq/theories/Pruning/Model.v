(* C18 - model of partition pruning (internal/pruning/partition_pruner.go: ExtractTimeRange,
   evaluateRelativeTime, GeneratePartitionPaths, the existence filter and the fallbacks of
   OptimizeTablePath) and of what a query sees with and without it.

   Executable definitions only.  Times are microseconds since the Unix epoch (Z).  The WHERE
   clause is an AST; the pruner works on its TEXT with regular expressions that are blind to
   AND/OR/NOT/parentheses and match any column whose name ends in "time" - so the model of the
   extraction runs over the atoms in textual order (flatten). *)
From Coq Require Import List ZArith NArith Bool String Ascii.
From Arc Require Import Pruning.Cal.
Import ListNotations.
Open Scope Z_scope.

Definition US : Z := 1000000.
Definition HOUR : Z := 3600 * US.
Definition DAY : Z := 24 * HOUR.

(* columns a time predicate can be written on *)
Inductive col :=
| CTime            (* the partitioning column  time *)
| CTimeLike        (* another column whose name ends in "time" (event_time) *)
| CTimestampCol    (* a column whose name ends in "timestamp" (sample_timestamp) *)
| CTsExact.        (* a column named exactly  timestamp *)

Record tlit := { l_us : Z; l_ok : bool }.      (* value; does Go's parseDateTime accept the spelling? *)

Inductive cmpop := OGe | OGt | OLt | OLe | OEq | ONe.
Inductive runit := RSecond | RMinute | RHour | RDay | RWeek | RMonth.

Inductive atom :=
| ACmp (c : col) (op : cmpop) (l : tlit)                       (* c op 'literal' *)
| ARel (c : col) (op : cmpop) (add : bool) (n : Z) (u : runit) (* c op NOW() +/- INTERVAL 'n unit' *)
| ABetween (c : col) (l1 l2 : tlit)                            (* c BETWEEN 'l1' AND 'l2' *)
| AFlag (k : nat).                                             (* any predicate on other columns *)

Inductive wexpr :=
| WAtom (a : atom)
| WNot (w : wexpr)
| WAnd (a b : wexpr)
| WOr (a b : wexpr).

Record row := { r_time : Z; r_etime : Z; r_stime : Z; r_ts : Z; r_flags : list bool }.

(* ---- DuckDB's reading of the clause ---- *)

Definition colval (r : row) (c : col) : Z :=
  match c with CTime => r_time r | CTimeLike => r_etime r | CTimestampCol => r_stime r | CTsExact => r_ts r end.

Definition cmp (op : cmpop) (a b : Z) : bool :=
  match op with
  | OGe => b <=? a | OGt => b <? a | OLt => a <? b | OLe => a <=? b
  | OEq => a =? b | ONe => negb (a =? b)
  end.

Definition runit_us (u : runit) : Z :=
  match u with
  | RSecond => US | RMinute => 60 * US | RHour => HOUR | RDay => DAY | RWeek => 7 * DAY
  | RMonth => 0          (* not a fixed length: see go_add_months / duck_add_months *)
  end.

(* month arithmetic on a UTC instant (microseconds): the calendar date moves by n months, the
   time of day is kept.  The two implementations differ in what they do when the target month is
   shorter than the day of month:
   - Go  now.AddDate(0, n, 0)  normalises the overflow (Jan 31 + 1 month = Mar 2/3);
   - DuckDB  ts +/- INTERVAL 'n months'  clamps to the last day of the month (Feb 28/29). *)
Definition norm_month (y m n : Z) : Z * Z :=
  let k := y * 12 + (m - 1) + n in (k / 12, k mod 12 + 1).

Definition go_add_months (t n : Z) : Z :=
  let '(y, m, d) := civil_from_days (t / DAY) in
  let '(y', m') := norm_month y m n in
  (days_from_civil y' m' 1 + (d - 1)) * DAY + t mod DAY.

Definition duck_add_months (t n : Z) : Z :=
  let '(y, m, d) := civil_from_days (t / DAY) in
  let '(y', m') := norm_month y m n in
  days_from_civil y' m' (Z.min d (days_in_month y' m')) * DAY + t mod DAY.

Definition signed (add : bool) (n : Z) : Z := if add then n else - n.

(* evaluateRelativeTime (the pruner's reading of NOW() +/- INTERVAL 'n unit') *)
Definition rel_time_go (now : Z) (add : bool) (n : Z) (u : runit) : Z :=
  match u with
  | RMonth => go_add_months now (signed add n)
  | _ => now + signed add n * runit_us u
  end.

(* DuckDB's value of the same expression *)
Definition rel_time_db (now : Z) (add : bool) (n : Z) (u : runit) : Z :=
  match u with
  | RMonth => duck_add_months now (signed add n)
  | _ => now + signed add n * runit_us u
  end.

Definition eval_atom (r : row) (now : Z) (a : atom) : bool :=
  match a with
  | ACmp c op l => cmp op (colval r c) (l_us l)
  | ARel c op add n u => cmp op (colval r c) (rel_time_db now add n u)
  | ABetween c l1 l2 => (l_us l1 <=? colval r c) && (colval r c <=? l_us l2)
  | AFlag k => nth k (r_flags r) false
  end.

Fixpoint eval_w (r : row) (now : Z) (w : wexpr) : bool :=
  match w with
  | WAtom a => eval_atom r now a
  | WNot w' => negb (eval_w r now w')
  | WAnd a b => eval_w r now a && eval_w r now b
  | WOr a b => eval_w r now a || eval_w r now b
  end.

(* ---- the pruner's reading: atoms in textual order ---- *)

Fixpoint flatten (w : wexpr) : list atom :=
  match w with
  | WAtom a => [a]
  | WNot w' => flatten w'
  | WAnd a b => flatten a ++ flatten b
  | WOr a b => flatten a ++ flatten b
  end.

(* since 2f7fd11 the patterns start with \b: `\btime` matches the column time (and x.time), no
   longer event_time; `\btimestamp` matches a column named timestamp, no longer sample_timestamp *)
Definition time_sfx (c : col) : bool := match c with CTime => true | _ => false end.
Definition ts_sfx (c : col) : bool := match c with CTsExact => true | _ => false end.

Definition opb (a b : cmpop) : bool :=
  match a, b with
  | OGe, OGe | OGt, OGt | OLt, OLt | OLe, OLe | OEq, OEq | ONe, ONe => true
  | _, _ => false
  end.
Definition is_lower (o : cmpop) : bool := match o with OGe | OGt => true | _ => false end.
Definition is_upper (o : cmpop) : bool := match o with OLt | OLe => true | _ => false end.

Fixpoint find_first {A} (f : atom -> option A) (l : list atom) : option A :=
  match l with
  | [] => None
  | a :: l' => match f a with Some x => Some x | None => find_first f l' end
  end.

(* regexp  \b<sfx>\s*<op>\s*'([^']+)'  *)
Definition m_cmp (sfx : col -> bool) (op : cmpop) (a : atom) : option tlit :=
  match a with
  | ACmp c o l => if sfx c && opb o op then Some l else None
  | _ => None
  end.

(* FindStringSubmatch (first textual match of THIS pattern) + parseDateTime; on a parse error
   the loop goes on to the next pattern *)
Definition try_cmp (sfx : col -> bool) (op : cmpop) (l : list atom) : option Z :=
  match find_first (m_cmp sfx op) l with
  | Some t => if l_ok t then Some (l_us t) else None
  | None => None
  end.

Fixpoint first_some (l : list (option Z)) : option Z :=
  match l with
  | [] => None
  | Some x :: _ => Some x
  | None :: l' => first_some l'
  end.

Definition abs_start (l : list atom) : option Z :=
  first_some [try_cmp time_sfx OGe l; try_cmp time_sfx OGt l; try_cmp ts_sfx OGe l; try_cmp ts_sfx OGt l].
Definition abs_end (l : list atom) : option Z :=
  first_some [try_cmp time_sfx OLt l; try_cmp time_sfx OLe l; try_cmp ts_sfx OLt l; try_cmp ts_sfx OLe l].

Definition m_between (a : atom) : option (tlit * tlit) :=
  match a with
  | ABetween c l1 l2 => if time_sfx c then Some (l1, l2) else None
  | _ => None
  end.

(* regexp  time\s*[<>]=?\s*(NOW()|CURRENT_TIMESTAMP)\s*[-+]\s*INTERVAL\s*'n unit'
   (the operator is returned as well: whether the bound is inclusive matters downstream) *)
Definition m_rel (lower add : bool) (a : atom) : option (cmpop * Z * runit) :=
  match a with
  | ARel c op ad n u =>
      if time_sfx c && (if lower then is_lower op else is_upper op) && Bool.eqb ad add then Some (op, n, u) else None
  | _ => None
  end.

Definition rel_bound (lower : bool) (l : list atom) (now : Z) : option (Z * cmpop) :=
  match find_first (m_rel lower false) l with
  | Some (op, n, u) => Some (rel_time_go now false n u, op)
  | None => match find_first (m_rel lower true) l with
            | Some (op, n, u) => Some (rel_time_go now true n u, op)
            | None => None
            end
  end.

Definition default_start : Z := 1577836800 * US.     (* 2020-01-01 *)

(* BETWEEN with two parseable literals overrides whatever the comparison patterns found *)
Definition between_ok (l : list atom) : option (Z * Z) :=
  match find_first m_between l with
  | Some (a, b) => if l_ok a && l_ok b then Some (l_us a, l_us b) else None
  | None => None
  end.

(* the lower bound ExtractTimeRange finds (None: the default 2020-01-01 will be used) *)
Definition start_of (l : list atom) (now : Z) : option Z :=
  match between_ok l with
  | Some (a, _) => Some a
  | None => match abs_start l with
            | Some x => Some x
            | None => option_map fst (rel_bound true l now)
            end
  end.

(* the upper bound it finds and whether the predicate it came from is inclusive
   (None: the default now + 24 h will be used) *)
Definition abs_end_incl (l : list atom) : option (Z * bool) :=
  match try_cmp time_sfx OLt l with
  | Some x => Some (x, false)
  | None => match try_cmp time_sfx OLe l with
            | Some x => Some (x, true)
            | None => match try_cmp ts_sfx OLt l with
                      | Some x => Some (x, false)
                      | None => option_map (fun x => (x, true)) (try_cmp ts_sfx OLe l)
                      end
            end
  end.

Definition end_of (l : list atom) (now : Z) : option (Z * bool) :=
  match between_ok l with
  | Some (_, b) => Some (b, true)
  | None => match abs_end_incl l with
            | Some x => Some x
            | None => option_map (fun vo => (fst vo, opb (snd vo) OLe)) (rel_bound false l now)
            end
  end.

(* ExtractTimeRange: Start, End, EndInclusive (since d443f9f); None = nil (no pruning) *)
Definition extract (l : list atom) (now : Z) : option (Z * Z * bool) :=
  match start_of l now, end_of l now with
  | Some s, Some (e, incl) => Some (s, e, incl)
  | Some s, None => Some (s, now + DAY, false)
  | None, Some (e, incl) => Some (default_start, e, incl)
  | None, None => None
  end.

(* ---- GeneratePartitionPaths on hour numbers (hours since the epoch) ---- *)

Definition max_paths : Z := 50000.

(* Truncate(time.Hour), clamped up to 1970-01-01 *)
Definition start_hour (s : Z) : Z := Z.max 0 (s / HOUR).

Definition est_paths (cur e : Z) : Z :=
  let span := e - cur * HOUR in
  if 0 <? span then let h := (span + HOUR - 1) / HOUR in h + (h / 24 + 1) else 0.

(* for current.Before(end) || (EndInclusive && current.Equal(end)) { ...; current = current.Add(time.Hour) } *)
Fixpoint hours_from (n : nat) (cur : Z) : list Z :=
  match n with
  | O => []
  | S n' => cur :: hours_from n' (cur + 1)
  end.
Definition hours_between (cur e : Z) (incl : bool) : list Z :=
  hours_from (Z.to_nat ((e + HOUR - 1) / HOUR - cur + (if incl && (e mod HOUR =? 0) then 1 else 0))) cur.

Definition gen (s e : Z) (incl : bool) : option (list Z) :=
  let cur := start_hour s in
  if max_paths <? est_paths cur e then None else Some (hours_between cur e incl).

Fixpoint dedup_adj (l : list Z) : list Z :=
  match l with
  | [] => []
  | x :: l' => match l' with
               | [] => [x]
               | y :: _ => if x =? y then dedup_adj l' else x :: dedup_adj l'
               end
  end.
Definition days_of (hs : list Z) : list Z := dedup_adj (map (fun h => h / 24) hs).

(* OptimizeTablePath before the existence filter: None = the unpruned glob is used *)
Definition pruned_hours (w : wexpr) (now : Z) : option (list Z) :=
  match extract (flatten w) now with
  | None => None
  | Some (s, e, incl) => match gen s e incl with
                         | None => None
                         | Some [] => None
                         | Some hs => Some hs
                         end
  end.

(* where the rows of timestamp t are stored *)
Definition hour_of (t : Z) : Z := t / HOUR.
Definition day_of (t : Z) : Z := t / DAY.

(* ---- path text ---- *)
Definition bytes := list N.
Definition digit (d : Z) : N := Z.to_N (48 + d).
Definition pad2 (v : Z) : bytes := [digit (v / 10 mod 10); digit (v mod 10)].
Definition pad4 (v : Z) : bytes := [digit (v / 1000 mod 10); digit (v / 100 mod 10); digit (v / 10 mod 10); digit (v mod 10)].
Definition slash : bytes := [47%N].

Definition day_path (d : Z) : bytes :=
  let '(y, m, dd) := civil_from_days d in pad4 y ++ slash ++ pad2 m ++ slash ++ pad2 dd.
Definition hour_path (h : Z) : bytes := day_path (h / 24) ++ slash ++ pad2 (h mod 24).

Definition B (s : string) : bytes := map N_of_ascii (list_ascii_of_string s).

Fixpoint bytes_eqb (a b : bytes) : bool :=
  match a, b with
  | [], [] => true
  | x :: a', y :: b' => N.eqb x y && bytes_eqb a' b'
  | _, _ => false
  end.

Fixpoint paths_eqb (a : list bytes) (b : list string) : bool :=
  match a, b with
  | [], [] => true
  | x :: a', y :: b' => bytes_eqb x (B y) && paths_eqb a' b'
  | _, _ => false
  end.

(* ---- what a query returns ---- *)

Inductive file :=
| FHour (h : Z) (rows : list (N * row))      (* .../YYYY/MM/DD/HH/*.parquet *)
| FDay (d : Z) (rows : list (N * row)).      (* .../YYYY/MM/DD/*.parquet   (daily compaction) *)

Definition file_rows (f : file) : list (N * row) := match f with FHour _ r => r | FDay _ r => r end.

Definition file_kept (hs : list Z) (f : file) : bool :=
  match f with
  | FHour h _ => existsb (Z.eqb h) hs
  | FDay d _ => existsb (Z.eqb d) (days_of hs)
  end.

Definition select (w : wexpr) (now : Z) (fs : list file) : list N :=
  map fst (filter (fun ir => eval_w (snd ir) now w) (flat_map file_rows fs)).

Definition query_unpruned (w : wexpr) (now : Z) (fs : list file) : list N := select w now fs.

(* pruned: only the generated paths that exist are read; when none exists (or nothing was
   generated) OptimizeTablePath falls back to the unpruned glob *)
Definition query_pruned (w : wexpr) (now : Z) (fs : list file) : list N :=
  match pruned_hours w now with
  | None => select w now fs
  | Some hs => match filter (file_kept hs) fs with
               | [] => select w now fs
               | kept => select w now kept
               end
  end.

(* ---- the class of a clause w.r.t. the hypotheses of the soundness theorem ---- *)

Fixpoint has_or (w : wexpr) : bool :=
  match w with WAtom _ => false | WNot w' => has_or w' | WAnd a b => has_or a || has_or b | WOr _ _ => true end.
Fixpoint has_not (w : wexpr) : bool :=
  match w with WAtom _ => false | WNot _ => true | WAnd a b => has_not a || has_not b | WOr a b => has_not a || has_not b end.
(* the only predicates on another column that the patterns still take for the partition column:
   comparisons of a column named  timestamp  with a literal *)
Definition atom_ok (a : atom) : bool :=
  match a with
  | ACmp CTsExact _ _ => false
  | _ => true
  end.

(* a NOW() +/- INTERVAL atom on which the pruner's and DuckDB's arithmetic agree (always, except
   month intervals that start on a day of month the target month does not have) *)
Definition rel_agree (now : Z) (a : atom) : bool :=
  match a with
  | ARel _ _ add n u => rel_time_go now add n u =? rel_time_db now add n u
  | _ => true
  end.

(* 0: inside the domain of the soundness theorem; otherwise the first violated hypothesis:
   1 top-level or nested OR, 2 NOT, 3 comparison on a column named timestamp,
   4 no lower bound (default 2020-01-01), 5 no upper bound (default now + 24 h),
   6 month interval from a day of month the target month does not have *)
Definition classify (w : wexpr) (now : Z) : N :=
  if has_or w then 1%N
  else if has_not w then 2%N
  else if negb (forallb atom_ok (flatten w)) then 3%N
  else if negb (forallb (rel_agree now) (flatten w)) then 6%N
  else match start_of (flatten w) now, end_of (flatten w) now with
       | None, _ => 4%N
       | _, None => 5%N
       | Some _, Some _ => 0%N
       end.

(* ---- correspondence cases ---- *)

(* pruner level: ExtractTimeRange + GeneratePartitionPaths under a controlled clock *)
(* observed paths: all of them, or (for very long lists) the lengths and sampled positions *)
Inductive gen_obs :=
| GFull (hours days : list string)
| GSample (nh nd : N) (hours days : list (N * string)).

Record pcase := {
  pc_where : bool;                       (* the statement has a WHERE clause at all *)
  pc_w : wexpr;
  pc_now : Z;
  pc_range : option (Z * Z);            (* observed Start / End (microseconds); None = nil *)
  pc_gen : option gen_obs               (* observed hour paths and day paths, sorted; None = nil *)
}.

Definition opt_range_eqb (a : option (Z * Z * bool)) (b : option (Z * Z)) : bool :=
  match a, b with
  | None, None => true
  | Some (a1, a2, _), Some (b1, b2) => (a1 =? b1) && (a2 =? b2)
  | _, _ => false
  end.

Definition sample_ok (path : Z -> bytes) (idx : list Z) (smp : N * string) : bool :=
  match nth_error idx (N.to_nat (fst smp)) with
  | Some i => bytes_eqb (path i) (B (snd smp))
  | None => false
  end.

Definition gen_obs_agrees (hs : list Z) (o : gen_obs) : bool :=
  match o with
  | GFull ph pd => paths_eqb (map hour_path hs) ph && paths_eqb (map day_path (days_of hs)) pd
  | GSample nh nd sh sd =>
      let ds := days_of hs in
      N.eqb (N.of_nat (List.length hs)) nh && N.eqb (N.of_nat (List.length ds)) nd &&
      forallb (sample_ok hour_path hs) sh && forallb (sample_ok day_path ds) sd
  end.

Definition pcase_agrees (c : pcase) : bool :=
  let ex := if pc_where c then extract (flatten (pc_w c)) (pc_now c) else None in
  opt_range_eqb ex (pc_range c) &&
  match ex with
  | None => match pc_gen c with None => true | Some _ => false end
  | Some (s, e, incl) =>
      match gen s e incl, pc_gen c with
      | None, None => true
      | Some hs, Some o => gen_obs_agrees hs o
      | _, _ => false
      end
  end.

(* validation of the two month-arithmetic definitions: observed Go (pruner under the controlled
   clock) resp. DuckDB value of  t +/- n months *)
Inductive mcase := MGo (t n obs : Z) | MDuck (t n obs : Z).
Definition mcase_agrees (c : mcase) : bool :=
  match c with
  | MGo t n obs => go_add_months t n =? obs
  | MDuck t n obs => duck_add_months t n =? obs
  end.

(* query level: the production path with pruning on and off over a real file layout *)
Fixpoint listN_eqb (a b : list N) : bool :=
  match a, b with
  | [], [] => true
  | x :: a', y :: b' => N.eqb x y && listN_eqb a' b'
  | _, _ => false
  end.

Fixpoint insertN (x : N) (l : list N) : list N :=
  match l with
  | [] => [x]
  | y :: l' => if N.leb x y then x :: l else y :: insertN x l'
  end.
Definition sortN (l : list N) : list N := fold_right insertN [] l.

Record qcase := {
  qc_w : wexpr;
  qc_now : Z;
  qc_pruned : list N;        (* ids returned with pruning (sorted) *)
  qc_unpruned : list N       (* ids returned with pruning disabled (sorted) *)
}.

Definition qcase_agrees (fs : list file) (c : qcase) : bool :=
  listN_eqb (sortN (query_pruned (qc_w c) (qc_now c) fs)) (qc_pruned c) &&
  listN_eqb (sortN (query_unpruned (qc_w c) (qc_now c) fs)) (qc_unpruned c).

Definition qcase_oracle (c : qcase) : bool := listN_eqb (qc_pruned c) (qc_unpruned c).

(* ------------------------------------------------------------------------------------ *)
(* remote storage (s3:// / azure://): filterExistingRemotePaths                           *)
(* ------------------------------------------------------------------------------------ *)

(* a generated path: the hour directory .../YYYY/MM/DD/HH or the day directory .../YYYY/MM/DD *)
Inductive rpath := PHour (h : Z) | PDay (d : Z).

Definition month_key (d : Z) : Z := let '(y, m, _) := civil_from_days d in y * 12 + (m - 1).

(* outcome of the storage calls the filter makes; None = the call failed
   - ld_day d    : ListDirectories(.../YYYY/MM/DD/)  -> hour numbers found under day d
   - ld_month mk : ListDirectories(.../YYYY/MM/)     -> day numbers found under month mk
   - lf_day d    : List(.../YYYY/MM/DD/)             -> are there *.parquet files directly in it *)
Record remote := {
  ld_day : Z -> option (list Z);
  ld_month : Z -> option (list Z);
  lf_day : Z -> option bool
}.

Definition memZ (x : Z) (l : list Z) : bool := existsb (Z.eqb x) l.

(* "parent listing failed - assume directory exists", else the target must be among the children *)
Definition dir_exists (rw : remote) (p : rpath) : bool :=
  match p with
  | PHour h => match ld_day rw (h / 24) with None => true | Some hs => memZ h hs end
  | PDay d => match ld_month rw (month_key d) with None => true | Some ds => memZ d ds end
  end.

(* day-level paths are additionally checked for direct parquet files; when THAT call fails the
   path is kept (since 4553183: same policy as a failed ListDirectories) *)
Definition keep_remote (rw : remote) (p : rpath) : bool :=
  dir_exists rw p &&
  match p with
  | PHour _ => true
  | PDay d => match lf_day rw d with None => true | Some b => b end
  end.

Definition gen_paths (hs : list Z) : list rpath := map PHour hs ++ map PDay (days_of hs).

Definition filter_remote (rw : remote) (ps : list rpath) : list rpath := filter (keep_remote rw) ps.

(* OptimizeTablePath on remote storage: None = the unpruned glob *)
Definition optimize_remote (w : wexpr) (now : Z) (rw : remote) : option (list rpath) :=
  match pruned_hours w now with
  | None => None
  | Some hs => match filter_remote rw (gen_paths hs) with
               | [] => None
               | ps => Some ps
               end
  end.

(* a remote world given by what is stored and which calls fail *)
Record rworld := {
  rw_hours : list Z;        (* hour directories that hold files *)
  rw_days : list Z;         (* day directories that hold daily-compacted files directly *)
  rw_fail_day : list Z;     (* days whose ListDirectories fails *)
  rw_fail_month : list Z;   (* month keys whose ListDirectories fails *)
  rw_fail_list : list Z     (* days whose List (direct files) fails *)
}.

Definition day_listed (x : rworld) (d : Z) : bool :=
  memZ d (rw_days x) || existsb (fun h => h / 24 =? d) (rw_hours x).

Definition remote_of (x : rworld) : remote :=
  (* the month of every directory that exists, computed once *)
  let keyed := map (fun d => (month_key d, d)) (rw_days x ++ map (fun h => h / 24) (rw_hours x)) in
  let keyedh := map (fun h => (h / 24, h)) (rw_hours x) in
  {| ld_day := fun d => if memZ d (rw_fail_day x) then None else Some (map snd (filter (fun kh => fst kh =? d) keyedh));
     ld_month := fun mk => if memZ mk (rw_fail_month x) then None
                           else Some (map snd (filter (fun kd => fst kd =? mk) keyed));
     lf_day := fun d => if memZ d (rw_fail_list x) then None else Some (memZ d (rw_days x)) |}.

Definition rpath_text (p : rpath) : bytes := match p with PHour h => hour_path h | PDay d => day_path d end.

(* correspondence case: the real OptimizeTablePath on an s3:// path with a fake DirectoryLister *)
Record rcase := {
  rc_w : wexpr;
  rc_now : Z;
  rc_world : rworld;
  rc_obs : option (list string)      (* kept directories in order of the result; None = not optimized *)
}.

Definition rcase_agrees (c : rcase) : bool :=
  match optimize_remote (rc_w c) (rc_now c) (remote_of (rc_world c)), rc_obs c with
  | None, None => true
  | Some ps, Some obs => paths_eqb (map rpath_text ps) obs
  | _, _ => false
  end.

(* property oracle on the implementation's answer: every generated path whose partition holds
   files is still there (unless everything was dropped and the unpruned glob is used) *)
Definition rpath_stored (x : rworld) (p : rpath) : bool :=
  match p with PHour h => memZ h (rw_hours x) | PDay d => memZ d (rw_days x) end.

Definition rcase_oracle (c : rcase) : bool :=
  match pruned_hours (rc_w c) (rc_now c), rc_obs c with
  | Some hs, Some obs =>
      let obsb := map B obs in
      forallb (fun p => let t := rpath_text p in existsb (bytes_eqb t) obsb)
              (filter (rpath_stored (rc_world c)) (gen_paths hs))
  | _, _ => true
  end.

(* a stored day file whose List call failed: the class of the finding fixed by 4553183 (kept as a
   label for regression cases) *)
Definition rcase_list_fault (c : rcase) : bool :=
  match pruned_hours (rc_w c) (rc_now c) with
  | Some hs => existsb (fun d => memZ d (rw_days (rc_world c)) && memZ d (rw_fail_list (rc_world c))) (days_of hs)
  | None => false
  end.
