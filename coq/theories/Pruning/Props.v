(* C18 - Partition pruning never changes query results.
   Only property statements live here; proofs are in Cal.v / Proofs.v.  The definitions the
   statements are about (Model.v) are the ones the correspondence evaluates against the real
   pruner and the production query path on every run. *)
From Coq Require Import List ZArith NArith Bool String Lia.
From Arc Require Import Pruning.Cal Pruning.Model Pruning.Proofs.
Import ListNotations.
Open Scope Z_scope.

(* ------------------------------------------------------------------------------------ *)
(* calendar                                                                              *)
(* ------------------------------------------------------------------------------------ *)

(* for EVERY day number: the civil date is valid and maps back to the day number *)
Theorem C18_civil_roundtrip_days : forall z,
  let '(y, m, d) := civil_from_days z in valid_date y m d = true /\ days_from_civil y m d = z.
Proof. exact civil_roundtrip_days. Qed.
Print Assumptions C18_civil_roundtrip_days.

(* for EVERY valid proleptic-Gregorian date (all years, also <= 0): back and forth *)
Theorem C18_civil_roundtrip_date : forall y m d,
  valid_date y m d = true -> civil_from_days (days_from_civil y m d) = (y, m, d).
Proof. exact civil_roundtrip_date. Qed.
Print Assumptions C18_civil_roundtrip_date.

(* ------------------------------------------------------------------------------------ *)
(* path generation                                                                       *)
(* ------------------------------------------------------------------------------------ *)

(* coverage, all years: whenever paths are generated for the extracted range - [s, e) for an
   exclusive upper bound, [s, e] for an inclusive one (TimeRange.EndInclusive, d443f9f) - the hour
   directory and the day directory of EVERY timestamp t in the range (t not before 1970) are among
   them *)
Theorem C18_paths_cover : forall s e (incl : bool) hs t,
  gen s e incl = Some hs -> s <= t -> 0 <= t -> (if incl then t <= e else t < e) ->
  In (hour_of t) hs /\ In (day_of t) (days_of hs) /\
  In (hour_path (hour_of t)) (map hour_path hs) /\ In (day_path (day_of t)) (map day_path (days_of hs)).
Proof. exact paths_cover. Qed.
Print Assumptions C18_paths_cover.

(* and nothing outside [max(1970, hour of s), e) - plus the hour that starts at e for an inclusive
   bound - is generated *)
Theorem C18_generated_within : forall s e incl hs h,
  gen s e incl = Some hs -> In h hs ->
  Z.max 0 (s / HOUR) <= h /\ (h * HOUR < e \/ (incl = true /\ h * HOUR = e)).
Proof. exact gen_lower. Qed.
Print Assumptions C18_generated_within.

(* distinct hours have distinct directory names (years 0000-9999), so "the file's directory was
   generated" is the same as "its hour number was generated" *)
Theorem C18_path_injective : forall h1 h2,
  year_ok (h1 / 24) -> year_ok (h2 / 24) -> hour_path h1 = hour_path h2 -> h1 = h2.
Proof. exact hour_path_inj. Qed.
Print Assumptions C18_path_injective.

(* ------------------------------------------------------------------------------------ *)
(* soundness for conjunctions bounded on the real time column                            *)
(* ------------------------------------------------------------------------------------ *)

(* a WHERE that is a conjunction of atoms - predicates on event_time, sample_timestamp and any
   other column included (the patterns are anchored at a word boundary since 2f7fd11) - without a
   comparison on a column named `timestamp`: the bounds the regular expressions extract hold for
   EVERY satisfying row *)
Theorem C18_bounds_sound_conj : forall w now r s e incl,
  conj_only w = true -> forallb atom_ok (flatten w) = true -> forallb (rel_agree now) (flatten w) = true ->
  eval_w r now w = true ->
  start_of (flatten w) now = Some s -> end_of (flatten w) now = Some (e, incl) ->
  s <= r_time r /\ (if incl then r_time r <= e else r_time r < e).
Proof. exact bounds_sound_conj. Qed.
Print Assumptions C18_bounds_sound_conj.

(* NOW() +/- INTERVAL 'n months': the pruner (Go AddDate: overflow is normalised) and DuckDB
   (clamp to the end of the month) agree for EVERY number of months from every day of month up to
   the 28th; in general DuckDB's instant is never later than the pruner's. *)
Theorem C18_month_arith_agree : forall t n,
  (let '(_, _, d) := civil_from_days (t / DAY) in d <= 28) -> go_add_months t n = duck_add_months t n.
Proof. exact month_agree. Qed.
Print Assumptions C18_month_arith_agree.

Theorem C18_month_arith_order : forall t n, duck_add_months t n <= go_add_months t n.
Proof. exact duck_le_go. Qed.
Print Assumptions C18_month_arith_order.

(* pruning sound: no OR, no NOT, no comparison on a column named `timestamp`, relative intervals
   on which the two month arithmetics agree, a lower and an upper bound found - exclusive or inclusive, on an hour boundary or not (classify = 0); every
   row stored in the partition of its timestamp; no row before 1970.  Then for EVERY layout the
   pruned query returns exactly the rows of the unpruned one. *)
Theorem C18_pruning_sound_guarded : forall w now fs,
  classify w now = 0%N -> layout_ok fs -> rows_nonneg fs ->
  query_pruned w now fs = query_unpruned w now fs.
Proof. exact pruning_sound_guarded. Qed.
Print Assumptions C18_pruning_sound_guarded.

(* ------------------------------------------------------------------------------------ *)
(* witnesses: one per dropped hypothesis                                                 *)
(* ------------------------------------------------------------------------------------ *)

Definition base : Z := 1710511200 * US.                       (* 2024-03-15 14:00:00 *)
Definition L (v : Z) : tlit := {| l_us := v; l_ok := true |}.
Definition mkrow (t et : Z) (f0 : bool) : row :=
  {| r_time := t; r_etime := et; r_stime := t; r_ts := et; r_flags := [f0; false; false; false] |}.
Definition hfile (id : N) (t et : Z) (f0 : bool) : file := FHour (t / HOUR) [(id, mkrow t et f0)].
Definition now0 : Z := base + 100 * DAY.

Ltac layout_tac :=
  intros f Hf; repeat (destruct Hf as [Hf|Hf]; [subst f; cbn; intros ir Hir;
    repeat (destruct Hir as [Hir|Hir]; [subst ir; vm_compute; try reflexivity; try (intro; discriminate)|]); contradiction|]);
  contradiction.

(* OR:  time >= base OR f0 = true  - a row before `base` with f0 satisfies it, its file is pruned *)
Theorem C18_or_refuted :
  let w := WOr (WAtom (ACmp CTime OGe (L base))) (WAtom (AFlag 0)) in
  let fs := [hfile 1 (base - 5 * HOUR) 0 true; hfile 2 base 0 false] in
  classify w now0 = 1%N /\ layout_ok fs /\ rows_nonneg fs /\
  query_unpruned w now0 fs = [1%N; 2%N] /\ query_pruned w now0 fs = [2%N].
Proof. cbv zeta. split; [reflexivity|]. split; [layout_tac|]. split; [layout_tac|]. split; vm_compute; reflexivity. Qed.
Print Assumptions C18_or_refuted.

(* NOT (time >= base) *)
Theorem C18_not_refuted :
  let w := WNot (WAtom (ACmp CTime OGe (L base))) in
  let fs := [hfile 1 (base - 5 * HOUR) 0 false; hfile 2 base 0 false] in
  classify w now0 = 2%N /\ layout_ok fs /\ rows_nonneg fs /\
  query_unpruned w now0 fs = [1%N] /\ query_pruned w now0 fs = [].
Proof. cbv zeta. split; [reflexivity|]. split; [layout_tac|]. split; [layout_tac|]. split; vm_compute; reflexivity. Qed.
Print Assumptions C18_not_refuted.

(* timestamp >= base AND time < base + 2 d : a column named `timestamp` is still taken for the
   partitioning column (`\btimestamp` patterns) *)
Theorem C18_timestamp_column_refuted :
  let w := WAnd (WAtom (ACmp CTsExact OGe (L base))) (WAtom (ACmp CTime OLt (L (base + 2 * DAY)))) in
  let fs := [hfile 3 (base - 5 * HOUR) (base + HOUR) false; hfile 2 base base false] in
  classify w now0 = 3%N /\ layout_ok fs /\ rows_nonneg fs /\
  query_unpruned w now0 fs = [3%N; 2%N] /\ query_pruned w now0 fs = [2%N].
Proof. cbv zeta. split; [reflexivity|]. split; [layout_tac|]. split; [layout_tac|]. split; vm_compute; reflexivity. Qed.
Print Assumptions C18_timestamp_column_refuted.

(* only an upper bound: the start defaults to 2020-01-01, a row of 2019-12-31 is lost *)
Theorem C18_default_start_refuted :
  let w := WAtom (ACmp CTime OLt (L (base + DAY))) in
  let fs := [hfile 4 (default_start - 2 * HOUR) 0 false; hfile 2 base 0 false] in
  classify w now0 = 4%N /\ layout_ok fs /\ rows_nonneg fs /\
  query_unpruned w now0 fs = [4%N; 2%N] /\ query_pruned w now0 fs = [2%N].
Proof. cbv zeta. split; [reflexivity|]. split; [layout_tac|]. split; [layout_tac|]. split; vm_compute; reflexivity. Qed.
Print Assumptions C18_default_start_refuted.

(* only a lower bound: the end defaults to now + 24 h, a row dated now + 2 d is lost *)
Theorem C18_default_end_refuted :
  let w := WAtom (ACmp CTime OGe (L base)) in
  let fs := [hfile 2 base 0 false; hfile 5 (now0 + 2 * DAY) 0 false] in
  classify w now0 = 5%N /\ layout_ok fs /\ rows_nonneg fs /\
  query_unpruned w now0 fs = [2%N; 5%N] /\ query_pruned w now0 fs = [2%N].
Proof. cbv zeta. split; [reflexivity|]. split; [layout_tac|]. split; [layout_tac|]. split; vm_compute; reflexivity. Qed.
Print Assumptions C18_default_end_refuted.

(* on 2024-03-31 10:20:30.5  `time >= NOW() - INTERVAL '1 month'`  means  time >= Feb 29 10:20:30.5
   to DuckDB and starts at Mar 2 10:20:30.5 for the pruner: the row of Feb 29 11:00 is lost *)
Definition now_eom : Z := 1711880430500000.
Theorem C18_month_end_refuted :
  let w := WAnd (WAtom (ARel CTime OGe false 1 RMonth)) (WAtom (ACmp CTime OLt (L (now_eom + DAY)))) in
  let fs := [hfile 10 (1709204400 * US) 0 false; hfile 11 (1709377200 * US) 0 false] in
  rel_time_db now_eom false 1 RMonth = 1709202030500000 /\ rel_time_go now_eom false 1 RMonth = 1709374830500000 /\
  classify w now_eom = 6%N /\ layout_ok fs /\ rows_nonneg fs /\
  query_unpruned w now_eom fs = [10%N; 11%N] /\ query_pruned w now_eom fs = [11%N].
Proof. cbv zeta. split; [reflexivity|]. split; [reflexivity|]. split; [reflexivity|]. split; [layout_tac|]. split; [layout_tac|]. split; vm_compute; reflexivity. Qed.
Print Assumptions C18_month_end_refuted.

(* rows before 1970: the start is clamped up to the epoch (the clause itself is inside the class) *)
Theorem C18_pre_epoch_refuted :
  let w := WAnd (WAtom (ACmp CTime OGe (L (- (400 * DAY))))) (WAtom (ACmp CTime OLt (L DAY))) in
  let fs := [hfile 8 (- (1800 * US)) 0 false; hfile 9 HOUR 0 false] in
  classify w now0 = 0%N /\ layout_ok fs /\ ~ rows_nonneg fs /\
  query_unpruned w now0 fs = [8%N; 9%N] /\ query_pruned w now0 fs = [9%N].
Proof.
  cbv zeta. split; [reflexivity|]. split; [layout_tac|]. split.
  - intro H. specialize (H _ (or_introl eq_refl) _ (or_introl eq_refl)). vm_compute in H. apply H. reflexivity.
  - split; vm_compute; reflexivity.
Qed.
Print Assumptions C18_pre_epoch_refuted.

(* non-vacuity of the guarded theorem: a clause of the class, a consistent layout from which files
   ARE pruned away, and a non-empty answer *)
Example C18_pruning_sound_nonvacuous :
  let w := WAnd (WAtom (AFlag 0)) (WAnd (WAtom (ACmp CTime OGt (L (base - HOUR)))) (WAtom (ACmp CTime OLt (L (base + 3 * HOUR))))) in
  let fs := [hfile 1 (base - 5 * HOUR) 0 true; hfile 2 base 0 true; hfile 3 (base + HOUR + 5) 0 false;
             FDay (base / DAY) [(4%N, mkrow (base + 2 * HOUR) 0 true)]; hfile 5 (base + 7 * HOUR) 0 true] in
  classify w now0 = 0%N /\ layout_ok fs /\ rows_nonneg fs /\
  pruned_hours w now0 = Some [475141; 475142; 475143; 475144] /\
  query_pruned w now0 fs = [2%N; 4%N] /\ query_unpruned w now0 fs = [2%N; 4%N].
Proof. cbv zeta. split; [reflexivity|]. split; [layout_tac|]. split; [layout_tac|]. repeat split; vm_compute; reflexivity. Qed.

(* regression witnesses of the two fixed findings (d443f9f, 2f7fd11): both clauses are now inside
   the class of the soundness theorem and keep their rows *)
Example C18_fixed_findings_regression :
  let w1 := WAnd (WAtom (ACmp CTime OGe (L base))) (WAtom (ACmp CTime OLe (L (base + 2 * HOUR)))) in
  let fs1 := [hfile 6 (base + HOUR) 0 false; hfile 7 (base + 2 * HOUR) 0 false] in
  let w2 := WAnd (WAtom (ACmp CTimeLike OGe (L base)))
                 (WAnd (WAtom (ACmp CTime OGe (L (base - DAY)))) (WAtom (ACmp CTime OLt (L (base + 2 * DAY))))) in
  let fs2 := [hfile 3 (base - 5 * HOUR) (base + HOUR) false; hfile 2 base base false] in
  classify w1 now0 = 0%N /\ pruned_hours w1 now0 = Some [475142; 475143; 475144] /\
  query_pruned w1 now0 fs1 = [6%N; 7%N] /\ query_unpruned w1 now0 fs1 = [6%N; 7%N] /\
  classify w2 now0 = 0%N /\ extract (flatten w2) now0 = Some (base - DAY, base + 2 * DAY, false) /\
  query_pruned w2 now0 fs2 = [3%N; 2%N] /\ query_unpruned w2 now0 fs2 = [3%N; 2%N].
Proof. vm_compute. repeat split; reflexivity. Qed.

Example C18_paths_text : hour_path (base / HOUR) = B "2024/03/15/14" /\ day_path (-1) = B "1969/12/31".
Proof. vm_compute. split; reflexivity. Qed.

(* ------------------------------------------------------------------------------------ *)
(* remote storage: filterExistingRemotePaths                                             *)
(* ------------------------------------------------------------------------------------ *)

(* For EVERY outcome of the storage calls whose successful listings are complete (failed ones
   are arbitrary): an hour partition that holds files is never dropped from the pruned list -
   in particular not when the ListDirectories call of its parent failed. *)
Theorem C18_remote_keeps_hour : forall rw tr ps h,
  faithful rw tr -> In h (t_hours tr) -> In (PHour h) ps -> In (PHour h) (filter_remote rw ps).
Proof. exact remote_keeps_hour. Qed.
Print Assumptions C18_remote_keeps_hour.

(* ... and a day partition that holds daily-compacted files is never dropped either: whether the
   listing of its month and the List call for its direct files succeed or fail (4553183). *)
Theorem C18_remote_keeps_day : forall rw tr ps d,
  faithful rw tr -> In d (t_days tr) -> In (PDay d) ps -> In (PDay d) (filter_remote rw ps).
Proof. exact remote_keeps_day. Qed.
Print Assumptions C18_remote_keeps_day.

(* the worlds the correspondence builds (stored partitions + injected faults) are faithful *)
Theorem C18_remote_world_faithful : forall x, faithful (remote_of x) {| t_hours := rw_hours x; t_days := rw_days x |}.
Proof. exact remote_of_faithful. Qed.
Print Assumptions C18_remote_world_faithful.

(* regression witness of the fixed finding: List(<day>/) fails, the day path stays *)
Example C18_remote_day_list_failure_regression :
  let x := {| rw_hours := [475142]; rw_days := [19797]; rw_fail_day := []; rw_fail_month := []; rw_fail_list := [19797] |} in
  filter_remote (remote_of x) (gen_paths [475142; 475143]) = [PHour 475142; PDay 19797].
Proof. vm_compute. reflexivity. Qed.

Example C18_remote_nonvacuous :      (* the parent listing of day 19797 fails: both of its hours stay, the unlisted hour of the next day goes *)
  let x := {| rw_hours := [475142; 475150]; rw_days := [19797]; rw_fail_day := [19797]; rw_fail_month := []; rw_fail_list := [] |} in
  filter_remote (remote_of x) (gen_paths [475142; 475143; 475152]) = [PHour 475142; PHour 475143; PDay 19797].
Proof. vm_compute. reflexivity. Qed.
