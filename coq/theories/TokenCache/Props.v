(* C21 - Revoked, deleted or rotated token values stop authenticating immediately.
   Only property statements live here; proofs are in Proofs.v.

   The system: [reach (step c) env (spawnable okop) (init_st c d t0, [])] is the set of all
   configurations reachable from an arbitrary api_tokens table [d] with an empty cache under
   ANY interleaving of ANY number of VerifyToken calls (V0 v, for any presented values) and
   mutation calls (M0 mode op with okop op; direct or cluster-apply mode), the clock
   advancing and cache entries being dropped at any moment.  A finished verification is
   [VDone v now0 minv res]: v the presented value, now0 its time.Now(), res its result with
   the table version it was read at, and minv the newest table version whose mutation call
   HAD RETURNED when the verification started. *)
From Coq Require Import List ZArith NArith Bool Lia.
From Arc Require Import Lib.AList TokenCache.Interleave TokenCache.Model TokenCache.Proofs.
Import ListNotations.
Open Scope Z_scope.

(* With the single pooled connection of NewAuthManager (db.SetMaxOpenConns(1)): every
   successful verification returns the row that held the presented value in a table version
   that is at least as new as every mutation that had returned before the verification
   started - in every interleaving, for any number of verifiers and mutators. *)
Theorem C21_no_stale_after_return :
  forall c d t0 s ts i v now0 minv inf w,
  c_pool c = 1%nat ->
  reach (step c) env (spawnable (fun _ => True)) (init_st c d t0, []) (s, ts) ->
  nth_error ts i = Some (VDone v now0 minv (Some (inf, w))) ->
  (minv <= w <= cur s)%nat /\
  exists dw r, db_at s w = Some dw /\ find_row dw v = Some r /\ inf = info_of r.
Proof. exact thm_no_stale_after_return. Qed.
Print Assumptions C21_no_stale_after_return.

(* The property as worded: once the mutation call that left value v without an enabled row
   (revoke, delete, rotate) has returned - the table version [minv] whose call had returned
   when the verification started has no enabled row for v - and no mutation in the system
   rotates a token TO v, a verification started afterwards fails, however the verifications
   and mutations interleave. *)
Theorem C21_revoked_value_rejected :
  forall c d t0 s ts i v now0 minv res dm,
  c_pool c = 1%nat ->
  reach (step c) env (spawnable (no_rotate_to v)) (init_st c d t0, []) (s, ts) ->
  nth_error ts i = Some (VDone v now0 minv res) ->
  db_at s minv = Some dm -> find_row dm v = None ->
  res = None.
Proof. exact revoked_rejected. Qed.
Print Assumptions C21_revoked_value_rejected.

(* The single connection is what excludes the race: with a pool of two the very same claim
   is false (verify: lookup, query; revoke: update, invalidate, return; verify: insert,
   return; a new verification then hits the stale entry). *)
Theorem C21_pool2_stale_refuted :
  ~ (forall c d t0 s ts i v now0 minv res dm,
       c_pool c = 2%nat ->
       reach (step c) env (spawnable (no_rotate_to v)) (init_st c d t0, []) (s, ts) ->
       nth_error ts i = Some (VDone v now0 minv res) ->
       db_at s minv = Some dm -> find_row dm v = None ->
       res = None).
Proof. exact thm_pool2_stale_refuted. Qed.
Print Assumptions C21_pool2_stale_refuted.

(* "authenticates only if issued, enabled and not expired": issued and enabled are part of
   C21_no_stale_after_return (find_row only returns enabled rows of the table).  Expiry:
   the code as it is lets a token authenticate after its expiry from the cache ... *)
Theorem C21_expiry_refuted :
  ~ (forall c d t0 s ts i v now0 minv inf w dw r x,
       c_pool c = 1%nat ->
       reach (step c) env (spawnable (fun _ => True)) (init_st c d t0, []) (s, ts) ->
       nth_error ts i = Some (VDone v now0 minv (Some (inf, w))) ->
       db_at s w = Some dw -> find_row dw v = Some r -> r_exp r = Some x ->
       now0 <= x).
Proof. exact thm_expiry_refuted. Qed.
Print Assumptions C21_expiry_refuted.

(* ... but by less than the cache TTL (guarded statement for the code as it is) ... *)
Theorem C21_expiry_overshoot_bounded :
  forall c d t0 s ts i v now0 minv inf w,
  c_pool c = 1%nat ->
  reach (step c) env (spawnable (fun _ => True)) (init_st c d t0, []) (s, ts) ->
  nth_error ts i = Some (VDone v now0 minv (Some (inf, w))) ->
  exists dw r, db_at s w = Some dw /\ find_row dw v = Some r /\ inf = info_of r /\
    forall x, r_exp r = Some x -> now0 <= x \/ now0 < x + c_ttl c.
Proof. exact thm_expiry_overshoot_bounded. Qed.
Print Assumptions C21_expiry_overshoot_bounded.

(* ... and not at all once the cache entry's expiry is clamped to the token's own expiry
   (the proposed repair, fixes/C21_clamp_cache_expiry.patch). *)
Theorem C21_unexpired_when_clamped :
  forall c d t0 s ts i v now0 minv inf w,
  c_pool c = 1%nat -> c_clamp c = true ->
  reach (step c) env (spawnable (fun _ => True)) (init_st c d t0, []) (s, ts) ->
  nth_error ts i = Some (VDone v now0 minv (Some (inf, w))) ->
  exists dw r, db_at s w = Some dw /\ find_row dw v = Some r /\ inf = info_of r /\
    forall x, r_exp r = Some x -> now0 <= x.
Proof. exact thm_unexpired_when_clamped. Qed.
Print Assumptions C21_unexpired_when_clamped.

(* Every schedule the harness forces on the real AuthManager (run_sched, the function the
   correspondence evaluates) is a run of the interleaving system the theorems quantify over. *)
Theorem C21_schedules_are_runs :
  forall c okop d t0 ts sch,
  Forall (spawnable okop) ts ->
  reach (step c) env (spawnable okop) (init_st c d t0, []) (fst (run_sched c (init_st c d t0) ts sch)).
Proof. exact schedules_reachable. Qed.
Print Assumptions C21_schedules_are_runs.

(* Non-vacuity.  (1) The hypotheses of C21_revoked_value_rejected are met by a reachable
   configuration in which a verification before the revoke DID succeed and the one started
   after its return failed. *)
Example C21_revoked_nonvacuous :
  exists s ts d1,
    reach (step cfg_asis) env (spawnable (no_rotate_to 7)) (init_st cfg_asis [tok1 None] 0, []) (s, ts) /\
    nth_error ts 2 = Some (VDone 7 0 1 None) /\
    nth_error ts 0 = Some (VDone 7 0 0 (Some (info_of (tok1 None), O))) /\
    db_at s 1 = Some d1 /\ find_row d1 7 = None.
Proof. exact revoke_then_verify_reach. Qed.

(* (2) C21_no_stale_after_return with minv > 0: a verification started after a permission
   update returned succeeds, from the updated version. *)
Example C21_no_stale_nonvacuous :
  exists s ts inf,
    reach (step cfg_asis) env (spawnable all_ops) (init_st cfg_asis [tok1 None] 0, []) (s, ts) /\
    nth_error ts 2 = Some (VDone 7 0 1 (Some (inf, 1%nat))) /\ i_perms inf = 9%N.
Proof. exact setperms_then_verify_reach. Qed.
