(* Model of the token cache protocol of internal/auth/auth.go (AuthManager.VerifyToken,
   RevokeToken / DeleteToken / RotateToken / UpdateToken, InvalidateCache) and of the
   cluster apply path of internal/auth/cluster_apply.go (Apply*Token + invalidateAndReturn),
   as an interleaving system: executable definitions only.

   Shared state: the api_tokens table, the in-memory cache (sha256(token) -> TokenInfo with
   an expiry), the database/sql connection pool of the auth database (NewAuthManager:
   db.SetMaxOpenConns(n); n is re-extracted from the source, see ArcGen.Params_TokenCache)
   and the clock.  VerifyToken is four atomic steps

       lookup   now := time.Now(); RLock; cache hit (now < entry.expiresAt) -> return
       dbread   rows := db.Query(...)  - takes a pool connection and KEEPS it (defer
                rows.Close()) when a matching row is found; hash check; expiry check
       insert   Lock; evict oldest when full; cache[key] = {info, now + cacheTTL}; Unlock
       return   deferred rows.Close() gives the connection back

   and a mutation is  update (db.Exec, needs a connection) ; InvalidateCache ; return.
   Token hashes are idealised: a row matches a presented value iff it stores that value.

   Ghost components (no influence on behaviour): the list of all earlier table versions,
   the version a cache entry / verification result was read at, the newest version whose
   mutation call has returned (s_done) and the version current at the last invalidation. *)
From Coq Require Import List ZArith NArith Bool.
From Arc Require Import Lib.AList TokenCache.Interleave.
Import ListNotations.
Open Scope Z_scope.

Record cfg := { c_ttl : Z; c_max : nat; c_pool : nat; c_clamp : bool }.

(* ---- api_tokens ------------------------------------------------------------------- *)
Record row := { r_id : N; r_val : N; r_enabled : bool; r_exp : option Z; r_perms : N;
                r_legacy : bool (* token_prefix = '__legacy__' (pre-prefix rows kept by backfillTokenPrefixes) *) }.
Definition db := list row.                       (* in rowid order *)

Record info := { i_id : N; i_perms : N; i_exp : option Z }.
Definition info_of (r : row) : info := {| i_id := r_id r; i_perms := r_perms r; i_exp := r_exp r |}.

(* SELECT ... WHERE enabled = 1 AND (token_prefix = ? OR token_prefix = '__legacy__'), then the
   first candidate whose hash verifies.  A non-legacy row's prefix is the prefix of the value
   it stores (prefix collisions of distinct values are not modelled). *)
Definition matches (v : N) (r : row) : bool :=
  r_enabled r && (r_legacy r || N.eqb (r_val r) v) && N.eqb (r_val r) v.
Definition find_row (d : db) (v : N) : option row := find (matches v) d.

(* expiresAt.Valid && now.After(expiresAt.Time) *)
Definition expired (e : option Z) (now : Z) : bool :=
  match e with Some x => x <? now | None => false end.

Inductive op :=
| Revoke (id : N)                 (* UPDATE api_tokens SET enabled = 0 *)
| Delete (id : N)
| Rotate (id : N) (newv : N)      (* new hash + prefix (a legacy row becomes an ordinary one) *)
| SetExp (id : N) (e : Z)         (* UpdateToken(expiresAt) *)
| SetPerms (id : N) (p : N).      (* UpdateToken(permissions) *)

Definition op_id (o : op) : N :=
  match o with Revoke i | Delete i | Rotate i _ | SetExp i _ | SetPerms i _ => i end.

Definition has_id (d : db) (id : N) : bool := existsb (fun r => N.eqb (r_id r) id) d.

Definition upd_row (o : op) (r : row) : row :=
  match o with
  | Revoke _ => {| r_id := r_id r; r_val := r_val r; r_enabled := false; r_exp := r_exp r; r_perms := r_perms r; r_legacy := r_legacy r |}
  | Rotate _ nv => {| r_id := r_id r; r_val := nv; r_enabled := r_enabled r; r_exp := r_exp r; r_perms := r_perms r; r_legacy := false |}
  | SetExp _ e => {| r_id := r_id r; r_val := r_val r; r_enabled := r_enabled r; r_exp := Some e; r_perms := r_perms r; r_legacy := r_legacy r |}
  | SetPerms _ p => {| r_id := r_id r; r_val := r_val r; r_enabled := r_enabled r; r_exp := r_exp r; r_perms := p; r_legacy := r_legacy r |}
  | Delete _ => r
  end.

Definition apply_op (o : op) (d : db) : db :=
  match o with
  | Delete id => filter (fun r => negb (N.eqb (r_id r) id)) d
  | _ => map (fun r => if N.eqb (r_id r) (op_id o) then upd_row o r else r) d
  end.

Inductive mode := Direct | Cluster.

(* (InvalidateCache is called, the call reports success), given RowsAffected > 0.
   Direct: "token not found" is returned before InvalidateCache.  Cluster: every Apply*
   ends in invalidateAndReturn, ApplyDeleteToken reports success on a missing row; an
   UpdateToken for an unknown id is rejected by the proposing side before any apply. *)
Definition mut_outcome (m : mode) (o : op) (found : bool) : bool * bool :=
  match m with
  | Direct => (found, found)
  | Cluster =>
      match o with
      | Delete _ => (true, true)
      | Revoke _ | Rotate _ _ => (true, found)
      | SetExp _ _ | SetPerms _ _ => (found, found)
      end
  end.

(* ---- cache ------------------------------------------------------------------------ *)
Record centry := { ce_info : info; ce_exp : Z; ce_ver : nat (* ghost *) }.
Definition cache := list (N * centry).

(* the eviction loop of VerifyToken: entry with the smallest expiresAt (first one on ties;
   Go's map order makes ties nondeterministic, the generator avoids them) *)
Fixpoint oldest_key (c : cache) (best : option (N * Z)) : option (N * Z) :=
  match c with
  | [] => best
  | (k, e) :: r =>
      oldest_key r (match best with
                    | None => Some (k, ce_exp e)
                    | Some (_, x) => if ce_exp e <? x then Some (k, ce_exp e) else best
                    end)
  end.

Definition cache_insert (max : nat) (k : N) (e : centry) (c : cache) : cache :=
  let c1 := if (max <=? length c)%nat
            then match oldest_key c None with Some (k0, _) => remove N.eqb k0 c | None => c end
            else c in
  insert N.eqb k e c1.

(* ---- shared state ----------------------------------------------------------------- *)
Record st := {
  s_db : db;
  s_hist : list db;        (* ghost: earlier versions, oldest first; the current version is [length s_hist] *)
  s_cache : cache;
  s_free : nat;            (* idle connections of the pool *)
  s_now : Z;
  s_inv : nat;             (* ghost: version current at the latest InvalidateCache *)
  s_done : nat             (* ghost: newest version whose mutation call has returned *)
}.

Definition cur (s : st) : nat := length (s_hist s).
Definition db_at (s : st) (w : nat) : option db := nth_error (s_hist s ++ [s_db s]) w.

Definition init_st (c : cfg) (d : db) (t0 : Z) : st :=
  {| s_db := d; s_hist := []; s_cache := []; s_free := c_pool c; s_now := t0; s_inv := 0; s_done := 0 |}.

Definition set_free (f : nat) (s : st) : st :=
  {| s_db := s_db s; s_hist := s_hist s; s_cache := s_cache s; s_free := f; s_now := s_now s; s_inv := s_inv s; s_done := s_done s |}.
Definition set_cache (c : cache) (s : st) : st :=
  {| s_db := s_db s; s_hist := s_hist s; s_cache := c; s_free := s_free s; s_now := s_now s; s_inv := s_inv s; s_done := s_done s |}.
Definition set_now (t : Z) (s : st) : st :=
  {| s_db := s_db s; s_hist := s_hist s; s_cache := s_cache s; s_free := s_free s; s_now := t; s_inv := s_inv s; s_done := s_done s |}.
Definition set_done (n : nat) (s : st) : st :=
  {| s_db := s_db s; s_hist := s_hist s; s_cache := s_cache s; s_free := s_free s; s_now := s_now s; s_inv := s_inv s; s_done := n |}.
Definition push_db (d : db) (s : st) : st :=
  {| s_db := d; s_hist := s_hist s ++ [s_db s]; s_cache := s_cache s; s_free := s_free s; s_now := s_now s; s_inv := s_inv s; s_done := s_done s |}.
Definition invalidate (s : st) : st :=
  {| s_db := s_db s; s_hist := s_hist s; s_cache := []; s_free := s_free s; s_now := s_now s; s_inv := cur s; s_done := s_done s |}.

(* ---- threads ---------------------------------------------------------------------- *)
Inductive pc :=
| V0 (v : N)                                                  (* VerifyToken(v) not started *)
| V1 (v : N) (now0 : Z) (minv : nat)                          (* cache missed *)
| V2 (v : N) (now0 : Z) (minv : nat) (r : row) (w : nat)      (* row read at version w; holds a connection *)
| V3 (v : N) (now0 : Z) (minv : nat) (i : info) (w : nat)     (* inserted; still holds the connection *)
| VDone (v : N) (now0 : Z) (minv : nat) (res : option (info * nat))
| M0 (m : mode) (o : op)
| M1 (w : nat) (ok : bool)                                    (* table at version w; InvalidateCache pending *)
| M2 (w : nat) (ok : bool)                                    (* invalidated, not yet returned *)
| MDone (w : nat) (ok : bool)
| J0                                                          (* cleanupExpiredCache not started *)
| J1 (nowj : Z)                                               (* now := time.Now() taken; about to Lock *)
| JDone.
(* minv (ghost) = s_done when the verification started *)

Inductive label := LHit | LMiss | LMatch | LNoMatch | LInsert | LVRet
                 | LUpdate | LUpdateDone | LInvalidate | LMRet | LJStart | LJSweep.

Definition cache_expiry (c : cfg) (now0 : Z) (e : option Z) : Z :=
  match c_clamp c, e with
  | true, Some x => Z.min (now0 + c_ttl c) x
  | _, _ => now0 + c_ttl c
  end.

Definition step (c : cfg) (s : st) (t : pc) : option (st * pc * label) :=
  match t with
  | V0 v =>
      let now0 := s_now s in
      match lookup N.eqb v (s_cache s) with
      | Some e =>
          if now0 <? ce_exp e
          then Some (s, VDone v now0 (s_done s) (Some (ce_info e, ce_ver e)), LHit)
          else Some (s, V1 v now0 (s_done s), LMiss)
      | None => Some (s, V1 v now0 (s_done s), LMiss)
      end
  | V1 v now0 minv =>
      match s_free s with
      | O => None                                      (* waits for the connection *)
      | S f =>
          match find_row (s_db s) v with
          | None => Some (s, VDone v now0 minv None, LNoMatch)
          | Some r =>
              if expired (r_exp r) now0
              then Some (s, VDone v now0 minv None, LNoMatch)
              else Some (set_free f s, V2 v now0 minv r (cur s), LMatch)
          end
      end
  | V2 v now0 minv r w =>
      let e := {| ce_info := info_of r; ce_exp := cache_expiry c now0 (r_exp r); ce_ver := w |} in
      Some (set_cache (cache_insert (c_max c) v e (s_cache s)) s, V3 v now0 minv (info_of r) w, LInsert)
  | V3 v now0 minv i w =>
      Some (set_free (S (s_free s)) s, VDone v now0 minv (Some (i, w)), LVRet)
  | VDone _ _ _ _ => None
  | M0 m o =>
      match s_free s with
      | O => None
      | S _ =>
          let found := has_id (s_db s) (op_id o) in
          let s1 := if found then push_db (apply_op o (s_db s)) s else s in
          let '(inv, ok) := mut_outcome m o found in
          if inv then Some (s1, M1 (cur s1) ok, LUpdate)
          else let w := if found then cur s1 else O in
               Some (set_done (Nat.max (s_done s1) w) s1, MDone w ok, LUpdateDone)
      end
  | M1 w ok => Some (invalidate s, M2 w ok, LInvalidate)
  | M2 w ok => Some (set_done (Nat.max (s_done s) w) s, MDone w ok, LMRet)
  | MDone _ _ => None
  (* the cache janitor: under the write lock, every entry with now.After(expiresAt) is deleted -
     atomically, nothing else changes *)
  | J0 => Some (s, J1 (s_now s), LJStart)
  | J1 nowj => Some (set_cache (filter (fun ke => negb (ce_exp (snd ke) <? nowj)) (s_cache s)) s, JDone, LJSweep)
  | JDone => None
  end.

(* environment: the clock advances; the janitor (cleanupExpiredCache) or anything else may
   drop cache entries *)
Inductive env : st -> st -> Prop :=
| env_tick s dt : 0 <= dt -> env s (set_now (s_now s + dt) s)
| env_drop s k : env s (set_cache (remove N.eqb k (s_cache s)) s).

(* threads that may appear at any time; [okop] restricts the mutations in the system *)
Definition spawnable (okop : op -> Prop) (t : pc) : Prop :=
  match t with V0 _ => True | M0 _ o => okop o | J0 => True | _ => False end.

Definition finished (t : pc) : bool :=
  match t with VDone _ _ _ _ | MDone _ _ | JDone => true | _ => false end.

Definition holding (t : pc) : nat :=
  match t with V2 _ _ _ _ _ | V3 _ _ _ _ _ => 1%nat | _ => O end.

(* ---- executable schedules (what the harness forces on the real AuthManager) -------- *)
Inductive sched_ev := SStep (i : nat) | STick (dt : Z).
Inductive outcome := OTick | OBlocked | OLab (l : label) | OAlready | OBad.

Fixpoint run_sched (c : cfg) (s : st) (ts : list pc) (sch : list sched_ev) : st * list pc * list outcome :=
  match sch with
  | [] => (s, ts, [])
  | STick dt :: r =>
      if 0 <=? dt
      then let '(s', ts', o) := run_sched c (set_now (s_now s + dt) s) ts r in (s', ts', OTick :: o)
      else let '(s', ts', o) := run_sched c s ts r in (s', ts', OBad :: o)
  | SStep i :: r =>
      match nth_error ts i with
      | None => let '(s', ts', o) := run_sched c s ts r in (s', ts', OBad :: o)
      | Some t =>
          match step c s t with
          | Some (s1, t1, l) =>
              let '(s', ts', o) := run_sched c s1 (set_nth i t1 ts) r in (s', ts', OLab l :: o)
          | None =>
              let '(s', ts', o) := run_sched c s ts r in
              (s', ts', (if finished t then OAlready else OBlocked) :: o)
          end
      end
  end.

(* what the harness reports per schedule entry: 0 tick, 1 blocked on the connection,
   2 the call returned, 3 thread had already returned, 1x parked at a schedule point (15: janitor before its Lock; 16: a generic lock-boundary point of the exploration cases, which are judged by the oracle only) *)
Definition outcome_code (o : outcome) : N :=
  match o with
  | OTick => 0 | OBlocked => 1 | OAlready => 3 | OBad => 99
  | OLab LHit | OLab LNoMatch | OLab LVRet | OLab LUpdateDone | OLab LMRet | OLab LJSweep => 2
  | OLab LMiss => 10 | OLab LMatch => 11 | OLab LInsert => 12
  | OLab LUpdate => 13 | OLab LInvalidate => 14 | OLab LJStart => 15
  end%N.

Definition result := option (bool * N * N).      (* returned?, (success, token id, permissions) *)
Definition res_of (t : pc) : result :=
  match t with
  | VDone _ _ _ (Some (i, _)) => Some (true, i_id i, i_perms i)
  | VDone _ _ _ None => Some (false, 0%N, 0%N)
  | MDone _ ok => Some (ok, 0%N, 0%N)
  | JDone => Some (true, 0%N, 0%N)
  | _ => None
  end.

Definition result_eqb (a b : result) : bool :=
  match a, b with
  | None, None => true
  | Some (x, i, p), Some (y, j, q) => Bool.eqb x y && N.eqb i j && N.eqb p q
  | _, _ => false
  end.

Fixpoint list_eqb {A} (eqb : A -> A -> bool) (a b : list A) : bool :=
  match a, b with
  | [], [] => true
  | x :: a', y :: b' => eqb x y && list_eqb eqb a' b'
  | _, _ => false
  end.

(* a correspondence case: parameters, initial table, threads (all at V0 / M0), the forced
   schedule, and what the real AuthManager did *)
Record ccase := {
  k_cfg : cfg; k_t0 : Z; k_db : db; k_threads : list pc; k_sched : list sched_ev;
  k_obs_steps : list N; k_obs_res : list result }.

Definition case_agrees (k : ccase) : bool :=
  let '(_, ts, o) := run_sched (k_cfg k) (init_st (k_cfg k) (k_db k) (k_t0 k)) (k_threads k) (k_sched k) in
  list_eqb N.eqb (map outcome_code o) (k_obs_steps k) && list_eqb result_eqb (map res_of ts) (k_obs_res k).

(* ---- the property as an executable oracle on OBSERVED behaviour -------------------- *)
(* Independent of the cache model: it replays only the table (apply_op at the entry at
   which a mutation was observed past its update) and the clock, and demands that every
   observed successful verification is justified by a table version no older than the
   newest mutation that had returned when the verification started - and, for
   [unexp = true], that the justifying row had not expired at the verification's time. *)
Record ostate := {
  o_db : db; o_hist : list db; o_now : Z; o_done : nat;
  o_started : list (nat * (Z * nat));     (* verifier thread -> (now0, minv) *)
  o_ver : list (nat * nat) }.             (* mutator thread -> version it produced *)

Fixpoint nlookup {A} (i : nat) (l : list (nat * A)) : option A :=
  match l with [] => None | (j, x) :: r => if Nat.eqb i j then Some x else nlookup i r end.

Definition justified (unexp : bool) (o : ostate) (v : N) (now0 : Z) (minv : nat) (id p : N) : bool :=
  existsb (fun wd : nat * db =>
             let '(w, d) := wd in
             (minv <=? w)%nat &&
             match find_row d v with
             | Some r => N.eqb (r_id r) id && N.eqb (r_perms r) p && (negb unexp || negb (expired (r_exp r) now0))
             | None => false
             end)
          (combine (seq 0 (S (length (o_hist o)))) (o_hist o ++ [o_db o])).

Fixpoint oracle_walk (unexp : bool) (ths : list pc) (res : list result)
         (sch : list sched_ev) (obs : list N) (o : ostate) : bool :=
  match sch, obs with
  | STick dt :: r, _ :: ro =>
      oracle_walk unexp ths res r ro
        {| o_db := o_db o; o_hist := o_hist o; o_now := o_now o + dt; o_done := o_done o; o_started := o_started o; o_ver := o_ver o |}
  | SStep i :: r, k :: ro =>
      match nth_error ths i with
      | Some (V0 v) =>
          let '(now0, minv) := match nlookup i (o_started o) with Some x => x | None => (o_now o, o_done o) end in
          let o1 := {| o_db := o_db o; o_hist := o_hist o; o_now := o_now o; o_done := o_done o;
                       o_started := (i, (now0, minv)) :: o_started o; o_ver := o_ver o |} in
          (if N.eqb k 2
           then match nth_error res i with
                | Some (Some (true, id, p)) => justified unexp o1 v now0 minv id p
                | _ => true
                end
           else true) && oracle_walk unexp ths res r ro o1
      | Some (M0 _ op) =>
          if N.eqb k 1 || N.eqb k 3 then oracle_walk unexp ths res r ro o
          else
            let o1 := match nlookup i (o_ver o) with
                      | Some _ => o
                      | None => {| o_db := apply_op op (o_db o); o_hist := o_hist o ++ [o_db o]; o_now := o_now o; o_done := o_done o;
                                   o_started := o_started o; o_ver := (i, S (length (o_hist o))) :: o_ver o |}
                      end in
            let o2 := if N.eqb k 2
                      then {| o_db := o_db o1; o_hist := o_hist o1; o_now := o_now o1;
                              o_done := Nat.max (o_done o1) (match nlookup i (o_ver o1) with Some w => w | None => O end);
                              o_started := o_started o1; o_ver := o_ver o1 |}
                      else o1 in
            oracle_walk unexp ths res r ro o2
      | _ => oracle_walk unexp ths res r ro o
      end
  | _, _ => true
  end.

Definition oracle_init (k : ccase) : ostate :=
  {| o_db := k_db k; o_hist := []; o_now := k_t0 k; o_done := 0; o_started := []; o_ver := [] |}.

(* freshness only (no stale authentication after a mutation returned) *)
Definition case_oracle_fresh (k : ccase) : bool :=
  oracle_walk false (k_threads k) (k_obs_res k) (k_sched k) (k_obs_steps k) (oracle_init k).
(* the full property: fresh and unexpired *)
Definition case_oracle (k : ccase) : bool :=
  oracle_walk true (k_threads k) (k_obs_res k) (k_sched k) (k_obs_steps k) (oracle_init k).

(* ---- compact transport encoding of correspondence cases ----------------------------- *)
(* Many cases share table, threads and parameters (a scenario) and differ only in the
   schedule and in what was observed; those three lists travel as base-2^k digit strings
   (little endian, with a leading sentinel digit 1) so that coqc has little to elaborate. *)
Record scenario := { sc_cfg : cfg; sc_t0 : Z; sc_db : db; sc_threads : list pc; sc_ticks : list Z }.

Fixpoint digits (fuel : nat) (base z : Z) : list Z :=
  match fuel with
  | O => []
  | S f => if z <=? 1 then [] else (z mod base) :: digits f base (z / base)
  end.

Definition dec_sched (ticks : list Z) (z : Z) : list sched_ev :=
  map (fun d => if d <? 32 then SStep (Z.to_nat d) else STick (nth (Z.to_nat (d - 32)) ticks (-1)))
      (digits 200 64 z).

Definition dec_steps (z : Z) : list N :=
  map (fun d => nth (Z.to_nat d) [0; 1; 2; 3; 10; 11; 12; 13; 14; 15; 16]%N 98%N) (digits 200 16 z).

(* digit = returned + 2*success + 4*token id + 256*permission code *)
Definition dec_res (z : Z) : list result :=
  map (fun d => if Z.odd d
                then Some (Z.odd (d / 2), Z.to_N ((d / 4) mod 64), Z.to_N (d / 256))
                else None)
      (digits 200 4096 z).

Definition rcase := (nat * Z * Z * Z)%type.       (* scenario index, schedule, step outcomes, results *)

Definition case_of (scens : list scenario) (r : rcase) : option ccase :=
  let '(i, zs, zo, zr) := r in
  match nth_error scens i with
  | None => None
  | Some sc =>
      Some {| k_cfg := sc_cfg sc; k_t0 := sc_t0 sc; k_db := sc_db sc; k_threads := sc_threads sc;
              k_sched := dec_sched (sc_ticks sc) zs; k_obs_steps := dec_steps zo; k_obs_res := dec_res zr |}
  end.

Definition rc_pred (p : ccase -> bool) (scens : list scenario) (r : rcase) : bool :=
  match case_of scens r with Some k => p k | None => false end.
