(* Proofs about the token-cache interleaving model (C21). *)
From Coq Require Import List ZArith NArith Bool Lia Arith.
From Arc Require Import Lib.AList TokenCache.Interleave TokenCache.Model.
Import ListNotations.
Open Scope Z_scope.

(* ---- small list facts --------------------------------------------------------------- *)
Lemma N_eqb_spec' : forall a b : N, reflect (a = b) (N.eqb a b).
Proof. intros; apply N.eqb_spec. Qed.

Lemma lookup_In {V} k (l : list (N * V)) e : lookup N.eqb k l = Some e -> In (k, e) l.
Proof.
  induction l as [|[k' v] r IH]; cbn; [discriminate|].
  destruct (N.eqb_spec k k') as [->|].
  - intros H; inversion H; subst; auto.
  - intros H; right; auto.
Qed.

Lemma In_remove {V} k (l : list (N * V)) x : In x (remove N.eqb k l) -> In x l.
Proof.
  induction l as [|[k' v] r IH]; cbn; [tauto|].
  destruct (N.eqb k k'); cbn; intuition.
Qed.

Lemma In_cache_insert max k e c x : In x (cache_insert max k e c) -> x = (k, e) \/ In x c.
Proof.
  unfold cache_insert, insert. cbn. intros [H|H]; [left; congruence|right].
  apply In_remove in H.
  destruct (max <=? length c)%nat; [|exact H].
  destruct (oldest_key c None) as [[k0 z]|]; [|exact H].
  eapply In_remove; eauto.
Qed.

Lemma find_none_iff {A} (f : A -> bool) l : find f l = None <-> (forall x, In x l -> f x = false).
Proof.
  split; [apply find_none|].
  induction l as [|a r IH]; cbn; [reflexivity|]. intros H.
  rewrite (H a (or_introl eq_refl)). apply IH. intros x Hx; apply H; right; exact Hx.
Qed.

(* ---- versions ----------------------------------------------------------------------- *)
Lemma db_at_cur s : db_at s (cur s) = Some (s_db s).
Proof. unfold db_at, cur. rewrite nth_error_app2 by lia. rewrite Nat.sub_diag. reflexivity. Qed.

Lemma db_at_push d s w : (w <= cur s)%nat -> db_at (push_db d s) w = db_at s w.
Proof.
  unfold db_at, cur, push_db; cbn [s_hist s_db]. intros H.
  rewrite (nth_error_app1 (s_hist s ++ [s_db s]) [d]); [reflexivity|]. rewrite app_length; cbn [length]; lia.
Qed.

Lemma db_at_push_new d s : db_at (push_db d s) (S (cur s)) = Some d.
Proof.
  unfold db_at, cur, push_db; cbn [s_hist s_db].
  rewrite (nth_error_app2 (s_hist s ++ [s_db s]) [d]); rewrite app_length; cbn [length]; [|lia].
  replace (S (length (s_hist s)) - (length (s_hist s) + 1))%nat with O by lia. reflexivity.
Qed.

Lemma cur_push d s : cur (push_db d s) = S (cur s).
Proof. unfold cur, push_db; cbn [s_hist]. rewrite app_length; cbn [length]; lia. Qed.

Lemma db_at_defined s w d : db_at s w = Some d -> (w <= cur s)%nat.
Proof.
  unfold db_at, cur. intros H.
  assert (w < length (s_hist s ++ [s_db s]))%nat by (apply nth_error_Some; congruence).
  rewrite app_length in H0; cbn in H0; lia.
Qed.

(* ---- mutations never resurrect a dead value ------------------------------------------ *)
Definition no_rotate_to (v : N) (o : op) : Prop :=
  match o with Rotate _ nv => nv <> v | _ => True end.

Lemma dead_preserved v o d :
  no_rotate_to v o -> find_row d v = None -> find_row (apply_op o d) v = None.
Proof.
  unfold find_row, matches. intros Hn Hd. rewrite find_none_iff in *.
  intros x Hx.
  destruct o as [id|id|id nv|id e|id p].
  - (* Revoke *) cbn in Hx. apply in_map_iff in Hx. destruct Hx as [r [<- Hr]]. specialize (Hd r Hr).
    destruct (N.eqb (r_id r) id); cbn; auto.
  - (* Delete *) cbn in Hx. apply filter_In in Hx. destruct Hx as [Hx _]. auto.
  - (* Rotate *) cbn in Hx, Hn. apply in_map_iff in Hx. destruct Hx as [r [<- Hr]]. specialize (Hd r Hr).
    destruct (N.eqb (r_id r) id); cbn; auto.
    destruct (N.eqb_spec nv v); [contradiction|]. apply andb_false_r.
  - (* SetExp *) cbn in Hx. apply in_map_iff in Hx. destruct Hx as [r [<- Hr]]. specialize (Hd r Hr).
    destruct (N.eqb (r_id r) id); cbn; auto.
  - (* SetPerms *) cbn in Hx. apply in_map_iff in Hx. destruct Hx as [r [<- Hr]]. specialize (Hd r Hr).
    destruct (N.eqb (r_id r) id); cbn; auto.
Qed.

(* ---- the invariant -------------------------------------------------------------------- *)
Section Invariant.
  Variable c : cfg.
  Variable okop : op -> Prop.

  (* expiry bound carried by a cache entry / by a successful result *)
  Definition row_ok (r : row) (cexp : Z) : Prop :=
    forall x, r_exp r = Some x -> cexp <= x + c_ttl c /\ (c_clamp c = true -> cexp <= x).
  Definition res_exp_ok (r : row) (now0 : Z) : Prop :=
    forall x, r_exp r = Some x -> (now0 <= x \/ now0 < x + c_ttl c) /\ (c_clamp c = true -> now0 <= x).

  Definition justified_at (s : st) (v : N) (inf : info) (w : nat) (P : row -> Prop) : Prop :=
    exists d r, db_at s w = Some d /\ find_row d v = Some r /\ inf = info_of r /\ P r.

  Definition entry_ok (s : st) (ke : N * centry) : Prop :=
    (s_inv s <= ce_ver (snd ke) <= cur s)%nat /\
    justified_at s (fst ke) (ce_info (snd ke)) (ce_ver (snd ke)) (fun r => row_ok r (ce_exp (snd ke))).

  Definition Tinv (s : st) (t : pc) : Prop :=
    match t with
    | V0 _ => True
    | V1 _ _ minv => (minv <= s_done s)%nat
    | V2 v now0 minv r w =>
        w = cur s /\ (minv <= w)%nat /\ find_row (s_db s) v = Some r /\ expired (r_exp r) now0 = false
    | V3 v now0 minv i w =>
        w = cur s /\ (minv <= w)%nat /\
        exists r, find_row (s_db s) v = Some r /\ i = info_of r /\ expired (r_exp r) now0 = false
    | VDone v now0 minv (Some (i, w)) =>
        (minv <= w <= cur s)%nat /\ justified_at s v i w (fun r => res_exp_ok r now0)
    | VDone _ _ _ None => True
    | M0 _ o => okop o
    | M1 w _ => (w <= cur s)%nat
    | M2 w _ => (w <= s_inv s)%nat
    | MDone _ _ => True
    | J0 | J1 _ | JDone => True
    end.

  Definition holders (ts : list pc) : nat := list_sum (map holding ts).

  (* consecutive table versions differ by one admitted mutation *)
  Definition chain (s : st) : Prop :=
    forall k d d', db_at s k = Some d -> db_at s (S k) = Some d' -> exists o, okop o /\ d' = apply_op o d.

  Definition Inv (cf : st * list pc) : Prop :=
    let (s, ts) := cf in
    (s_done s <= s_inv s <= cur s)%nat /\
    Forall (entry_ok s) (s_cache s) /\
    Forall (Tinv s) ts /\
    (holders ts + s_free s = c_pool c)%nat /\
    chain s.

  Lemma holders_set_nth ts i t t' :
    nth_error ts i = Some t -> (holders (set_nth i t' ts) + holding t = holders ts + holding t')%nat.
  Proof.
    unfold holders. revert i. induction ts as [|a r IH]; intros [|i]; cbn; try discriminate.
    - intros H; inversion H; subst. lia.
    - intros H. specialize (IH _ H). unfold list_sum in *. lia.
  Qed.

  Lemma holders_zero ts t : holders ts = O -> In t ts -> holding t = O.
  Proof.
    unfold holders. induction ts as [|a r IH]; [intros _ []|].
    change (list_sum (map holding (a :: r))) with (holding a + list_sum (map holding r))%nat.
    intros H [Ha|Hin]; [subst a; lia|]. apply IH; [lia|exact Hin].
  Qed.

  Lemma holders_app ts t : holders (ts ++ [t]) = (holders ts + holding t)%nat.
  Proof. unfold holders. rewrite map_app, list_sum_app. cbn. lia. Qed.

  Lemma justified_push s d v i w P :
    (w <= cur s)%nat -> justified_at s v i w P -> justified_at (push_db d s) v i w P.
  Proof.
    intros Hw (d0 & r & H1 & H2 & H3 & H4). exists d0, r. rewrite db_at_push by exact Hw. auto.
  Qed.

  (* a table update performed while no verification holds a connection *)
  Lemma Tinv_push s d t :
    holding t = O -> Tinv s t -> Tinv (push_db d s) t.
  Proof.
    destruct t as [v|v n m|v n m r w|v n m i w|v n m [[i w]|]|m o|w ok|w ok|w ok| |nj|]; cbn [Tinv holding]; intros Hh H; auto; try discriminate.
    - destruct H as [[H1 H2] H3]. rewrite cur_push. split; [lia|]. apply justified_push; assumption.
    - rewrite cur_push. lia.
  Qed.

  Lemma entry_push s d ke : entry_ok s ke -> entry_ok (push_db d s) ke.
  Proof.
    intros [[H1 H2] H3]. split.
    - rewrite cur_push. change (s_inv (push_db d s)) with (s_inv s). lia.
    - apply justified_push; assumption.
  Qed.

  Lemma chain_push s o : okop o -> chain s -> chain (push_db (apply_op o (s_db s)) s).
  Proof.
    intros Ho Hc k d d' H1 H2.
    assert (Hk : (S k <= cur (push_db (apply_op o (s_db s)) s))%nat) by (eapply db_at_defined; eauto).
    rewrite cur_push in Hk.
    destruct (Nat.eq_dec k (cur s)) as [->|Hne].
    - rewrite db_at_push_new in H2. rewrite db_at_push in H1 by lia. rewrite db_at_cur in H1.
      inversion H1; inversion H2; subst. eauto.
    - rewrite db_at_push in H1 by lia. rewrite db_at_push in H2 by lia. eauto.
  Qed.

  Lemma mut_outcome_noinv m o found ok : mut_outcome m o found = (false, ok) -> found = false.
  Proof. destruct m, o, found; cbn; congruence. Qed.

  Hypothesis pool1 : c_pool c = 1%nat.

  Lemma Inv_intro s ts :
    (s_done s <= s_inv s <= cur s)%nat -> Forall (entry_ok s) (s_cache s) -> Forall (Tinv s) ts ->
    (holders ts + s_free s = c_pool c)%nat -> chain s -> Inv (s, ts).
  Proof. intros; repeat split; auto; lia. Qed.

  Ltac sst1 := cbn [holding s_free s_db s_hist s_cache s_now s_inv s_done
                    set_free set_cache set_done set_now invalidate] in *.
  Ltac sst := sst1; unfold cur in *; sst1.

  Lemma Inv_step s ts i t s' t' l :
    Inv (s, ts) -> nth_error ts i = Some t -> step c s t = Some (s', t', l) -> Inv (s', set_nth i t' ts).
  Proof.
    intros (Hg & Hc & Ht & Hn & Hch) Hi Hs.
    assert (Hti : Tinv s t) by (rewrite Forall_forall in Ht; apply Ht; eapply nth_error_In; eauto).
    pose proof (holders_set_nth ts i t t' Hi) as Hh.
    destruct t as [v|v now0 minv|v now0 minv r w|v now0 minv inf w|v now0 minv res|m o|w ok|w ok|w ok| |nj|]; cbn [step] in Hs.
    - (* V0: lookup *)
      destruct (lookup N.eqb v (s_cache s)) as [e|] eqn:El.
      + destruct (s_now s <? ce_exp e) eqn:Elt; inversion Hs; subst; clear Hs.
        * (* hit *)
          apply lookup_In in El.
          assert (He : entry_ok s' (v, e)) by (rewrite Forall_forall in Hc; exact (Hc _ El)).
          destruct He as [[Ha Hb] Hj]. cbn [fst snd] in *.
          apply Inv_intro; [exact Hg|exact Hc| |sst; lia|exact Hch].
          apply Forall_set_nth; [exact Ht|]. cbn [Tinv]. split; [lia|].
          destruct Hj as (d & r & H1 & H2 & H3 & H4). exists d, r. split; [exact H1|]. split; [exact H2|].
          split; [exact H3|]. intros x Hx. destruct (H4 x Hx) as [Hx1 Hx2]. split.
          -- right. lia.
          -- intros Hcl. specialize (Hx2 Hcl). lia.
        * apply Inv_intro; [exact Hg|exact Hc| |sst; lia|exact Hch].
          apply Forall_set_nth; [exact Ht|]. cbn [Tinv]. lia.
      + inversion Hs; subst; clear Hs.
        apply Inv_intro; [exact Hg|exact Hc| |sst; lia|exact Hch].
        apply Forall_set_nth; [exact Ht|]. cbn [Tinv]. lia.
    - (* V1: token query *)
      destruct (s_free s) as [|f] eqn:Ef; [discriminate|].
      destruct (find_row (s_db s) v) as [r|] eqn:Er.
      + destruct (expired (r_exp r) now0) eqn:Ex; inversion Hs; subst; clear Hs.
        * apply Inv_intro; [exact Hg|exact Hc| |sst; lia|exact Hch].
          apply Forall_set_nth; [exact Ht|]. exact I.
        * apply Inv_intro; [exact Hg|exact Hc| |sst; lia|exact Hch].
          apply Forall_set_nth; [exact Ht|]. cbn [Tinv] in *.
          split; [reflexivity|]. split; [|split; assumption].
          change (cur (set_free f s)) with (cur s). lia.
      + inversion Hs; subst; clear Hs.
        apply Inv_intro; [exact Hg|exact Hc| |sst; lia|exact Hch].
        apply Forall_set_nth; [exact Ht|]. exact I.
    - (* V2: cache insert *)
      inversion Hs; subst; clear Hs. cbn [Tinv] in Hti. destruct Hti as (Hw & Hm & Hf & Hx).
      apply Inv_intro; [exact Hg| | |sst; lia|exact Hch].
      + change (Forall (entry_ok s)
                  (cache_insert (c_max c) v {| ce_info := info_of r; ce_exp := cache_expiry c now0 (r_exp r); ce_ver := w |} (s_cache s))).
        apply Forall_forall. intros ke Hke. apply In_cache_insert in Hke. destruct Hke as [->|Hke].
        * split; cbn [fst snd ce_ver ce_info ce_exp]; [lia|].
          exists (s_db s), r. subst w. rewrite db_at_cur. split; [reflexivity|]. split; [exact Hf|].
          split; [reflexivity|]. intros x Hrx. rewrite Hrx in Hx. cbn [expired] in Hx.
          unfold cache_expiry. rewrite Hrx. split.
          -- destruct (c_clamp c); lia.
          -- intros Hcl. rewrite Hcl. lia.
        * rewrite Forall_forall in Hc. exact (Hc _ Hke).
      + apply Forall_set_nth; [exact Ht|]. cbn [Tinv].
        split; [exact Hw|]. split; [exact Hm|]. exists r. split; [exact Hf|]. split; [reflexivity|exact Hx].
    - (* V3: return, connection released *)
      inversion Hs; subst; clear Hs. cbn [Tinv] in Hti. destruct Hti as (Hw & Hm & r & Hf & Hi' & Hx).
      apply Inv_intro; [exact Hg|exact Hc| |sst; lia|exact Hch].
      apply Forall_set_nth; [exact Ht|]. cbn [Tinv].
      change (cur (set_free (S (s_free s)) s)) with (cur s). split; [lia|].
      exists (s_db s), r. subst w.
      change (db_at (set_free (S (s_free s)) s) (cur s)) with (db_at s (cur s)). rewrite db_at_cur.
      split; [reflexivity|]. split; [exact Hf|]. split; [exact Hi'|].
      intros x Hrx. rewrite Hrx in Hx. cbn [expired] in Hx. split; [left; lia|intros _; lia].
    - discriminate.
    - (* M0: table update *)
      destruct (s_free s) as [|f] eqn:Ef; [discriminate|].
      assert (H0 : holders ts = O) by (rewrite pool1 in Hn; lia).
      assert (Hoth : forall t0, In t0 ts -> holding t0 = O) by (intros; eapply holders_zero; eauto).
      cbn [Tinv] in Hti.
      destruct (has_id (s_db s) (op_id o)) eqn:Efound.
      + destruct (mut_outcome m o true) as [inv ok] eqn:Emo.
        destruct inv; [|apply mut_outcome_noinv in Emo; discriminate].
        inversion Hs; subst; clear Hs.
        apply Inv_intro.
        * rewrite cur_push. change (s_done (push_db (apply_op o (s_db s)) s)) with (s_done s).
          change (s_inv (push_db (apply_op o (s_db s)) s)) with (s_inv s). lia.
        * change (Forall (entry_ok (push_db (apply_op o (s_db s)) s)) (s_cache s)).
          rewrite Forall_forall in *. intros ke Hke. apply entry_push. auto.
        * apply Forall_set_nth.
          -- rewrite Forall_forall in *. intros t0 Ht0. apply Tinv_push; auto.
          -- cbn [Tinv]. lia.
        * change (s_free (push_db (apply_op o (s_db s)) s)) with (s_free s). sst. lia.
        * apply chain_push; assumption.
      + destruct (mut_outcome m o false) as [inv ok] eqn:Emo.
        destruct inv; inversion Hs; subst; clear Hs.
        * apply Inv_intro; [exact Hg|exact Hc| |sst; lia|exact Hch].
          apply Forall_set_nth; [exact Ht|]. cbn [Tinv]. lia.
        * rewrite Nat.max_0_r.
          apply Inv_intro; [exact Hg|exact Hc| |sst; lia|exact Hch].
          apply Forall_set_nth; [exact Ht|]. exact I.
    - (* M1: InvalidateCache *)
      inversion Hs; subst; clear Hs. cbn [Tinv] in Hti.
      apply Inv_intro; [sst; lia|constructor| |sst; lia|exact Hch].
      apply Forall_set_nth.
      + rewrite Forall_forall in *. intros t0 Ht0. specialize (Ht _ Ht0).
        destruct t0 as [?|? ? ?|? ? ? ? ?|? ? ? ? ?|? ? ? [[? ?]|]|? ?|? ?|? ?|? ?| |?|]; cbn [Tinv] in *; try exact Ht.
        sst. lia.
      + cbn [Tinv]. sst. lia.
    - (* M2: the mutation call returns *)
      inversion Hs; subst; clear Hs. cbn [Tinv] in Hti.
      apply Inv_intro; [sst; lia|exact Hc| |sst; lia|exact Hch].
      apply Forall_set_nth.
      + rewrite Forall_forall in *. intros t0 Ht0. specialize (Ht _ Ht0).
        destruct t0 as [?|? ? ?|? ? ? ? ?|? ? ? ? ?|? ? ? [[? ?]|]|? ?|? ?|? ?|? ?| |?|]; cbn [Tinv] in *; try exact Ht.
        sst. lia.
      + exact I.
    - discriminate.
    - (* J0: the janitor reads the clock *)
      inversion Hs; subst; clear Hs.
      apply Inv_intro; [exact Hg|exact Hc| |sst; lia|exact Hch].
      apply Forall_set_nth; [exact Ht|]. exact I.
    - (* J1: expired entries deleted under the write lock *)
      inversion Hs; subst; clear Hs.
      apply Inv_intro; [exact Hg| | |sst; lia|exact Hch].
      + change (Forall (entry_ok s) (filter (fun ke => negb (ce_exp (snd ke) <? nj)) (s_cache s))).
        rewrite Forall_forall in *. intros ke Hke. apply filter_In in Hke. exact (Hc _ (proj1 Hke)).
      + apply Forall_set_nth; [exact Ht|]. exact I.
    - discriminate.
  Qed.

  Lemma Inv_spawn s ts t0 : Inv (s, ts) -> spawnable okop t0 -> Inv (s, ts ++ [t0]).
  Proof.
    intros (Hg & Hc & Ht & Hn & Hch) Hsp. apply Inv_intro; [exact Hg|exact Hc| | |exact Hch].
    - apply Forall_app. split; [exact Ht|]. constructor; [|constructor].
      destruct t0; cbn [spawnable Tinv] in *; auto; contradiction.
    - rewrite holders_app. destruct t0; cbn [spawnable holding] in *; try contradiction; lia.
  Qed.

  Lemma Inv_env s ts s' : Inv (s, ts) -> env s s' -> Inv (s', ts).
  Proof.
    intros (Hg & Hc & Ht & Hn & Hch) He. destruct He.
    - apply Inv_intro; [exact Hg|exact Hc|exact Ht|exact Hn|exact Hch].
    - apply Inv_intro; [exact Hg| |exact Ht|exact Hn|exact Hch].
      change (Forall (entry_ok s) (remove N.eqb k (s_cache s))).
      rewrite Forall_forall in *. intros ke Hke. apply In_remove in Hke. exact (Hc _ Hke).
  Qed.

  Lemma Inv_init d t0 : Inv (init_st c d t0, []).
  Proof.
    apply Inv_intro; cbn; auto.
    intros k d1 d2 H1 H2. unfold db_at in *; cbn in *.
    destruct k; cbn in H2; [|destruct k]; discriminate.
  Qed.

  Theorem Inv_reach d t0 cf :
    reach (step c) env (spawnable okop) (init_st c d t0, []) cf -> Inv cf.
  Proof.
    intros Hr. eapply (inv_reach (step c) env (spawnable okop) Inv); eauto.
    - apply Inv_init.
    - intros. eapply Inv_step; eauto.
    - intros. eapply Inv_spawn; eauto.
    - intros. eapply Inv_env; eauto.
  Qed.

  (* along admitted mutations a dead value stays dead *)
  Lemma dead_stays_dead s v :
    chain s -> (forall o, okop o -> no_rotate_to v o) ->
    forall n m d d', db_at s m = Some d -> find_row d v = None ->
                     db_at s (m + n) = Some d' -> find_row d' v = None.
  Proof.
    intros Hch Hok. induction n as [|n IH]; intros m d d' H1 H2 H3.
    - rewrite Nat.add_0_r in H3. congruence.
    - replace (m + S n)%nat with (S (m + n)) in H3 by lia.
      assert (Hle : (S (m + n) <= cur s)%nat) by (eapply db_at_defined; eauto).
      destruct (db_at s (m + n)) as [dm|] eqn:Em.
      + destruct (Hch _ _ _ Em H3) as (o & Ho & ->).
        apply dead_preserved; [auto|]. exact (IH m d dm H1 H2 Em).
      + exfalso. unfold db_at in Em. apply nth_error_None in Em.
        rewrite app_length in Em; cbn in Em. unfold cur in Hle. lia.
  Qed.
End Invariant.

(* ---- main lemmas in the form used by Props.v ------------------------------------------- *)
Definition all_ops (o : op) : Prop := True.

Lemma no_stale c okop d t0 s ts i v now0 minv inf w :
  c_pool c = 1%nat ->
  reach (step c) env (spawnable okop) (init_st c d t0, []) (s, ts) ->
  nth_error ts i = Some (VDone v now0 minv (Some (inf, w))) ->
  (minv <= w <= cur s)%nat /\
  exists dw r, db_at s w = Some dw /\ find_row dw v = Some r /\ inf = info_of r /\
    (forall x, r_exp r = Some x ->
       (now0 <= x \/ now0 < x + c_ttl c) /\ (c_clamp c = true -> now0 <= x)).
Proof.
  intros Hp Hr Hi. pose proof (Inv_reach c okop Hp d t0 _ Hr) as (Hg & Hc & Ht & Hn & Hch).
  rewrite Forall_forall in Ht. specialize (Ht _ (nth_error_In _ _ Hi)). cbn in Ht.
  destruct Ht as [Hw (dw & r & H1 & H2 & H3 & H4)]. split; [exact Hw|]. exists dw, r. auto.
Qed.

Lemma revoked_rejected c d t0 s ts i v now0 minv res dm :
  c_pool c = 1%nat ->
  reach (step c) env (spawnable (no_rotate_to v)) (init_st c d t0, []) (s, ts) ->
  nth_error ts i = Some (VDone v now0 minv res) ->
  db_at s minv = Some dm -> find_row dm v = None ->
  res = None.
Proof.
  intros Hp Hr Hi Hm Hdead. destruct res as [[inf w]|]; [exfalso|reflexivity].
  pose proof (Inv_reach c _ Hp d t0 _ Hr) as (Hg & Hc & Ht & Hn & Hch).
  destruct (no_stale c _ d t0 s ts i v now0 minv inf w Hp Hr Hi) as [Hw (dw & r & H1 & H2 & _)].
  replace w with (minv + (w - minv))%nat in H1 by lia.
  assert (Hx : find_row dw v = None).
  { eapply dead_stays_dead; [exact Hp|exact Hch|intros o H; exact H|exact Hm|exact Hdead|exact H1]. }
  congruence.
Qed.

(* ---- executable schedules are runs of the interleaving system --------------------------- *)
Lemma run_sched_reach c okop c0 sch : forall s ts,
  reach (step c) env (spawnable okop) c0 (s, ts) ->
  reach (step c) env (spawnable okop) c0 (fst (run_sched c s ts sch)).
Proof.
  induction sch as [|e r IH]; intros s ts H; cbn; [exact H|].
  destruct e as [i|dt].
  - destruct (nth_error ts i) as [t|] eqn:Ei.
    + destruct (step c s t) as [[[s1 t1] l]|] eqn:Es.
      * specialize (IH s1 (set_nth i t1 ts) (r_step _ _ _ _ _ _ _ _ _ _ _ H Ei Es)).
        destruct (run_sched c s1 (set_nth i t1 ts) r) as [[s' ts'] o]. exact IH.
      * specialize (IH s ts H). destruct (run_sched c s ts r) as [[s' ts'] o]. exact IH.
    + specialize (IH s ts H). destruct (run_sched c s ts r) as [[s' ts'] o]. exact IH.
  - destruct (0 <=? dt) eqn:Ed.
    + assert (Hd : 0 <= dt) by lia.
      specialize (IH _ ts (r_env _ _ _ _ _ _ _ H (env_tick s dt Hd))).
      destruct (run_sched c (set_now (s_now s + dt) s) ts r) as [[s' ts'] o]. exact IH.
    + specialize (IH s ts H). destruct (run_sched c s ts r) as [[s' ts'] o]. exact IH.
Qed.

Lemma spawn_all c okop c0 s ts0 : forall ts,
  Forall (spawnable okop) ts ->
  reach (step c) env (spawnable okop) c0 (s, ts0) ->
  reach (step c) env (spawnable okop) c0 (s, ts0 ++ ts).
Proof.
  intros ts. revert ts0. induction ts as [|t r IH]; intros ts0 Hf H.
  - rewrite app_nil_r. exact H.
  - inversion Hf; subst. replace (ts0 ++ t :: r) with ((ts0 ++ [t]) ++ r) by (rewrite <- app_assoc; reflexivity).
    apply IH; [assumption|]. apply r_spawn; assumption.
Qed.

Lemma schedules_reachable c okop d t0 ts sch :
  Forall (spawnable okop) ts ->
  reach (step c) env (spawnable okop) (init_st c d t0, []) (fst (run_sched c (init_st c d t0) ts sch)).
Proof.
  intros Hf. apply run_sched_reach.
  apply (spawn_all c okop _ (init_st c d t0) [] ts Hf). apply r_init.
Qed.

(* ---- witnesses ------------------------------------------------------------------------ *)
Definition tok1 (e : option Z) : row := {| r_id := 1; r_val := 7; r_enabled := true; r_exp := e; r_perms := 3; r_legacy := false |}.

(* with a second pooled connection the revoke is no longer excluded while a verification
   sits between its token query and its cache insert *)
Definition cfg_pool2 : cfg := {| c_ttl := 60; c_max := 10; c_pool := 2; c_clamp := false |}.
Definition race_threads : list pc := [V0 7; M0 Direct (Revoke 1); V0 7].
Definition race_sched : list sched_ev :=
  [SStep 0; SStep 0; SStep 1; SStep 1; SStep 1; SStep 0; SStep 0; SStep 2].

Lemma pool2_stale :
  let '(s, ts, _) := run_sched cfg_pool2 (init_st cfg_pool2 [tok1 None] 0) race_threads race_sched in
  exists now0 inf, nth_error ts 2 = Some (VDone 7 now0 1 (Some (inf, O))) /\
                   s_done s = 1%nat /\
                   exists d1, db_at s 1 = Some d1 /\ find_row d1 7 = None.
Proof. vm_compute. eexists _, _. repeat split. eexists. split; reflexivity. Qed.

(* the cache entry outlives the token *)
Definition cfg_asis : cfg := {| c_ttl := 60; c_max := 10; c_pool := 1; c_clamp := false |}.
Definition exp_threads : list pc := [V0 7; V0 7].
Definition exp_sched : list sched_ev :=
  [SStep 0; SStep 0; SStep 0; SStep 0; STick 15; SStep 1].

Lemma expiry_witness :
  let '(_, ts, _) := run_sched cfg_asis (init_st cfg_asis [tok1 (Some 10)] 5) exp_threads exp_sched in
  exists minv inf w, nth_error ts 1 = Some (VDone 7 20 minv (Some (inf, w))) /\ i_exp inf = Some 10.
Proof. vm_compute. eexists _, _, _. split; reflexivity. Qed.

(* witnesses restated over [reach] *)
Lemma run_pair c s ts sch :
  (fst (fst (run_sched c s ts sch)), snd (fst (run_sched c s ts sch))) = fst (run_sched c s ts sch).
Proof. destruct (run_sched c s ts sch) as [[? ?] ?]. reflexivity. Qed.

Lemma pool2_stale_reach :
  exists s ts now0 inf d1,
    reach (step cfg_pool2) env (spawnable (no_rotate_to 7)) (init_st cfg_pool2 [tok1 None] 0, []) (s, ts) /\
    nth_error ts 2 = Some (VDone 7 now0 1 (Some (inf, O))) /\
    db_at s 1 = Some d1 /\ find_row d1 7 = None.
Proof.
  assert (Hf : Forall (spawnable (no_rotate_to 7)) race_threads) by (repeat constructor).
  pose proof (schedules_reachable cfg_pool2 (no_rotate_to 7) [tok1 None] 0 race_threads race_sched Hf) as Hr.
  rewrite <- run_pair in Hr.
  eexists _, _, _, _, _. split; [exact Hr|]. vm_compute. repeat split.
Qed.

Lemma expiry_reach :
  exists s ts minv inf w dw r,
    reach (step cfg_asis) env (spawnable all_ops) (init_st cfg_asis [tok1 (Some 10)] 5, []) (s, ts) /\
    nth_error ts 1 = Some (VDone 7 20 minv (Some (inf, w))) /\
    db_at s w = Some dw /\ find_row dw 7 = Some r /\ inf = info_of r /\ r_exp r = Some 10.
Proof.
  assert (Hf : Forall (spawnable all_ops) exp_threads) by (repeat constructor).
  pose proof (schedules_reachable cfg_asis all_ops [tok1 (Some 10)] 5 exp_threads exp_sched Hf) as Hr.
  rewrite <- run_pair in Hr.
  eexists _, _, _, _, _, _, _. split; [exact Hr|]. vm_compute. repeat split.
Qed.

(* non-vacuity runs (pool 1) *)
Definition cfg_clamped : cfg := {| c_ttl := 60; c_max := 10; c_pool := 1; c_clamp := true |}.

Lemma revoke_then_verify_reach :
  exists s ts d1,
    reach (step cfg_asis) env (spawnable (no_rotate_to 7)) (init_st cfg_asis [tok1 None] 0, []) (s, ts) /\
    nth_error ts 2 = Some (VDone 7 0 1 None) /\
    nth_error ts 0 = Some (VDone 7 0 0 (Some (info_of (tok1 None), O))) /\
    db_at s 1 = Some d1 /\ find_row d1 7 = None.
Proof.
  assert (Hf : Forall (spawnable (no_rotate_to 7)) race_threads) by (repeat constructor).
  pose proof (schedules_reachable cfg_asis (no_rotate_to 7) [tok1 None] 0 race_threads
                [SStep 0; SStep 0; SStep 0; SStep 0; SStep 1; SStep 1; SStep 1; SStep 2; SStep 2] Hf) as Hr.
  rewrite <- run_pair in Hr.
  eexists _, _, _. split; [exact Hr|]. vm_compute. repeat split.
Qed.

Lemma setperms_then_verify_reach :
  exists s ts inf,
    reach (step cfg_asis) env (spawnable all_ops) (init_st cfg_asis [tok1 None] 0, []) (s, ts) /\
    nth_error ts 2 = Some (VDone 7 0 1 (Some (inf, 1%nat))) /\ i_perms inf = 9%N.
Proof.
  assert (Hf : Forall (spawnable all_ops) [V0 7; M0 Cluster (SetPerms 1 9); V0 7]) by (repeat constructor).
  pose proof (schedules_reachable cfg_asis all_ops [tok1 None] 0 [V0 7; M0 Cluster (SetPerms 1 9); V0 7]
                [SStep 0; SStep 0; SStep 0; SStep 0; SStep 1; SStep 1; SStep 1; SStep 2; SStep 2; SStep 2; SStep 2] Hf) as Hr.
  rewrite <- run_pair in Hr.
  eexists _, _, _. split; [exact Hr|]. vm_compute. repeat split.
Qed.

(* ---- statements of Props.v ------------------------------------------------------------ *)
Lemma thm_no_stale_after_return :
  forall c d t0 s ts i v now0 minv inf w,
  c_pool c = 1%nat ->
  reach (step c) env (spawnable (fun _ => True)) (init_st c d t0, []) (s, ts) ->
  nth_error ts i = Some (VDone v now0 minv (Some (inf, w))) ->
  (minv <= w <= cur s)%nat /\
  exists dw r, db_at s w = Some dw /\ find_row dw v = Some r /\ inf = info_of r.
Proof.
  intros c d t0 s ts i v now0 minv inf w Hp Hr Hi.
  destruct (no_stale c _ d t0 s ts i v now0 minv inf w Hp Hr Hi) as [Hw (dw & r & H1 & H2 & H3 & _)].
  split; [exact Hw|]. exists dw, r. auto.
Qed.

Lemma thm_pool2_stale_refuted :
  ~ (forall c d t0 s ts i v now0 minv res dm,
       c_pool c = 2%nat ->
       reach (step c) env (spawnable (no_rotate_to v)) (init_st c d t0, []) (s, ts) ->
       nth_error ts i = Some (VDone v now0 minv res) ->
       db_at s minv = Some dm -> find_row dm v = None ->
       res = None).
Proof.
  intros H. destruct pool2_stale_reach as (s & ts & now0 & inf & d1 & Hr & Hn & Hd & Hf).
  specialize (H cfg_pool2 _ _ s ts 2%nat 7%N now0 1%nat _ d1 eq_refl Hr Hn Hd Hf). discriminate.
Qed.

Lemma thm_expiry_refuted :
  ~ (forall c d t0 s ts i v now0 minv inf w dw r x,
       c_pool c = 1%nat ->
       reach (step c) env (spawnable (fun _ => True)) (init_st c d t0, []) (s, ts) ->
       nth_error ts i = Some (VDone v now0 minv (Some (inf, w))) ->
       db_at s w = Some dw -> find_row dw v = Some r -> r_exp r = Some x ->
       now0 <= x).
Proof.
  intros H. destruct expiry_reach as (s & ts & minv & inf & w & dw & r & Hr & Hn & Hd & Hf & _ & Hx).
  specialize (H cfg_asis _ _ s ts 1%nat 7%N 20 minv inf w dw r 10 eq_refl Hr Hn Hd Hf Hx). lia.
Qed.

Lemma thm_expiry_overshoot_bounded :
  forall c d t0 s ts i v now0 minv inf w,
  c_pool c = 1%nat ->
  reach (step c) env (spawnable (fun _ => True)) (init_st c d t0, []) (s, ts) ->
  nth_error ts i = Some (VDone v now0 minv (Some (inf, w))) ->
  exists dw r, db_at s w = Some dw /\ find_row dw v = Some r /\ inf = info_of r /\
    forall x, r_exp r = Some x -> now0 <= x \/ now0 < x + c_ttl c.
Proof.
  intros c d t0 s ts i v now0 minv inf w Hp Hr Hi.
  destruct (no_stale c _ d t0 s ts i v now0 minv inf w Hp Hr Hi) as [_ (dw & r & H1 & H2 & H3 & H4)].
  exists dw, r. repeat split; auto. intros x Hx. exact (proj1 (H4 x Hx)).
Qed.

Lemma thm_unexpired_when_clamped :
  forall c d t0 s ts i v now0 minv inf w,
  c_pool c = 1%nat -> c_clamp c = true ->
  reach (step c) env (spawnable (fun _ => True)) (init_st c d t0, []) (s, ts) ->
  nth_error ts i = Some (VDone v now0 minv (Some (inf, w))) ->
  exists dw r, db_at s w = Some dw /\ find_row dw v = Some r /\ inf = info_of r /\
    forall x, r_exp r = Some x -> now0 <= x.
Proof.
  intros c d t0 s ts i v now0 minv inf w Hp Hcl Hr Hi.
  destruct (no_stale c _ d t0 s ts i v now0 minv inf w Hp Hr Hi) as [_ (dw & r & H1 & H2 & H3 & H4)].
  exists dw, r. repeat split; auto. intros x Hx. exact (proj2 (H4 x Hx) Hcl).
Qed.

