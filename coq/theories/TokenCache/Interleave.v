(* Generic interleaving semantics (DESIGN.md Appendix A.1): a configuration is a shared
   state plus a list of thread-local program counters; any thread may take its next atomic
   step, threads may be spawned at any time, the environment (clock, background janitor)
   may move the shared state.  [reach] is the set of configurations reachable under ALL
   schedules and ANY number of threads; [inv_reach] is the invariant rule. *)
From Coq Require Import List.
Import ListNotations.

Fixpoint set_nth {A} (i : nat) (x : A) (l : list A) : list A :=
  match l, i with
  | [], _ => []
  | _ :: r, O => x :: r
  | y :: r, S j => y :: set_nth j x r
  end.

Section Interleave.
  Context {S T L : Type}.
  Variable step : S -> T -> option (S * T * L).   (* one atomic step of a thread; None = not enabled *)
  Variable env : S -> S -> Prop.                   (* environment moves *)
  Variable spawnable : T -> Prop.                  (* initial pcs of threads that may appear *)

  Inductive reach (c0 : S * list T) : S * list T -> Prop :=
  | r_init : reach c0 c0
  | r_step s ts i t s' t' l :
      reach c0 (s, ts) -> nth_error ts i = Some t -> step s t = Some (s', t', l) ->
      reach c0 (s', set_nth i t' ts)
  | r_spawn s ts t0 : reach c0 (s, ts) -> spawnable t0 -> reach c0 (s, ts ++ [t0])
  | r_env s ts s' : reach c0 (s, ts) -> env s s' -> reach c0 (s', ts).

  Theorem inv_reach (Inv : S * list T -> Prop) c0 :
    Inv c0 ->
    (forall s ts i t s' t' l, Inv (s, ts) -> nth_error ts i = Some t ->
       step s t = Some (s', t', l) -> Inv (s', set_nth i t' ts)) ->
    (forall s ts t0, Inv (s, ts) -> spawnable t0 -> Inv (s, ts ++ [t0])) ->
    (forall s ts s', Inv (s, ts) -> env s s' -> Inv (s', ts)) ->
    forall c, reach c0 c -> Inv c.
  Proof.
    intros H0 Hs Hp He c Hr. induction Hr; eauto.
  Qed.

  Lemma reach_trans c0 c1 c2 : reach c0 c1 -> reach c1 c2 -> reach c0 c2.
  Proof.
    intros H1 H2. induction H2.
    - exact H1.
    - eapply r_step; eauto.
    - eapply r_spawn; eauto.
    - eapply r_env; eauto.
  Qed.
End Interleave.

Lemma nth_error_set_nth_same {A} i (x : A) l y :
  nth_error l i = Some y -> nth_error (set_nth i x l) i = Some x.
Proof.
  revert i. induction l as [|a r IH]; intros [|j]; cbn; try discriminate; auto.
Qed.

Lemma nth_error_set_nth_other {A} i j (x : A) l :
  i <> j -> nth_error (set_nth i x l) j = nth_error l j.
Proof.
  revert i j. induction l as [|a r IH]; intros [|i] [|j]; cbn; auto; try congruence.
Qed.

Lemma set_nth_length {A} i (x : A) l : length (set_nth i x l) = length l.
Proof. revert i. induction l as [|a r IH]; intros [|i]; cbn; auto. Qed.

(* every element of the updated list is the new pc or an old element *)
Lemma in_set_nth {A} i (x : A) l y : In y (set_nth i x l) -> y = x \/ In y l.
Proof.
  revert i. induction l as [|a r IH]; intros [|i]; cbn; try tauto.
  - intros [H|H]; auto.
  - intros [H|H]; auto. destruct (IH _ H); auto.
Qed.

Lemma Forall_set_nth {A} (P : A -> Prop) i x l :
  Forall P l -> P x -> Forall P (set_nth i x l).
Proof.
  intros Hl Hx. apply Forall_forall. intros y Hy.
  destruct (in_set_nth _ _ _ _ Hy) as [->|Hin]; auto.
  rewrite Forall_forall in Hl. auto.
Qed.
