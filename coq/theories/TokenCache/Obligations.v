(* C21 obligations over the parameters re-extracted from the current Go source
   (ArcGen.Params_TokenCache, regenerated on every run by tools/props/C21.py).  These are the
   PRIMARY statements: the theorems of Props.v instantiated with what the code is now. *)
From Coq Require Import List ZArith NArith Bool String Lia.
From Arc Require Import Lib.AList TokenCache.Interleave TokenCache.Model TokenCache.Proofs.
From ArcGen Require Import Params_TokenCache.
Import ListNotations.
Open Scope Z_scope.

(* NewAuthManager still limits the auth database to one pooled connection, and VerifyToken
   still keeps its query's rows open until it returns - the two facts under which the insert
   race is excluded (C21_pool2_stale_refuted shows the first is needed; the model's V2/V3
   steps are the second). *)
Theorem C21_deployed_single_connection : db_max_open_conns = 1%nat.
Proof. reflexivity. Qed.

Theorem C21_deployed_keeps_connection : verify_keeps_rows_open = true.
Proof. reflexivity. Qed.

(* the cache entry's expiry is clamped to the token's own expiry (since 7177f8c) *)
Theorem C21_deployed_clamped : cache_expiry_clamped = true.
Proof. reflexivity. Qed.

(* every function that updates or deletes api_tokens rows invalidates the token cache *)
Theorem C21_deployed_writers_invalidate : forallb snd token_writers = true.
Proof. reflexivity. Qed.

Theorem C21_deployed_revoked_value_rejected :
  forall c d t0 s ts i v now0 minv res dm,
  c_pool c = db_max_open_conns ->
  reach (step c) env (spawnable (no_rotate_to v)) (init_st c d t0, []) (s, ts) ->
  nth_error ts i = Some (VDone v now0 minv res) ->
  db_at s minv = Some dm -> find_row dm v = None ->
  res = None.
Proof.
  intros c d t0 s ts i v now0 minv res dm Hp. rewrite C21_deployed_single_connection in Hp.
  exact (revoked_rejected c d t0 s ts i v now0 minv res dm Hp).
Qed.

(* a token authenticates only if it was issued, is enabled and has not expired: every
   successful verification returns an enabled row of a table version inside its window,
   and that row was unexpired at the verification's time *)
Theorem C21_deployed_unexpired :
  forall c d t0 s ts i v now0 minv inf w,
  c_pool c = db_max_open_conns -> c_clamp c = cache_expiry_clamped ->
  reach (step c) env (spawnable (fun _ => True)) (init_st c d t0, []) (s, ts) ->
  nth_error ts i = Some (VDone v now0 minv (Some (inf, w))) ->
  (minv <= w <= cur s)%nat /\
  exists dw r, db_at s w = Some dw /\ find_row dw v = Some r /\ inf = info_of r /\
    forall x, r_exp r = Some x -> now0 <= x.
Proof.
  intros c d t0 s ts i v now0 minv inf w Hp Hcl Hr Hi. rewrite C21_deployed_single_connection in Hp.
  rewrite C21_deployed_clamped in Hcl.
  destruct (no_stale c _ d t0 s ts i v now0 minv inf w Hp Hr Hi) as [Hw (dw & r & H1 & H2 & H3 & H4)].
  split; [exact Hw|]. exists dw, r. repeat split; auto. intros x Hx. exact (proj2 (H4 x Hx) Hcl).
Qed.
