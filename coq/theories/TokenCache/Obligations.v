(* C21 obligations over the parameters re-extracted from the current Go source
   (ArcGen.Params_TokenCache, regenerated on every run by tools/props/C21.py). *)
From Coq Require Import List ZArith NArith Bool String Lia.
From Arc Require Import Lib.AList TokenCache.Interleave TokenCache.Model TokenCache.Proofs.
From ArcGen Require Import Params_TokenCache.
Import ListNotations.
Open Scope Z_scope.

(* NewAuthManager still limits the auth database to one pooled connection - the hypothesis
   under which the insert race is excluded (C21_pool2_stale_refuted shows it is needed). *)
Theorem C21_deployed_single_connection : db_max_open_conns = 1%nat.
Proof. reflexivity. Qed.

(* every function that updates or deletes api_tokens rows invalidates the token cache *)
Theorem C21_deployed_writers_invalidate : forallb snd token_writers = true.
Proof. reflexivity. Qed.

Theorem C21_deployed_revoked_value_rejected :
  forall c d t0 s ts i v now0 minv res dm,
  c_pool c = db_max_open_conns ->
  reach (step c) env (spawnable (no_rotate_to v)) (init_st c d t0, []) (s, ts) ->
  nth_error ts i = Some (VDone v now0 minv res) ->
  db_at s minv = Some dm -> find_row dm v = None ->
  res = None.
Proof.
  intros c d t0 s ts i v now0 minv res dm Hp. rewrite C21_deployed_single_connection in Hp.
  exact (revoked_rejected c d t0 s ts i v now0 minv res dm Hp).
Qed.

(* what the deployed cache-expiry expression guarantees about expired tokens *)
Theorem C21_deployed_expiry :
  forall c d t0 s ts i v now0 minv inf w,
  c_pool c = db_max_open_conns -> c_clamp c = cache_expiry_clamped ->
  reach (step c) env (spawnable (fun _ => True)) (init_st c d t0, []) (s, ts) ->
  nth_error ts i = Some (VDone v now0 minv (Some (inf, w))) ->
  exists dw r, db_at s w = Some dw /\ find_row dw v = Some r /\ inf = info_of r /\
    forall x, r_exp r = Some x ->
      if cache_expiry_clamped then now0 <= x else (now0 <= x \/ now0 < x + c_ttl c).
Proof.
  intros c d t0 s ts i v now0 minv inf w Hp Hcl Hr Hi. rewrite C21_deployed_single_connection in Hp.
  destruct (no_stale c _ d t0 s ts i v now0 minv inf w Hp Hr Hi) as [_ (dw & r & H1 & H2 & H3 & H4)].
  exists dw, r. repeat split; auto. intros x Hx. destruct (H4 x Hx) as [Ha Hb].
  destruct cache_expiry_clamped; [apply Hb; exact Hcl|exact Ha].
Qed.
