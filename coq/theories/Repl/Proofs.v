(* C24 - proofs about Repl.Model.  Statements of the property theorems are in Props.v. *)
From Coq Require Import List ZArith NArith Bool Lia Sorted.
From Coq Require Import ZifyBool ZifyN ZifyNat.
From Arc Require Import Repl.Model.
Import ListNotations.
Open Scope Z_scope.
Ltac Zify.zify_post_hook ::= Z.div_mod_to_equations.

(* ------------------------------------------------------------------------------------ *)
(* basics                                                                                *)
(* ------------------------------------------------------------------------------------ *)

Lemma bytes_eqb_eq : forall a b, bytes_eqb a b = true <-> a = b.
Proof.
  induction a as [|x a IH]; destruct b as [|y b]; cbn [bytes_eqb]; split; intro H;
    try reflexivity; try discriminate.
  - apply andb_true_iff in H. destruct H as [H1 H2]. apply N.eqb_eq in H1. apply IH in H2. congruence.
  - inversion H; subst. rewrite N.eqb_refl. cbn. apply IH. reflexivity.
Qed.

Lemma bytes_eqb_refl : forall a, bytes_eqb a a = true.
Proof. intro a. apply bytes_eqb_eq. reflexivity. Qed.

Lemma entry_eqb_eq : forall a b, entry_eqb a b = true <-> a = b.
Proof.
  intros [s p] [s' p']. unfold entry_eqb. cbn [e_seq e_payload]. split; intro H.
  - apply andb_true_iff in H. destruct H as [H1 H2]. apply Z.eqb_eq in H1. apply bytes_eqb_eq in H2. congruence.
  - inversion H; subst. rewrite Z.eqb_refl, bytes_eqb_refl. reflexivity.
Qed.

Lemma ssorted_cons_lt : forall a b l,
  a < b -> StronglySorted Z.lt (b :: l) -> StronglySorted Z.lt (a :: b :: l).
Proof.
  intros a b l Hab H. constructor; [exact H|].
  apply StronglySorted_inv in H. destruct H as [_ HF].
  constructor; [exact Hab|].
  eapply Forall_impl; [|exact HF]. cbn. intros x Hx. lia.
Qed.

Lemma sorted_from_spec : forall l prev, sorted_from prev l = true <-> StronglySorted Z.lt (prev :: l).
Proof.
  induction l as [|x l IH]; intros prev; cbn [sorted_from].
  - split; intro; [repeat constructor|reflexivity].
  - split; intro H.
    + apply andb_true_iff in H. destruct H as [H1 H2]. apply Z.ltb_lt in H1. apply IH in H2.
      apply ssorted_cons_lt; assumption.
    + apply StronglySorted_inv in H. destruct H as [H1 H2]. apply andb_true_iff. split.
      * apply Z.ltb_lt. inversion H2; assumption.
      * apply IH. exact H1.
Qed.

Lemma increasing_spec : forall l, increasing l = true <-> StronglySorted Z.lt l.
Proof.
  destruct l as [|x l]; cbn [increasing].
  - split; intro; [constructor|reflexivity].
  - apply sorted_from_spec.
Qed.

Lemma ssorted_nodup : forall l, StronglySorted Z.lt l -> NoDup l.
Proof.
  induction l as [|x l IH]; intro H; [constructor|].
  apply StronglySorted_inv in H. destruct H as [H1 H2]. constructor; [|auto].
  intro Hin. rewrite Forall_forall in H2. specialize (H2 _ Hin). lia.
Qed.

Lemma ssorted_snoc : forall l x, StronglySorted Z.lt l -> Forall (fun y => y < x) l ->
  StronglySorted Z.lt (l ++ [x]).
Proof.
  induction l as [|y l IH]; intros x Hs Hf; cbn [app].
  - repeat constructor.
  - apply StronglySorted_inv in Hs. destruct Hs as [Hs Hy]. inversion Hf; subst.
    constructor; [apply IH; assumption|].
    apply Forall_app. split; [exact Hy|]. constructor; [assumption|constructor].
Qed.

Lemma ssorted_app_l : forall (l1 l2 : list Z), StronglySorted Z.lt (l1 ++ l2) -> StronglySorted Z.lt l1.
Proof.
  induction l1 as [|x l1 IH]; intros l2 H; [constructor|].
  cbn [app] in H. apply StronglySorted_inv in H. destruct H as [H1 H2].
  constructor; [eapply IH; exact H1|]. apply Forall_app in H2. tauto.
Qed.

Lemma countZ_app : forall x a b, countZ x (a ++ b) = (countZ x a + countZ x b)%nat.
Proof.
  induction a as [|y a IH]; intro b; cbn [app countZ]; [reflexivity|].
  destruct (x =? y); rewrite IH; reflexivity.
Qed.

Lemma countZ_pos_in : forall x l, (0 < countZ x l)%nat <-> In x l.
Proof.
  induction l as [|y l IH]; cbn [countZ In]; [split; [lia|tauto]|].
  destruct (x =? y) eqn:E.
  - apply Z.eqb_eq in E. subst. split; [auto|lia].
  - apply Z.eqb_neq in E. rewrite IH. split; [auto|]. intros [H|H]; [congruence|exact H].
Qed.

(* ------------------------------------------------------------------------------------ *)
(* receiver: soundness against every wire adversary                                      *)
(* ------------------------------------------------------------------------------------ *)

(* Idealised MAC: whatever frames the adversary delivers, a tag that is a MAC under the
   session key `key` was computed by the sender, i.e. over the (sequence, payload) of an
   entry the sender sent on this connection.  The adversary may move such a tag to another
   frame, duplicate it, drop it, reorder it, use tags of other sessions or junk. *)
Definition unforgeable (key : N) (snt : list entry) (wire : list frame) : Prop :=
  forall s p s' p', In (FEntry s p (TagMac key s' p')) wire -> In (mkEntry s' p') snt.

Lemma tag_check_none : forall key s p t, tag_check key s p t = None -> t = TagMac key s p.
Proof.
  intros key s p t H. destruct t; cbn [tag_check] in H; try discriminate.
  destruct (N.eqb key0 key && (seq =? s) && bytes_eqb p0 p) eqn:E; [|discriminate].
  apply andb_true_iff in E. destruct E as [E E3]. apply andb_true_iff in E. destruct E as [E1 E2].
  apply N.eqb_eq in E1. apply Z.eqb_eq in E2. apply bytes_eqb_eq in E3. congruence.
Qed.

Lemma tag_check_genuine : forall key s p, tag_check key s p (TagMac key s p) = None.
Proof. intros. cbn [tag_check]. rewrite N.eqb_refl, Z.eqb_refl, bytes_eqb_refl. reflexivity. Qed.

Lemma applied_stop : forall last why, applied (stop last why) = [].
Proof. reflexivity. Qed.

Lemma applied_more : forall a r, applied (more a r) = map a_entry (filter a_ok a) ++ applied r.
Proof. intros. unfold applied, more. cbn [rr_atts]. rewrite filter_app, map_app. reflexivity. Qed.

Lemma unforgeable_tail : forall key snt f fs, unforgeable key snt (f :: fs) -> unforgeable key snt fs.
Proof. intros key snt f fs H s p s' p' Hin. eapply H. right. exact Hin. Qed.

Definition last_of (d : Z) (l : list Z) : Z := List.last l d.

Lemma last_cons_default : forall (l : list Z) x d, List.last (x :: l) d = List.last l x.
Proof.
  induction l as [|y l IH]; intros x d; [reflexivity|].
  change (List.last (x :: y :: l) d) with (List.last (y :: l) d). rewrite !IH. reflexivity.
Qed.

Lemma recv_sound : forall c snt fs last cum aok,
  unforgeable (rc_key c) snt fs ->
  let r := recv c last cum aok fs in
  Forall (fun a => In (a_entry a) snt) (rr_atts r) /\
  StronglySorted Z.lt (last :: map e_seq (applied r)) /\
  rr_last r = last_of last (map e_seq (applied r)).
Proof.
  intros c snt. induction fs as [|f fs IH]; intros last cum aok Hu; cbn zeta.
  - cbn. repeat split; repeat constructor.
  - pose proof (unforgeable_tail _ _ _ _ Hu) as Hu'.
    assert (Hstop : forall why, Forall (fun a => In (a_entry a) snt) (rr_atts (stop last why)) /\
                                StronglySorted Z.lt (last :: map e_seq (applied (stop last why))) /\
                                rr_last (stop last why) = last_of last (map e_seq (applied (stop last why)))).
    { intro why. cbn. repeat split; repeat constructor. }
    destruct f; cbn [recv]; try apply Hstop.
    + (* FEntry *)
      destruct (tag_check (rc_key c) s p t) eqn:Et; [apply Hstop|].
      apply tag_check_none in Et. subst t.
      destruct (s <=? last) eqn:Es; [apply Hstop|]. apply Z.leb_gt in Es.
      assert (Hin : In (mkEntry s p) snt) by (eapply Hu; left; reflexivity).
      destruct (fst (pop aok)) eqn:Eok.
      * specialize (IH s (cum ++ p) (snd (pop aok)) Hu'). cbn zeta in IH.
        destruct IH as [IH1 [IH2 IH3]].
        rewrite applied_more. cbn [rr_atts more filter a_ok map a_entry app e_seq rr_last].
        split; [constructor; [exact Hin|exact IH1]|]. split.
        -- apply ssorted_cons_lt; assumption.
        -- rewrite IH3. unfold last_of. cbn [map e_seq]. rewrite last_cons_default. reflexivity.
      * specialize (IH last (cum ++ p) (snd (pop aok)) Hu'). cbn zeta in IH.
        destruct IH as [IH1 [IH2 IH3]].
        rewrite applied_more. cbn [rr_atts more filter a_ok map a_entry app rr_last].
        split; [constructor; [exact Hin|exact IH1]|]. split; assumption.
    + (* FCp *)
      destruct (cp_check c last cum c0); [apply Hstop|].
      specialize (IH last cum aok Hu'). cbn zeta in IH. destruct IH as [IH1 [IH2 IH3]].
      rewrite applied_more. cbn [rr_atts more filter map app rr_last]. auto.
    + (* FErr *)
      destruct parses; apply Hstop.
Qed.

Lemma applied_sound : forall c snt wire last cum aok,
  unforgeable (rc_key c) snt wire ->
  let r := recv c last cum aok wire in
  Forall (fun e => In e snt) (applied r) /\
  StronglySorted Z.lt (last :: map e_seq (applied r)) /\
  NoDup (map e_seq (applied r)) /\
  rr_last r = last_of last (map e_seq (applied r)).
Proof.
  intros c snt wire last cum aok Hu r.
  destruct (recv_sound c snt wire last cum aok Hu) as [H1 [H2 H3]]. fold r in H1, H2, H3.
  split; [|split; [exact H2|split; [|exact H3]]].
  - unfold applied. rewrite Forall_forall in *. intros e He. apply in_map_iff in He.
    destruct He as [a [Ha1 Ha2]]. apply filter_In in Ha2. subst e. apply H1. tauto.
  - apply ssorted_nodup in H2. inversion H2; assumption.
Qed.

(* a stream that contains only frames the sender produced (any order, any multiplicity) is unforgeable *)
Lemma send_all_entries : forall c meta es st s p t,
  In (FEntry s p t) (send_all c meta st es) -> In (mkEntry s p) es /\ t = TagMac (sc_key c) s p.
Proof.
  intros c meta. induction es as [|e es IH]; intros st s p t Hin; cbn [send_all] in Hin; [contradiction|].
  destruct (send_one c meta st e) as [st' fs] eqn:E. apply in_app_or in Hin. destruct Hin as [Hin|Hin].
  - unfold send_one in E. destruct e as [es0 ep]. cbn [e_seq e_payload] in E.
    destruct (sc_interval c <=? ss_count st + 1); inversion E; subst fs; clear E;
      cbn [In] in Hin; destruct Hin as [Hin|Hin]; try (inversion Hin; subst; split; [left; reflexivity|reflexivity]);
      try destruct Hin as [Hin|Hin]; try discriminate; try contradiction.
  - apply IH in Hin. destruct Hin. split; [right; assumption|assumption].
Qed.

(* the adversary may attach any tag the sender produced to any frame (and use foreign tags),
   but cannot mint a tag under the session key *)
Lemma edits_unforgeable : forall c meta st es wire,
  (forall s p s' p', In (FEntry s p (TagMac (sc_key c) s' p')) wire ->
     exists s0 p0, In (FEntry s0 p0 (TagMac (sc_key c) s' p')) (send_all c meta st es)) ->
  unforgeable (sc_key c) es wire.
Proof.
  intros c meta st es wire H s p s' p' Hin. destruct (H _ _ _ _ Hin) as [s0 [p0 Hs]].
  apply send_all_entries in Hs. destruct Hs as [Hs Ht]. inversion Ht; subst. exact Hs.
Qed.

Lemma case_unforgeable_spec : forall c, case_unforgeable c = true ->
  unforgeable (rc_key (c_rcfg c)) (genuine c) (c_wire c).
Proof.
  intros c H s p s' p' Hin. unfold case_unforgeable in H. rewrite forallb_forall in H.
  specialize (H _ Hin). cbn in H. rewrite N.eqb_refl in H. cbn [negb orb] in H.
  apply existsb_exists in H. destruct H as [e [He1 He2]]. apply entry_eqb_eq in He2. subst e. exact He1.
Qed.

(* an accepted checkpoint carries a MAC, computed under the shared secret, over exactly the
   receiver's running content and lastSeq, with a timestamp inside the tolerance window *)
Lemma cp_accept_binds : forall c last cum k, cp_check c last cum k = None ->
  exists n sd cl t, cp_mac k = MacOf (rc_secret c) n sd cl cum last t /\
                    Z.abs (rc_now c - t) <= rc_tol c /\ cp_cluster k = rc_cluster c /\ cp_hash k = HashOf cum.
Proof.
  intros c last cum k H. unfold cp_check in H.
  destruct (N.eqb (cp_cluster k) (rc_cluster c)) eqn:E1; cbn [negb] in H; [|discriminate].
  destruct (cp_last k =? last) eqn:E2; cbn [negb] in H; [|discriminate].
  destruct (cp_hash k) as [h| | |] eqn:E3; try discriminate.
  destruct (bytes_eqb h cum) eqn:E4; cbn [negb] in H; [|discriminate].
  destruct (rc_tol c <? Z.abs (rc_now c - cp_ts k)) eqn:E5; [discriminate|].
  destruct (mac_ok c k h) eqn:E6; [|discriminate].
  unfold mac_ok in E6. destruct (cp_mac k) as [sec n sd cl h' l t|] eqn:E7; [|discriminate].
  repeat (apply andb_true_iff in E6; destruct E6 as [E6 ?]).
  apply N.eqb_eq in E1, E6. apply Z.eqb_eq in E2. apply bytes_eqb_eq in E4. subst h.
  match goal with Hh : bytes_eqb h' cum = true |- _ => apply bytes_eqb_eq in Hh; subst h' end.
  match goal with Hl : (l =? cp_last k) = true |- _ => apply Z.eqb_eq in Hl end.
  match goal with Ht : (t =? cp_ts k) = true |- _ => apply Z.eqb_eq in Ht end.
  exists n, sd, cl, t. subst sec. repeat split; try congruence; try lia.
Qed.

(* ------------------------------------------------------------------------------------ *)
(* receiver on the unedited stream: nothing dropped, nothing skipped                      *)
(* ------------------------------------------------------------------------------------ *)

Definition configs_agree (sc : scfg) (rc : rcfg) : Prop :=
  rc_key rc = sc_key sc /\ rc_secret rc = sc_secret sc /\ rc_cluster rc = sc_cluster sc.

Definition fresh (rc : rcfg) (meta : nat -> N * Z) : Prop :=
  forall k, Z.abs (rc_now rc - snd (meta k)) <= rc_tol rc.

Lemma pop_all_true : forall aok, all_true aok = true -> fst (pop aok) = true /\ all_true (snd (pop aok)) = true.
Proof.
  destruct aok as [|b r]; cbn; [auto|]. intro H. apply andb_true_iff in H. destruct H. subst. auto.
Qed.

Lemma cp_check_genuine : forall sc rc meta cum last k,
  configs_agree sc rc -> fresh rc meta ->
  cp_check rc last cum (genuine_cp sc cum last (fst (meta k)) (snd (meta k))) = None.
Proof.
  intros sc rc meta cum last k [Hk [Hs Hc]] Hf. unfold cp_check, genuine_cp, mac_ok.
  cbn [cp_cluster cp_last cp_hash cp_ts cp_mac cp_nonce cp_sender].
  rewrite Hc, Hs, !N.eqb_refl, !Z.eqb_refl, !bytes_eqb_refl. cbn [negb andb].
  specialize (Hf k). destruct (rc_tol rc <? Z.abs (rc_now rc - snd (meta k))) eqn:E; [lia|reflexivity].
Qed.

Lemma send_one_cum : forall c meta st e, ss_cum (fst (send_one c meta st e)) = ss_cum st ++ e_payload e.
Proof. intros. unfold send_one. destruct (sc_interval c <=? ss_count st + 1); reflexivity. Qed.

Definition is_prefix {A} (a l : list A) : Prop := exists rest, l = a ++ rest.

(* any prefix of the unedited stream (the connection may be cut anywhere): no drop, and the
   applied entries are a prefix of what was sent, in order *)
Lemma recv_honest_prefix : forall sc rc meta, configs_agree sc rc -> fresh rc meta ->
  forall es st last aok k,
  all_true aok = true ->
  StronglySorted Z.lt (last :: map e_seq es) ->
  let r := recv rc last (ss_cum st) aok (firstn k (send_all sc meta st es)) in
  rr_reason r = RClosed /\ is_prefix (applied r) es.
Proof.
  intros sc rc meta Hag Hfr. induction es as [|e es IH]; intros st last aok k Hok Hs; cbn zeta.
  - cbn [send_all]. rewrite firstn_nil. cbn. split; [reflexivity|exists []; reflexivity].
  - cbn [send_all]. destruct (send_one sc meta st e) as [st' fs] eqn:E.
    pose proof (send_one_cum sc meta st e) as Hcum. rewrite E in Hcum. cbn [fst] in Hcum.
    cbn [map] in Hs. pose proof Hs as Hs0.
    apply StronglySorted_inv in Hs. destruct Hs as [Hs Hlt].
    assert (Hel : last < e_seq e) by (inversion Hlt; assumption).
    destruct (pop_all_true _ Hok) as [Hp1 Hp2].
    destruct k as [|k]; [cbn; split; [reflexivity|exists (e :: es); reflexivity]|].
    unfold send_one in E. destruct Hag as [Hk Hrest].
    assert (Hstep : forall rest,
              recv rc last (ss_cum st) aok (FEntry (e_seq e) (e_payload e) (TagMac (sc_key sc) (e_seq e) (e_payload e)) :: rest)
              = more [mkAtt last (mkEntry (e_seq e) (e_payload e)) true]
                     (recv rc (e_seq e) (ss_cum st ++ e_payload e) (snd (pop aok)) rest)).
    { intro rest. cbn [recv]. rewrite Hk, tag_check_genuine.
      destruct (e_seq e <=? last) eqn:E2; [lia|]. rewrite Hp1. reflexivity. }
    assert (He : mkEntry (e_seq e) (e_payload e) = e) by (destruct e; reflexivity).
    destruct (sc_interval sc <=? ss_count st + 1); inversion E; subst st' fs; clear E; cbn [app firstn].
    + (* entry followed by a checkpoint *)
      rewrite Hstep. destruct k as [|k]; cbn [firstn].
      * cbn [recv]. rewrite applied_more. cbn. split; [reflexivity|]. exists es. rewrite He. reflexivity.
      * cbn [recv]. rewrite (cp_check_genuine sc rc meta _ _ _ (conj Hk Hrest) Hfr).
        specialize (IH (mkSS (ss_cum st ++ e_payload e) 0 (S (ss_ncp st))) (e_seq e) (snd (pop aok)) k Hp2 Hs).
        cbn zeta in IH. cbn [ss_cum] in IH. destruct IH as [IH1 [rest IH2]].
        rewrite !applied_more. cbn [more rr_reason filter a_ok map a_entry app].
        split; [exact IH1|]. exists rest. rewrite He. cbn [app]. f_equal. exact IH2.
    + specialize (IH (mkSS (ss_cum st ++ e_payload e) (ss_count st + 1) (ss_ncp st)) (e_seq e) (snd (pop aok)) k Hp2 Hs).
      cbn zeta in IH. cbn [ss_cum] in IH. destruct IH as [IH1 [rest IH2]].
      rewrite Hstep. rewrite applied_more. cbn [more rr_reason filter a_ok map a_entry app].
      split; [exact IH1|]. exists rest. rewrite He. cbn [app]. f_equal. exact IH2.
Qed.

(* the whole stream delivered: exactly the sent entries are applied, in order *)
Lemma recv_honest_full : forall sc rc meta, configs_agree sc rc -> fresh rc meta ->
  forall es st last aok,
  all_true aok = true ->
  StronglySorted Z.lt (last :: map e_seq es) ->
  let r := recv rc last (ss_cum st) aok (send_all sc meta st es) in
  rr_reason r = RClosed /\ applied r = es /\ rr_last r = last_of last (map e_seq es).
Proof.
  intros sc rc meta Hag Hfr. induction es as [|e es IH]; intros st last aok Hok Hs; cbn zeta.
  - cbn. auto.
  - cbn [send_all]. destruct (send_one sc meta st e) as [st' fs] eqn:E.
    cbn [map] in Hs. apply StronglySorted_inv in Hs. destruct Hs as [Hs Hlt].
    assert (Hel : last < e_seq e) by (inversion Hlt; assumption).
    destruct (pop_all_true _ Hok) as [Hp1 Hp2].
    unfold send_one in E. destruct Hag as [Hk Hrest].
    assert (Hstep : forall rest,
              recv rc last (ss_cum st) aok (FEntry (e_seq e) (e_payload e) (TagMac (sc_key sc) (e_seq e) (e_payload e)) :: rest)
              = more [mkAtt last (mkEntry (e_seq e) (e_payload e)) true]
                     (recv rc (e_seq e) (ss_cum st ++ e_payload e) (snd (pop aok)) rest)).
    { intro rest. cbn [recv]. rewrite Hk, tag_check_genuine.
      destruct (e_seq e <=? last) eqn:E2; [lia|]. rewrite Hp1. reflexivity. }
    assert (He : mkEntry (e_seq e) (e_payload e) = e) by (destruct e; reflexivity).
    assert (Hlast : forall l, last_of (e_seq e) l = last_of last (e_seq e :: l)).
    { intro l. unfold last_of. rewrite last_cons_default. reflexivity. }
    destruct (sc_interval sc <=? ss_count st + 1); inversion E; subst st' fs; clear E; cbn [app].
    + rewrite Hstep. cbn [recv]. rewrite (cp_check_genuine sc rc meta _ _ _ (conj Hk Hrest) Hfr).
      specialize (IH (mkSS (ss_cum st ++ e_payload e) 0 (S (ss_ncp st))) (e_seq e) (snd (pop aok)) Hp2 Hs).
      cbn zeta in IH. cbn [ss_cum] in IH. destruct IH as [IH1 [IH2 IH3]].
      rewrite !applied_more. cbn [more rr_reason rr_last filter a_ok map a_entry app].
      rewrite IH2, IH3, He, Hlast. auto.
    + specialize (IH (mkSS (ss_cum st ++ e_payload e) (ss_count st + 1) (ss_ncp st)) (e_seq e) (snd (pop aok)) Hp2 Hs).
      cbn zeta in IH. cbn [ss_cum] in IH. destruct IH as [IH1 [IH2 IH3]].
      rewrite Hstep. rewrite applied_more. cbn [more rr_reason rr_last filter a_ok map a_entry app].
      rewrite IH2, IH3, He, Hlast. auto.
Qed.

(* ------------------------------------------------------------------------------------ *)
(* writer side: the interleaving system                                                   *)
(* ------------------------------------------------------------------------------------ *)

(* reachable configurations: any number of threads, any schedule.
   excl = true restricts the schedules to those in which a thread executes the sequence
   assignment only while no other thread is between assignment and enqueue. *)
Inductive reach (atomic excl : bool) (cap : Z) : wstate -> list wpc -> Prop :=
| reach_init : reach atomic excl cap w_init []
| reach_spawn : forall s ts w, reach atomic excl cap s ts -> reach atomic excl cap s (ts ++ [W0 w])
| reach_thread : forall s ts i t s' t',
    reach atomic excl cap s ts -> nth_error ts i = Some t ->
    (excl = true -> is_assign t = true -> pend ts = []) ->
    wstep atomic cap s t = Some (s', t') ->
    reach atomic excl cap s' (set_nth i t' ts)
| reach_dist : forall s ts s',
    reach atomic excl cap s ts -> dstep s = Some s' -> reach atomic excl cap s' ts.

Definition queued (s : wstate) : list Z := map e_seq (sent s ++ chan s).

(* occurrences of sequence x among: written to the wire, waiting in the channel, reported
   dropped, held by a thread between assignment and enqueue *)
Definition cnt (x : Z) (s : wstate) (ts : list wpc) : nat :=
  (countZ x (map e_seq (sent s)) + countZ x (map e_seq (chan s)) + countZ x (dropped s) + countZ x (pend ts))%nat.

Definition in_range (x n : Z) : bool := (0 <? x) && (x <=? n).

(* every sequence number handed out so far is in exactly one of the four places *)
Definition InvU (s : wstate) (ts : list wpc) : Prop :=
  0 <= next_seq s /\ forall x, cnt x s ts = if in_range x (next_seq s) then 1%nat else 0%nat.

Lemma pend_app : forall a b, pend (a ++ b) = pend a ++ pend b.
Proof. intros. unfold pend. apply flat_map_app. Qed.

Lemma pend_set_nth : forall ts i t t', nth_error ts i = Some t ->
  exists a b, pend ts = a ++ pend1 t ++ b /\ pend (set_nth i t' ts) = a ++ pend1 t' ++ b.
Proof.
  induction ts as [|y ts IH]; intros i t t' H; [destruct i; discriminate|].
  destruct i as [|i]; cbn [nth_error] in H.
  - inversion H; subst. exists [], (pend ts). cbn [set_nth]. unfold pend. cbn [flat_map app]. auto.
  - destruct (IH i t t' H) as [a [b [H1 H2]]]. exists (pend1 y ++ a), b. cbn [set_nth].
    unfold pend in *. cbn [flat_map]. rewrite H1, H2, <- !app_assoc. auto.
Qed.

Lemma count_pend_set_nth : forall ts i t t' x, nth_error ts i = Some t ->
  (countZ x (pend (set_nth i t' ts)) + countZ x (pend1 t) = countZ x (pend ts) + countZ x (pend1 t'))%nat.
Proof.
  intros ts i t t' x H. destruct (pend_set_nth ts i t t' H) as [a [b [H1 H2]]].
  rewrite H1, H2, !countZ_app. lia.
Qed.

Lemma countZ_single : forall x y, countZ x [y] = if x =? y then 1%nat else 0%nat.
Proof. intros. cbn. destruct (x =? y); reflexivity. Qed.

Lemma enqueue_cnt : forall cap s seq p x ts,
  cnt x (enqueue cap s seq p) ts = (cnt x s ts + if (x =? seq)%Z then 1 else 0)%nat.
Proof.
  intros. unfold enqueue, cnt. destruct (Z.of_nat (length (chan s)) <? cap); cbn [sent chan dropped].
  - rewrite map_app, countZ_app. cbn [map e_seq]. rewrite countZ_single. lia.
  - rewrite countZ_app, countZ_single. lia.
Qed.

Lemma enqueue_next : forall cap s seq p, next_seq (enqueue cap s seq p) = next_seq s.
Proof. intros. unfold enqueue. destruct (_ <? _); reflexivity. Qed.

Lemma invU_step : forall atomic cap s ts i t s' t',
  InvU s ts -> nth_error ts i = Some t -> wstep atomic cap s t = Some (s', t') ->
  InvU s' (set_nth i t' ts).
Proof.
  intros atomic cap s ts i t s' t' [Hn Hc] Hnth Hstep.
  assert (Hassign : forall p, assign atomic cap s p = (s', t') -> pend1 t = [] ->
                              InvU s' (set_nth i t' ts)).
  { intros p Ha Hp. unfold assign in Ha. destruct atomic; inversion Ha; subst s' t'; clear Ha.
    - split; [rewrite enqueue_next; cbn [next_seq]; lia|]. intro x.
      rewrite enqueue_next. cbn [next_seq]. rewrite enqueue_cnt.
      pose proof (count_pend_set_nth ts i t WDone x Hnth) as Hp'. rewrite Hp in Hp'. cbn [pend1 countZ] in Hp'.
      specialize (Hc x). unfold cnt in *. cbn [sent chan dropped]. unfold in_range in *.
      destruct (x =? next_seq s + 1) eqn:E; destruct (0 <? x) eqn:E1; destruct (x <=? next_seq s) eqn:E2;
        destruct (x <=? next_seq s + 1) eqn:E3; cbn [andb] in *; lia.
    - split; [cbn [next_seq]; lia|]. intro x. cbn [next_seq].
      pose proof (count_pend_set_nth ts i t (W2 (next_seq s + 1) p) x Hnth) as Hp'. rewrite Hp in Hp'.
      cbn [pend1] in Hp'. rewrite countZ_single in Hp'. cbn [countZ] in Hp'.
      specialize (Hc x). unfold cnt in *. cbn [sent chan dropped]. unfold in_range in *.
      destruct (x =? next_seq s + 1) eqn:E; destruct (0 <? x) eqn:E1; destruct (x <=? next_seq s) eqn:E2;
        destruct (x <=? next_seq s + 1) eqn:E3; cbn [andb] in *; lia. }
  destruct t as [w|ws p|sq p|]; cbn [wstep] in Hstep; try discriminate.
  - destruct (w_kind w) eqn:Ek; inversion Hstep as [Ha]; clear Hstep.
    + eapply Hassign; [exact Ha|reflexivity].
    + subst s' t'. split; [exact Hn|]. intro x. cbn [next_seq].
      pose proof (count_pend_set_nth ts i (W0 w) (W1 (wal_seq s + 1) (rep_payload w)) x Hnth) as Hp'.
      cbn [pend1 countZ] in Hp'. specialize (Hc x). unfold cnt in *. cbn [sent chan dropped]. lia.
    + subst s' t'. split; [exact Hn|]. intro x. cbn [next_seq].
      pose proof (count_pend_set_nth ts i (W0 w) (W1 (wal_seq s + 1) (rep_payload w)) x Hnth) as Hp'.
      cbn [pend1 countZ] in Hp'. specialize (Hc x). unfold cnt in *. cbn [sent chan dropped]. lia.
  - inversion Hstep as [Ha]. eapply Hassign; [exact Ha|reflexivity].
  - inversion Hstep; subst s' t'; clear Hstep. split; [rewrite enqueue_next; exact Hn|]. intro x.
    rewrite enqueue_next, enqueue_cnt.
    pose proof (count_pend_set_nth ts i (W2 sq p) WDone x Hnth) as Hp'.
    cbn [pend1] in Hp'. rewrite countZ_single in Hp'. cbn [countZ] in Hp'.
    specialize (Hc x). unfold cnt in *. destruct (x =? sq); lia.
Qed.

Lemma invU_dstep : forall s ts s', InvU s ts -> dstep s = Some s' -> InvU s' ts.
Proof.
  intros s ts s' [Hn Hc] Hd. unfold dstep in Hd. destruct (chan s) as [|e r] eqn:E; [discriminate|].
  inversion Hd; subst s'; clear Hd. split; [exact Hn|]. intro x. cbn [next_seq]. specialize (Hc x).
  unfold cnt in *. cbn [sent chan dropped]. rewrite E in Hc. rewrite map_app, countZ_app.
  cbn [map countZ] in *. destruct (x =? e_seq e); lia.
Qed.

Lemma reach_invU : forall atomic excl cap s ts, reach atomic excl cap s ts -> InvU s ts.
Proof.
  intros atomic excl cap s ts H. induction H.
  - split; [cbn; lia|]. intro x. unfold cnt, in_range. cbn.
    destruct (0 <? x) eqn:E1; destruct (x <=? 0) eqn:E2; cbn; try reflexivity; lia.
  - destruct IHreach as [Hn Hc]. split; [exact Hn|]. intro x. specialize (Hc x). unfold cnt in *.
    rewrite pend_app, countZ_app. cbn. lia.
  - eapply invU_step; eassumption.
  - eapply invU_dstep; eassumption.
Qed.

Lemma cnt_queued_in : forall x s, In x (queued s) -> (1 <= countZ x (map e_seq (sent s)) + countZ x (map e_seq (chan s)))%nat.
Proof.
  intros x s H. unfold queued in H. rewrite map_app in H. apply countZ_pos_in in H.
  rewrite countZ_app in H. lia.
Qed.

(* order invariant, for the corrected protocol and for exclusive schedules *)
Definition InvS (atomic : bool) (s : wstate) (ts : list wpc) : Prop :=
  StronglySorted Z.lt (queued s) /\
  (pend ts = [] \/ (atomic = false /\ pend ts = [next_seq s])).

Lemma queued_enqueue : forall cap s seq p,
  queued (enqueue cap s seq p) = queued s \/ queued (enqueue cap s seq p) = queued s ++ [seq].
Proof.
  intros. unfold enqueue, queued. destruct (_ <? _); cbn [sent chan]; [right|left; reflexivity].
  rewrite app_assoc, map_app. reflexivity.
Qed.

Lemma sorted_enqueue : forall cap s seq p,
  StronglySorted Z.lt (queued s) -> (forall x, In x (queued s) -> x < seq) ->
  StronglySorted Z.lt (queued (enqueue cap s seq p)).
Proof.
  intros cap s seq p Hs Hlt. destruct (queued_enqueue cap s seq p) as [E|E]; rewrite E; [exact Hs|].
  apply ssorted_snoc; [exact Hs|]. apply Forall_forall. exact Hlt.
Qed.

Lemma invS_step : forall atomic excl cap s ts i t s' t',
  (atomic = true \/ excl = true) ->
  InvU s ts -> InvS atomic s ts -> nth_error ts i = Some t ->
  (excl = true -> is_assign t = true -> pend ts = []) ->
  wstep atomic cap s t = Some (s', t') ->
  InvS atomic s' (set_nth i t' ts).
Proof.
  intros atomic excl cap s ts i t s' t' Hmode [Hn Hc] [Hs Hp] Hnth Hex Hstep.
  destruct (pend_set_nth ts i t t' Hnth) as [a [b [Hp1 Hp2]]].
  (* every queued sequence is at most next_seq, and smaller when next_seq is still pending *)
  assert (Hle : forall x, In x (queued s) -> x <= next_seq s).
  { intros x Hx. pose proof (cnt_queued_in x s Hx) as H1. specialize (Hc x). unfold cnt, in_range in Hc.
    destruct (0 <? x) eqn:E1; destruct (x <=? next_seq s) eqn:E2; cbn [andb] in Hc; lia. }
  assert (Hassign : forall p, assign atomic cap s p = (s', t') -> pend1 t = [] -> is_assign t = true ->
                              InvS atomic s' (set_nth i t' ts)).
  { intros p Ha Hpt Hia. unfold assign in Ha. destruct atomic; inversion Ha; subst s' t'; clear Ha.
    - split.
      + apply sorted_enqueue; [exact Hs|]. intros x Hx. apply Hle in Hx. cbn [next_seq]. lia.
      + left. destruct Hp as [Hp|[Hf _]]; [|discriminate]. rewrite Hp2. rewrite Hp, Hpt in Hp1.
        cbn [pend1]. symmetry in Hp1. apply app_eq_nil in Hp1. destruct Hp1 as [Ha Hb].
        cbn [app] in Hb. subst. reflexivity.
    - destruct Hmode as [Hm|Hm]; [discriminate|]. specialize (Hex Hm Hia).
      split; [exact Hs|]. right. split; [reflexivity|]. rewrite Hp2. rewrite Hex, Hpt in Hp1.
      symmetry in Hp1. apply app_eq_nil in Hp1. destruct Hp1 as [Ha Hb]. cbn [app] in Hb. subst.
      reflexivity. }
  destruct t as [w|ws p|sq p|]; cbn [wstep] in Hstep; try discriminate.
  - destruct (w_kind w) eqn:Ek; inversion Hstep as [Ha]; clear Hstep.
    + eapply Hassign; [exact Ha|reflexivity|]. cbn [is_assign]. rewrite Ek. reflexivity.
    + subst s' t'. split; [exact Hs|]. cbn [next_seq pend1] in *. rewrite Hp2. cbn [pend1] in Hp1. rewrite <- Hp1. exact Hp.
    + subst s' t'. split; [exact Hs|]. cbn [next_seq pend1] in *. rewrite Hp2. cbn [pend1] in Hp1. rewrite <- Hp1. exact Hp.
  - inversion Hstep as [Ha]. eapply Hassign; [exact Ha|reflexivity|reflexivity].
  - inversion Hstep; subst s' t'; clear Hstep. cbn [pend1] in Hp1, Hp2.
    destruct Hp as [Hp|[Hf Hp]].
    + exfalso. rewrite Hp in Hp1. destruct a; discriminate.
    + rewrite Hp in Hp1.
      assert (a = [] /\ b = [] /\ sq = next_seq s) as [Ha [Hb Hsq]].
      { destruct a as [|a0 a]; cbn [app] in Hp1.
        - inversion Hp1. repeat split; congruence.
        - inversion Hp1 as [[H0 H1]]. destruct a; discriminate. }
      subst a b sq. split.
      * apply sorted_enqueue; [exact Hs|]. intros x Hx. pose proof (Hle x Hx) as H1.
        assert (x <> next_seq s); [|lia]. intro Hxe. subst x.
        pose proof (cnt_queued_in _ s Hx) as H2. specialize (Hc (next_seq s)).
        unfold cnt in Hc. rewrite Hp in Hc. cbn [countZ] in Hc. rewrite Z.eqb_refl in Hc.
        destruct (in_range (next_seq s) (next_seq s)); lia.
      * left. rewrite Hp2. reflexivity.
Qed.

Lemma reach_invS : forall atomic excl cap s ts,
  (atomic = true \/ excl = true) -> reach atomic excl cap s ts -> InvS atomic s ts.
Proof.
  intros atomic excl cap s ts Hmode H. induction H.
  - split; [constructor|left; reflexivity].
  - destruct IHreach as [Hs Hp]. split; [exact Hs|]. rewrite pend_app. cbn. rewrite app_nil_r. exact Hp.
  - eapply invS_step; try eassumption. eapply reach_invU; eassumption.
  - destruct IHreach as [Hs Hp]. unfold dstep in H0. destruct (chan s) as [|e r] eqn:E; [discriminate|].
    inversion H0; subst s'; clear H0. split; [|exact Hp].
    unfold queued in *. cbn [sent chan next_seq]. rewrite E in Hs. rewrite <- app_assoc. exact Hs.
Qed.

(* payload integrity (ghost log): every entry written to the wire or waiting in the channel, and
   every entry a writer holds between assignment and enqueue, is an entry of the assignment log,
   i.e. carries the payload that was handed to Sender.Replicate under that sequence; the log has
   the sequences 1..next in order *)
Definition held1 (t : wpc) : list entry := match t with W2 s p => [mkEntry s p] | _ => [] end.
Definition held (ts : list wpc) : list entry := flat_map held1 ts.

Definition InvP (s : wstate) (ts : list wpc) : Prop :=
  (forall e, In e (sent s ++ chan s) -> In e (alog s)) /\
  (forall e, In e (held ts) -> In e (alog s)) /\
  (forall x, In x (dropped s) -> In x (map e_seq (alog s))) /\
  map e_seq (alog s) = map Z.of_nat (seq 1 (length (alog s))) /\ next_seq s = Z.of_nat (length (alog s)).

Lemma held_set_nth : forall ts i t t', nth_error ts i = Some t ->
  exists a b, held ts = a ++ held1 t ++ b /\ held (set_nth i t' ts) = a ++ held1 t' ++ b.
Proof.
  induction ts as [|y ts IH]; intros i t t' H; [destruct i; discriminate|].
  destruct i as [|i]; cbn [nth_error] in H.
  - inversion H; subst. exists [], (held ts). cbn [set_nth]. unfold held. cbn [flat_map app]. auto.
  - destruct (IH i t t' H) as [a [b [H1 H2]]]. exists (held1 y ++ a), b. cbn [set_nth].
    unfold held in *. cbn [flat_map]. rewrite H1, H2, <- !app_assoc. auto.
Qed.

Lemma enqueue_alog : forall cap s sq p, alog (enqueue cap s sq p) = alog s.
Proof. intros. unfold enqueue. destruct (_ <? _); reflexivity. Qed.

Lemma enqueue_queue_in : forall cap s sq p e,
  In e (sent (enqueue cap s sq p) ++ chan (enqueue cap s sq p)) -> In e (sent s ++ chan s) \/ e = mkEntry sq p.
Proof.
  intros cap s sq p e H. unfold enqueue in H. destruct (_ <? _); cbn [sent chan] in H; [|auto].
  rewrite app_assoc in H. apply in_app_or in H. destruct H as [H|[H|[]]]; auto.
Qed.

Lemma enqueue_dropped_in : forall cap s sq p x,
  In x (dropped (enqueue cap s sq p)) -> In x (dropped s) \/ x = sq.
Proof.
  intros cap s sq p x H. unfold enqueue in H. destruct (_ <? _); cbn [dropped] in H; [auto|].
  apply in_app_or in H. destruct H as [H|[H|[]]]; auto.
Qed.

Lemma seq_snoc : forall n, map Z.of_nat (seq 1 (S n)) = map Z.of_nat (seq 1 n) ++ [Z.of_nat (S n)].
Proof. intro n. rewrite seq_S, map_app. reflexivity. Qed.

Lemma invP_step : forall atomic cap s ts i t s' t',
  InvP s ts -> nth_error ts i = Some t -> wstep atomic cap s t = Some (s', t') -> InvP s' (set_nth i t' ts).
Proof.
  intros atomic cap s ts i t s' t' [Hq [Hh [Hd [Hl Hn]]]] Hnth Hstep.
  destruct (held_set_nth ts i t t' Hnth) as [a [b [Hp1 Hp2]]].
  assert (Hrest : forall e, In e (a ++ b) -> In e (alog s)).
  { intros e He. apply Hh. rewrite Hp1. apply in_app_or in He. apply in_or_app. destruct He; [left; assumption|].
    right. apply in_or_app. right. assumption. }
  assert (Hassign : forall p, assign atomic cap s p = (s', t') -> held1 t = [] -> InvP s' (set_nth i t' ts)).
  { intros p Ha Ht. unfold assign in Ha.
    assert (Hlog : map e_seq (alog s ++ [mkEntry (next_seq s + 1) p]) = map Z.of_nat (seq 1 (length (alog s ++ [mkEntry (next_seq s + 1) p])))
                   /\ next_seq s + 1 = Z.of_nat (length (alog s ++ [mkEntry (next_seq s + 1) p]))).
    { rewrite app_length, Nat.add_comm. cbn [length plus]. rewrite seq_snoc, map_app, Hl. cbn [map e_seq]. split; [|lia].
      f_equal. f_equal. lia. }
    destruct atomic; inversion Ha; subst s' t'; clear Ha.
    - unfold InvP. rewrite enqueue_alog, enqueue_next. cbn [alog next_seq]. rewrite Hp2. cbn [held1 app].
      split; [|split; [|split; [|exact Hlog]]].
      + intros e He. apply enqueue_queue_in in He. cbn [sent chan] in He. apply in_or_app. destruct He as [He|He]; [left; auto|right; left; auto].
      + intros e He. apply in_or_app. left. auto.
      + intros x Hx. apply enqueue_dropped_in in Hx. cbn [dropped] in Hx. rewrite map_app. apply in_or_app.
        destruct Hx as [Hx|Hx]; [left; auto|right; left; auto].
    - unfold InvP. cbn [alog next_seq sent chan dropped]. rewrite Hp2. cbn [held1].
      split; [|split; [|split; [|exact Hlog]]].
      + intros e He. apply in_or_app. left. auto.
      + intros e He. apply in_or_app. apply in_app_or in He. destruct He as [He|He]; [left; apply Hrest; apply in_or_app; auto|].
        cbn [app] in He. destruct He as [He|He]; [right; left; auto|left; apply Hrest; apply in_or_app; auto].
      + intros x Hx. rewrite map_app. apply in_or_app. left. auto. }
  destruct t as [w|ws p|sq p|]; cbn [wstep] in Hstep; try discriminate.
  - destruct (w_kind w) eqn:Ek; inversion Hstep as [Ha]; clear Hstep.
    + eapply Hassign; [exact Ha|reflexivity].
    + subst s' t'. unfold InvP. cbn [alog next_seq sent chan dropped]. rewrite Hp2. cbn [held1 app] in *.
      repeat split; auto.
    + subst s' t'. unfold InvP. cbn [alog next_seq sent chan dropped]. rewrite Hp2. cbn [held1 app] in *.
      repeat split; auto.
  - inversion Hstep as [Ha]. eapply Hassign; [exact Ha|reflexivity].
  - inversion Hstep; subst s' t'; clear Hstep. cbn [held1] in Hp1, Hp2.
    assert (Hin : In (mkEntry sq p) (alog s)).
    { apply Hh. rewrite Hp1. apply in_or_app. right. left. reflexivity. }
    unfold InvP. rewrite enqueue_alog, enqueue_next. rewrite Hp2. cbn [app].
    split; [|split; [|split; [|split; assumption]]].
    + intros e He. apply enqueue_queue_in in He. destruct He as [He|He]; [auto|subst; exact Hin].
    + exact Hrest.
    + intros x Hx. apply enqueue_dropped_in in Hx. destruct Hx as [Hx|Hx]; [auto|]. subst x.
      change sq with (e_seq (mkEntry sq p)). apply in_map. exact Hin.
Qed.

Lemma reach_invP : forall atomic excl cap s ts, reach atomic excl cap s ts -> InvP s ts.
Proof.
  intros atomic excl cap s ts H. induction H.
  - unfold InvP. cbn. repeat split; auto; intros ? [].
  - destruct IHreach as [Hq [Hh R]]. split; [exact Hq|split; [|exact R]].
    unfold held. rewrite flat_map_app. cbn. rewrite app_nil_r. exact Hh.
  - eapply invP_step; eassumption.
  - destruct IHreach as [Hq [Hh [Hd R]]]. unfold dstep in H0. destruct (chan s) as [|e r] eqn:E; [discriminate|].
    inversion H0; subst s'; clear H0. unfold InvP. cbn [alog sent chan dropped next_seq].
    split; [|split; [exact Hh|split; [exact Hd|exact R]]].
    intros e0 He. apply Hq. rewrite <- app_assoc in He. exact He.
Qed.

(* schedules run by the executable interpreter are reachable configurations *)
Lemma run_sched_reach : forall atomic excl cap sch s ts s' ts',
  reach atomic excl cap s ts ->
  run_sched atomic excl cap s ts sch = Some (s', ts') ->
  reach atomic excl cap s' ts'.
Proof.
  intros atomic excl cap. induction sch as [|it sch IH]; intros s ts s' ts' Hr Hrun; cbn [run_sched] in Hrun.
  - inversion Hrun; subst. exact Hr.
  - destruct it as [i|].
    + destruct (nth_error ts i) as [t|] eqn:En; [|discriminate].
      destruct (excl && is_assign t && negb (match pend ts with [] => true | _ => false end)) eqn:Eg; [discriminate|].
      destruct (wstep atomic cap s t) as [[s1 t1]|] eqn:Es; [|discriminate].
      eapply IH; [|exact Hrun]. eapply reach_thread; try eassumption.
      intros He Hi. rewrite He, Hi in Eg. cbn [andb] in Eg. destruct (pend ts); [reflexivity|discriminate].
    + destruct (dstep s) as [s1|] eqn:Ed; [|discriminate].
      eapply IH; [|exact Hrun]. eapply reach_dist; eassumption.
Qed.

Lemma reach_spawns : forall atomic excl cap ws, reach atomic excl cap w_init (map W0 ws).
Proof.
  intros atomic excl cap ws. induction ws as [|w ws IH] using rev_ind; [constructor|].
  rewrite map_app. cbn [map]. constructor. exact IH.
Qed.

Lemma run_reach : forall atomic excl cap ws sch s ts,
  run_sched atomic excl cap w_init (map W0 ws) sch = Some (s, ts) -> reach atomic excl cap s ts.
Proof. intros. eapply run_sched_reach; [apply reach_spawns|eassumption]. Qed.

(* ------------------------------------------------------------------------------------ *)
(* results about the writer                                                               *)
(* ------------------------------------------------------------------------------------ *)

(* every schedule, racy or not: each sequence number 1..next is in exactly one place, none repeats *)
Lemma writer_exactly_once : forall atomic excl cap s ts, reach atomic excl cap s ts ->
  forall x, cnt x s ts = if in_range x (next_seq s) then 1%nat else 0%nat.
Proof. intros atomic excl cap s ts H. apply (reach_invU _ _ _ _ _ H). Qed.

Lemma writer_order_safe : forall atomic excl cap s ts,
  (atomic = true \/ excl = true) -> reach atomic excl cap s ts -> StronglySorted Z.lt (queued s).
Proof. intros atomic excl cap s ts Hm H. apply (reach_invS _ _ _ _ _ Hm H). Qed.

Lemma atomic_no_pending : forall excl cap s ts, reach true excl cap s ts -> pend ts = [].
Proof.
  intros excl cap s ts H. destruct (reach_invS true excl cap s ts (or_introl eq_refl) H) as [_ [Hp|[Hf _]]];
    [exact Hp|discriminate].
Qed.

Lemma send_all_cons : forall c meta st e r,
  send_all c meta st (e :: r) = snd (send_one c meta st e) ++ send_all c meta (fst (send_one c meta st e)) r.
Proof. intros. cbn [send_all]. destruct (send_one c meta st e). reflexivity. Qed.

(* the refutation witness: two direct writers, assign 1, assign 2, enqueue 2, enqueue 1, both sent *)
Definition race_progs : list wprog := [mkProg KDirect [1%N]; mkProg KDirect [2%N]].
Definition race_sched : list sitem := [SW 0; SW 1; SW 1; SW 0; SD; SD].
Definition race_state : wstate := mkW 0 2 [] [] [mkEntry 2 [2%N]; mkEntry 1 [1%N]] [mkEntry 1 [1%N]; mkEntry 2 [2%N]].

Lemma race_run : run_sched false false 10 w_init (map W0 race_progs) race_sched = Some (race_state, [WDone; WDone]).
Proof. vm_compute. reflexivity. Qed.

Lemma race_reach : reach false false 10 race_state [WDone; WDone].
Proof. eapply run_reach. exact race_run. Qed.

Lemma race_not_sorted : ~ StronglySorted Z.lt (queued race_state).
Proof.
  intro H. apply increasing_spec in H. vm_compute in H. discriminate.
Qed.

Lemma writer_order_refuted :
  ~ (forall cap s ts, reach false false cap s ts -> StronglySorted Z.lt (queued s)).
Proof. intro H. apply race_not_sorted. eapply H. exact race_reach. Qed.

(* ...and the receiver, fed the unedited stream of that run, drops the healthy connection *)
Lemma race_drops_connection : forall sc rc meta, configs_agree sc rc -> fresh rc meta ->
  let r := recv rc 0 [] [] (send_all sc meta ss_init (sent race_state)) in
  rr_reason r = RSeq /\ applied r = [mkEntry 2 [2%N]].
Proof.
  intros sc rc meta Hag Hfr. pose proof Hag as [Hk [Hs Hc]].
  cbn [race_state sent]. rewrite !send_all_cons. cbn [send_all]. unfold send_one.
  cbn [e_seq e_payload ss_init ss_cum ss_count ss_ncp].
  destruct (sc_interval sc <=? 0 + 1) eqn:E1; cbn [fst snd ss_cum ss_count ss_ncp app].
  - rewrite E1. cbn [fst snd app recv]. rewrite Hk, tag_check_genuine. cbn [pop fst snd Z.leb Z.compare app].
    rewrite (cp_check_genuine sc rc meta _ _ _ Hag Hfr). cbn [recv]. rewrite tag_check_genuine.
    cbn. auto.
  - destruct (sc_interval sc <=? 0 + 1 + 1); cbn [fst snd app recv]; rewrite Hk, !tag_check_genuine; cbn; auto.
Qed.

(* ------------------------------------------------------------------------------------ *)
(* end to end, corrected protocol                                                         *)
(* ------------------------------------------------------------------------------------ *)

Lemma queued_positive : forall atomic excl cap s ts, reach atomic excl cap s ts ->
  forall x, In x (queued s) -> 0 < x.
Proof.
  intros atomic excl cap s ts H x Hx. pose proof (cnt_queued_in x s Hx) as H1.
  pose proof (writer_exactly_once _ _ _ _ _ H x) as Hc. unfold cnt, in_range in Hc.
  destruct (0 <? x) eqn:E1; [lia|]. cbn [andb] in Hc. lia.
Qed.

Lemma complete : forall excl cap s ts sc rc meta k,
  reach true excl cap s ts -> configs_agree sc rc -> fresh rc meta ->
  let full := recv rc 0 [] [] (send_all sc meta ss_init (sent s)) in
  let part := recv rc 0 [] [] (firstn k (send_all sc meta ss_init (sent s))) in
  (* nothing is dropped, whole stream: exactly the queued entries, in order *)
  rr_reason full = RClosed /\ applied full = sent s /\
  StronglySorted Z.lt (map e_seq (applied full)) /\
  (* at any moment of the connection: no drop, a prefix has been applied *)
  rr_reason part = RClosed /\ is_prefix (applied part) (sent s) /\
  (* every sequence number handed out is applied, still queued, or was reported dropped - exactly once *)
  (forall x, (countZ x (map e_seq (applied full)) + countZ x (map e_seq (chan s)) + countZ x (dropped s))%nat
             = if in_range x (next_seq s) then 1%nat else 0%nat).
Proof.
  intros excl cap s ts sc rc meta k Hr Hag Hfr.
  assert (Hs : StronglySorted Z.lt (0 :: map e_seq (sent s))).
  { pose proof (writer_order_safe _ _ _ _ _ (or_introl eq_refl) Hr) as Hq. unfold queued in Hq.
    rewrite map_app in Hq. pose proof (ssorted_app_l _ _ Hq) as Hs. constructor; [exact Hs|].
    apply Forall_forall. intros x Hx. eapply queued_positive; [exact Hr|].
    unfold queued. rewrite map_app. apply in_or_app. left. exact Hx. }
  destruct (recv_honest_full sc rc meta Hag Hfr (sent s) ss_init 0 [] eq_refl Hs) as [F1 [F2 F3]].
  destruct (recv_honest_prefix sc rc meta Hag Hfr (sent s) ss_init 0 [] k eq_refl Hs) as [P1 P2].
  cbn zeta. cbn [ss_init ss_cum] in *. rewrite F2.
  repeat split; try assumption.
  - apply StronglySorted_inv in Hs. tauto.
  - intro x. pose proof (writer_exactly_once _ _ _ _ _ Hr x) as Hc. unfold cnt in Hc.
    rewrite (atomic_no_pending _ _ _ _ Hr) in Hc. cbn [countZ] in Hc. lia.
Qed.

(* ------------------------------------------------------------------------------------ *)
(* the executable soundness oracle is implied by the theorem on every agreeing case      *)
(* ------------------------------------------------------------------------------------ *)

Definition oatt_of (a : attempt) : oatt := (a_pre a, e_payload (a_entry a), a_ok a).
Definition first_pre (atts : list oatt) (final : Z) : Z :=
  match atts with [] => final | (pre, _, _) :: _ => pre end.

Lemma obs_applied_cons : forall pre p ok r final,
  obs_applied ((pre, p, ok) :: r) final =
  if ok then mkEntry (first_pre r final) p :: obs_applied r final else obs_applied r final.
Proof. intros. cbn [obs_applied]. destruct r as [|[[pre' p'] ok'] r]; reflexivity. Qed.

Lemma recv_obs : forall c fs last cum aok,
  let r := recv c last cum aok fs in
  first_pre (map oatt_of (rr_atts r)) (rr_last r) = last /\
  obs_applied (map oatt_of (rr_atts r)) (rr_last r) = applied r.
Proof.
  intros c. induction fs as [|f fs IH]; intros last cum aok; cbn zeta; [cbn; auto|].
  assert (Hstop : forall why, first_pre (map oatt_of (rr_atts (stop last why))) (rr_last (stop last why)) = last /\
                              obs_applied (map oatt_of (rr_atts (stop last why))) (rr_last (stop last why)) = applied (stop last why)).
  { intro why. cbn. auto. }
  destruct f; cbn [recv]; try apply Hstop.
  - destruct (tag_check (rc_key c) s p t); [apply Hstop|].
    destruct (s <=? last); [apply Hstop|].
    set (ok := fst (pop aok)).
    specialize (IH (if ok then s else last) (cum ++ p) (snd (pop aok))). cbn zeta in IH. destruct IH as [IH1 IH2].
    rewrite applied_more. cbn [more rr_atts rr_last app map]. unfold oatt_of at 1 3. cbn [a_pre a_entry a_ok e_payload].
    split; [reflexivity|]. rewrite obs_applied_cons, IH1, IH2. cbn [filter a_ok].
    destruct ok; reflexivity.
  - destruct (cp_check c last cum c0); [apply Hstop|].
    specialize (IH last cum aok). cbn zeta in IH. destruct IH as [IH1 IH2].
    rewrite applied_more. cbn [more rr_atts rr_last app map filter]. auto.
  - destruct parses; apply Hstop.
Qed.

Lemma list_eqb_oatt : forall atts obs, list_eqb oatt_eqb atts obs = true -> map oatt_of atts = obs.
Proof.
  induction atts as [|a atts IH]; destruct obs as [|o obs]; cbn [list_eqb map]; intro H; try discriminate; [reflexivity|].
  apply andb_true_iff in H. destruct H as [H1 H2]. rewrite (IH _ H2). f_equal.
  unfold oatt_eqb in H1. destruct o as [[pre p] ok].
  apply andb_true_iff in H1. destruct H1 as [H1 H3]. apply andb_true_iff in H1. destruct H1 as [H1 H4].
  apply Z.eqb_eq in H1. apply bytes_eqb_eq in H4. apply Bool.eqb_prop in H3. unfold oatt_of. congruence.
Qed.

Lemma agreeing_receiver_sound : forall c,
  case_unforgeable c = true -> receiver_agrees c = true ->
  let app := obs_applied (o_atts c) (o_last c) in
  forallb (fun e => existsb (entry_eqb e) (genuine c)) app && sorted_from (c_last0 c) (map e_seq app) = true.
Proof.
  intros c Hu Ha. unfold receiver_agrees in Ha. cbn zeta in Ha.
  repeat (apply andb_true_iff in Ha; destruct Ha as [Ha ?]).
  apply list_eqb_oatt in Ha.
  match goal with Hl : (rr_last _ =? o_last c) = true |- _ => apply Z.eqb_eq in Hl; rename Hl into Hlast end.
  pose proof (recv_obs (c_rcfg c) (c_wire c) (c_last0 c) [] (c_aok c)) as Ho. cbn zeta in Ho. destruct Ho as [_ Ho].
  rewrite Ha, Hlast in Ho. cbn zeta. rewrite Ho.
  destruct (applied_sound (c_rcfg c) (genuine c) (c_wire c) (c_last0 c) [] (c_aok c) (case_unforgeable_spec c Hu)) as [S1 [S2 _]].
  apply andb_true_iff. split.
  - apply forallb_forall. intros e He. rewrite Forall_forall in S1. apply existsb_exists. exists e.
    split; [apply S1; exact He|apply entry_eqb_eq; reflexivity].
  - apply sorted_from_spec. exact S2.
Qed.
