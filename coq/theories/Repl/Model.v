(* C24 - model of the WAL replication stream.

   Writer side (internal/wal/wal.go AppendRaw / AppendRawWithMeta replication hook,
   internal/cluster/coordinator.go hook wiring, internal/cluster/replication/sender.go
   Replicate / distributionLoop / sendToReader / emitCheckpointLocked) as an interleaving
   system: any number of writer threads, each a list of atomic steps over the shared state

     W0 --(wal: w.mu.Lock; w.sequence++; Unlock)--> W1 --(Sender.Replicate: s.sequence.Add(1))-->
     W2 --(select { case s.entryChan <- entry: default: drop+report })--> WDone

   (a thread that calls Sender.Replicate directly starts at the second step), plus the
   distribution loop that moves the head of the channel to the wire.  The sequence number
   that travels is the one assigned by Sender.Replicate (it overwrites the number the WAL
   assigned).  `atomic = true` is the corrected protocol: sequence assignment and the channel
   send are ONE critical section.

   Receiver side (receiver.go receiveLoop / applyEntry, security/auth.go per-entry tag and
   checkpoint validators): a loop over the frames that arrive, in the order and with the
   checks of the code.  MAC and hash are idealised: a tag is the triple it was computed over,
   under the key it was computed with; a hash is the byte string it was computed over.

   Only executable definitions live here; proofs are in Proofs.v. *)
From Coq Require Import List ZArith NArith Bool.
Import ListNotations.
Open Scope Z_scope.

Definition payload := list N.
Record entry := mkEntry { e_seq : Z; e_payload : payload }.

Fixpoint bytes_eqb (a b : list N) : bool :=
  match a, b with
  | [], [] => true
  | x :: a', y :: b' => N.eqb x y && bytes_eqb a' b'
  | _, _ => false
  end.

Definition entry_eqb (a b : entry) : bool :=
  (e_seq a =? e_seq b) && bytes_eqb (e_payload a) (e_payload b).

(* ------------------------------------------------------------------------------------ *)
(* Writer side                                                                           *)
(* ------------------------------------------------------------------------------------ *)

Inductive wkind := KDirect | KWal | KWalMeta (db : list N).
Record wprog := mkProg { w_kind : wkind; w_data : payload }.

(* wal.AppendRawWithMeta: [0x01 marker][2-byte big-endian db length][db][payload] *)
Definition envelope (db p : list N) : payload :=
  1%N :: (N.of_nat (length db) / 256)%N :: (N.of_nat (length db) mod 256)%N :: db ++ p.

Definition rep_payload (w : wprog) : payload :=
  match w_kind w with
  | KWalMeta db => envelope db (w_data w)
  | _ => w_data w
  end.

Inductive wpc :=
| W0 (w : wprog)
| W1 (wseq : Z) (p : payload)     (* wal: w.sequence++ done under w.mu, hook not yet called *)
| W2 (seq : Z) (p : payload)      (* Sender.Replicate: sequence assigned, entry not yet offered to entryChan *)
| WDone.

Record wstate := mkW {
  wal_seq : Z;                    (* wal.Writer.sequence *)
  next_seq : Z;                   (* Sender.sequence *)
  chan : list entry;              (* Sender.entryChan, head = oldest *)
  dropped : list Z;               (* sequences reported as dropped (buffer full), in report order *)
  sent : list entry;              (* entries taken by distributionLoop and written to the reader, in order *)
  alog : list entry               (* ghost: (sequence, payload handed to Sender.Replicate) in assignment order *)
}.

Definition w_init : wstate := mkW 0 0 [] [] [] [].

(* select { case s.entryChan <- entry: default: totalEntriesDropped++, log sequence } *)
Definition enqueue (cap : Z) (s : wstate) (seq : Z) (p : payload) : wstate :=
  if Z.of_nat (length (chan s)) <? cap
  then mkW (wal_seq s) (next_seq s) (chan s ++ [mkEntry seq p]) (dropped s) (sent s) (alog s)
  else mkW (wal_seq s) (next_seq s) (chan s) (dropped s ++ [seq]) (sent s) (alog s).

(* entry.Sequence = s.sequence.Add(1); in the corrected protocol the channel send happens in
   the same critical section *)
Definition assign (atomic : bool) (cap : Z) (s : wstate) (p : payload) : wstate * wpc :=
  let seq := next_seq s + 1 in
  let s1 := mkW (wal_seq s) seq (chan s) (dropped s) (sent s) (alog s ++ [mkEntry seq p]) in
  if atomic then (enqueue cap s1 seq p, WDone) else (s1, W2 seq p).

Definition wstep (atomic : bool) (cap : Z) (s : wstate) (t : wpc) : option (wstate * wpc) :=
  match t with
  | W0 w =>
      match w_kind w with
      | KDirect => Some (assign atomic cap s (w_data w))
      | _ => Some (mkW (wal_seq s + 1) (next_seq s) (chan s) (dropped s) (sent s) (alog s),
                   W1 (wal_seq s + 1) (rep_payload w))
      end
  | W1 _ p => Some (assign atomic cap s p)
  | W2 seq p => Some (enqueue cap s seq p, WDone)
  | WDone => None
  end.

(* distributionLoop: entry := <-s.entryChan; broadcastEntry(entry) *)
Definition dstep (s : wstate) : option wstate :=
  match chan s with
  | [] => None
  | e :: r => Some (mkW (wal_seq s) (next_seq s) r (dropped s) (sent s ++ [e]) (alog s))
  end.

(* is the next step of this thread the sequence assignment of Sender.Replicate? *)
Definition is_assign (t : wpc) : bool :=
  match t with
  | W0 w => match w_kind w with KDirect => true | _ => false end
  | W1 _ _ => true
  | _ => false
  end.

(* sequences held by threads between assignment and enqueue *)
Definition pend1 (t : wpc) : list Z := match t with W2 s _ => [s] | _ => [] end.
Definition pend (ts : list wpc) : list Z := flat_map pend1 ts.

Fixpoint set_nth {A} (i : nat) (x : A) (l : list A) : list A :=
  match l, i with
  | [], _ => []
  | _ :: r, O => x :: r
  | y :: r, S i' => y :: set_nth i' x r
  end.

(* a schedule: which thread (or the distribution loop) takes its next step *)
Inductive sitem := SW (i : nat) | SD.

Fixpoint run_sched (atomic excl : bool) (cap : Z) (s : wstate) (ts : list wpc) (sch : list sitem)
  : option (wstate * list wpc) :=
  match sch with
  | [] => Some (s, ts)
  | SW i :: r =>
      match nth_error ts i with
      | Some t =>
          if excl && is_assign t && negb (match pend ts with [] => true | _ => false end) then None
          else match wstep atomic cap s t with
               | Some (s', t') => run_sched atomic excl cap s' (set_nth i t' ts) r
               | None => None
               end
      | None => None
      end
  | SD :: r =>
      match dstep s with
      | Some s' => run_sched atomic excl cap s' ts r
      | None => None
      end
  end.

(* ------------------------------------------------------------------------------------ *)
(* Frames on the wire                                                                    *)
(* ------------------------------------------------------------------------------------ *)

(* per-entry tag; idealised MAC: TagMac k s p is the tag computed under key k over (s, p) *)
Inductive tag :=
| TagMissing                      (* Tag == "" *)
| TagBadLen                       (* len(Tag) != 2*ReplicationEntryTagLen *)
| TagBadHex                       (* right length, not hex *)
| TagJunk                         (* well-formed, not produced by any MAC computation we know of *)
| TagMac (key : N) (seq : Z) (p : payload).

(* idealised SHA-256: a digest is the byte string it was computed over *)
Inductive hashv := HashOf (content : list N) | HashJunk | HashBadLen | HashBadHex.

(* idealised full HMAC of a checkpoint: the tuple it was computed over, under `secret` *)
Inductive cpmac :=
| MacOf (secret nonce sender cluster : N) (content : list N) (last ts : Z)
| MacJunk.

Record checkpoint := mkCp {
  cp_cluster : N; cp_sender : N; cp_nonce : N; cp_last : Z; cp_hash : hashv; cp_ts : Z; cp_mac : cpmac }.

Inductive frame :=
| FEntry (s : Z) (p : payload) (t : tag)   (* MsgReplicateEntry that parses *)
| FEntryBad                                (* MsgReplicateEntry whose JSON does not parse *)
| FCp (c : checkpoint)                     (* MsgReplicateCheckpoint that parses *)
| FCpBad
| FErr (parses : bool)                     (* MsgReplicateError *)
| FOther                                   (* any other message type *)
| FBroken.                                 (* framing error: ReadMessage fails *)

(* ------------------------------------------------------------------------------------ *)
(* Sender: per-reader stream (sendToReader + emitCheckpointLocked)                       *)
(* ------------------------------------------------------------------------------------ *)

Record scfg := mkS { sc_key : N; sc_secret : N; sc_cluster : N; sc_node : N; sc_interval : Z }.
Record sstate := mkSS { ss_cum : list N; ss_count : Z; ss_ncp : nat }.
Definition ss_init : sstate := mkSS [] 0 0%nat.

Definition genuine_cp (c : scfg) (cum : list N) (last : Z) (nonce : N) (ts : Z) : checkpoint :=
  mkCp (sc_cluster c) (sc_node c) nonce last (HashOf cum) ts
       (MacOf (sc_secret c) nonce (sc_node c) (sc_cluster c) cum last ts).

(* meta k = (nonce, unix timestamp) of the k-th checkpoint the sender emits *)
Definition send_one (c : scfg) (meta : nat -> N * Z) (st : sstate) (e : entry) : sstate * list frame :=
  let cum := ss_cum st ++ e_payload e in
  let cnt := ss_count st + 1 in
  let f := FEntry (e_seq e) (e_payload e) (TagMac (sc_key c) (e_seq e) (e_payload e)) in
  if sc_interval c <=? cnt
  then (mkSS cum 0 (S (ss_ncp st)),
        [f; FCp (genuine_cp c cum (e_seq e) (fst (meta (ss_ncp st))) (snd (meta (ss_ncp st))))])
  else (mkSS cum cnt (ss_ncp st), [f]).

Fixpoint send_all (c : scfg) (meta : nat -> N * Z) (st : sstate) (es : list entry) : list frame :=
  match es with
  | [] => []
  | e :: r => let '(st', fs) := send_one c meta st e in fs ++ send_all c meta st' r
  end.

(* ------------------------------------------------------------------------------------ *)
(* Receiver: receiveLoop                                                                  *)
(* ------------------------------------------------------------------------------------ *)

Inductive reason :=
| RClosed                          (* read error / end of stream: "Connection closed" *)
| RParse | RTagMissing | RTagLen | RTagHex | RTagMac | RSeq
| RCpParse | RCpCluster | RCpSeq | RCpHashLen | RCpHashHex | RCpHash | RCpMac
| RErrParse | RErrFrame | ROther.

Record rcfg := mkR { rc_key : N; rc_secret : N; rc_cluster : N; rc_now : Z; rc_tol : Z }.

(* one call of applyEntry: lastSeq before the call, the entry, whether it succeeded *)
Record attempt := mkAtt { a_pre : Z; a_entry : entry; a_ok : bool }.

Record rres := mkRes { rr_atts : list attempt; rr_last : Z; rr_reason : reason; rr_used : nat }.

Definition applied (r : rres) : list entry := map a_entry (filter a_ok (rr_atts r)).

Definition stop (last : Z) (why : reason) : rres := mkRes [] last why 1.
Definition more (a : list attempt) (r : rres) : rres :=
  mkRes (a ++ rr_atts r) (rr_last r) (rr_reason r) (S (rr_used r)).

(* entry.Tag == "" / length / hex.Decode / ValidateReplicationEntryTagWithMAC *)
Definition tag_check (key : N) (s : Z) (p : payload) (t : tag) : option reason :=
  match t with
  | TagMissing => Some RTagMissing
  | TagBadLen => Some RTagLen
  | TagBadHex => Some RTagHex
  | TagJunk => Some RTagMac
  | TagMac k s' p' => if N.eqb k key && (s' =? s) && bytes_eqb p' p then None else Some RTagMac
  end.

Definition mac_ok (c : rcfg) (k : checkpoint) (h : list N) : bool :=
  match cp_mac k with
  | MacOf sec n sd cl h' l t =>
      N.eqb sec (rc_secret c) && N.eqb n (cp_nonce k) && N.eqb sd (cp_sender k) &&
      N.eqb cl (cp_cluster k) && bytes_eqb h' h && (l =? cp_last k) && (t =? cp_ts k)
  | MacJunk => false
  end.

(* the MsgReplicateCheckpoint branch, in the order of the code *)
Definition cp_check (c : rcfg) (last : Z) (cum : list N) (k : checkpoint) : option reason :=
  if negb (N.eqb (cp_cluster k) (rc_cluster c)) then Some RCpCluster
  else if negb (cp_last k =? last) then Some RCpSeq
  else match cp_hash k with
       | HashBadLen => Some RCpHashLen
       | HashBadHex => Some RCpHashHex
       | HashJunk => Some RCpHash
       | HashOf h =>
           if negb (bytes_eqb h cum) then Some RCpHash
           else if rc_tol c <? Z.abs (rc_now c - cp_ts k) then Some RCpMac
           else if mac_ok c k h then None else Some RCpMac
       end.

(* outcome of the next applyEntry call (true when the script is exhausted) *)
Definition pop (aok : list bool) : bool * list bool :=
  match aok with [] => (true, []) | b :: r => (b, r) end.

Fixpoint recv (c : rcfg) (last : Z) (cum : list N) (aok : list bool) (fs : list frame) : rres :=
  match fs with
  | [] => mkRes [] last RClosed 0
  | f :: r =>
      match f with
      | FEntry s p t =>
          match tag_check (rc_key c) s p t with
          | Some why => stop last why
          | None =>
              if s <=? last then stop last RSeq
              else
                (* cumulativeHash.Write(payload); applyEntry; on failure `continue` without
                   advancing lastSeq *)
                let ok := fst (pop aok) in
                more [mkAtt last (mkEntry s p) ok]
                     (recv c (if ok then s else last) (cum ++ p) (snd (pop aok)) r)
          end
      | FEntryBad => stop last RParse
      | FCp k =>
          match cp_check c last cum k with
          | Some why => stop last why
          | None => more [] (recv c last cum aok r)
          end
      | FCpBad => stop last RCpParse
      | FErr true => stop last RErrFrame
      | FErr false => stop last RErrParse
      | FOther => stop last ROther
      | FBroken => stop last RClosed
      end
  end.

(* ------------------------------------------------------------------------------------ *)
(* Executable spec predicates and the correspondence case                                *)
(* ------------------------------------------------------------------------------------ *)

Fixpoint sorted_from (prev : Z) (l : list Z) : bool :=
  match l with
  | [] => true
  | x :: r => (prev <? x) && sorted_from x r
  end.
Definition increasing (l : list Z) : bool :=
  match l with [] => true | x :: r => sorted_from x r end.

Fixpoint countZ (x : Z) (l : list Z) : nat :=
  match l with
  | [] => O
  | y :: r => if x =? y then S (countZ x r) else countZ x r
  end.

(* every sequence number 1..n occurs exactly once in l, and nothing else occurs *)
Fixpoint each_once (n : nat) (l : list Z) : bool :=
  match n with
  | O => true
  | S n' => Nat.eqb (countZ (Z.of_nat n) l) 1 && each_once n' l
  end.
Definition exactly_1_to (n : Z) (l : list Z) : bool :=
  each_once (Z.to_nat n) l && Nat.eqb (length l) (Z.to_nat n).

Fixpoint list_eqb {A B} (eqb : A -> B -> bool) (a : list A) (b : list B) : bool :=
  match a, b with
  | [], [] => true
  | x :: a', y :: b' => eqb x y && list_eqb eqb a' b'
  | _, _ => false
  end.

Definition tag_eqb (a b : tag) : bool :=
  match a, b with
  | TagMissing, TagMissing | TagBadLen, TagBadLen | TagBadHex, TagBadHex | TagJunk, TagJunk => true
  | TagMac k s p, TagMac k' s' p' => N.eqb k k' && (s =? s') && bytes_eqb p p'
  | _, _ => false
  end.
Definition hashv_eqb (a b : hashv) : bool :=
  match a, b with
  | HashOf x, HashOf y => bytes_eqb x y
  | HashJunk, HashJunk | HashBadLen, HashBadLen | HashBadHex, HashBadHex => true
  | _, _ => false
  end.
Definition cpmac_eqb (a b : cpmac) : bool :=
  match a, b with
  | MacOf a1 a2 a3 a4 h l t, MacOf b1 b2 b3 b4 h' l' t' =>
      N.eqb a1 b1 && N.eqb a2 b2 && N.eqb a3 b3 && N.eqb a4 b4 && bytes_eqb h h' && (l =? l') && (t =? t')
  | MacJunk, MacJunk => true
  | _, _ => false
  end.
Definition cp_eqb (a b : checkpoint) : bool :=
  N.eqb (cp_cluster a) (cp_cluster b) && N.eqb (cp_sender a) (cp_sender b) &&
  N.eqb (cp_nonce a) (cp_nonce b) && (cp_last a =? cp_last b) && hashv_eqb (cp_hash a) (cp_hash b) &&
  (cp_ts a =? cp_ts b) && cpmac_eqb (cp_mac a) (cp_mac b).
Definition frame_eqb (a b : frame) : bool :=
  match a, b with
  | FEntry s p t, FEntry s' p' t' => (s =? s') && bytes_eqb p p' && tag_eqb t t'
  | FCp x, FCp y => cp_eqb x y
  | FEntryBad, FEntryBad | FCpBad, FCpBad | FOther, FOther | FBroken, FBroken => true
  | FErr x, FErr y => Bool.eqb x y
  | _, _ => false
  end.

(* what the harness can tell about the reason the real receiveLoop returned *)
Inductive obs_reason := OReason (r : reason) | ODropUnknown.
Definition reason_code (r : reason) : nat :=
  match r with
  | RClosed => 0 | RParse => 1 | RTagMissing => 2 | RTagLen => 3 | RTagHex => 4 | RTagMac => 5 | RSeq => 6
  | RCpParse => 7 | RCpCluster => 8 | RCpSeq => 9 | RCpHashLen => 10 | RCpHashHex => 11 | RCpHash => 12
  | RCpMac => 13 | RErrParse => 14 | RErrFrame => 15 | ROther => 16
  end%nat.
Definition reason_eqb (a b : reason) : bool := Nat.eqb (reason_code a) (reason_code b).
Definition reason_matches (o : obs_reason) (m : reason) : bool :=
  match o with
  | OReason r => reason_eqb r m
  | ODropUnknown => negb (reason_eqb m RClosed)   (* a drop whose log line the harness does not know *)
  end.

(* observed applyEntry call: lastSeq before the call, payload, success *)
Definition oatt := (Z * payload * bool)%type.
Definition oatt_eqb (a : attempt) (o : oatt) : bool :=
  let '(pre, p, ok) := o in
  (a_pre a =? pre) && bytes_eqb (e_payload (a_entry a)) p && Bool.eqb (a_ok a) ok.

(* The ingest handler sees payloads only; the sequence of an applied entry is the value
   lastSeq holds afterwards = lastSeq before the next call (or the final lastSeq). *)
Fixpoint obs_applied (atts : list oatt) (final : Z) : list entry :=
  match atts with
  | [] => []
  | (pre, p, ok) :: r =>
      let nxt := match r with [] => final | (pre', _, _) :: _ => pre' end in
      if ok then mkEntry nxt p :: obs_applied r final else obs_applied r final
  end.

Record ccase := mkCase {
  (* writer side: configuration, threads, forced schedule *)
  c_atomic : bool;                (* the implementation serialises assign+enqueue (probed by the harness) *)
  c_cap : Z; c_scfg : scfg;
  c_progs : list wprog; c_sched : list sitem;
  c_meta : list (N * Z);          (* nonce id and timestamp of the checkpoints the real sender emitted *)
  (* observed on the real Sender / wal.Writer *)
  o_frames : list frame;          (* frames read from the reader connection, in order *)
  o_chan : list entry;            (* entries left in entryChan when the schedule ended *)
  o_dropped : list Z;             (* sequences reported dropped, in report order *)
  o_walseq : Z; o_nextseq : Z;
  o_assigned : list Z;            (* per writer thread: the sequence Sender.Replicate gave to its entry *)
  (* receiver side: configuration, what the wire adversary delivers *)
  c_rcfg : rcfg; c_last0 : Z; c_aok : list bool;
  c_honest : bool;                (* the wire is exactly o_frames *)
  c_wire : list frame;
  (* observed on the real Receiver *)
  o_atts : list oatt; o_last : Z; o_reason : obs_reason; o_used : Z; o_errors : Z
}.

Definition meta_fn (l : list (N * Z)) (k : nat) : N * Z := nth k l (0%N, 0).

Definition entries_of (fs : list frame) : list entry :=
  flat_map (fun f => match f with
                     | FEntry s p (TagMac _ _ _) => [mkEntry s p]
                     | _ => [] end) fs.

(* what each writer appended, keyed by the sequence the implementation reported for it: the
   payload handed to the WAL (enveloped for AppendRawWithMeta) - computed from the INPUTS of the
   writers, not from anything the sender put on the wire *)
Definition appended (c : ccase) : list entry :=
  map (fun ws => mkEntry (snd ws) (rep_payload (fst ws))) (combine (c_progs c) (o_assigned c)).

Definition all_done (ts : list wpc) : bool :=
  forallb (fun t => match t with WDone => true | _ => false end) ts.

(* model = implementation on the writer side *)
Definition writer_agrees (c : ccase) : bool :=
  match run_sched (c_atomic c) false (c_cap c) w_init (map W0 (c_progs c)) (c_sched c) with
  | None => false
  | Some (s, ts) =>
      all_done ts &&
      list_eqb frame_eqb (send_all (c_scfg c) (meta_fn (c_meta c)) ss_init (sent s)) (o_frames c) &&
      list_eqb entry_eqb (chan s) (o_chan c) &&
      list_eqb Z.eqb (dropped s) (o_dropped c) &&
      (wal_seq s =? o_walseq c) && (next_seq s =? o_nextseq c) &&
      (* same (sequence, payload) assignments, as sets *)
      Nat.eqb (length (alog s)) (length (appended c)) &&
      forallb (fun e => existsb (entry_eqb e) (appended c)) (alog s)
  end.

Definition errors_of (r : rres) : Z :=
  Z.of_nat (length (filter (fun a => negb (a_ok a)) (rr_atts r)))
  + (if reason_eqb (rr_reason r) RClosed then 0 else 1).

(* model = implementation on the receiver side *)
Definition receiver_agrees (c : ccase) : bool :=
  let r := recv (c_rcfg c) (c_last0 c) [] (c_aok c) (c_wire c) in
  list_eqb oatt_eqb (rr_atts r) (o_atts c) &&
  (rr_last r =? o_last c) && reason_matches (o_reason c) (rr_reason r) &&
  (Z.of_nat (rr_used r) =? o_used c) && (errors_of r =? o_errors c).

Definition case_agrees (c : ccase) : bool :=
  writer_agrees c && receiver_agrees c &&
  (if c_honest c then list_eqb frame_eqb (c_wire c) (o_frames c) else true).

(* ---- spec oracles, evaluated on what the IMPLEMENTATION did ------------------------- *)

(* entries the real sender MAC'd under the receiver's session key *)
Definition genuine (c : ccase) : list entry :=
  if N.eqb (sc_key (c_scfg c)) (rc_key (c_rcfg c)) then entries_of (o_frames c) else [].

(* soundness: whatever the adversary did, every applied entry was sent unmodified, in strictly
   increasing sequence order (hence at most once); every sequence 1..n was queued or reported
   dropped exactly once *)
Definition case_oracle_sound (c : ccase) : bool :=
  let app := obs_applied (o_atts c) (o_last c) in
  forallb (fun e => existsb (entry_eqb e) (genuine c)) app &&
  sorted_from (c_last0 c) (map e_seq app) &&
  exactly_1_to (o_nextseq c) (map e_seq (entries_of (o_frames c) ++ o_chan c) ++ o_dropped c).

(* the case is inside the idealised-MAC hypothesis: every tag on the wire that is a MAC under the
   receiver's session key was produced by the sender for an entry it sent (the harness's adversary
   never holds that key; this predicate is checked, not assumed) *)
Definition case_unforgeable (c : ccase) : bool :=
  forallb (fun f => match f with
                    | FEntry _ _ (TagMac k s p) =>
                        negb (N.eqb k (rc_key (c_rcfg c))) || existsb (entry_eqb (mkEntry s p)) (genuine c)
                    | _ => true
                    end) (c_wire c).

(* payload integrity, on the implementation's own output: every entry the sender wrote to the
   wire or left in its channel, and every entry the receiver applied, carries exactly the payload
   that was appended under that sequence (value semantics: a queued entry must not change) *)
Definition case_oracle_payload (c : ccase) : bool :=
  forallb (fun e => existsb (entry_eqb e) (appended c)) (entries_of (o_frames c) ++ o_chan c) &&
  (if N.eqb (sc_key (c_scfg c)) (rc_key (c_rcfg c)) && case_unforgeable c
   then forallb (fun e => existsb (entry_eqb e) (appended c)) (obs_applied (o_atts c) (o_last c))
   else true).

Definition all_true (l : list bool) : bool := forallb (fun b => b) l.

Definition cps_fresh (c : ccase) : bool :=
  forallb (fun m => Z.abs (rc_now (c_rcfg c) - snd m) <=? rc_tol (c_rcfg c)) (c_meta c).

(* order / completeness: the queue order is strictly increasing, and a healthy connection
   (unedited stream, matching keys, fresh clock, no apply failure) is never dropped and
   applies exactly what was sent *)
Definition case_queue_increasing (c : ccase) : bool :=
  increasing (map e_seq (entries_of (o_frames c) ++ o_chan c)).

Definition case_oracle_order (c : ccase) : bool :=
  case_queue_increasing c &&
  (if c_honest c && N.eqb (sc_key (c_scfg c)) (rc_key (c_rcfg c)) &&
      N.eqb (sc_secret (c_scfg c)) (rc_secret (c_rcfg c)) &&
      N.eqb (sc_cluster (c_scfg c)) (rc_cluster (c_rcfg c)) &&
      (c_last0 c =? 0) && all_true (c_aok c) && cps_fresh c
   then match o_reason c with OReason RClosed => true | _ => false end &&
        list_eqb entry_eqb (obs_applied (o_atts c) (o_last c)) (entries_of (o_frames c))
   else true).

Definition case_oracle (c : ccase) : bool := case_oracle_sound c && case_oracle_order c.

(* signature of the known defect: the schedule puts two writers between sequence assignment
   and enqueue at the same time (exactly the class excluded by the guarded theorem) *)
Definition case_exclusive (c : ccase) : bool :=
  match run_sched (c_atomic c) true (c_cap c) w_init (map W0 (c_progs c)) (c_sched c) with
  | Some _ => true
  | None => false
  end.
