(* C24 - The replicated WAL stream is ordered, gap-free and authenticated.
   Only property statements live here; proofs are in Proofs.v. *)
From Coq Require Import List ZArith NArith Bool Lia Sorted.
From Arc Require Import Repl.Model Repl.Proofs.
Import ListNotations.
Open Scope Z_scope.

(* ---- receiver, EVERY wire adversary --------------------------------------------------
   `wire` is an arbitrary list of frames (flipped, duplicated, dropped, reordered, spliced
   from other sessions, replayed checkpoints, malformed...).  The only assumption is the
   idealised MAC (`unforgeable`): a tag that verifies under the session key was computed by
   the sender over an entry it sent.  From ANY receiver state (lastSeq, running hash, script
   of apply failures): every applied entry was sent, unmodified; sequences strictly increase
   from lastSeq (hence each is applied at most once, nothing replayed or reordered); the final
   lastSeq is the sequence of the last applied entry. *)
Theorem C24_applied_sound : forall c snt wire last cum aok,
  unforgeable (rc_key c) snt wire ->
  let r := recv c last cum aok wire in
  Forall (fun e => In e snt) (applied r) /\
  StronglySorted Z.lt (last :: map e_seq (applied r)) /\
  NoDup (map e_seq (applied r)) /\
  rr_last r = last_of last (map e_seq (applied r)).
Proof. exact applied_sound. Qed.
Print Assumptions C24_applied_sound.

(* the hypothesis covers every edit of the frame list by an adversary who cannot mint tags: each
   tag under the session key found anywhere on the wire occurs in some frame the sender produced
   (it may have been moved to other fields, duplicated, reordered; payloads and sequence numbers may be
   rewritten freely; tags of other sessions and junk are unrestricted) *)
Theorem C24_unforgeable_covers_edits : forall c meta st es wire,
  (forall s p s' p', In (FEntry s p (TagMac (sc_key c) s' p')) wire ->
     exists s0 p0, In (FEntry s0 p0 (TagMac (sc_key c) s' p')) (send_all c meta st es)) ->
  unforgeable (sc_key c) es wire.
Proof. exact edits_unforgeable. Qed.
Print Assumptions C24_unforgeable_covers_edits.

(* ---- checkpoints ----------------------------------------------------------------------
   Whatever the adversary delivers (replayed, re-ordered, edited checkpoints included): a
   checkpoint is accepted only if it carries a MAC computed under the cluster shared secret over
   exactly the receiver's running payload content and its lastSeq, with a timestamp inside the
   tolerance window.  A replayed checkpoint is therefore accepted only while the receiver's
   state still equals the state it was issued for, and accepting it changes nothing (recv
   continues with the same lastSeq, content and script). *)
Theorem C24_checkpoint_binds : forall c last cum k,
  cp_check c last cum k = None ->
  exists n sd cl t, cp_mac k = MacOf (rc_secret c) n sd cl cum last t /\
                    Z.abs (rc_now c - t) <= rc_tol c /\ cp_cluster k = rc_cluster c /\ cp_hash k = HashOf cum.
Proof. exact cp_accept_binds. Qed.
Print Assumptions C24_checkpoint_binds.

(* ---- receiver, stream delivered in order ---------------------------------------------
   If the entries leave the sender in strictly increasing sequence order (above the receiver's
   lastSeq), keys/secret/cluster agree, the clocks are within tolerance and no apply fails,
   then for EVERY checkpoint interval and at EVERY cut point k of the connection the receiver
   has not dropped the connection and has applied a prefix of the sent entries; with the whole
   stream delivered it has applied exactly the sent entries, in order (no gap). *)
Theorem C24_gap_free_when_ordered : forall sc rc meta es st last aok k,
  configs_agree sc rc -> fresh rc meta -> all_true aok = true ->
  StronglySorted Z.lt (last :: map e_seq es) ->
  let part := recv rc last (ss_cum st) aok (firstn k (send_all sc meta st es)) in
  let full := recv rc last (ss_cum st) aok (send_all sc meta st es) in
  (rr_reason part = RClosed /\ is_prefix (applied part) es) /\
  (rr_reason full = RClosed /\ applied full = es /\ rr_last full = last_of last (map e_seq es)).
Proof.
  intros sc rc meta es st last aok k Ha Hf Hok Hs. split.
  - exact (recv_honest_prefix sc rc meta Ha Hf es st last aok k Hok Hs).
  - exact (recv_honest_full sc rc meta Ha Hf es st last aok Hok Hs).
Qed.
Print Assumptions C24_gap_free_when_ordered.

(* ---- writer, ALL schedules, any number of threads, both variants ------------------------
   Sequence numbers are never duplicated or lost: each number 1..next is in exactly one of
   {written to the wire, waiting in the channel, reported dropped, held by a writer between
   assignment and enqueue}. *)
Theorem C24_writer_seq_exactly_once : forall atomic excl cap s ts,
  reach atomic excl cap s ts ->
  forall x, cnt x s ts = if in_range x (next_seq s) then 1%nat else 0%nat.
Proof. exact writer_exactly_once. Qed.
Print Assumptions C24_writer_seq_exactly_once.

(* ---- payload integrity, ALL schedules, both variants ------------------------------------
   Every entry written to the wire or waiting in the channel is an entry of the assignment log:
   it carries exactly the payload that was handed to Sender.Replicate under its sequence (the
   model's queued entry is a VALUE; the implementation must not alias a buffer it reuses - the
   correspondence checks that on the implementation's own output with case_oracle_payload);
   dropped sequences were assigned; the log holds the sequences 1..next in order.  Together with
   C24_applied_sound: whatever the wire adversary does, every applied entry carries the payload
   appended under its sequence. *)
Theorem C24_payload_integrity : forall atomic excl cap s ts,
  reach atomic excl cap s ts ->
  (forall e, In e (sent s ++ chan s) -> In e (alog s)) /\
  (forall x, In x (dropped s) -> In x (map e_seq (alog s))) /\
  map e_seq (alog s) = map Z.of_nat (seq 1 (length (alog s))) /\ next_seq s = Z.of_nat (length (alog s)).
Proof.
  intros atomic excl cap s ts H. destruct (reach_invP _ _ _ _ _ H) as [H1 [_ [H3 [H4 H5]]]]. auto.
Qed.
Print Assumptions C24_payload_integrity.

Theorem C24_applied_payloads_appended : forall atomic excl cap s ts c wire last cum aok,
  reach atomic excl cap s ts -> unforgeable (rc_key c) (sent s) wire ->
  Forall (fun e => In e (alog s)) (applied (recv c last cum aok wire)).
Proof.
  intros atomic excl cap s ts c wire last cum aok Hr Hu.
  destruct (applied_sound c (sent s) wire last cum aok Hu) as [H1 _].
  destruct (reach_invP _ _ _ _ _ Hr) as [Hq _].
  eapply Forall_impl; [|exact H1]. cbn. intros e He. apply Hq. apply in_or_app. left. exact He.
Qed.
Print Assumptions C24_applied_payloads_appended.

(* ---- writer order of the PREVIOUS variant (before /repo 0ff8801): REFUTED ---------------
   With assignment (s.sequence.Add(1)) and the channel send as separate steps (atomic = false),
   "for all interleavings the queue order is strictly increasing in sequence" is false.  The
   current code holds enqueueMu across both (atomic = true): C24_writer_order_fixed, C24_complete. *)
Theorem C24_writer_order_refuted :
  ~ (forall cap s ts, reach false false cap s ts -> StronglySorted Z.lt (queued s)).
Proof. exact writer_order_refuted. Qed.
Print Assumptions C24_writer_order_refuted.

(* ...and the consequence named by the property: a reachable writer state whose unedited
   stream makes the receiver drop a healthy connection (for every checkpoint interval and
   every agreeing configuration), after applying only the entry with sequence 2. *)
Theorem C24_healthy_connection_dropped : exists cap s ts,
  reach false false cap s ts /\
  forall sc rc meta, configs_agree sc rc -> fresh rc meta ->
    let r := recv rc 0 [] [] (send_all sc meta ss_init (sent s)) in
    rr_reason r = RSeq /\ applied r = [mkEntry 2 [2%N]].
Proof.
  exists 10, race_state, [WDone; WDone]. split; [exact race_reach|exact race_drops_connection].
Qed.
Print Assumptions C24_healthy_connection_dropped.

(* ---- writer order: current protocol (fixed) and the previous variant guarded ---------
   The order holds for every schedule in which no writer executes the sequence assignment
   while another writer is between assignment and enqueue (excl = true; exactly the class
   the refutation lives in), and for EVERY schedule of the corrected protocol in which
   assignment and enqueue are one critical section (atomic = true). *)
Theorem C24_writer_order_guarded : forall cap s ts,
  reach false true cap s ts -> StronglySorted Z.lt (queued s).
Proof. intros cap s ts H. exact (writer_order_safe false true cap s ts (or_intror eq_refl) H). Qed.
Print Assumptions C24_writer_order_guarded.

Theorem C24_writer_order_fixed : forall excl cap s ts,
  reach true excl cap s ts -> StronglySorted Z.lt (queued s) /\ pend ts = [].
Proof.
  intros excl cap s ts H. split.
  - exact (writer_order_safe true excl cap s ts (or_introl eq_refl) H).
  - exact (atomic_no_pending excl cap s ts H).
Qed.
Print Assumptions C24_writer_order_fixed.

(* ---- end to end, corrected protocol, ALL schedules -----------------------------------
   For every reachable state of the corrected writer (any number of threads, any schedule,
   any channel capacity), any agreeing configuration, any checkpoint interval and any cut
   point k: the receiver never drops the connection, has applied a prefix of the queue at
   every moment and exactly the written entries - in strictly increasing order - once the
   stream is delivered; every sequence number handed out is applied, still waiting in the
   channel, or was reported dropped, exactly once. *)
Theorem C24_complete : forall excl cap s ts sc rc meta k,
  reach true excl cap s ts -> configs_agree sc rc -> fresh rc meta ->
  let full := recv rc 0 [] [] (send_all sc meta ss_init (sent s)) in
  let part := recv rc 0 [] [] (firstn k (send_all sc meta ss_init (sent s))) in
  rr_reason full = RClosed /\ applied full = sent s /\
  StronglySorted Z.lt (map e_seq (applied full)) /\
  rr_reason part = RClosed /\ is_prefix (applied part) (sent s) /\
  (forall x, (countZ x (map e_seq (applied full)) + countZ x (map e_seq (chan s)) + countZ x (dropped s))%nat
             = if in_range x (next_seq s) then 1%nat else 0%nat).
Proof. exact complete. Qed.
Print Assumptions C24_complete.

(* ---- the correspondence runs inside the theorems' domain ------------------------------
   every schedule the harness forces on the real goroutines is evaluated with run_sched,
   whose results are reachable configurations; the boolean oracles mean what the theorems say *)
Theorem C24_case_in_domain : forall atomic excl cap ws sch s ts,
  run_sched atomic excl cap w_init (map W0 ws) sch = Some (s, ts) -> reach atomic excl cap s ts.
Proof. exact run_reach. Qed.
Print Assumptions C24_case_in_domain.

Theorem C24_oracle_meaning : forall l prev c,
  (increasing l = true <-> StronglySorted Z.lt l) /\
  (sorted_from prev l = true <-> StronglySorted Z.lt (prev :: l)) /\
  (case_unforgeable c = true -> unforgeable (rc_key (c_rcfg c)) (genuine c) (c_wire c)).
Proof.
  intros l prev c. split; [apply increasing_spec|split; [apply sorted_from_spec|apply case_unforgeable_spec]].
Qed.
Print Assumptions C24_oracle_meaning.

(* on every correspondence case inside the idealised-MAC hypothesis, if the real receiver did what
   the model does, the soundness oracle evaluated on the receiver's own output holds: the oracle
   can fail only together with a model/implementation disagreement *)
Theorem C24_agreeing_receiver_is_sound : forall c,
  case_unforgeable c = true -> receiver_agrees c = true ->
  let app := obs_applied (o_atts c) (o_last c) in
  forallb (fun e => existsb (entry_eqb e) (genuine c)) app && sorted_from (c_last0 c) (map e_seq app) = true.
Proof. exact agreeing_receiver_sound. Qed.
Print Assumptions C24_agreeing_receiver_is_sound.

(* ---- non-vacuity ----------------------------------------------------------------------- *)

Definition ex_sc : scfg := mkS 7 9 1 2 2.
Definition ex_rc : rcfg := mkR 7 9 1 1000 300.
Definition ex_meta (k : nat) : N * Z := (N.of_nat k, 900).

(* hypotheses of C24_gap_free_when_ordered are satisfiable: interval 2, three entries, two
   checkpoints... all applied *)
Example C24_gap_free_nonvacuous :
  let es := [mkEntry 1 [10%N]; mkEntry 2 []; mkEntry 5 [11%N; 12%N]] in
  configs_agree ex_sc ex_rc /\ fresh ex_rc ex_meta /\ StronglySorted Z.lt (0 :: map e_seq es) /\
  length (send_all ex_sc ex_meta ss_init es) = 4%nat /\
  applied (recv ex_rc 0 [] [] (send_all ex_sc ex_meta ss_init es)) = es.
Proof.
  cbn zeta. split; [repeat split|]. split; [intro k; cbn; lia|]. split.
  - apply sorted_from_spec. reflexivity.
  - split; reflexivity.
Qed.

(* hypothesis of C24_applied_sound is satisfiable by a wire that duplicates, reorders,
   splices a tag of another session, flips a payload and replays a checkpoint - and entries
   ARE applied *)
Example C24_applied_sound_nonvacuous :
  let es := [mkEntry 1 [10%N]; mkEntry 2 [20%N]; mkEntry 3 [30%N]] in
  let g s p := FEntry s p (TagMac 7 s p) in
  let cp := FCp (genuine_cp ex_sc [10%N; 20%N] 2 0 900) in
  let wire := [g 2 [20%N]; FEntry 3 [31%N] (TagMac 7 3 [30%N]); g 1 [10%N]] in
  let wire2 := [g 1 [10%N]; g 2 [20%N]; cp; cp; FEntry 3 [30%N] (TagMac 8 3 [30%N])] in
  unforgeable 7 es wire /\ unforgeable 7 es wire2 /\
  applied (recv ex_rc 0 [] [] wire) = [mkEntry 2 [20%N]] /\
  rr_reason (recv ex_rc 0 [] [] wire) = RTagMac /\
  applied (recv ex_rc 0 [] [] wire2) = [mkEntry 1 [10%N]; mkEntry 2 [20%N]] /\
  rr_reason (recv ex_rc 0 [] [] wire2) = RTagMac.
Proof.
  cbn zeta. split; [|split].
  - intros s p s' p' H. cbn [In] in H. repeat (destruct H as [H|H]; [inversion H; subst; cbn; tauto|]). contradiction.
  - intros s p s' p' H. cbn [In] in H. repeat (destruct H as [H|H]; [try discriminate; inversion H; subst; cbn; tauto|]). contradiction.
  - vm_compute. repeat split; reflexivity.
Qed.

(* the guarded class is non-empty (an exclusive two-writer schedule through the WAL hook that
   fills the queue) and the excluded class is non-empty (the race schedule is not exclusive) *)
Example C24_guarded_nonvacuous :
  (exists s ts, run_sched false true 10 w_init (map W0 [mkProg KWal [1%N]; mkProg (KWalMeta [100%N]) [2%N]])
                  [SW 0; SW 1; SW 1; SW 1; SW 0; SW 0; SD] = Some (s, ts) /\
                queued s = [1; 2] /\ wal_seq s = 2) /\
  run_sched false true 10 w_init (map W0 race_progs) race_sched = None /\
  run_sched false false 10 w_init (map W0 race_progs) race_sched = Some (race_state, [WDone; WDone]).
Proof.
  split; [|split]; [eexists; eexists; split; [vm_compute; reflexivity|split; reflexivity]| |]; vm_compute; reflexivity.
Qed.

(* C24_complete is not vacuous: a corrected-protocol run with capacity 1 in which one entry is
   reported dropped, one is applied and one is still queued *)
Example C24_complete_nonvacuous : exists s ts,
  run_sched true false 1 w_init (map W0 [mkProg KDirect [1%N]; mkProg KDirect [2%N]; mkProg KWal [3%N]])
            [SW 1; SW 0; SD; SW 2; SW 2] = Some (s, ts) /\
  sent s = [mkEntry 1 [2%N]] /\ dropped s = [2] /\ chan s = [mkEntry 3 [3%N]] /\ next_seq s = 3.
Proof. eexists; eexists. split; [vm_compute; reflexivity|]. repeat split; reflexivity. Qed.
